import Shentu.EVM.Impl
import Shentu.Gen.Determinism
/-
  C17 — contract execution is metered.

  Statements about the executable model `Shentu.EVM` of /repo/vm's interpreter loop: every opcode byte, the call
  family and CREATE / CREATE2 included (callee and constructor frames are run by the `child` the frame is given; the
  statements hold for ANY `child`).  The model takes every cost from `Shentu.Gen.Gas`, which
  the translator regenerates from vm/op_table.go and vm/gas.go on every run; the differential
  driver (Drivers/VmDriver) checks that model and implementation agree on the remaining gas of
  every generated execution.

  (a) tie_sites                 the generated gas table was fully recognised in the source
      tie_create                the CREATE / CREATE2 case charges Burrow's `GasCreateAccount` on the creator's own gas object and has
                                the shape the model's CREATE relies on (recognised in the source on every run)
  (b) step_gas_monotone         one iteration never increases the remaining gas (also: never clears the error sink)
      run_gas_monotone          neither does a whole run
  (c) regular_ops_cost          every instruction that is neither halting nor one of EXP / RETURNDATACOPY / CHAINID / SSTORE /
                                LOG0-4 / DELEGATECALL / CREATE2 / STATICCALL has a table cost ≥ 1   (by `decide` on the generated table;
                                CREATE costs `CreateGas`, CREATE2 has no static cost in the source and begins with a charged Pop)
      step_costs_at_least_one   an iteration that continues either lowered the gas by ≥ 1 or put an error into
                                the sink (which stops the frame at the next iteration)
  (d) run_terminates            with initial gas g the loop ends within g + 2 iterations
  (e) oog_reported              if the cost found for the next instruction exceeds the remaining gas, the iteration
                                ends the frame with InsufficientGas and leaves the gas as it is
-/
namespace Shentu.Props.C17
open Shentu Shentu.EVM

/-- (a) every extraction site of the gas schedule was recognised in the current source -/
theorem tie_sites : Gen.Gas.allFound = true := by decide

/-- (a) the CREATE / CREATE2 case of vm/contract.go as the model reads it: it charges Burrow's `GasCreateAccount` (value taken
    from the Burrow version of go.mod), hands the constructor the creator's own gas object, hashes the creator's code for
    CREATE2, passes the init code as call data, numbers creations with a counter of the CVM, pushes 0 for a failed
    constructor without failing the creator, and reports an address in use through the creator's error sink -/
theorem tie_create :
    Gen.Gas.createAccountGas_found = true ∧ Gen.Gas.createSharesGas_found = true ∧
    Gen.Gas.create2HashesCreatorCode_found = Quirks.impl.create2HashesCreatorCode ∧
    Gen.Gas.createInputIsInitCode_found = Quirks.impl.createInputIsInitCode ∧
    Gen.Gas.createSeqPerVm_found = true ∧ Gen.Gas.createFailurePushesZero_found = true ∧
    Gen.Gas.createCollisionIntoSink_found = Quirks.impl.createCollisionAborts := by decide

/-- (a') nowhere in the consensus code is a context's gas meter replaced (regenerated inventory: `WithGasMeter`,
    `NewInfiniteGasMeter`, `NewGasMeter` outside tests): the work a transaction causes is charged to the meter baseapp gave it -/
theorem gas_meter_never_replaced : Gen.Determinism.gasMeterSites = [] := by decide

-- ---------------------------------------------------------------- the monad

theorem pure_val (a : α) (s : Frame) : ((pure a : M α) s).val = (some a, s) := rfl

/-- a successful `m >>= f` went through a successful `m` -/
theorem bind_some {m : M α} {f : α → M β} {s : Frame} {b : β} {s' : Frame}
    (h : ((m >>= f) s).val = (some b, s')) :
    ∃ a s1, (m s).val = (some a, s1) ∧ (f a s1).val = (some b, s') := by
  show ∃ a s1, (m s).val = (some a, s1) ∧ (f a s1).val = (some b, s')
  have h' : ((M.bind m f) s).val = (some b, s') := h
  unfold M.bind at h'
  match hm : m s with
  | ⟨(none, s1), h1⟩ => rw [hm] at h'; simp at h'
  | ⟨(some a, s1), h1⟩ =>
    rw [hm] at h'
    refine ⟨a, s1, rfl, ?_⟩
    simpa using h'

/-- `m >>= f` continues with `f` from where a successful `m` stopped -/
theorem bind_val_of_some {m : M α} {f : α → M β} {s : Frame} {a : α} {s1 : Frame}
    (h : (m s).val = (some a, s1)) : ((m >>= f) s).val = (f a s1).val := by
  show ((M.bind m f) s).val = _
  unfold M.bind
  match hm : m s with
  | ⟨(none, s0), _⟩ => rw [hm] at h; simp at h
  | ⟨(some c, s0), _⟩ =>
    rw [hm] at h
    simp at h
    obtain ⟨hc, hs⟩ := h
    subst hc; subst hs
    rfl

/-- what a computation's type says about its result -/
theorem inv_of {m : M α} {s : Frame} {r : Option α} {s' : Frame} (h : (m s).val = (r, s')) : Inv s s' := by
  have := (m s).property
  rw [h] at this
  exact this

/-- strictly cheaper, or the error sink is now set -/
def Strict (s s' : Frame) : Prop := s'.gas + 1 ≤ s.gas ∨ s'.err.isSome = true

theorem Strict.then_inv {a b c : Frame} (h1 : Strict a b) (h2 : Inv b c) : Strict a c := by
  cases h1 with
  | inl h => exact .inl (Nat.le_trans (Nat.add_le_add_right h2.1 1) h)
  | inr h => exact .inr (h2.2 h)

theorem Inv.then_strict {a b c : Frame} (h1 : Inv a b) (h2 : Strict b c) : Strict a c := by
  cases h2 with
  | inl h => exact .inl (Nat.le_trans h h1.1)
  | inr h => exact .inr h

theorem strict_bind {m : M α} {f : α → M β}
    (hm : ∀ s a s1, (m s).val = (some a, s1) → Strict s s1) :
    ∀ s b s', ((m >>= f) s).val = (some b, s') → Strict s s' := by
  intro s b s' h
  obtain ⟨a, s1, h1, h2⟩ := bind_some h
  exact (hm s a s1 h1).then_inv (inv_of h2)

-- ---------------------------------------------------------------- charged stack operations

theorem useGas_one_strict (s : Frame) (u : Unit) (s1 : Frame) (h : (useGas 1 s).val = (some u, s1)) : Strict s s1 := by
  unfold useGas at h
  split at h
  · rename_i hle
    simp at h
    subst h
    left
    show s.gas - 1 + 1 ≤ s.gas
    omega
  · unfold pushErr at h
    split at h
    · rename_i e he
      simp at h
      subst h
      right; simp [he]
    · simp at h
      subst h
      right; rfl

theorem pop_strict (s : Frame) (a : Nat) (s1 : Frame) (h : (pop s).val = (some a, s1)) : Strict s s1 := by
  unfold pop at h
  exact strict_bind useGas_one_strict s a s1 h

theorem push_strict (w : Nat) (s : Frame) (u : Unit) (s1 : Frame) (h : (push w s).val = (some u, s1)) : Strict s s1 := by
  unfold push at h
  exact strict_bind useGas_one_strict s u s1 h

-- ---------------------------------------------------------------- (b) gas never increases

/-- (b) one iteration of the interpreter loop never increases the remaining gas -/
theorem step_gas_monotone (child : ChildFn) (env : Env) (s : Frame) : (step child env s).val.2.gas ≤ s.gas := (step child env s).property.1

/-- an error, once in the sink, stays there -/
theorem step_error_sticky (child : ChildFn) (env : Env) (s : Frame) (h : s.err.isSome = true) :
    (step child env s).val.2.err.isSome = true :=
  (step child env s).property.2 h

/-- the same for the pieces of an iteration: cost lookup (with its memory growth) and instruction body -/
theorem gasLookUp_gas_monotone (q : Quirks) (self : Nat) (i : Gen.Gas.OpInfo) (s : Frame) : (gasLookUp q self i s).val.2.gas ≤ s.gas :=
  (gasLookUp q self i s).property.1
/-- including CALL / CALLCODE / DELEGATECALL / STATICCALL, whatever the callee does: the refund of the callee's unused
    gas is capped by what the frame had before the call (`withRefund`) -/
theorem exec_gas_monotone (child : ChildFn) (env : Env) (op : Nat) (s : Frame) : (exec child env op s).val.2.gas ≤ s.gas :=
  (exec child env op s).property.1

/-- (b) a whole run never increases the remaining gas -/
theorem run_gas_monotone (child : ChildFn) (env : Env) : ∀ (fuel : Nat) (s : Frame), (run child env fuel s).2.gas ≤ s.gas := by
  intro fuel
  induction fuel with
  | zero => intro s; exact Nat.le_refl _
  | succ n ih =>
    intro s
    unfold run
    have hs := step_gas_monotone child env s
    match hm : step child env s with
    | ⟨(none, s'), _⟩ => simp only []; rw [hm] at hs; exact hs
    | ⟨(some .cont, s'), _⟩ => simp only []; rw [hm] at hs; exact Nat.le_trans (ih s') hs
    | ⟨(some (.done r e), s'), _⟩ => simp only []; rw [hm] at hs; exact hs
    | ⟨(some .unsupported, s'), _⟩ => simp only []; rw [hm] at hs; exact hs

-- ---------------------------------------------------------------- (c) every continuing iteration costs something

theorem infoArr_size : infoArr.size = 256 := by simp [infoArr]

theorem opInfo_eq_infoOf (op : Nat) (h : op < 256) : opInfo op = infoOf op := by
  unfold opInfo
  have hs : op < infoArr.size := by rw [infoArr_size]; exact h
  simp [Array.getD, infoArr]
  intro h'
  omega

/-- the side condition as a computation over the generated table -/
def regularOK : Bool :=
  (List.range 256).all fun op => isHalting op || isFree op || decide (1 ≤ (infoOf op).static)

set_option maxRecDepth 100000 in
theorem regularOK_true : regularOK = true := by decide

/-- (c) the decidable side condition on the generated table: outside the halting instructions and EXP / RETURNDATACOPY /
    CHAINID / SSTORE / LOG0-4 / DELEGATECALL / CREATE2 / STATICCALL, every instruction — CREATE included — has a static cost ≥ 1 -/
theorem regular_ops_cost_table (op : Nat) (h : op < 256) (h2 : isHalting op = false)
    (h3 : isFree op = false) : 1 ≤ (infoOf op).static := by
  have hall := regularOK_true
  unfold regularOK at hall
  rw [List.all_eq_true] at hall
  have := hall op (List.mem_range.mpr h)
  simpa [h2, h3] using this

theorem regular_ops_cost (op : Nat) (h : op < 256) (h2 : isHalting op = false) (h3 : isFree op = false) :
    1 ≤ (opInfo op).static := by
  rw [opInfo_eq_infoOf op h]
  exact regular_ops_cost_table op h h2 h3

/-- (c) CREATE and CREATE2 are metered like every other instruction: CREATE has the table cost `CreateGas` (≥ 1); CREATE2 has no
    static cost in the source (`onlyCopyGas` ignores its base argument, so `CreateGas` is never charged for it) and is one of
    the instructions whose first action is a charged Pop; neither ends the frame; both are cases of the interpreter's `switch` -/
theorem create_metering :
    (opInfo 0xf0).static = Gen.Gas.CreateGas ∧ 1 ≤ (opInfo 0xf0).static ∧ (opInfo 0xf5).static = 0 ∧ isFree 0xf5 = true ∧
    isFree 0xf0 = false ∧ isHalting 0xf0 = false ∧ isHalting 0xf5 = false ∧ isKnown 0xf0 = true ∧ isKnown 0xf5 = true := by
  rw [opInfo_eq_infoOf 0xf0 (by decide), opInfo_eq_infoOf 0xf5 (by decide)]
  decide

/-- the cost returned by the lookup is at least the table's static cost -/
theorem gasLookUp_ge_static (q : Quirks) (self : Nat) (info : Gen.Gas.OpInfo) (s : Frame) (c : Nat × Nat) (s1 : Frame)
    (h : (gasLookUp q self info s).val = (some c, s1)) : info.static ≤ c.1 := by
  unfold gasLookUp at h
  split at h
  · rw [pure_val] at h
    simp at h
    rw [← h.1]
    exact Nat.le_refl _
  · obtain ⟨g, s0, _, h2⟩ := bind_some h
    rw [pure_val] at h2
    simp at h2
    rw [← h2.1]
    exact Nat.le_add_right _ _

theorem chargeOrStop_true (c : Nat) (s s2 : Frame) (h : (chargeOrStop c s).val = (some true, s2)) :
    c ≤ s.gas ∧ s2.gas = s.gas - c := by
  unfold chargeOrStop at h
  split at h
  · rename_i hle
    simp at h
    subst h
    exact ⟨hle, rfl⟩
  · simp at h

theorem chargeOrStop_false (c : Nat) (s s2 : Frame) (h : (chargeOrStop c s).val = (some false, s2)) :
    s.gas < c ∧ s2 = s := by
  unfold chargeOrStop at h
  split at h
  · simp at h
  · rename_i hle
    simp at h
    exact ⟨by omega, h.symm⟩

/-- a halting instruction never lets the loop continue -/
theorem finish_halt_not_cont (r : ByteArray) (s s' : Frame) : (finish (.halt r) s).val ≠ (some .cont, s') := by
  intro h
  unfold finish at h
  obtain ⟨_, _, _, h2⟩ := bind_some h
  rw [pure_val] at h2
  simp at h2

theorem finish_unsupported_not_cont (s s' : Frame) : (finish .unsupported s).val ≠ (some .cont, s') := by
  intro h
  unfold finish at h
  rw [pure_val] at h
  simp at h

theorem execHalt_halts (env : Env) (op : Nat) (s : Frame) (c : Ctl) (s1 : Frame) (h : (execHalt env op s).val = (some c, s1)) :
    (∃ r, c = .halt r) ∨ c = .unsupported := by
  unfold execHalt at h
  obtain ⟨r, _, _, h2⟩ := bind_some h
  rw [pure_val] at h2
  simp at h2
  cases r with
  | some b => left; exact ⟨b, h2.1.symm⟩
  | none => right; exact h2.1.symm

theorem execFree_strict (child : ChildFn) (env : Env) (op : Nat) (s : Frame) (c : Ctl) (s1 : Frame)
    (h : (execFree child env op s).val = (some c, s1)) : Strict s s1 := by
  unfold execFree at h
  split at h
  · exact strict_bind (push_strict _) s c s1 h
  · exact strict_bind pop_strict s c s1 h

theorem stepBody_strict (child : ChildFn) (env : Env) (op : Nat) (hop : op < 256) (s s' : Frame)
    (h : (stepBody child env op s).val = (some .cont, s')) : Strict s s' := by
  unfold stepBody at h
  obtain ⟨cost, s1, h1, h⟩ := bind_some h
  obtain ⟨ok, s2, h2, h⟩ := bind_some h
  have i1 : Inv s s1 := inv_of h1
  cases ok with
  | false =>
    simp at h
    rw [pure_val] at h
    simp at h
  | true =>
    simp at h
    obtain ⟨hle, hgas⟩ := chargeOrStop_true cost.1 s1 s2 h2
    -- the memory expansion between the charge and the instruction, then the check of the error sink
    obtain ⟨_, s2', hx, h⟩ := bind_some h
    obtain ⟨fr, s2'', hg, h⟩ := bind_some h
    have hg' : fr = s2' ∧ s2'' = s2' := by
      have : (getF s2').val = (some s2', s2') := rfl
      rw [this] at hg
      simp at hg
      exact ⟨hg.1.symm, hg.2.symm⟩
    rw [hg'.1, hg'.2] at h
    cases herr : s2'.err with
    | some e0 =>
      simp only [herr] at h
      rw [pure_val] at h
      simp at h
    | none =>
    simp only [herr] at h
    obtain ⟨c, s3, h3, h4⟩ := bind_some h
    have ix : Inv s2 s2' := inv_of hx
    have i3 : Inv s2' s3 := inv_of h3
    have i4 : Inv s3 s' := inv_of h4
    have i2 : s2.gas ≤ s1.gas := by omega
    unfold exec at h3
    cases hh : isHalting op with
    | true =>
      simp [hh] at h3
      cases execHalt_halts _ op s2' c s3 h3 with
      | inl hr =>
        obtain ⟨r, hr⟩ := hr
        subst hr
        exact absurd h4 (finish_halt_not_cont r s3 s')
      | inr hr =>
        subst hr
        exact absurd h4 (finish_unsupported_not_cont s3 s')
    | false =>
      cases hf : isFree op with
      | true =>
        simp [hh, hf] at h3
        have st : Strict s2' s3 := execFree_strict child env op s2' c s3 h3
        have st' : Strict s2' s' := st.then_inv i4
        cases st' with
        | inl hlt => left; have := i1.1; have := ix.1; omega
        | inr he => right; exact he
      | false =>
        -- obtain the lookup result: cost ≥ static ≥ 1
        obtain ⟨_, s0, _, hl⟩ := bind_some h1
        have hc : (opInfo op).static ≤ cost.1 := gasLookUp_ge_static _ _ _ _ _ _ hl
        have h1' : 1 ≤ (opInfo op).static := regular_ops_cost op hop hh hf
        left
        have := i1.1; have := ix.1; have := i3.1; have := i4.1
        omega

/-- **every instruction's cost grows with the work it causes** — copy instructions: the per-word copy fee is computed from the
    same stack position that gives the number of bytes copied (the length operand of the memory rule), for every copy
    instruction of the regenerated table (EXTCODECOPY has four operands: its length is at position 3, not 2) -/
theorem copy_fee_reads_the_length :
    Gen.Gas.table.all (fun e => match e.dyn, e.mem with
      | .copyGas p _ w, .mem64 _ l => p == l && w ≥ 1
      | .copyGas _ _ _, _ => false
      | _, _ => true) = true := by decide

theorem opAt_lt (env : Env) (pc : Nat) : opAt env pc < 256 := by
  unfold opAt
  split
  · decide
  · exact UInt8.toNat_lt _

/-- (c) an iteration that lets the loop continue has lowered the remaining gas by at least 1, or has put
    an error into the sink (then the next iteration ends the frame) -/
theorem step_costs_at_least_one (child : ChildFn) (env : Env) (s s' : Frame) (hs : s.err = none)
    (h : (step child env s).val = (some .cont, s')) : Strict s s' := by
  unfold step at h
  simp only [hs] at h
  split at h
  · simp at h
  · split at h
    · obtain ⟨_, _, _, h2⟩ := bind_some h
      rw [pure_val] at h2
      simp at h2
    · exact stepBody_strict child env _ (opAt_lt env s.pc) s s' h

-- ---------------------------------------------------------------- (d) termination

/-- what is left to burn: nothing once an error is in the sink, else the gas plus the iteration that finds it exhausted -/
def budget (s : Frame) : Nat := if s.err.isSome then 0 else s.gas + 1

/-- (d) the loop never runs out of fuel when it is given `budget + 1` iterations -/
theorem run_terminates_aux (child : ChildFn) (env : Env) : ∀ (fuel : Nat) (s : Frame), budget s + 1 ≤ fuel →
    (∀ s', run child env fuel s ≠ (.outOfFuel, s')) := by
  intro fuel
  induction fuel with
  | zero => intro s h; omega
  | succ n ih =>
    intro s hb s' hr
    unfold run at hr
    match hm : step child env s with
    | ⟨(none, s1), _⟩ => rw [hm] at hr; simp at hr
    | ⟨(some (.done r e), s1), _⟩ => rw [hm] at hr; simp at hr
    | ⟨(some .unsupported, s1), _⟩ => rw [hm] at hr; simp at hr
    | ⟨(some .cont, s1), _⟩ =>
      rw [hm] at hr
      simp only [] at hr
      have hv : (step child env s).val = (some .cont, s1) := by rw [hm]
      -- the error sink was empty, otherwise the iteration would have ended the frame
      cases he : s.err with
      | some e =>
        unfold step at hv
        simp [he] at hv
      | none =>
        have st := step_costs_at_least_one child env s s1 he hv
        have hb' : budget s1 + 1 ≤ n := by
          unfold budget at hb ⊢
          simp [he] at hb
          cases st with
          | inl hlt => split <;> omega
          | inr herr => simp [herr]; omega
        exact ih s1 hb' s' hr

/-- (d) execution with initial gas g ends within g + 2 iterations of the interpreter loop
    (g gas-consuming iterations, one that raises the error, one that reports it) -/
theorem run_terminates (child : ChildFn) (env : Env) (s : Frame) (s' : Frame) : run child env (s.gas + 2) s ≠ (.outOfFuel, s') := by
  apply run_terminates_aux child env (s.gas + 2) s
  unfold budget
  split <;> omega

-- ---------------------------------------------------------------- (e) out of gas is reported

/-- (e) when the cost found for the next instruction exceeds what is left, the iteration ends the frame with
    InsufficientGas, returns nothing and does not touch the remaining gas -/
theorem oog_reported (child : ChildFn) (env : Env) (op : Nat) (s s1 : Frame) (cost : Nat × Nat)
    (hl : ((noteSeen op >>= fun _ => gasLookUp env.q env.callee (opInfo op)) s).val = (some cost, s1)) (hlt : s1.gas < cost.1) :
    (stepBody child env op s).val = (some (.done .empty (some .insufficientGas)), s1) := by
  unfold stepBody
  rw [bind_val_of_some hl]
  have hc : (chargeOrStop cost.1 s1).val = (some false, s1) := by
    unfold chargeOrStop
    split
    · omega
    · rfl
  rw [bind_val_of_some hc]
  rfl

/-- the charge itself: the gas-accounting primitive either subtracts exactly the cost or refuses -/
theorem charge_exact (c : Nat) (s : Frame) :
    (c ≤ s.gas ∧ (chargeOrStop c s).val = (some true, { s with gas := s.gas - c })) ∨
    (s.gas < c ∧ (chargeOrStop c s).val = (some false, s)) := by
  unfold chargeOrStop
  by_cases h : c ≤ s.gas
  · left; simp [h]
  · right; simp [h]; omega

end Shentu.Props.C17

open Shentu.Props.C17 in
#print axioms tie_sites
#print axioms Shentu.Props.C17.tie_create
#print axioms Shentu.Props.C17.step_gas_monotone
#print axioms Shentu.Props.C17.step_error_sticky
#print axioms Shentu.Props.C17.run_gas_monotone
#print axioms Shentu.Props.C17.regular_ops_cost
#print axioms Shentu.Props.C17.create_metering
#print axioms Shentu.Props.C17.step_costs_at_least_one
#print axioms Shentu.Props.C17.run_terminates
#print axioms Shentu.Props.C17.oog_reported
#print axioms Shentu.Props.C17.charge_exact
