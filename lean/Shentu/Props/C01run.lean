import Shentu.Proofs.VmConserveRun
/-
  C01 at the level of the VM model, whole executions: whatever program runs — any code, input, gas, call tree up to the
  model's nesting depth, value transfers, SELFDESTRUCT, failing frames — the accounts of the interpreter's cache hold the
  same coins afterwards as before.  `Props/C01vm.lean` proves this for each world-changing primitive; this file composes
  them over the interpreter loop (`step`, `run`), the frame (`runFrame`), the nesting (`runDepth`) and the outermost call
  (`execTop`).  The bound `n < 2^64` (the cache holds fewer than 2^64 coins: balances are uint64 in Burrow, the chain's supply
  is far below) excludes the overflow branch of SELFDESTRUCT, where the unconditional statement is false
  (`C01vm.selfdestruct_overflow_loses`).  Property theorems only; the work is in `Shentu/Proofs/VmConserveRun.lean`.
-/
namespace Shentu.Props.C01run
open Shentu Shentu.EVM

/-- what a callee frame is trusted with: started on a cache that is keyed and holds `n` coins, it hands back — when it
    reports success — a cache that is keyed and holds `n` coins -/
def ChildOK (n : Nat) (child : ChildFn) : Prop :=
  ∀ (env : Env) (g : Nat) (w : World) (rm : List Nat), env.q.selfDestructSelfKeeps = true → SafeW n w →
    (child env g w rm).status = 0 → (child env g w rm).err = none → SafeW n (child env g w rm).world

/-- one iteration of the interpreter loop conserves, given callees that do -/
theorem step_conserves (n : Nat) (hn : n < U64) (child : ChildFn) (hc : ChildOK n child) (env : Env)
    (hq : env.q.selfDestructSelfKeeps = true) (s : Frame) (hw : SafeW n s.world) :
    SafeW n (step child env s).val.2.world :=
  keeps_step hn hc env hq s hw

/-- … hence the whole loop, for any fuel -/
theorem run_conserves (n : Nat) (hn : n < U64) (child : ChildFn) (hc : ChildOK n child) (env : Env)
    (hq : env.q.selfDestructSelfKeeps = true) (fuel : Nat) (s : Frame) (hw : SafeW n s.world) :
    SafeW n (run child env fuel s).2.world :=
  run_safe hn hc env hq fuel s hw

/-- a frame (value transfer, then the code) conserves -/
theorem runFrame_conserves (n : Nat) (hn : n < U64) (child : ChildFn) (hc : ChildOK n child) : ChildOK n (runFrame child) :=
  runFrame_childKeeps hn hc

/-- … at every nesting depth -/
theorem runDepth_conserves (n : Nat) (hn : n < U64) : ∀ d : Nat, ChildOK n (runDepth d) :=
  runDepth_childKeeps hn

/-- **every execution conserves**: the accounts hold after it what they held before -/
theorem execTop_conserves (env : Env) (hq : env.q.selfDestructSelfKeeps = true) (gas : Nat) (pre : World) (depth : Nat)
    (n : Nat) (hn : n < U64) (hw : SafeW n pre) : SafeW n (execTop env gas pre depth).world :=
  execTop_safe env hq gas pre depth hn hw

/-- the implementation's configuration has the repair -/
example : Quirks.impl.selfDestructSelfKeeps = true := rfl

end Shentu.Props.C01run
