import Shentu.Proofs.VmConserveRun
/-
  C01 at the level of the VM model, whole executions: whatever program runs — any code, input, gas, call tree up to the
  model's nesting depth, value transfers, SELFDESTRUCT, CREATE / CREATE2 with and without endowment (whatever address the
  derivation oracle `Env.fresh` answers), failing frames and failing constructors — the accounts of the interpreter's cache
  hold the same coins afterwards as before.  A created account starts with no coins (`createWorld`); its endowment reaches it by
  the same `transfer` that opens a CALL frame, inside the constructor's frame; storing the deployed code changes no balance
  (`safe_put_code`); a failed constructor's frame is dropped (`settleCreate`).  Every opcode byte is covered: the statements
  have no hypothesis on the instructions executed.  `Props/C01vm.lean` proves this for each world-changing primitive; this file composes
  them over the interpreter loop (`step`, `run`), the frame (`runFrame`), the nesting (`runDepth`) and the outermost call
  (`execTop`).  The bound `n < 2^64` (the cache holds fewer than 2^64 coins: balances are uint64 in Burrow, the chain's supply
  is far below) excludes the overflow branch of SELFDESTRUCT, where the unconditional statement is false
  (`C01vm.selfdestruct_overflow_loses`).  Property theorems only; the work is in `Shentu/Proofs/VmConserveRun.lean`.
-/
namespace Shentu.Props.C01run
open Shentu Shentu.EVM

/-- what a callee frame is trusted with: started on a cache that is keyed and holds `n` coins, it hands back — when it
    reports success — a cache that is keyed and holds `n` coins -/
def ChildOK (n : Nat) (child : ChildFn) : Prop :=
  ∀ (env : Env) (g : Nat) (w : World) (rm : List Nat), env.q.selfDestructSelfKeeps = true → SafeW n w →
    (child env g w rm).status = 0 → (child env g w rm).err = none → SafeW n (child env g w rm).world

/-- one iteration of the interpreter loop conserves, given callees that do -/
theorem step_conserves (n : Nat) (hn : n < U64) (child : ChildFn) (hc : ChildOK n child) (env : Env)
    (hq : env.q.selfDestructSelfKeeps = true) (s : Frame) (hw : SafeW n s.world) :
    SafeW n (step child env s).val.2.world :=
  keeps_step hn hc env hq s hw

/-- … hence the whole loop, for any fuel -/
theorem run_conserves (n : Nat) (hn : n < U64) (child : ChildFn) (hc : ChildOK n child) (env : Env)
    (hq : env.q.selfDestructSelfKeeps = true) (fuel : Nat) (s : Frame) (hw : SafeW n s.world) :
    SafeW n (run child env fuel s).2.world :=
  run_safe hn hc env hq fuel s hw

/-- a frame (value transfer, then the code) conserves -/
theorem runFrame_conserves (n : Nat) (hn : n < U64) (child : ChildFn) (hc : ChildOK n child) : ChildOK n (runFrame child) :=
  runFrame_childKeeps hn hc

/-- … at every nesting depth -/
theorem runDepth_conserves (n : Nat) (hn : n < U64) : ∀ d : Nat, ChildOK n (runDepth d) :=
  runDepth_childKeeps hn

/-- **every execution conserves**: the accounts hold after it what they held before -/
theorem execTop_conserves (env : Env) (hq : env.q.selfDestructSelfKeeps = true) (gas : Nat) (pre : World) (depth : Nat)
    (n : Nat) (hn : n < U64) (hw : SafeW n pre) : SafeW n (execTop env gas pre depth).world :=
  execTop_safe env hq gas pre depth hn hw

/-- the implementation's configuration has the repair -/
example : Quirks.impl.selfDestructSelfKeeps = true := rfl

/-! ## a concrete execution with a creation -/

/-- a contract holding 7 coins that executes CREATE with an endowment of 3 and the one-byte init code `00` (STOP), then stops:
    `PUSH1 1 PUSH1 0 PUSH1 3 CREATE STOP`; the derivation oracle answers 0x3000 -/
def createEnv1 : Env :=
  { code := ⟨#[0x60, 0x01, 0x60, 0x00, 0x60, 0x03, 0xf0, 0x00]⟩, opBits := opcodeBits ⟨#[0x60, 0x01, 0x60, 0x00, 0x60, 0x03, 0xf0, 0x00]⟩,
    input := .empty, caller := 0x1000, callee := 0x2000, origin := 0x1000, value := 0, height := 1, time := 0, chainId := 0,
    fresh := fun _ _ => 0x3000 }
def createWorld1 : World :=
  [{ addr := 0x1000, balance := 5 }, { addr := 0x2000, balance := 7, code := ⟨#[0x60, 0x01, 0x60, 0x00, 0x60, 0x03, 0xf0, 0x00]⟩ }]

/-- non-vacuity of `execTop_conserves` on a creation: the pre-state is keyed and holds 12 coins … -/
example : SafeW 12 createWorld1 := ⟨by decide, by decide⟩

/-- … the execution succeeds, the new account exists and holds the endowment, the creator holds the rest, and the sum is 12 -/
theorem create_with_value_example :
    (execTop createEnv1 100000 createWorld1).err = none ∧
    balOf (execTop createEnv1 100000 createWorld1).world 0x3000 = 3 ∧
    balOf (execTop createEnv1 100000 createWorld1).world 0x2000 = 4 ∧
    total (execTop createEnv1 100000 createWorld1).world = 12 := by
  decide +kernel

/-- the same creation with an endowment the creator cannot pay (8 of 7 coins): the constructor's frame is dropped, no account
    appears, nothing moves -/
def createEnv2 : Env :=
  { createEnv1 with code := ⟨#[0x60, 0x01, 0x60, 0x00, 0x60, 0x08, 0xf0, 0x00]⟩,
                    opBits := opcodeBits ⟨#[0x60, 0x01, 0x60, 0x00, 0x60, 0x08, 0xf0, 0x00]⟩ }

theorem create_unpayable_example :
    (execTop createEnv2 100000 createWorld1).err = none ∧
    ((execTop createEnv2 100000 createWorld1).world.get 0x3000).isNone = true ∧
    total (execTop createEnv2 100000 createWorld1).world = 12 := by
  decide +kernel

end Shentu.Props.C01run

#print axioms Shentu.Props.C01run.step_conserves
#print axioms Shentu.Props.C01run.run_conserves
#print axioms Shentu.Props.C01run.runFrame_conserves
#print axioms Shentu.Props.C01run.runDepth_conserves
#print axioms Shentu.Props.C01run.execTop_conserves
#print axioms Shentu.Props.C01run.create_with_value_example
#print axioms Shentu.Props.C01run.create_unpayable_example
