import Shentu.Proofs.ShieldPoolExpire
/-
  C03 (shield / pool / purchase / stake half) — "total shield equals the sum over pools and each pool's
  shield equals the sum of its purchases' remaining shield, and the staking pool equals the sum of
  individual stakes.  No amount is negative."

  `PoolInv` (Shentu/Proofs/ShieldPoolInv.lean) is this half of `BooksInv` together with the store
  well-formedness the model maintains.  Property theorems only: `PoolInv` gives the clauses of
  `BooksInv`, every successful operation of the model preserves `PoolInv`, and so does every history.
-/
namespace Shentu.Props.C03b
open Shentu Shentu.Shield Shentu.Shield.PoolLm

/-! ## `PoolInv` gives the shield / pool / purchase / stake clauses of `BooksInv` -/

/-- "total shield equals the sum over pools" (`BooksInv.shield`) -/
theorem books_shield {s : State} (h : PoolInv s) : s.totalShield = sumI (·.shield) s.pools := h.shield

/-- "each pool's shield equals the sum of its purchases' remaining shield" (`BooksInv.poolShield`) -/
theorem books_poolShield {s : State} (h : PoolInv s) : ∀ p ∈ s.pools, p.shield = sumI (·.shield) (entriesOf s p.id) :=
  h.poolShield

/-- no purchase with remaining shield is left in a closed pool (`BooksInv.listPool`); `PoolInv` has the stronger
    "every purchase list belongs to an existing pool" -/
theorem books_listPool {s : State} (h : PoolInv s) :
    ∀ l ∈ s.lists, ∀ e ∈ l.entries, e.shield ≠ 0 → ∃ p ∈ s.pools, p.id = l.pool :=
  fun l hl _ _ _ => h.listPool l hl

/-- "the staking pool equals the sum of individual stakes" (`BooksInv.stake`) -/
theorem books_stake {s : State} (h : PoolInv s) : s.stakingPool = sumStakes s := h.stake

/-- "no amount is negative": purchases (`BooksInv.entryNonneg`) -/
theorem books_entryNonneg {s : State} (h : PoolInv s) : ∀ l ∈ s.lists, ∀ e ∈ l.entries, 0 ≤ e.shield ∧ 0 ≤ e.fees.raw :=
  h.entryNonneg

/-- "no amount is negative": pools (`BooksInv.poolNonneg`) -/
theorem books_poolNonneg {s : State} (h : PoolInv s) : ∀ p ∈ s.pools, 0 ≤ p.shield := h.toShieldInv.poolNonneg

/-- "no amount is negative": stakes (`BooksInv.stakeNonneg`) -/
theorem books_stakeNonneg {s : State} (h : PoolInv s) : ∀ k ∈ s.stakes, 0 ≤ k.amount := h.stakeNonneg

/-- "no amount is negative": the two totals of this half (`BooksInv.nonneg`, third and fifth conjunct) -/
theorem books_totalsNonneg {s : State} (h : PoolInv s) : 0 ≤ s.totalShield ∧ 0 ≤ s.stakingPool :=
  ⟨h.toShieldInv.totalNonneg, h.toStakeInv.poolNonneg⟩

/-- all purchase ids in the store are pairwise distinct (across all lists) -/
theorem purchaseIds_distinct {s : State} (h : PoolInv s) : (s.lists.flatMap (fun l => l.entries.map (·.id))).Nodup :=
  h.toShieldInv.purchaseIds_nodup

/-- the invariant is not vacuous: the empty store, and a store with one pool, two purchases of two holders and a stake -/
example : PoolInv { (default : State) with nextPool := 1, nextPurchase := 1 } := by
  constructor <;> constructor <;> simp [sumI, sumStakes, entriesOf] <;> decide

/-- a small store with one pool, two holders, a stake and a provider (block time of the examples: 50) -/
def demo : State :=
  { (default : State) with
    admin := "ad",
    pools := [{ id := 1, shield := 70, limit := 1000, active := true, sponsor := "x", sponsorAddr := "aa" }],
    lists := [{ pool := 1, purchaser := "aa", entries := [{ id := 1, endTime := 100, delTime := 100, shield := 50, fees := Dec.ofInt 3 }] },
              { pool := 1, purchaser := "bb", entries := [{ id := 2, endTime := 200, delTime := 200, shield := 20, fees := Dec.zero }] }],
    stakes := [{ pool := 1, purchaser := "bb", amount := 40, requested := 0 }],
    totalShield := 70, stakingPool := 40, nextPool := 2, nextPurchase := 3,
    totalCollateral := 1000, serviceFees := Dec.ofInt 3, remaining := Dec.ofInt 3, lastUpdate := 40,
    providers := [{ addr := "cc", collateral := 1000, withdrawing := 0, bonded := 1000, rewards := Dec.zero }],
    params := { protection := 1000, withdrawPeriod := 10, feesRate := Dec.one, poolLimit := Dec.one, minPurchase := 1,
                stakingRate := Dec.ofInt 2, payoutPeriod := 10 } }

/-- block time 50 -/
def demoEnv : Env := { t := 50, bond := "uctk", modAddr := "mod" }
/-- bank balances for the examples -/
def demoLedger : Ledger := { posts := [("aa", "uctk", 1000), ("bb", "uctk", 1000), ("ad", "uctk", 1000)], supply := [("uctk", 3000)] }

/-- `demo` has consistent books: the hypotheses of the preservation theorems are satisfiable -/
theorem demo_inv : PoolInv demo := by
  constructor <;> constructor <;> simp [demo, sumI, sumStakes, entriesOf, Dec.ofInt, Dec.zero, Dec.prec] <;> decide

/-! ## every successful operation preserves `PoolInv` -/

/-- the common purchase path: a new entry is appended to the holder's (existing or new) list; the pool and the total grow
    by the same amount; a staked purchase grows `stakingPool` and the stake record together.
    Hypothesis: the shield bought is not negative (`purchase`, `createPool`, `updatePool` establish it). -/
theorem purchaseCore_preserves {e : Env} {l l' : Ledger} {s s' : State} {poolID : Nat} {shield : Coins} {purchaser : Addr}
    {fees staking : Coins} (h : purchaseCore e l s poolID shield purchaser fees staking = .ok (l', s'))
    (hinv : PoolInv s) (hamt : 0 ≤ Coins.amountOf shield e.bond) : PoolInv s' := by
  rcases purchaseCore_ok h with ⟨pool, s1, hfp, _, _, hpaid, rfl⟩
  have ⟨p1, p2, p3, p4, p5, _, _, pk, pf⟩ := pcPaid_ok hpaid
  have ⟨f1, f2, f3, f4, f5, f6, f7, _, _⟩ := pcFinish_fields e s1 pool poolID purchaser (pcEntry e s shield fees)
  constructor
  · apply hinv.toShieldInv.addEntry (entry := pcEntry e s shield fees) hfp rfl
    · refine ⟨hamt, ?_⟩
      show 0 ≤ (if Coins.isZero fees then Dec.zero else Dec.ofInt (Coins.amountOf fees e.bond)).raw
      cases hz : Coins.isZero fees with
      | true => exact Int.le_refl 0
      | false => exact ofInt_raw_nonneg _ (pf hz)
    · rw [f1, p1]
    · rw [f2, listWith_congr p2, setList_lists_congr p2]
    · rw [f3, p3]
    · rw [f4, p4]
    · rw [f5, p5]
  · exact (pk hinv.toStakeInv).congr f6 f7

/-- `MsgPurchaseShield` / `MsgStakeForShield`, given that the shield bought is not negative -/
theorem purchase_preserves {e : Env} {l l' : Ledger} {s s' : State} {poolID : Nat} {shield : Coins} {purchaser : Addr}
    {staking : Bool} (h : purchase e l s poolID shield purchaser staking = .ok (l', s'))
    (hinv : PoolInv s) (hamt : 0 ≤ Coins.amountOf shield e.bond) : PoolInv s' := by
  unfold purchase at h
  ok_cases h
  · exact purchaseCore_preserves h hinv hamt
  · exact purchaseCore_preserves h hinv hamt

/-- `MsgPurchaseShield` / `MsgStakeForShield` with the hypothesis on the parameters instead of on the message:
    with a non-negative minimum purchase, a successful purchase never has a negative shield amount
    (the paid path checks `IsAllPositive`, the staked path is caught by the minimum-purchase check). -/
theorem purchase_preserves_of_minPurchase {e : Env} {l l' : Ledger} {s s' : State} {poolID : Nat} {shield : Coins}
    {purchaser : Addr} {staking : Bool} (h : purchase e l s poolID shield purchaser staking = .ok (l', s'))
    (hinv : PoolInv s) (hmin : 0 ≤ s.params.minPurchase) : PoolInv s' := by
  apply purchase_preserves h hinv
  unfold purchase at h
  dsimp only at h
  split at h; · cases h
  split at h; · cases h
  rename_i hguard
  have hz : Coins.isZero shield = false := by
    split at h
    · rcases purchaseCore_ok h with ⟨_, _, _, _, hz, _⟩; exact hz
    · rcases purchaseCore_ok h with ⟨_, _, _, _, hz, _⟩; exact hz
  rw [hz] at hguard
  simp only [Bool.not_false, Bool.true_and, Bool.and_eq_true, decide_eq_true_eq, bne_iff_ne, ne_eq, not_and,
    Decidable.not_not] at hguard
  by_cases hlt : s.params.minPurchase > Coins.amountOf shield e.bond
  · have := hguard hlt; omega
  · omega

/-- `MsgCreatePool`: a new pool with a fresh id, then the purchase path (the message demands an all-positive shield) -/
theorem createPool_preserves {e : Env} {l l' : Ledger} {s s' : State} {creator : Addr} {shield fees : Coins} {sponsor : String}
    {sponsorAddr : Addr} {limit : Int} (h : createPool e l s creator shield fees sponsor sponsorAddr limit = .ok (l', s'))
    (hinv : PoolInv s) : PoolInv s' := by
  unfold createPool at h
  dsimp only at h
  split at h; · cases h
  rename_i hbasic
  split at h; · cases h
  have hpos : Coins.isAllPositive shield = true := by
    simp only [Bool.or_eq_true, Bool.not_eq_true', not_or, Bool.not_eq_false] at hbasic
    exact hbasic.2
  refine purchaseCore_preserves h ?_ (amountOf_nonneg_of_allPositive _ hpos _)
  exact { toShieldInv := hinv.toShieldInv.newPool (np := { id := s.nextPool, shield := 0, limit := limit, active := true, sponsor := sponsor, sponsorAddr := sponsorAddr })
            rfl rfl rfl rfl rfl rfl rfl,
          toStakeInv := hinv.toStakeInv.congr rfl rfl }

/-- `MsgUpdatePool`: the limit may change, then the purchase path or a plain fee payment
    (the message rejects negative shield amounts) -/
theorem updatePool_preserves {e : Env} {l l' : Ledger} {s s' : State} {updater : Addr} {poolID : Nat} {shield fees : Coins}
    {limit : Int} (h : updatePool e l s updater poolID shield fees limit = .ok (l', s')) (hinv : PoolInv s) : PoolInv s' := by
  unfold updatePool at h
  dsimp only at h
  split at h; · cases h
  rename_i hbasic
  split at h; · cases h
  split at h; · cases h
  rename_i pool hfp
  have hneg : Coins.isAnyNegative shield = false := by
    simp only [Bool.or_eq_true, not_or, Bool.not_eq_true] at hbasic
    exact hbasic.2
  have h1 : PoolInv (setPool s (if limit != 0 then { pool with limit := limit } else pool)) := by
    refine { toShieldInv := hinv.toShieldInv.setPool_meta hfp ?_ ?_, toStakeInv := hinv.toStakeInv.congr rfl rfl }
    · split <;> rfl
    · split <;> rfl
  split at h
  · exact purchaseCore_preserves h h1 (amountOf_nonneg_of_not_anyNegative _ hneg _)
  · split at h
    · split at h; · cases h
      cases h
      exact h1.frame ⟨rfl, rfl, rfl, rfl, rfl, rfl, rfl, rfl, rfl⟩
    · cases h; exact h1

/-- `MsgPausePool` / `MsgResumePool` -/
theorem pausePool_preserves {s s' : State} {updater : Addr} {poolID : Nat} {active : Bool}
    (h : pausePool s updater poolID active = .ok s') (hinv : PoolInv s) : PoolInv s' := by
  unfold pausePool at h
  ok_cases h
  rename_i pool hfp _
  cases h
  exact { toShieldInv := hinv.toShieldInv.setPool_meta hfp rfl rfl, toStakeInv := hinv.toStakeInv.congr rfl rfl }

/-- `MsgUpdateSponsor` -/
theorem updateSponsor_preserves {s s' : State} {updater : Addr} {poolID : Nat} {sponsor : String} {sponsorAddr : Addr}
    (h : updateSponsor s updater poolID sponsor sponsorAddr = .ok s') (hinv : PoolInv s) : PoolInv s' := by
  unfold updateSponsor at h
  ok_cases h
  rename_i pool hfp
  cases h
  exact { toShieldInv := hinv.toShieldInv.setPool_meta hfp rfl rfl, toStakeInv := hinv.toStakeInv.congr rfl rfl }

/-- `MsgUnstakeFromShield`: only `requested` changes -/
theorem unstake_preserves {e : Env} {s s' : State} {poolID : Nat} {purchaser : Addr} {coins : Coins}
    (h : unstake e s poolID purchaser coins = .ok s') (hinv : PoolInv s) : PoolInv s' := by
  unfold unstake at h
  ok_cases h
  rename_i k hfs _
  cases h
  have hkey := findStake_key hfs
  refine { toShieldInv := hinv.toShieldInv.congr (setStake_pools _ _) (setStake_lists _ _) (setStake_totalShield _ _)
             (setStake_nextPool _ _) (setStake_nextPurchase _ _), toStakeInv := ?_ }
  apply StakeInv.upsert (s := s) (k := { k with requested := k.requested + Coins.amountOf coins e.bond }) (d := 0) hinv.toStakeInv
  · show k.amount = (match findStake s k.pool k.purchaser with | some k0 => k0.amount | none => 0) + 0
    rw [hkey.1, hkey.2, hfs]; simp
  · exact hinv.stakeNonneg k (findStake_mem hfs)
  · rfl
  · rw [setStake_stakingPool]; omega

/-- `SecureCollaterals` (a claim is submitted): the purchase, its pool and the total drop by `loss` together.
    No hypothesis on `loss` is needed for this half of the books: the function checks `loss ≤ purchase.shield`,
    and a negative `loss` would raise all three together. -/
theorem secureCollaterals_preserves {e : Env} {s s' : State} {poolID : Nat} {purchaser : Addr} {purchaseID : Nat} {loss dur : Int}
    (h : secureCollaterals e s poolID purchaser purchaseID loss dur = .ok s') (hinv : PoolInv s) : PoolInv s' := by
  rcases secureCollaterals_ok h with ⟨pool, lst, pu, q, hfp, _, _, hfl, htgt, hle, rfl⟩
  refine { toShieldInv := ?_, toStakeInv := hinv.toStakeInv.congr rfl rfl }
  apply hinv.toShieldInv.shiftEntry (f := fun _ => lockedEntry e pu loss dur) (d := -loss) (id := pu.id) (en := pu) hfp hfl
    (lockTarget_find htgt)
  · intro a ha; exact ha.symm
  · show pu.shield - loss = pu.shield + -loss; omega
  · show 0 ≤ pu.shield - loss; omega
  · rfl
  · show s.pools.map _ = s.pools.map _
    congr 1
  · rfl
  · show s.totalShield - loss = s.totalShield + -loss; omega
  · rfl
  · rfl

/-- `RestoreShield` (a claim was rejected): purchase, pool and total grow by `loss`, or nothing changes -/
theorem restoreShield_preserves {s : State} {poolID : Nat} {purchaser : Addr} {id : Nat} {loss : Int}
    (hinv : PoolInv s) (hloss : 0 ≤ loss) : PoolInv (restoreShield s poolID purchaser id loss) := by
  cases hfp : findPool s poolID with
  | none => rw [restoreShield_none (Or.inl hfp)]; exact hinv
  | some pool =>
    cases hfl : findList s poolID purchaser with
    | none => rw [restoreShield_none (Or.inr (Or.inl hfl))]; exact hinv
    | some lst =>
      cases hen : lst.entries.find? (·.id == id) with
      | none => rw [restoreShield_none (Or.inr (Or.inr ⟨lst, hfl, hen⟩))]; exact hinv
      | some en =>
        rw [restoreShield_some hfp hfl hen]
        refine { toShieldInv := ?_, toStakeInv := hinv.toStakeInv.congr rfl rfl }
        apply hinv.toShieldInv.shiftEntry (f := fun x => { x with shield := x.shield + loss }) (d := loss) (id := id) (en := en) hfp hfl hen
        · intro a _; rfl
        · rfl
        · have := (hinv.entryNonneg lst (findList_mem hfl) en (List.mem_of_find?_eq_some hen)).1
          show 0 ≤ en.shield + loss; omega
        · rfl
        · rfl
        · rfl
        · rfl
        · rfl
        · rfl

/-- `ClaimEnd` -/
theorem claimEnd_preserves {s : State} {loss : Int} (hinv : PoolInv s) : PoolInv (claimEnd s loss) :=
  hinv.frame' rfl rfl rfl rfl rfl rfl rfl

/-- `CreateReimbursement` (a claim is paid): pools, purchases, stakes and their totals are not touched -/
theorem createReimbursement_preserves {e : Env} {l l' : Ledger} {s s' : State} {pid : Nat} {amount : Int} {b : Addr}
    (h : createReimbursement e l s pid amount b = .ok (l', s')) (hinv : PoolInv s) : PoolInv s' := by
  have ⟨h1, h2, h3, h4, h5, h6, h7, _, _⟩ := createReimbursement_ok h
  exact hinv.frame' h1 h2 h3 h4 h5 h6 h7

/-- the end of a claim proposal, whatever the outcome; a rejected claim gives a non-negative `loss` back -/
theorem claimEnds_preserves {e : Env} {l l' : Ledger} {s s' : State} {pid poolID : Nat} {restoreTo beneficiary : Addr}
    {purchaseID : Nat} {loss : Int} {o : ClaimOutcome}
    (h : claimEnds e l s pid poolID restoreTo beneficiary purchaseID loss o = .ok (l', s'))
    (hinv : PoolInv s) (hloss : o = .rejected → 0 ≤ loss) : PoolInv s' := by
  unfold claimEnds at h
  cases o with
  | vetoed => cases h; exact claimEnd_preserves hinv
  | rejected => cases h; exact claimEnd_preserves (restoreShield_preserves hinv (hloss rfl))
  | paid => exact createReimbursement_preserves h hinv
  | failed => cases h; exact hinv

/-- the expiry loop, for any queue content: with the running total written back the books stay consistent.
    `duePairs` may name the same list several times; the statement holds for an arbitrary list of pairs. -/
theorem expireLoop_preserves {now : Int} {ps : List (Nat × Addr)} {acc acc' : ExpAcc}
    (h : expireLoop now ps acc = .ok acc') (hinv : PoolInv { acc.s with totalShield := acc.totalShield }) :
    PoolInv { acc'.s with totalShield := acc'.totalShield } := by
  have ⟨h1, f⟩ := expireLoop_inv now ps acc acc' h hinv.toShieldInv
  exact { toShieldInv := h1, toStakeInv := hinv.toStakeInv.congr f.stakes f.stakingPool }

/-- one purchase list met in the queue: what is removed plus what stays is what was there -/
theorem expireEntries_conserves (now lu per : Int) (es : List Purchase) (f tf : Dec) (r : Int) :
    (expireEntries now lu per es (f, tf, r)).2.2.2 + sumI (·.shield) (expireEntries now lu per es (f, tf, r)).1
      = r + sumI (·.shield) es :=
  (expireEntries_facts now lu per es f tf r _ rfl).sum

/-- `RemoveExpiredPurchasesAndDistributeFees`: the shield of removed entries leaves pool and total together -/
theorem expireAndDistribute_preserves {e : Env} {s s' : State} (h : expireAndDistribute e s = .ok s') (hinv : PoolInv s) :
    PoolInv s' := by
  rcases expireAndDistribute_ok h with rfl | ⟨acc, hloop, h1, h2, h3, h4, h5, h6, h7, _, _⟩
  · exact hinv
  · have := expireLoop_preserves hloop (hinv.frame' rfl rfl rfl rfl rfl rfl rfl)
    exact this.frame' h1 h2 h4 h3 h5 h6 h7

/-- `ClosePools`: only pools without shield and without purchase lists are dropped -/
theorem closePools_preserves {s : State} (hinv : PoolInv s) : PoolInv (closePools s) :=
  { toShieldInv := hinv.toShieldInv.closePools, toStakeInv := hinv.toStakeInv.congr rfl rfl }

/-- the module's end-blocker -/
theorem endBlock_preserves {e : Env} {s s' : State} (h : endBlock e s = .ok s') (hinv : PoolInv s) : PoolInv s' := by
  unfold endBlock at h
  split at h; · cases h
  rename_i s1 h1
  split at h; · cases h
  rename_i s2 h2
  cases h
  exact closePools_preserves ((expireAndDistribute_preserves h1 hinv).frame (completeWithdrawals_frame h2))

/-! ### operations that do not touch pools, purchases or stakes -/

/-- `MsgDepositCollateral` -/
theorem deposit_preserves {e : Env} {s s' : State} {a : Addr} {c : Coins} (h : deposit e s a c = .ok s') (hinv : PoolInv s) :
    PoolInv s' := hinv.frame (deposit_frame h)
/-- `MsgWithdrawCollateral` -/
theorem withdraw_preserves {e : Env} {s s' : State} {a : Addr} {c : Coins} (h : withdraw e s a c = .ok s') (hinv : PoolInv s) :
    PoolInv s' := hinv.frame (withdraw_frame h)
/-- `Keeper.WithdrawCollateral` -/
theorem withdrawCollateral_preserves {e : Env} {s s' : State} {a : Addr} {amt : Int}
    (h : withdrawCollateral e s a amt = .ok s') (hinv : PoolInv s) : PoolInv s' := hinv.frame (withdrawCollateral_frame h)
/-- the staking hooks -/
theorem stakingHook_preserves {e : Env} {s s' : State} {a : Addr} {b : Int}
    (h : stakingHook e s a b = .ok s') (hinv : PoolInv s) : PoolInv s' := hinv.frame (stakingHook_frame h)
/-- the staking hooks as they fire for a staking message -/
theorem stakingChanged_preserves {e : Env} {s s' : State} {a : Addr}
    (h : stakingChanged e s a = .ok s') (hinv : PoolInv s) : PoolInv s' := hinv.frame (stakingChanged_frame h)
/-- `MsgWithdrawRewards` -/
theorem withdrawRewards_preserves {e : Env} {l l' : Ledger} {s s' : State} {a : Addr}
    (h : withdrawRewards e l s a = .ok (l', s')) (hinv : PoolInv s) : PoolInv s' := hinv.frame (withdrawRewards_frame h)
/-- `MsgWithdrawReimbursement` -/
theorem withdrawReimbursement_preserves {e : Env} {l l' : Ledger} {s s' : State} {pid : Nat} {a : Addr}
    (h : withdrawReimbursement e l s pid a = .ok (l', s')) (hinv : PoolInv s) : PoolInv s' :=
  hinv.frame (withdrawReimbursement_frame h)
/-- `DequeueCompletedWithdrawQueue` -/
theorem completeWithdrawals_preserves {e : Env} {s s' : State} (h : completeWithdrawals e s = .ok s') (hinv : PoolInv s) :
    PoolInv s' := hinv.frame (completeWithdrawals_frame h)
/-- `DelayWithdraws` -/
theorem delayWithdraws_preserves {s s' : State} {a : Addr} {amt u : Int} (h : delayWithdraws s a amt u = .ok s')
    (hinv : PoolInv s) : PoolInv s' := hinv.frame (delayWithdraws_frame h)
/-- `FundShieldBlockRewards` -/
theorem fundBlockRewards_preserves (e : Env) (l : Ledger) (s : State) (a : Addr) (amt : Int) (hinv : PoolInv s) :
    PoolInv (fundBlockRewards e l s a amt).2 := hinv.frame (fundBlockRewards_frame e l s a amt)

/-! ## histories -/

/-- every operation of the model, each with the environment (block time, hook inputs) of its own step -/
inductive Op where
  | deposit (e : Env) (a : Addr) (c : Coins)
  | withdraw (e : Env) (a : Addr) (c : Coins)
  | withdrawCollateral (e : Env) (a : Addr) (amt : Int)
  | stakingHook (e : Env) (a : Addr) (staked : Int)
  | stakingChanged (e : Env) (a : Addr)
  | purchaseCore (e : Env) (poolID : Nat) (shield : Coins) (purchaser : Addr) (fees staking : Coins)
  | purchase (e : Env) (poolID : Nat) (shield : Coins) (purchaser : Addr) (staking : Bool)
  | createPool (e : Env) (creator : Addr) (shield fees : Coins) (sponsor : String) (sponsorAddr : Addr) (limit : Int)
  | updatePool (e : Env) (updater : Addr) (poolID : Nat) (shield fees : Coins) (limit : Int)
  | pausePool (updater : Addr) (poolID : Nat) (active : Bool)
  | updateSponsor (updater : Addr) (poolID : Nat) (sponsor : String) (sponsorAddr : Addr)
  | unstake (e : Env) (poolID : Nat) (purchaser : Addr) (c : Coins)
  | withdrawRewards (e : Env) (a : Addr)
  | withdrawReimbursement (e : Env) (pid : Nat) (a : Addr)
  | delayWithdraws (a : Addr) (amt until_ : Int)
  | secureCollaterals (e : Env) (poolID : Nat) (purchaser : Addr) (purchaseID : Nat) (loss dur : Int)
  | claimEnd (loss : Int)
  | restoreShield (poolID : Nat) (purchaser : Addr) (id : Nat) (loss : Int)
  | createReimbursement (e : Env) (pid : Nat) (amount : Int) (beneficiary : Addr)
  | claimEnds (e : Env) (pid poolID : Nat) (restoreTo beneficiary : Addr) (purchaseID : Nat) (loss : Int) (o : ClaimOutcome)
  | expireAndDistribute (e : Env)
  | completeWithdrawals (e : Env)
  | closePools
  | endBlock (e : Env)
  | fundBlockRewards (e : Env) (sender : Addr) (amt : Int)

/-- a failing operation leaves ledger and store unchanged (the transaction is rolled back) -/
def orKeep (ls : Ledger × State) (r : Except Err (Ledger × State)) : Ledger × State :=
  match r with
  | .ok x => x
  | .error _ => ls

/-- the same for operations that do not touch the bank -/
def orKeepS (ls : Ledger × State) (r : Except Err State) : Ledger × State :=
  match r with
  | .ok s' => (ls.1, s')
  | .error _ => ls

/-- one step of a history -/
def step (ls : Ledger × State) : Op → Ledger × State
  | .deposit e a c => orKeepS ls (Shield.deposit e ls.2 a c)
  | .withdraw e a c => orKeepS ls (Shield.withdraw e ls.2 a c)
  | .withdrawCollateral e a amt => orKeepS ls (Shield.withdrawCollateral e ls.2 a amt)
  | .stakingHook e a b => orKeepS ls (Shield.stakingHook e ls.2 a b)
  | .stakingChanged e a => orKeepS ls (Shield.stakingChanged e ls.2 a)
  | .purchaseCore e p sh a f st => orKeep ls (Shield.purchaseCore e ls.1 ls.2 p sh a f st)
  | .purchase e p sh a st => orKeep ls (Shield.purchase e ls.1 ls.2 p sh a st)
  | .createPool e c sh f sp spa lim => orKeep ls (Shield.createPool e ls.1 ls.2 c sh f sp spa lim)
  | .updatePool e u p sh f lim => orKeep ls (Shield.updatePool e ls.1 ls.2 u p sh f lim)
  | .pausePool u p act => orKeepS ls (Shield.pausePool ls.2 u p act)
  | .updateSponsor u p sp spa => orKeepS ls (Shield.updateSponsor ls.2 u p sp spa)
  | .unstake e p a c => orKeepS ls (Shield.unstake e ls.2 p a c)
  | .withdrawRewards e a => orKeep ls (Shield.withdrawRewards e ls.1 ls.2 a)
  | .withdrawReimbursement e pid a => orKeep ls (Shield.withdrawReimbursement e ls.1 ls.2 pid a)
  | .delayWithdraws a amt u => orKeepS ls (Shield.delayWithdraws ls.2 a amt u)
  | .secureCollaterals e p a id loss dur => orKeepS ls (Shield.secureCollaterals e ls.2 p a id loss dur)
  | .claimEnd loss => (ls.1, Shield.claimEnd ls.2 loss)
  | .restoreShield p a id loss => (ls.1, Shield.restoreShield ls.2 p a id loss)
  | .createReimbursement e pid amt b => orKeep ls (Shield.createReimbursement e ls.1 ls.2 pid amt b)
  | .claimEnds e pid p r b id loss o => orKeep ls (Shield.claimEnds e ls.1 ls.2 pid p r b id loss o)
  | .expireAndDistribute e => orKeepS ls (Shield.expireAndDistribute e ls.2)
  | .completeWithdrawals e => orKeepS ls (Shield.completeWithdrawals e ls.2)
  | .closePools => (ls.1, Shield.closePools ls.2)
  | .endBlock e => orKeepS ls (Shield.endBlock e ls.2)
  | .fundBlockRewards e a amt => Shield.fundBlockRewards e ls.1 ls.2 a amt

/-- the inputs the proofs need: a purchase does not buy a negative amount of shield
    (`createPool` and `updatePool` check it themselves; for `purchase` it follows from a non-negative
    `minPurchase` parameter, see `purchase_preserves_of_minPurchase`), and a restored loss is not negative -/
def Op.wf : Op → Prop
  | .purchaseCore e _ sh _ _ _ => 0 ≤ Coins.amountOf sh e.bond
  | .purchase e _ sh _ _ => 0 ≤ Coins.amountOf sh e.bond
  | .restoreShield _ _ _ loss => 0 ≤ loss
  | .claimEnds _ _ _ _ _ _ loss o => o = .rejected → 0 ≤ loss
  | _ => True

/-- a step that may fail preserves `PoolInv` if its successful outcome does -/
theorem orKeep_inv {ls : Ledger × State} {r : Except Err (Ledger × State)} (hinv : PoolInv ls.2)
    (h : ∀ l' s', r = .ok (l', s') → PoolInv s') : PoolInv (orKeep ls r).2 := by
  unfold orKeep
  split
  · rename_i x; exact h x.1 x.2 rfl
  · exact hinv

/-- a step that may fail preserves `PoolInv` if its successful outcome does -/
theorem orKeepS_inv {ls : Ledger × State} {r : Except Err State} (hinv : PoolInv ls.2)
    (h : ∀ s', r = .ok s' → PoolInv s') : PoolInv (orKeepS ls r).2 := by
  unfold orKeepS
  split
  · rename_i s'; exact h s' rfl
  · exact hinv

/-- one step of a history preserves `PoolInv` -/
theorem step_preserves (ls : Ledger × State) (op : Op) (hwf : op.wf) (hinv : PoolInv ls.2) : PoolInv (step ls op).2 := by
  cases op with
  | deposit e a c => exact orKeepS_inv hinv (fun _ h => deposit_preserves h hinv)
  | withdraw e a c => exact orKeepS_inv hinv (fun _ h => withdraw_preserves h hinv)
  | withdrawCollateral e a amt => exact orKeepS_inv hinv (fun _ h => withdrawCollateral_preserves h hinv)
  | stakingHook e a b => exact orKeepS_inv hinv (fun _ h => stakingHook_preserves h hinv)
  | stakingChanged e a => exact orKeepS_inv hinv (fun _ h => stakingChanged_preserves h hinv)
  | purchaseCore e p sh a f st => exact orKeep_inv hinv (fun _ _ h => purchaseCore_preserves h hinv hwf)
  | purchase e p sh a st => exact orKeep_inv hinv (fun _ _ h => purchase_preserves h hinv hwf)
  | createPool e c sh f sp spa lim => exact orKeep_inv hinv (fun _ _ h => createPool_preserves h hinv)
  | updatePool e u p sh f lim => exact orKeep_inv hinv (fun _ _ h => updatePool_preserves h hinv)
  | pausePool u p act => exact orKeepS_inv hinv (fun _ h => pausePool_preserves h hinv)
  | updateSponsor u p sp spa => exact orKeepS_inv hinv (fun _ h => updateSponsor_preserves h hinv)
  | unstake e p a c => exact orKeepS_inv hinv (fun _ h => unstake_preserves h hinv)
  | withdrawRewards e a => exact orKeep_inv hinv (fun _ _ h => withdrawRewards_preserves h hinv)
  | withdrawReimbursement e pid a => exact orKeep_inv hinv (fun _ _ h => withdrawReimbursement_preserves h hinv)
  | delayWithdraws a amt u => exact orKeepS_inv hinv (fun _ h => delayWithdraws_preserves h hinv)
  | secureCollaterals e p a id loss dur => exact orKeepS_inv hinv (fun _ h => secureCollaterals_preserves h hinv)
  | claimEnd loss => exact claimEnd_preserves hinv
  | restoreShield p a id loss => exact restoreShield_preserves hinv hwf
  | createReimbursement e pid amt b => exact orKeep_inv hinv (fun _ _ h => createReimbursement_preserves h hinv)
  | claimEnds e pid p r b id loss o => exact orKeep_inv hinv (fun _ _ h => claimEnds_preserves h hinv hwf)
  | expireAndDistribute e => exact orKeepS_inv hinv (fun _ h => expireAndDistribute_preserves h hinv)
  | completeWithdrawals e => exact orKeepS_inv hinv (fun _ h => completeWithdrawals_preserves h hinv)
  | closePools => exact closePools_preserves hinv
  | endBlock e => exact orKeepS_inv hinv (fun _ h => endBlock_preserves h hinv)
  | fundBlockRewards e a amt => exact fundBlockRewards_preserves e ls.1 ls.2 a amt hinv

/-- **C03, shield / pool / purchase / stake half, over histories**: from a store with consistent books, after any
    interleaving of the model's operations (each with its own block time and hook inputs; a failing step leaves the
    state unchanged) the books are consistent again. -/
theorem reachable_poolInv (ls : Ledger × State) (ops : List Op) (hwf : ∀ op ∈ ops, op.wf) (hinv : PoolInv ls.2) :
    PoolInv (ops.foldl step ls).2 := by
  induction ops generalizing ls with
  | nil => exact hinv
  | cons op ops ih =>
    simp only [List.foldl_cons]
    apply ih
    · intro o ho; exact hwf o (List.mem_cons_of_mem _ ho)
    · exact step_preserves ls op (hwf op List.mem_cons_self) hinv

/-- in particular the C03 clauses of this half hold in every reachable state of a chain that starts empty -/
theorem reachable_books (l0 : Ledger) (s0 : State) (hp : s0.pools = []) (hl : s0.lists = []) (hk : s0.stakes = [])
    (ht : s0.totalShield = 0) (hs : s0.stakingPool = 0) (ops : List Op) (hwf : ∀ op ∈ ops, op.wf) :
    let s := (ops.foldl step (l0, s0)).2
    s.totalShield = sumI (·.shield) s.pools ∧ (∀ p ∈ s.pools, p.shield = sumI (·.shield) (entriesOf s p.id)) ∧
    s.stakingPool = sumStakes s ∧ (∀ p ∈ s.pools, 0 ≤ p.shield) ∧ (∀ k ∈ s.stakes, 0 ≤ k.amount) ∧
    (∀ l ∈ s.lists, ∀ e ∈ l.entries, 0 ≤ e.shield ∧ 0 ≤ e.fees.raw) ∧ 0 ≤ s.totalShield ∧ 0 ≤ s.stakingPool := by
  intro s
  have h0 : PoolInv s0 := by
    constructor <;> constructor <;> simp [hp, hl, hk, ht, hs, sumStakes, entriesOf]
  have h := reachable_poolInv (l0, s0) ops hwf h0
  exact ⟨books_shield h, books_poolShield h, books_stake h, books_poolNonneg h, books_stakeNonneg h, books_entryNonneg h,
    (books_totalsNonneg h).1, (books_totalsNonneg h).2⟩

/-! ### the same over histories, with the hypothesis on purchases discharged from the parameters -/

/-- the purchase path does not change the parameters -/
theorem purchaseCore_params {e : Env} {l l' : Ledger} {s s' : State} {poolID : Nat} {shield : Coins} {purchaser : Addr}
    {fees staking : Coins} (h : purchaseCore e l s poolID shield purchaser fees staking = .ok (l', s')) : s'.params = s.params := by
  rcases purchaseCore_ok h with ⟨pool, s1, _, _, _, hpaid, rfl⟩
  have h1 := (pcPaid_ok hpaid).2.2.2.2.2.2.1
  have h2 := (pcFinish_fields e s1 pool poolID purchaser (pcEntry e s shield fees)).2.2.2.2.2.2.2.2
  exact h2.trans h1

/-- a step that may fail keeps the parameters if its successful outcome does -/
theorem orKeep_params {ls : Ledger × State} {r : Except Err (Ledger × State)}
    (h : ∀ l' s', r = .ok (l', s') → s'.params = ls.2.params) : (orKeep ls r).2.params = ls.2.params := by
  unfold orKeep
  split
  · rename_i x; exact h x.1 x.2 rfl
  · rfl

/-- a step that may fail keeps the parameters if its successful outcome does -/
theorem orKeepS_params {ls : Ledger × State} {r : Except Err State}
    (h : ∀ s', r = .ok s' → s'.params = ls.2.params) : (orKeepS ls r).2.params = ls.2.params := by
  unfold orKeepS
  split
  · rename_i s'; exact h s' rfl
  · rfl

/-- no operation of the model changes the parameters -/
theorem step_params (ls : Ledger × State) (op : Op) (hinv : PoolInv ls.2) : (step ls op).2.params = ls.2.params := by
  cases op with
  | deposit e a c => exact orKeepS_params (fun _ h => (deposit_frame h).params)
  | withdraw e a c => exact orKeepS_params (fun _ h => (withdraw_frame h).params)
  | withdrawCollateral e a amt => exact orKeepS_params (fun _ h => (withdrawCollateral_frame h).params)
  | stakingHook e a b => exact orKeepS_params (fun _ h => (stakingHook_frame h).params)
  | stakingChanged e a => exact orKeepS_params (fun _ h => (stakingChanged_frame h).params)
  | purchaseCore e p sh a f st => exact orKeep_params (fun _ _ h => purchaseCore_params h)
  | purchase e p sh a st =>
    apply orKeep_params
    intro l' s' h
    unfold purchase at h
    ok_cases h
    · exact purchaseCore_params h
    · exact purchaseCore_params h
  | createPool e c sh f sp spa lim =>
    apply orKeep_params
    intro l' s' h
    unfold createPool at h
    ok_cases h
    exact (purchaseCore_params h).trans rfl
  | updatePool e u p sh f lim =>
    apply orKeep_params
    intro l' s' h
    unfold updatePool at h
    dsimp only at h
    split at h; · cases h
    split at h; · cases h
    split at h; · cases h
    split at h
    · exact (purchaseCore_params h).trans rfl
    · split at h
      · split at h; · cases h
        cases h; rfl
      · cases h; rfl
  | pausePool u p act =>
    apply orKeepS_params
    intro s' h
    unfold pausePool at h
    ok_cases h
    cases h; rfl
  | updateSponsor u p sp spa =>
    apply orKeepS_params
    intro s' h
    unfold updateSponsor at h
    ok_cases h
    cases h; rfl
  | unstake e p a c =>
    apply orKeepS_params
    intro s' h
    unfold unstake at h
    ok_cases h
    cases h; exact setStake_params _ _
  | withdrawRewards e a => exact orKeep_params (fun _ _ h => (withdrawRewards_frame h).params)
  | withdrawReimbursement e pid a => exact orKeep_params (fun _ _ h => (withdrawReimbursement_frame h).params)
  | delayWithdraws a amt u => exact orKeepS_params (fun _ h => (delayWithdraws_frame h).params)
  | secureCollaterals e p a id loss dur =>
    apply orKeepS_params
    intro s' h
    rcases secureCollaterals_ok h with ⟨_, _, _, _, _, _, _, _, _, _, rfl⟩
    rfl
  | claimEnd loss => rfl
  | restoreShield p a id loss =>
    show (restoreShield ls.2 p a id loss).params = _
    cases hfp : findPool ls.2 p with
    | none => rw [restoreShield_none (Or.inl hfp)]
    | some pool =>
      cases hfl : findList ls.2 p a with
      | none => rw [restoreShield_none (Or.inr (Or.inl hfl))]
      | some lst =>
        cases hen : lst.entries.find? (·.id == id) with
        | none => rw [restoreShield_none (Or.inr (Or.inr ⟨lst, hfl, hen⟩))]
        | some en => rw [restoreShield_some hfp hfl hen]
  | createReimbursement e pid amt b => exact orKeep_params (fun _ _ h => (createReimbursement_ok h).2.2.2.2.2.2.2.1)
  | claimEnds e pid p r b id loss o =>
    apply orKeep_params
    intro l' s' h
    unfold claimEnds at h
    cases o with
    | vetoed => cases h; rfl
    | rejected =>
      cases h
      show (restoreShield ls.2 p r id loss).params = _
      cases hfp : findPool ls.2 p with
      | none => rw [restoreShield_none (Or.inl hfp)]
      | some pool =>
        cases hfl : findList ls.2 p r with
        | none => rw [restoreShield_none (Or.inr (Or.inl hfl))]
        | some lst =>
          cases hen : lst.entries.find? (·.id == id) with
          | none => rw [restoreShield_none (Or.inr (Or.inr ⟨lst, hfl, hen⟩))]
          | some en => rw [restoreShield_some hfp hfl hen]
    | paid => exact (createReimbursement_ok h).2.2.2.2.2.2.2.1
    | failed => cases h; rfl
  | expireAndDistribute e =>
    apply orKeepS_params
    intro s' h
    rcases expireAndDistribute_ok h with rfl | ⟨acc, hloop, _, _, _, _, _, _, _, _, hp⟩
    · rfl
    · have := (expireLoop_inv _ _ _ _ hloop (hinv.toShieldInv.congr rfl rfl rfl rfl rfl)).2
      exact hp.trans this.params
  | completeWithdrawals e => exact orKeepS_params (fun _ h => (completeWithdrawals_frame h).params)
  | closePools => rfl
  | endBlock e =>
    apply orKeepS_params
    intro s' h
    unfold endBlock at h
    split at h; · cases h
    rename_i s1 h1
    split at h; · cases h
    rename_i s2 h2
    cases h
    show s2.params = _
    rw [(completeWithdrawals_frame h2).params]
    rcases expireAndDistribute_ok h1 with rfl | ⟨acc, hloop, _, _, _, _, _, _, _, _, hp⟩
    · rfl
    · have := (expireLoop_inv _ _ _ _ hloop (hinv.toShieldInv.congr rfl rfl rfl rfl rfl)).2
      exact hp.trans this.params
  | fundBlockRewards e a amt => rfl

/-- the inputs that remain hypotheses once `minPurchase ≥ 0`: the internal purchase path called directly, and the loss
    handed back by a rejected claim (in the chain it is the `loss` of the proposal that was locked) -/
def Op.wf' : Op → Prop
  | .purchaseCore e _ sh _ _ _ => 0 ≤ Coins.amountOf sh e.bond
  | .restoreShield _ _ _ loss => 0 ≤ loss
  | .claimEnds _ _ _ _ _ _ loss o => o = .rejected → 0 ≤ loss
  | _ => True

/-- **C03, this half, over histories of messages**: with a non-negative `minPurchase` parameter no hypothesis on purchase
    messages is needed — arbitrary `MsgPurchaseShield`, `MsgStakeForShield`, `MsgCreatePool`, `MsgUpdatePool` inputs included -/
theorem reachable_poolInv' (ls : Ledger × State) (ops : List Op) (hwf : ∀ op ∈ ops, op.wf')
    (hmin : 0 ≤ ls.2.params.minPurchase) (hinv : PoolInv ls.2) : PoolInv (ops.foldl step ls).2 := by
  induction ops generalizing ls with
  | nil => exact hinv
  | cons op ops ih =>
    simp only [List.foldl_cons]
    have hw := hwf op List.mem_cons_self
    have hstep : PoolInv (step ls op).2 := by
      cases op with
      | purchase e p sh a st =>
        exact orKeep_inv hinv (fun _ _ h => purchase_preserves_of_minPurchase h hinv hmin)
      | purchaseCore e p sh a f st => exact step_preserves ls _ hw hinv
      | restoreShield p a id loss => exact step_preserves ls _ hw hinv
      | claimEnds e pid p r b id loss o => exact step_preserves ls _ hw hinv
      | _ => exact step_preserves ls _ trivial hinv
    apply ih
    · intro o ho; exact hwf o (List.mem_cons_of_mem _ ho)
    · rw [step_params ls op hinv]; exact hmin
    · exact hstep

/-! ## non-vacuity: concrete successful steps from `demo` (which satisfies `PoolInv`, see `demo_inv`) -/

/-- what the examples look at: total shield, staking pool, (pool, shield), (pool, holder, (purchase, shield)), stakes, next ids -/
structure View where
  totalShield : Int
  stakingPool : Int
  pools : List (Nat × Int)
  lists : List (Nat × Addr × List (Nat × Int))
  stakes : List (Nat × Addr × Int)
  nextPool : Nat
  nextPurchase : Nat
  deriving DecidableEq

/-- the projection of a store the examples compare -/
def view (s : State) : View :=
  ⟨s.totalShield, s.stakingPool, s.pools.map (fun p => (p.id, p.shield)),
   s.lists.map (fun l => (l.pool, l.purchaser, l.entries.map (fun e => (e.id, e.shield)))),
   s.stakes.map (fun k => (k.pool, k.purchaser, k.amount)), s.nextPool, s.nextPurchase⟩

/-- a paid purchase: new entry 3 in the existing list of "aa"; pool and total grow by 10 -/
example : (purchase demoEnv demoLedger demo 1 [("uctk", 10)] "aa" false).toOption.map (fun x => view x.2) =
    some ⟨80, 40, [(1, 80)], [(1, "aa", [(1, 50), (3, 10)]), (1, "bb", [(2, 20)])], [(1, "bb", 40)], 2, 4⟩ := by decide

/-- a staked purchase: the stake record and the staking pool grow by 20 together -/
example : (purchase demoEnv demoLedger demo 1 [("uctk", 10)] "bb" true).toOption.map (fun x => view x.2) =
    some ⟨80, 60, [(1, 80)], [(1, "aa", [(1, 50)]), (1, "bb", [(2, 20), (3, 10)])], [(1, "bb", 60)], 2, 4⟩ := by decide

/-- a new pool with a fresh id and its first purchase in a new list: the two halves of `createPool`
    (its own guard uses `String.trimAscii`, which `decide` cannot evaluate) -/
example : (purchaseCore demoEnv demoLedger
      { demo with pools := demo.pools ++ [{ id := 2, shield := 0, limit := 500, active := true, sponsor := "acme", sponsorAddr := "dd" }],
                  nextPool := 3 }
      2 [("uctk", 5)] "ad" [("uctk", 1)] []).toOption.map (fun x => view x.2) =
    some ⟨75, 40, [(1, 70), (2, 5)], [(1, "aa", [(1, 50)]), (1, "bb", [(2, 20)]), (2, "ad", [(3, 5)])], [(1, "bb", 40)], 3, 4⟩ := by
  decide

/-- a claim lock of 10 against purchase 1 -/
example : (secureCollaterals demoEnv demo 1 "aa" 1 10 100).toOption.map view =
    some ⟨60, 40, [(1, 60)], [(1, "aa", [(1, 40)]), (1, "bb", [(2, 20)])], [(1, "bb", 40)], 2, 3⟩ := by decide

/-- the end-blocker at time 150: purchase 1 (deletion time 100) expires, its list is deleted, pool and total drop by 50 -/
example : (endBlock { demoEnv with t := 150 } demo).toOption.map view =
    some ⟨20, 40, [(1, 20)], [(1, "bb", [(2, 20)])], [(1, "bb", 40)], 2, 3⟩ := by decide

/-- a history: purchase, claim lock, rejection, staked purchase, expiry of the two old purchases, admin purchase -/
example : view ([Op.purchase demoEnv 1 [("uctk", 10)] "aa" false, .secureCollaterals demoEnv 1 "aa" 1 10 100,
      .claimEnds demoEnv 7 1 "aa" "aa" 1 10 .rejected, .purchase demoEnv 1 [("uctk", 10)] "bb" true,
      .endBlock { demoEnv with t := 250 },
      .updatePool demoEnv "ad" 1 [("uctk", 5)] [("uctk", 1)] 2000].foldl step (demoLedger, demo)).2 =
    ⟨25, 60, [(1, 25)], [(1, "aa", [(3, 10)]), (1, "bb", [(4, 10)]), (1, "ad", [(5, 5)])], [(1, "bb", 60)], 2, 6⟩ := by
  decide

end Shentu.Props.C03b
