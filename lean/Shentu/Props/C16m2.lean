import Shentu.Props.C16m
import Shentu.Proofs.C16m2Exec
import Shentu.Proofs.C16m2Gas
/-
  C16 (machine instructions), completion of `Shentu/Props/C16m.lean`.

  1. `mstore_then_mload`: at the level of the interpreter model, in every mode (in particular `Quirks.spec` and
     `Quirks.impl`): MSTORE(o, w) followed by MLOAD(o) pushes `w mod 2^256`, and the memory keeps representing the
     specification memory after the store.  Chained from `mstore_refines`, `mload_refines`, `spec_mload_mstore`.
  2. CALLDATACOPY / CODECOPY as implemented (`readBeyondErr`): a source offset beyond the data raises InputOutOfBounds and
     writes nothing (recorded deviation `read_beyond_data`); a source offset within the data gives the specification's
     zero-padded copy.  From `subslice_behaviour` and the argument of `copy_refines`.
  3. JUMP / JUMPI as implemented (`dataOffsetU64`) with a destination of 2^64 or more: IntegerOverflow is raised; JUMP, whose
     destination is read with `Pop64`, then still attempts the jump to position 0 (the program counter becomes 0 when
     position 0 is a valid destination); JUMPI attempts no jump.  Either way the frame ends at the next iteration with
     IntegerOverflow (`pending_error_stops`).  Next to `C16m.jump_huge` for the specification (InvalidJumpDest).

  4. The link between the gas side and the memory side.  `stepBody` runs `gasLookUp`, charges its first component and hands its
     second component to `expandMemory` (`expansion_follows_charge`: only when the charge succeeded).  For every opcode with a
     memory operand, a lookup that ends without a pending error reports exactly `memNeed offset length` of the operands that
     stand where the instruction then pops them — the size C16m's `*_refines` theorems expand by — or, in specification mode
     only, answers with the cost that no gas allowance covers (`Charged`).  One theorem per family: MLOAD / MSTORE / MSTORE8,
     the copy family (CALLDATACOPY, CODECOPY, RETURNDATACOPY, EXTCODECOPY), SHA3 / LOG0-4 / RETURN / REVERT, the two windows
     of the call family (the larger of the input window and the output window), CREATE / CREATE2.
     The operand positions on the instruction side are proved for MLOAD / MSTORE / MSTORE8, CALLDATACOPY / CODECOPY and
     RETURNDATACOPY (C16m `*_refines`, whose statements run `expandMemory (memNeed o len)` in front of the instruction on the
     same stack); for the other families they are read off the instruction bodies in `EVM/Impl.lean` (`execRegular` 0x20,
     `freeRest` LOG, `haltBody0`, `callRest`, `createRest`, `execQuery` 0x3c) and stated in the hypotheses' stack shapes —
     a body lemma for those is NOT proved here.  The amount charged for the expansion is C17's subject, not this file's.

  Assumed in the statements (each one explicit): the bounds of `mstore_refines` / `mload_refines` / `copy_refines` (the access
  ends at or below the memory cap, the frame has the gas for its stack operations, no error is pending); for the copy
  instructions as implemented, offset and length below 2^64 (larger words make `Pop64` raise IntegerOverflow first).
-/
namespace Shentu.Props.C16m2
open Shentu Shentu.EVM Shentu.EVM.MemSpec Shentu.C16mH Shentu.C16mJ Shentu.C16m2H

-- ---------------------------------------------------------------- 1. MSTORE then MLOAD

/-- Specification: MLOAD at the offset of a preceding MSTORE does not change the memory, not even its size. -/
theorem spec_mload_after_mstore_mem (m : Mem) (o v : Nat) : ((m.mstore o v).mload o).2 = m.mstore o v := by
  simp only [Mem.mload, Mem.read, Mem.mstore, Mem.write, Mem.touch, length_wordBytes]
  have h32 : ¬ (32 = 0) := by decide
  simp only [h32, if_false, Mem.mk.injEq, true_and]
  omega

/-- **MSTORE then MLOAD, model level, every mode.**  MSTORE(o, v) runs without error and pops its operands.
    The memory then represents the specification memory after the store.
    Whatever runs in between, as long as it leaves the memory alone, raises no error and puts `o` on the stack: MLOAD then
    pushes `v mod 2^256`, and the memory still represents the specification memory after the store. -/
theorem mstore_then_mload (child : ChildFn) (env : Env) (s : Frame) (m : Mem) (o v : Nat) (r : List Nat)
    (hr : Rep s.mem m) (he : s.err = none) (hs : s.stack = o :: v :: r) (hg : 2 ≤ s.gas) (hcap : o + 32 ≤ memCap) :
    ∃ s1, ((expandMemory (memNeed o 32) >>= fun _ => execRegular child env 0x52) s).val = (some Ctl.next, s1) ∧
      Rep s1.mem (m.mstore o v) ∧ s1.stack = r ∧ s1.err = none ∧
      ∀ (s1' : Frame) (r' : List Nat), s1'.mem = s1.mem → s1'.err = none → s1'.stack = o :: r' → 2 ≤ s1'.gas →
        ∃ s2, ((expandMemory (memNeed o 32) >>= fun _ => execRegular child env 0x51) s1').val = (some Ctl.next, s2) ∧
          s2.stack = v % 2 ^ 256 :: r' ∧ Rep s2.mem (m.mstore o v) ∧ s2.err = none := by
  obtain ⟨s1, h1, h2, h3, h4⟩ := C16m.mstore_refines child env s m o v r hr he hs hg hcap
  refine ⟨s1, h1, h2, h3, h4, ?_⟩
  intro s1' r' hm he' hs' hg'
  obtain ⟨s2, g1, g2, g3, g4⟩ := C16m.mload_refines child env s1' (m.mstore o v) o r' (hm ▸ h2) he' hs' hg' hcap
  refine ⟨s2, g1, ?_, ?_, g4⟩
  · rw [g2, C16m.spec_mload_mstore]
  · rw [spec_mload_after_mstore_mem] at g3; exact g3

/-- The same, spelled out for the two named modes: the specification mode and the implementation mode. -/
theorem mstore_then_mload_both_modes (child : ChildFn) (env : Env) (s : Frame) (m : Mem) (o v : Nat) (r : List Nat)
    (hr : Rep s.mem m) (he : s.err = none) (hs : s.stack = o :: v :: r) (hg : 2 ≤ s.gas) (hcap : o + 32 ≤ memCap) :
    ∀ q, q = Quirks.spec ∨ q = Quirks.impl →
    ∃ s1, ((expandMemory (memNeed o 32) >>= fun _ => execRegular child { env with q := q } 0x52) s).val = (some Ctl.next, s1) ∧
      Rep s1.mem (m.mstore o v) ∧ s1.stack = r ∧ s1.err = none ∧
      ∀ (s1' : Frame) (r' : List Nat), s1'.mem = s1.mem → s1'.err = none → s1'.stack = o :: r' → 2 ≤ s1'.gas →
        ∃ s2, ((expandMemory (memNeed o 32) >>= fun _ => execRegular child { env with q := q } 0x51) s1').val =
            (some Ctl.next, s2) ∧
          s2.stack = v % 2 ^ 256 :: r' ∧ Rep s2.mem (m.mstore o v) ∧ s2.err = none :=
  fun q _ => mstore_then_mload child { env with q := q } s m o v r hr he hs hg hcap

-- ---------------------------------------------------------------- 2. the copy instructions as implemented

/-- CALLDATACOPY / CODECOPY body as implemented, source offset beyond the data (recorded deviation `read_beyond_data`):
    the three operands are popped, InputOutOfBounds is raised, and nothing else changes — the memory is not written. -/
theorem copy_impl_beyond (q : Quirks) (src : ByteArray) (s : Frame) (memOff off len : Nat) (r : List Nat)
    (hq1 : q.readBeyondErr = true) (hz : q.zeroLenGrows = false) (hs : s.stack = memOff :: off :: len :: r)
    (hg : 3 ≤ s.gas) (he : s.err = none) (h64 : off < U64) (hl64 : len < U64) (hoff : src.size < off) :
    (copyToMem q src s).val =
      (some Ctl.next, { s with gas := s.gas - 3, stack := r, err := some .inputOutOfBounds }) := by
  rw [copyToMem_impl_err q src s memOff off len r hq1 hs hg h64 hl64 ((C16m.subslice_behaviour src off len).1 hoff)]
  show (M.bind (pushErr _) _ _).val = _
  rw [bind_val (pushErr_none _ { s with gas := s.gas - 3, stack := r } he)]
  show (M.bind (memWrite _ _ _) _ _).val = _
  rw [bind_val (memWrite_zero_spec q memOff .empty _ hz rfl)]
  rfl

/-- The same with the memory expansion the cost lookup asks for in front, as the interpreter runs the instruction: the memory
    afterwards represents the specification memory with the same bytes (only the active words have grown, and that growth
    was charged); the specification would have written `len` zero-padded bytes here. -/
theorem copy_impl_beyond_run (q : Quirks) (src : ByteArray) (s : Frame) (m : Mem) (memOff off len : Nat) (r : List Nat)
    (hq1 : q.readBeyondErr = true) (hz : q.zeroLenGrows = false) (hr : Rep s.mem m) (hs : s.stack = memOff :: off :: len :: r)
    (hg : 3 ≤ s.gas) (he : s.err = none) (h64 : off < U64) (hoff : src.size < off) (hl : 0 < len)
    (hcap : memOff + len ≤ memCap) :
    ∃ s', ((expandMemory (memNeed memOff len) >>= fun _ => copyToMem q src) s).val = (some Ctl.next, s') ∧
      Rep s'.mem (m.touch memOff len) ∧ (∀ i, byteAt s'.mem i = m.byte i) ∧ s'.stack = r ∧
      s'.err = some .inputOutOfBounds := by
  have hc := memCap_val
  have hU := U64_val
  show ∃ s', (M.bind (expandMemory _) _ s).val = _ ∧ _
  rw [bind_val (expand_val _ s he (memNeed_le memOff len hl hcap))]
  have hx := copy_impl_beyond q src
    { s with
        mem := grow s.mem (memNeed memOff len)
        bigAlloc := if memNeed memOff len ≤ s.mem.size then s.bigAlloc else max s.bigAlloc (memNeed memOff len - s.mem.size) }
    memOff off len r hq1 hz hs hg he h64 (by omega) hoff
  rw [hx]
  have hrep := rep_grow_need hr memOff len hl hcap
  refine ⟨_, rfl, hrep, ?_, rfl, rfl⟩
  intro i
  rw [hrep.2 i]
  unfold Mem.touch; split <;> rfl

/-- CALLDATACOPY / CODECOPY as implemented, source offset within the data (or at its end): the instruction agrees with the
    specification — the memory afterwards represents the specification's `copyIn`, bytes beyond the end of the data are zeros. -/
theorem copy_impl_agrees (q : Quirks) (src : ByteArray) (s : Frame) (m : Mem) (memOff off len : Nat) (r : List Nat)
    (hq1 : q.readBeyondErr = true) (hr : Rep s.mem m) (he : s.err = none)
    (hs : s.stack = memOff :: off :: len :: r) (hg : 3 ≤ s.gas) (hl : 0 < len) (hcap : memOff + len ≤ memCap)
    (hoff : off ≤ src.size) (h64 : off + len < U64) :
    ∃ s', ((expandMemory (memNeed memOff len) >>= fun _ => copyToMem q src) s).val = (some Ctl.next, s') ∧
      Rep s'.mem (m.copyIn memOff (bl src) off len) ∧ s'.stack = r ∧ s'.err = none := by
  have hc := memCap_val
  have hU := U64_val
  have hlen : len ≤ memCap := by omega
  obtain ⟨b, hb1, hb2⟩ := (C16m.subslice_behaviour src off len).2 hoff h64 hlen
  have hsz : b.size = len := by rw [← bl_length, hb2, length_readPad]
  show ∃ s', (M.bind (expandMemory _) _ s).val = _ ∧ _
  rw [bind_val (expand_val _ s he (memNeed_le memOff len hl hcap))]
  have hx := copyToMem_impl_ok q src
    { s with
        mem := grow s.mem (memNeed memOff len)
        bigAlloc := if memNeed memOff len ≤ s.mem.size then s.bigAlloc else max s.bigAlloc (memNeed memOff len - s.mem.size) }
    memOff off len r b hq1 hs hg (by omega) (by omega) hb1
  rw [hx]
  show ∃ s', (M.bind (memWrite _ _ _) _ _).val = _ ∧ _
  rw [bind_val (memWrite_ok _ _ _ _ (Or.inl (by omega)) (by omega))]
  refine ⟨_, rfl, ?_, rfl, he⟩
  have := rep_access_write hr memOff b (by omega) (by omega)
  rw [hsz, hb2] at this
  exact this

/-- CALLDATACOPY (0x37) and CODECOPY (0x39) in implementation mode, source offset beyond the call data resp. the code:
    InputOutOfBounds, nothing written. -/
theorem calldatacopy_codecopy_impl_fail (child : ChildFn) (env : Env) (s : Frame) (memOff off len : Nat) (r : List Nat)
    (hq : env.q = Quirks.impl) (hs : s.stack = memOff :: off :: len :: r) (hg : 3 ≤ s.gas) (he : s.err = none)
    (h64 : off < U64) (hl64 : len < U64) :
    (env.input.size < off → (execRegular child env 0x37 s).val =
      (some Ctl.next, { s with gas := s.gas - 3, stack := r, err := some .inputOutOfBounds })) ∧
    (env.code.size < off → (execRegular child env 0x39 s).val =
      (some Ctl.next, { s with gas := s.gas - 3, stack := r, err := some .inputOutOfBounds })) := by
  have h1 : env.q.readBeyondErr = true := by rw [hq]; rfl
  have h2 : env.q.zeroLenGrows = false := by rw [hq]; rfl
  rw [(C16m.copy_instructions child env).1, (C16m.copy_instructions child env).2]
  exact ⟨copy_impl_beyond env.q env.input s memOff off len r h1 h2 hs hg he h64 hl64,
    copy_impl_beyond env.q env.code s memOff off len r h1 h2 hs hg he h64 hl64⟩

/-- CALLDATACOPY (0x37) and CODECOPY (0x39) in implementation mode, source offset within the call data resp. the code: the
    specification's zero-padded copy. -/
theorem calldatacopy_codecopy_impl_agree (child : ChildFn) (env : Env) (s : Frame) (m : Mem) (memOff off len : Nat)
    (r : List Nat) (hq : env.q = Quirks.impl) (hr : Rep s.mem m) (he : s.err = none)
    (hs : s.stack = memOff :: off :: len :: r) (hg : 3 ≤ s.gas) (hl : 0 < len) (hcap : memOff + len ≤ memCap)
    (h64 : off + len < U64) :
    (off ≤ env.input.size →
      ∃ s', ((expandMemory (memNeed memOff len) >>= fun _ => execRegular child env 0x37) s).val = (some Ctl.next, s') ∧
        Rep s'.mem (m.copyIn memOff (bl env.input) off len) ∧ s'.stack = r ∧ s'.err = none) ∧
    (off ≤ env.code.size →
      ∃ s', ((expandMemory (memNeed memOff len) >>= fun _ => execRegular child env 0x39) s).val = (some Ctl.next, s') ∧
        Rep s'.mem (m.copyIn memOff (bl env.code) off len) ∧ s'.stack = r ∧ s'.err = none) := by
  have h1 : env.q.readBeyondErr = true := by rw [hq]; rfl
  rw [(C16m.copy_instructions child env).1, (C16m.copy_instructions child env).2]
  exact ⟨fun ho => copy_impl_agrees env.q env.input s m memOff off len r h1 hr he hs hg hl hcap ho h64,
    fun ho => copy_impl_agrees env.q env.code s m memOff off len r h1 hr he hs hg hl hcap ho h64⟩

-- ---------------------------------------------------------------- 3. jumps to 2^64 and beyond, as implemented

/-- JUMP as implemented with a destination of 2^64 or more (recorded deviation `data_offset_uint64`): `Pop64` raises
    IntegerOverflow and reads the word as 0, and the jump to position 0 is still attempted.
    When position 0 is a valid destination the program counter becomes 0; otherwise nothing else changes (the
    InvalidJumpDest of the attempt is dropped, the error sink keeps the first error). -/
theorem jump_huge_impl (child : ChildFn) (env : Env) (s : Frame) (to : Nat) (r : List Nat)
    (hob : env.opBits = opcodeBits env.code) (hsz : env.code.size < 2 ^ 64) (hs : s.stack = to :: r)
    (hg : 1 ≤ s.gas) (h64 : U64 ≤ to) (hq : env.q.dataOffsetU64 = true) (he : s.err = none) :
    (ValidJump (bl env.code) 0 → (execRegular child env 0x56 s).val =
      (some Ctl.jumped, { s with gas := s.gas - 1, stack := r, err := some .integerOverflow, pc := 0 })) ∧
    (¬ ValidJump (bl env.code) 0 → (execRegular child env 0x56 s).val =
      (some Ctl.jumped, { s with gas := s.gas - 1, stack := r, err := some .integerOverflow })) := by
  rw [jump_huge_exec child env s to r hs hg h64 hq he]
  constructor
  · intro hv
    show (M.bind (jumpTo _ _) _ _).val = _
    rw [bind_val (jumpTo_valid env _ 0 hob hsz hv)]
    rfl
  · intro hv
    show (M.bind (jumpTo _ _) _ _).val = _
    rw [bind_val ((jumpTo_invalid env _ 0 hob hsz hv).trans (pushErr_some _ .integerOverflow _ rfl))]
    rfl

/-- JUMPI as implemented with a non-zero condition and a destination of 2^64 or more: IntegerOverflow, and no jump is
    attempted (the destination is not read with `Pop64`): the program counter stays. -/
theorem jumpi_huge_impl (child : ChildFn) (env : Env) (s : Frame) (to c : Nat) (r : List Nat) (hs : s.stack = to :: c :: r)
    (hg : 2 ≤ s.gas) (hc : c ≠ 0) (h64 : U64 ≤ to) (hq : env.q.dataOffsetU64 = true) (he : s.err = none) :
    (execRegular child env 0x57 s).val =
      (some Ctl.jumped, { s with gas := s.gas - 2, stack := r, err := some .integerOverflow }) :=
  jumpi_huge_exec child env s to c r hs hg hc h64 hq he

/-- A frame with a pending error ends at the top of the next iteration with that error, whatever the program counter is:
    after `jump_huge_impl` / `jumpi_huge_impl` the frame fails with IntegerOverflow. -/
theorem pending_error_stops (child : ChildFn) (env : Env) (s : Frame) (e : Err) (he : s.err = some e) :
    (step child env s).val = (some (.done .empty (some e)), s) := by
  unfold step
  simp only [he]

-- ---------------------------------------------------------------- 4. the size the gas function charges for

/-- **Memory is expanded only after the expansion has been charged.**  One iteration of the interpreter looks the cost up,
    and only if the frame can pay it, expands the memory — by exactly the size the lookup reported — and goes on.
    If the frame cannot pay, it stops with InsufficientGas and the memory is left as the lookup left it. -/
theorem expansion_follows_charge (child : ChildFn) (env : Env) (op : Nat) (s : Frame) (cm : Nat × Nat) (s1 : Frame)
    (h1 : ((noteSeen op >>= fun _ => gasLookUp env.q env.callee (opInfo op)) s).val = (some cm, s1)) :
    (cm.1 ≤ s1.gas → (stepBody child env op s).val =
      ((expandMemory cm.2 >>= fun _ => getF >>= fun s =>
          match s.err with
          | some e => pure (Step.done .empty (some e))
          | none => exec child env op >>= finish) { s1 with gas := s1.gas - cm.1 }).val) ∧
    (s1.gas < cm.1 → (stepBody child env op s).val = (some (.done .empty (some .insufficientGas)), s1)) := by
  unfold stepBody
  constructor
  · intro hle
    show (M.bind _ _ s).val = _
    rw [bind_val h1]
    show (M.bind (chargeOrStop _) _ s1).val = _
    have hc : (chargeOrStop cm.1 s1).val = (some true, { s1 with gas := s1.gas - cm.1 }) := by
      simp only [chargeOrStop, hle, if_true]
    rw [bind_val hc]
    rfl
  · intro hlt
    show (M.bind _ _ s).val = _
    rw [bind_val h1]
    show (M.bind (chargeOrStop _) _ s1).val = _
    have hc : (chargeOrStop cm.1 s1).val = (some false, s1) := by
      have : ¬ cm.1 ≤ s1.gas := by omega
      simp only [chargeOrStop, this, if_false]
    rw [bind_val hc]
    rfl

/-- MLOAD, MSTORE (32 bytes) and MSTORE8 (1 byte) with the offset `o` on top of the stack: the lookup reports
    `memNeed o 32` resp. `memNeed o 1` — what `mload_refines` / `mstore_refines` / `mstore8_refines` expand by. -/
theorem charged_size_word_access (q : Quirks) (self : Nat) (s : Frame) (o : Nat) (r : List Nat) (hs : s.stack = o :: r)
    (hg : 3 ≤ s.gas) (cost mem : Nat) (s' : Frame) (he : s'.err = none) :
    ((gasLookUp q self (opInfo 0x51) s).val = (some (cost, mem), s') → Charged q cost mem (memNeed o 32)) ∧
    ((gasLookUp q self (opInfo 0x52) s).val = (some (cost, mem), s') → Charged q cost mem (memNeed o 32)) ∧
    ((gasLookUp q self (opInfo 0x53) s).val = (some (cost, mem), s') → Charged q cost mem (memNeed o 1)) := by
  have hl : 0 < s.stack.length := by rw [hs]; simp
  have h0 : s.stack.getD 0 0 = o := by rw [hs]; rfl
  rw [opInfo_eq_infoOf 0x51 (by decide), opInfo_eq_infoOf 0x52 (by decide), opInfo_eq_infoOf 0x53 (by decide)]
  refine ⟨fun h => ?_, fun h => ?_, fun h => ?_⟩
  · have := charged_memUint64 q self _ s 0 32 (by decide) (by decide) (by decide) hl hg cost mem s' h he
    rw [h0] at this; exact this
  · have := charged_memUint64 q self _ s 0 32 (by decide) (by decide) (by decide) hl hg cost mem s' h he
    rw [h0] at this; exact this
  · have := charged_memUint64 q self _ s 0 1 (by decide) (by decide) (by decide) hl hg cost mem s' h he
    rw [h0] at this; exact this

/-- CALLDATACOPY (0x37), CODECOPY (0x39), RETURNDATACOPY (0x3e) with memory offset, data offset and length on the stack:
    the lookup reports `memNeed memOff len` — what `copy_refines` / `returndatacopy_refines` expand by. -/
theorem charged_size_copy (q : Quirks) (self : Nat) (op : Nat) (hop : op = 0x37 ∨ op = 0x39 ∨ op = 0x3e) (s : Frame)
    (memOff off len : Nat) (r : List Nat) (hs : s.stack = memOff :: off :: len :: r) (hg : 6 ≤ s.gas)
    (cost mem : Nat) (s' : Frame) (h : (gasLookUp q self (opInfo op) s).val = (some (cost, mem), s')) (he : s'.err = none) :
    Charged q cost mem (memNeed memOff len) := by
  have hl : 2 < s.stack.length := by rw [hs]; simp
  have h0 : s.stack.getD 0 0 = memOff := by rw [hs]; rfl
  have h2 : s.stack.getD 2 0 = len := by rw [hs]; rfl
  rcases hop with rfl | rfl | rfl
  all_goals (
    rw [opInfo_eq_infoOf _ (by decide)] at h
    have := charged_mem64 q self _ s 0 2 (by decide) (by decide) (by omega) hl hg cost mem s' h he
    rw [h0, h2] at this; exact this)

/-- EXTCODECOPY (0x3c): the address comes first, then memory offset, code offset and length. -/
theorem charged_size_extcodecopy (q : Quirks) (self : Nat) (s : Frame) (addr memOff off len : Nat) (r : List Nat)
    (hs : s.stack = addr :: memOff :: off :: len :: r) (hg : 6 ≤ s.gas)
    (cost mem : Nat) (s' : Frame) (h : (gasLookUp q self (opInfo 0x3c) s).val = (some (cost, mem), s')) (he : s'.err = none) :
    Charged q cost mem (memNeed memOff len) := by
  have hl : 3 < s.stack.length := by rw [hs]; simp
  have h1 : s.stack.getD 1 0 = memOff := by rw [hs]; rfl
  have h3 : s.stack.getD 3 0 = len := by rw [hs]; rfl
  rw [opInfo_eq_infoOf _ (by decide)] at h
  have := charged_mem64 q self _ s 1 3 (by decide) (by decide) (by omega) hl hg cost mem s' h he
  rw [h1, h3] at this; exact this

/-- SHA3 (0x20), LOG0 … LOG4 (0xa0 … 0xa4), RETURN (0xf3), REVERT (0xfd) with offset and length on top of the stack: the
    lookup reports `memNeed o l`, the size of the `memRead o l` these instructions then perform. -/
theorem charged_size_read_window (q : Quirks) (self : Nat) (op : Nat)
    (hop : op = 0x20 ∨ op = 0xa0 ∨ op = 0xa1 ∨ op = 0xa2 ∨ op = 0xa3 ∨ op = 0xa4 ∨ op = 0xf3 ∨ op = 0xfd) (s : Frame)
    (o l : Nat) (r : List Nat) (hs : s.stack = o :: l :: r) (hg : 6 ≤ s.gas)
    (cost mem : Nat) (s' : Frame) (h : (gasLookUp q self (opInfo op) s).val = (some (cost, mem), s')) (he : s'.err = none) :
    Charged q cost mem (memNeed o l) := by
  have hl : 1 < s.stack.length := by rw [hs]; simp
  have h0 : s.stack.getD 0 0 = o := by rw [hs]; rfl
  have h1 : s.stack.getD 1 0 = l := by rw [hs]; rfl
  rcases hop with rfl | rfl | rfl | rfl | rfl | rfl | rfl | rfl
  all_goals (
    rw [opInfo_eq_infoOf _ (by decide)] at h
    have := charged_mem64 q self _ s 0 1 (by decide) (by decide) (by omega) hl hg cost mem s' h he
    rw [h0, h1] at this; exact this)

/-- CALL (0xf1) and CALLCODE (0xf2): gas, address, value, input window, output window.  The lookup reports the larger of the
    needs of the two windows, so both the `memRead` of the input and the `memWrite` of the output lie within what was charged. -/
theorem charged_size_call (q : Quirks) (self : Nat) (op : Nat) (hop : op = 0xf1 ∨ op = 0xf2) (s : Frame)
    (g addr value inOff inSize retOff retSize : Nat) (r : List Nat)
    (hs : s.stack = g :: addr :: value :: inOff :: inSize :: retOff :: retSize :: r) (hg : 12 ≤ s.gas)
    (cost mem : Nat) (s' : Frame) (h : (gasLookUp q self (opInfo op) s).val = (some (cost, mem), s')) (he : s'.err = none) :
    Charged q cost mem (max (memNeed retOff retSize) (memNeed inOff inSize)) := by
  have hl : 6 < s.stack.length := by rw [hs]; simp
  have h3 : s.stack.getD 3 0 = inOff := by rw [hs]; rfl
  have h4 : s.stack.getD 4 0 = inSize := by rw [hs]; rfl
  have h5 : s.stack.getD 5 0 = retOff := by rw [hs]; rfl
  have h6 : s.stack.getD 6 0 = retSize := by rw [hs]; rfl
  rcases hop with rfl | rfl
  all_goals (
    rw [opInfo_eq_infoOf _ (by decide)] at h
    have := charged_mem64Comp q self _ s 5 6 3 4 (by decide) (by decide) (by omega) (by omega) (by omega) (by omega) hg
      cost mem s' h he
    rw [h3, h4, h5, h6] at this; exact this)

/-- DELEGATECALL (0xf4) and STATICCALL (0xfa): the same without the value operand. -/
theorem charged_size_call_novalue (q : Quirks) (self : Nat) (op : Nat) (hop : op = 0xf4 ∨ op = 0xfa) (s : Frame)
    (g addr inOff inSize retOff retSize : Nat) (r : List Nat)
    (hs : s.stack = g :: addr :: inOff :: inSize :: retOff :: retSize :: r) (hg : 12 ≤ s.gas)
    (cost mem : Nat) (s' : Frame) (h : (gasLookUp q self (opInfo op) s).val = (some (cost, mem), s')) (he : s'.err = none) :
    Charged q cost mem (max (memNeed retOff retSize) (memNeed inOff inSize)) := by
  have hl : 5 < s.stack.length := by rw [hs]; simp
  have h2 : s.stack.getD 2 0 = inOff := by rw [hs]; rfl
  have h3 : s.stack.getD 3 0 = inSize := by rw [hs]; rfl
  have h4 : s.stack.getD 4 0 = retOff := by rw [hs]; rfl
  have h5 : s.stack.getD 5 0 = retSize := by rw [hs]; rfl
  rcases hop with rfl | rfl
  all_goals (
    rw [opInfo_eq_infoOf _ (by decide)] at h
    have := charged_mem64Comp q self _ s 4 5 2 3 (by decide) (by decide) (by omega) (by omega) (by omega) (by omega) hg
      cost mem s' h he
    rw [h2, h3, h4, h5] at this; exact this)

/-- CREATE (0xf0) and CREATE2 (0xf5): endowment, then offset and size of the init code in memory. The lookup reports
    `memNeed off size`, the size of the `memRead off size` that fetches the init code. -/
theorem charged_size_create (q : Quirks) (self : Nat) (op : Nat) (hop : op = 0xf0 ∨ op = 0xf5) (s : Frame)
    (value off size : Nat) (r : List Nat) (hs : s.stack = value :: off :: size :: r) (hg : 6 ≤ s.gas)
    (cost mem : Nat) (s' : Frame) (h : (gasLookUp q self (opInfo op) s).val = (some (cost, mem), s')) (he : s'.err = none) :
    Charged q cost mem (memNeed off size) := by
  have hl : 2 < s.stack.length := by rw [hs]; simp
  have h1 : s.stack.getD 1 0 = off := by rw [hs]; rfl
  have h2 : s.stack.getD 2 0 = size := by rw [hs]; rfl
  rcases hop with rfl | rfl
  all_goals (
    rw [opInfo_eq_infoOf _ (by decide)] at h
    have := charged_mem64 q self _ s 1 2 (by decide) (by decide) (by omega) hl hg cost mem s' h he
    rw [h1, h2] at this; exact this)

/-- In implementation mode the second alternative of `Charged` is impossible: the lookup reports exactly the need. -/
theorem charged_impl (cost mem need : Nat) (h : Charged Quirks.impl cost mem need) : mem = need := by
  rcases h with h | ⟨h, _⟩
  · exact h
  · cases h

-- ---------------------------------------------------------------- the hypotheses are satisfiable (non-vacuity)

/-- `mstore_then_mload`: a fresh frame with gas and the operands 64 and 0xabcd -/
example : ∃ (s : Frame) (m : Mem), Rep s.mem m ∧ s.err = none ∧ s.stack = 64 :: 0xabcd :: [] ∧ 2 ≤ s.gas ∧ 64 + 32 ≤ memCap :=
  ⟨{ gas := 10, stack := [64, 0xabcd] }, Mem.empty, rep_empty, rfl, rfl, by decide, by decide⟩

/-- the mode hypotheses: `Quirks.impl` reads beyond the data as an error, pops offsets with `Pop64`, and (since the repair) a
    zero-length write touches nothing -/
example : Quirks.impl.readBeyondErr = true ∧ Quirks.impl.dataOffsetU64 = true ∧ Quirks.impl.zeroLenGrows = false := by decide

/-- `copy_impl_beyond` / `copy_impl_beyond_run`: four bytes of data, source offset 9, three bytes to memory offset 0 -/
example : ∃ (s : Frame) (m : Mem) (src : ByteArray), Rep s.mem m ∧ s.stack = 0 :: 9 :: 3 :: [] ∧ 3 ≤ s.gas ∧ s.err = none ∧
    9 < U64 ∧ 3 < U64 ∧ src.size < 9 ∧ 0 + 3 ≤ memCap :=
  ⟨{ gas := 10, stack := [0, 9, 3] }, Mem.empty, ⟨#[1, 2, 3, 4]⟩, rep_empty, rfl, by decide, rfl, by decide, by decide,
    by decide, by decide⟩

/-- `copy_impl_agrees`: the same data, source offset 2, three bytes (one of them padding) -/
example : ∃ (s : Frame) (m : Mem) (src : ByteArray), Rep s.mem m ∧ s.stack = 0 :: 2 :: 3 :: [] ∧ 3 ≤ s.gas ∧ s.err = none ∧
    2 ≤ src.size ∧ 2 + 3 < U64 ∧ 0 + 3 ≤ memCap :=
  ⟨{ gas := 10, stack := [0, 2, 3] }, Mem.empty, ⟨#[1, 2, 3, 4]⟩, rep_empty, rfl, by decide, rfl, by decide, by decide, by decide⟩

/-- the specification's copy in that situation: bytes 3, 4 and a zero -/
example : readPad [1, 2, 3, 4] 2 3 = [3, 4, 0] := by decide

/-- `jump_huge_impl`: both cases occur — position 0 of the code 5b is a valid destination, position 0 of PUSH1 5b; JUMPDEST is not -/
example : ValidJump [0x5b] 0 ∧ ¬ ValidJump (bl exCode) 0 ∧ U64 ≤ 2 ^ 64 := by
  refine ⟨⟨by decide, by decide, IsInstr.zero⟩, ?_, by decide⟩
  intro h
  exact absurd h.2.1 (by decide)

/-- part 4, non-vacuity: the stack and gas hypotheses hold for a frame about to run MSTORE, the table rows name the rules the
    theorems use, and `memNeed 64 32` is 96 (three words) -/
example : ∃ s : Frame, s.stack = 64 :: [0xabcd] ∧ 3 ≤ s.gas ∧ s.err = none ∧
    (infoOf 0x52).mem = .memUint64 0 32 ∧ (infoOf 0x37).mem = .mem64 0 2 ∧ (infoOf 0xf1).mem = .mem64Comp 5 6 3 4 ∧
    (infoOf 0xf0).mem = .mem64 1 2 ∧ memNeed 64 32 = 96 :=
  ⟨{ gas := 100, stack := [64, 0xabcd] }, rfl, by decide, rfl, by decide, by decide, by decide, by decide, by decide⟩

end Shentu.Props.C16m2

#print axioms Shentu.Props.C16m2.spec_mload_after_mstore_mem
#print axioms Shentu.Props.C16m2.mstore_then_mload
#print axioms Shentu.Props.C16m2.mstore_then_mload_both_modes
#print axioms Shentu.Props.C16m2.copy_impl_beyond
#print axioms Shentu.Props.C16m2.copy_impl_beyond_run
#print axioms Shentu.Props.C16m2.copy_impl_agrees
#print axioms Shentu.Props.C16m2.calldatacopy_codecopy_impl_fail
#print axioms Shentu.Props.C16m2.calldatacopy_codecopy_impl_agree
#print axioms Shentu.Props.C16m2.jump_huge_impl
#print axioms Shentu.Props.C16m2.jumpi_huge_impl
#print axioms Shentu.Props.C16m2.pending_error_stops
#print axioms Shentu.Props.C16m2.expansion_follows_charge
#print axioms Shentu.Props.C16m2.charged_size_word_access
#print axioms Shentu.Props.C16m2.charged_size_copy
#print axioms Shentu.Props.C16m2.charged_size_extcodecopy
#print axioms Shentu.Props.C16m2.charged_size_read_window
#print axioms Shentu.Props.C16m2.charged_size_call
#print axioms Shentu.Props.C16m2.charged_size_call_novalue
#print axioms Shentu.Props.C16m2.charged_size_create
#print axioms Shentu.Props.C16m2.charged_impl
