import Shentu.Props.C17
/-
  C18 at the level of the VM model (`Shentu.EVM`, multi-frame): failed inner calls leave no trace,
  and calls cannot create gas.

  `settle` is the only place where the model lets the outcome of a callee frame touch the caller's
  frame (accounts, destroyed-account list, buffered events); `callFromSite` applies its result
  verbatim (`applySettled`) and `callRest` flushes exactly the events `settle` hands over.
  The differential driver checks that the model — with this rule — reproduces the accounts, balances,
  storage and logs the implementation produces for every generated call tree (profile `calls`).

  child_failure_no_effect     a callee that ends with an error (revert, out of gas, exception, failed value transfer):
                              the caller's view of every account, its destroyed-account list and its dirty flag are what
                              they were when the callee frame was opened, no event of the callee is handed over, and the
                              failure is reported to the CALL instruction
  static_caller_adopts_nothing   a read-only (STATICCALL) frame never adopts a callee's writes; a callee that wrote
                              turns into a failed call (IllegalWrite)
  success_adopts_callee       the successful, writing callee's cache becomes the caller's
  callee_gas_bounded          a callee frame never hands back more gas than it was given (any nesting depth)
  call_gas_never_increases    re-export: an instruction — CALL family included — never leaves the frame with more gas
                              than it had (C17.exec_gas_monotone; the cap of `withRefund`)
  Note (found while modelling, not an effect of the callee): a CALL to an address without an account creates
  that account in the CALLER's frame before the callee frame is opened; this creation stays when the call fails.
-/
namespace Shentu.Props.C18vm
open Shentu Shentu.EVM

/-- when the callee frame fails, the caller's frame is exactly as it was and receives no event -/
theorem child_failure_no_effect (readOnly : Bool) (w : World) (dirty : Bool) (removed : List Nat) (r : CallRes)
    (hfail : r.err.isSome = true) :
    (settle readOnly w dirty removed r).world = w ∧
    (settle readOnly w dirty removed r).removed = removed ∧
    (settle readOnly w dirty removed r).dirty = dirty ∧
    (settle readOnly w dirty removed r).res.logs = [] ∧
    (settle readOnly w dirty removed r).res.err = r.err := by
  unfold settle
  cases he : r.err with
  | none => simp [he] at hfail
  | some e => simp

/-- conversely: whenever the CALL instruction is told that the call failed (callee error, or the read-only caller
    refused the write-back), nothing of the callee reached the caller's frame -/
theorem reported_failure_no_effect (readOnly : Bool) (w : World) (dirty : Bool) (removed : List Nat) (r : CallRes)
    (hfail : (settle readOnly w dirty removed r).res.err.isSome = true) :
    (settle readOnly w dirty removed r).world = w ∧
    (settle readOnly w dirty removed r).removed = removed ∧
    (settle readOnly w dirty removed r).res.logs = [] := by
  unfold settle at hfail ⊢
  cases he : r.err with
  | some e => simp
  | none =>
    simp only [he] at hfail ⊢
    by_cases h1 : (readOnly && r.dirty) = true
    · simp [h1]
    · simp only [h1] at hfail ⊢
      by_cases h2 : r.dirty = true
      · simp [h2] at hfail
      · simp [h2] at hfail

/-- a read-only frame (the callee of a STATICCALL) never adopts a callee's cache -/
theorem static_caller_adopts_nothing (w : World) (dirty : Bool) (removed : List Nat) (r : CallRes) :
    (settle true w dirty removed r).world = w ∧ (settle true w dirty removed r).removed = removed := by
  unfold settle
  cases r.err with
  | some e => simp
  | none =>
    cases hd : r.dirty with
    | true => simp
    | false => simp

/-- … and a callee of a read-only frame that wrote anything makes the call fail -/
theorem static_caller_write_fails (w : World) (dirty : Bool) (removed : List Nat) (r : CallRes)
    (hok : r.err = none) (hw : r.dirty = true) :
    (settle true w dirty removed r).res.err = some .illegalWrite := by
  unfold settle
  simp [hok, hw]

/-- a successful callee that wrote: its cache becomes the caller's and its events are handed over -/
theorem success_adopts_callee (w : World) (dirty : Bool) (removed : List Nat) (r : CallRes)
    (hok : r.err = none) (hw : r.dirty = true) :
    (settle false w dirty removed r).world = r.world ∧ (settle false w dirty removed r).res.logs = r.logs ∧
    (settle false w dirty removed r).res.err = none := by
  unfold settle
  simp [hok, hw]

theorem packRes_gas (terr : Option Err) (o : Outcome) (s : Frame) : (packRes terr o s).gasLeft = s.gas := by
  cases o <;> rfl

theorem frameRun_gas_le (child : ChildFn) (env : Env) (s0 : Frame) : (frameRun child env s0).2.gas ≤ s0.gas := by
  unfold frameRun
  split
  · exact Nat.le_refl _
  · exact C17.run_gas_monotone child env _ s0

/-- a callee frame never hands back more gas than it was given -/
theorem runFrame_gas_le (child : ChildFn) (env : Env) (gas : Nat) (w : World) (removed : List Nat) :
    (runFrame child env gas w removed).gasLeft ≤ gas := by
  unfold runFrame
  simp only [packRes_gas]
  exact frameRun_gas_le child env _

/-- … at every nesting depth -/
theorem callee_gas_bounded (d : Nat) (env : Env) (gas : Nat) (w : World) (removed : List Nat) :
    (runDepth d env gas w removed).gasLeft ≤ gas := by
  cases d with
  | zero => exact Nat.le_refl _
  | succ n => exact runFrame_gas_le (runDepth n) env gas w removed

/-- gas never increases across an instruction, calls included -/
theorem call_gas_never_increases (child : ChildFn) (env : Env) (op : Nat) (s : Frame) :
    (exec child env op s).val.2.gas ≤ s.gas := C17.exec_gas_monotone child env op s

/-- the refund of a call is capped by the gas the frame had before the call, whatever the callee reports -/
theorem refund_capped (body : M (α × Nat)) (s : Frame) : (withRefund body s).val.2.gas ≤ s.gas :=
  (withRefund body s).property.1

end Shentu.Props.C18vm

#print axioms Shentu.Props.C18vm.child_failure_no_effect
#print axioms Shentu.Props.C18vm.reported_failure_no_effect
#print axioms Shentu.Props.C18vm.static_caller_adopts_nothing
#print axioms Shentu.Props.C18vm.static_caller_write_fails
#print axioms Shentu.Props.C18vm.success_adopts_callee
#print axioms Shentu.Props.C18vm.callee_gas_bounded
#print axioms Shentu.Props.C18vm.call_gas_never_increases
#print axioms Shentu.Props.C18vm.refund_capped
