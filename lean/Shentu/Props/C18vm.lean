import Shentu.Props.C17
import Shentu.Proofs.VmConserve
/-
  C18 at the level of the VM model (`Shentu.EVM`, multi-frame): failed inner calls leave no trace,
  and calls cannot create gas.

  `settle` is the only place where the model lets the outcome of a callee frame touch the caller's
  frame (accounts, destroyed-account list, buffered events); `callFromSite` applies its result
  verbatim (`applySettled`) and `callRest` flushes exactly the events `settle` hands over.
  The differential driver checks that the model — with this rule — reproduces the accounts, balances,
  storage and logs the implementation produces for every generated call tree (profile `calls`).

  child_failure_no_effect     a callee that ends with an error (revert, out of gas, exception, failed value transfer):
                              the caller's view of every account, its destroyed-account list and its dirty flag are what
                              they were when the callee frame was opened, no event of the callee is handed over, and the
                              failure is reported to the CALL instruction
  static_caller_adopts_nothing   a read-only (STATICCALL) frame never adopts a callee's writes; a callee that wrote
                              turns into a failed call (IllegalWrite)
  success_adopts_callee       the successful, writing callee's cache becomes the caller's
  callee_gas_bounded          a callee frame never hands back more gas than it was given (any nesting depth)
  call_gas_never_increases    re-export: an instruction — CALL family included — never leaves the frame with more gas
                              than it had (C17.exec_gas_monotone; the cap of `withRefund`)
  Note (found while modelling, not an effect of the callee): a CALL to an address without an account creates
  that account in the CALLER's frame before the callee frame is opened; this creation stays when the call fails.

  CREATE / CREATE2 (inside the model): the account to be created exists only in the constructor's frame (`createWorld`);
  `settleCreate` is the only place where the constructor's frame touches the creator's, `createAfter` applies it verbatim.

  constructor_failure_no_effect   a constructor that ends with an error (revert, out of gas, INVALID, any exception, an endowment
                              the creator cannot pay): no account, no code, no storage, no balance change, no destroyed
                              account and no event reaches the creator's frame; 0 is pushed, nothing goes into the creator's
                              error sink, the constructor's output is the return data
  created_account_only_in_child   before the constructor has succeeded the creator's own accounts do not contain the new address
                              (`createWorld` is handed to the child; the creator's frame is untouched until `settleCreate`)
  static_creator_adopts_nothing_create   a read-only creator never adopts the constructor's frame, and a constructor that
                              succeeded there fails the creator (error in its sink)
  creation_adopts_constructor the successful constructor's accounts become the creator's, with the returned bytes as the new
                              account's code and nothing else changed in that account (initChildCode_account); the events are
                              handed over
  refused_child_code_fails_creator   a constructor that succeeded but whose code InitChildCode refuses (the creator's metadata lists
                              permitted code hashes and this one is not among them; the account was destroyed; the address had
                              code): the error lands in the CREATOR's sink, and frame_with_error_stops: that frame ends with the
                              error at its next iteration, so its whole cache — the child's account, the storage its
                              constructor wrote, the endowment — is dropped by whoever called it
  enclosing_failure_discards_creation   a creation that succeeded inside a callee frame which then fails is gone with it:
                              the caller of that frame keeps the accounts it had (instance of child_failure_no_effect)
  execTop_failure_restores    a transaction whose outermost frame fails leaves every account as it was, whatever was
                              created, stored or destroyed on the way
  what survives a failed frame: the gas it used (callee_gas_bounded, constructor_gas_exact) and the CVM's sequence counter
                              (frame_seq_survives): the next CREATE in the transaction derives a different address
  constructor_gas_exact       the constructor runs on the creator's gas: afterwards the creator has exactly what the
                              constructor left (the `min` in `leaveGas` never bites for a frame of the model)
-/
namespace Shentu.Props.C18vm
open Shentu Shentu.EVM

/-- when the callee frame fails, the caller's frame is exactly as it was and receives no event -/
theorem child_failure_no_effect (readOnly : Bool) (w : World) (dirty : Bool) (removed : List Nat) (r : CallRes)
    (hfail : r.err.isSome = true) :
    (settle readOnly w dirty removed r).world = w ∧
    (settle readOnly w dirty removed r).removed = removed ∧
    (settle readOnly w dirty removed r).dirty = dirty ∧
    (settle readOnly w dirty removed r).res.logs = [] ∧
    (settle readOnly w dirty removed r).res.err = r.err := by
  unfold settle
  cases he : r.err with
  | none => simp [he] at hfail
  | some e => simp

/-- conversely: whenever the CALL instruction is told that the call failed (callee error, or the read-only caller
    refused the write-back), nothing of the callee reached the caller's frame -/
theorem reported_failure_no_effect (readOnly : Bool) (w : World) (dirty : Bool) (removed : List Nat) (r : CallRes)
    (hfail : (settle readOnly w dirty removed r).res.err.isSome = true) :
    (settle readOnly w dirty removed r).world = w ∧
    (settle readOnly w dirty removed r).removed = removed ∧
    (settle readOnly w dirty removed r).res.logs = [] := by
  unfold settle at hfail ⊢
  cases he : r.err with
  | some e => simp
  | none =>
    simp only [he] at hfail ⊢
    by_cases h1 : (readOnly && r.dirty) = true
    · simp [h1]
    · simp only [h1] at hfail ⊢
      by_cases h2 : r.dirty = true
      · simp [h2] at hfail
      · simp [h2] at hfail

/-- a read-only frame (the callee of a STATICCALL) never adopts a callee's cache -/
theorem static_caller_adopts_nothing (w : World) (dirty : Bool) (removed : List Nat) (r : CallRes) :
    (settle true w dirty removed r).world = w ∧ (settle true w dirty removed r).removed = removed := by
  unfold settle
  cases r.err with
  | some e => simp
  | none =>
    cases hd : r.dirty with
    | true => simp
    | false => simp

/-- … and a callee of a read-only frame that wrote anything makes the call fail -/
theorem static_caller_write_fails (w : World) (dirty : Bool) (removed : List Nat) (r : CallRes)
    (hok : r.err = none) (hw : r.dirty = true) :
    (settle true w dirty removed r).res.err = some .illegalWrite := by
  unfold settle
  simp [hok, hw]

/-- a successful callee that wrote: its cache becomes the caller's and its events are handed over -/
theorem success_adopts_callee (w : World) (dirty : Bool) (removed : List Nat) (r : CallRes)
    (hok : r.err = none) (hw : r.dirty = true) :
    (settle false w dirty removed r).world = r.world ∧ (settle false w dirty removed r).res.logs = r.logs ∧
    (settle false w dirty removed r).res.err = none := by
  unfold settle
  simp [hok, hw]

theorem packRes_gas (terr : Option Err) (o : Outcome) (s : Frame) : (packRes terr o s).gasLeft = s.gas := by
  cases o <;> rfl

theorem frameRun_gas_le (child : ChildFn) (env : Env) (s0 : Frame) : (frameRun child env s0).2.gas ≤ s0.gas := by
  unfold frameRun
  split
  · exact Nat.le_refl _
  · exact C17.run_gas_monotone child env _ s0

/-- a callee frame never hands back more gas than it was given -/
theorem runFrame_gas_le (child : ChildFn) (env : Env) (gas : Nat) (w : World) (removed : List Nat) :
    (runFrame child env gas w removed).gasLeft ≤ gas := by
  unfold runFrame
  simp only [packRes_gas]
  exact frameRun_gas_le child env _

/-- … at every nesting depth -/
theorem callee_gas_bounded (d : Nat) (env : Env) (gas : Nat) (w : World) (removed : List Nat) :
    (runDepth d env gas w removed).gasLeft ≤ gas := by
  cases d with
  | zero => exact Nat.le_refl _
  | succ n => exact runFrame_gas_le (runDepth n) env gas w removed

-- ---------------------------------------------------------------- CREATE / CREATE2

/-- a constructor that fails leaves nothing behind in the creator's frame: accounts (hence code, storage, balances — the
    endowment included), destroyed-account list and dirty flag are what they were, no event is handed over, 0 is pushed, the
    creator's error sink receives nothing, and the constructor's output becomes the return data -/
theorem constructor_failure_no_effect (q : Quirks) (readOnly : Bool) (creator addr : Nat) (w : World) (dirty : Bool)
    (removed : List Nat) (r : CallRes) (hfail : r.err.isSome = true) :
    (settleCreate q readOnly creator addr w dirty removed r).world = w ∧
    (settleCreate q readOnly creator addr w dirty removed r).removed = removed ∧
    (settleCreate q readOnly creator addr w dirty removed r).dirty = dirty ∧
    (settleCreate q readOnly creator addr w dirty removed r).logs = [] ∧
    (settleCreate q readOnly creator addr w dirty removed r).pushed = 0 ∧
    (settleCreate q readOnly creator addr w dirty removed r).err = none ∧
    (settleCreate q readOnly creator addr w dirty removed r).retBuf = r.ret := by
  unfold settleCreate
  cases he : r.err with
  | none => simp [he] at hfail
  | some e => simp

example : (settleCreate Quirks.impl false 1 2 [{ addr := 1, balance := 5 }] false []
    { err := some .executionReverted, world := [{ addr := 2, balance := 5, storage := [(0, 1)] }, { addr := 1 }] }).world
    = [{ addr := 1, balance := 5 }] := rfl

/-- conversely: whenever CREATE pushes 0 for an address that is not 0, the creator's accounts, destroyed-account list and
    events are untouched (failed constructor, or — specification mode — oversized code) -/
theorem create_pushes_zero_no_effect (q : Quirks) (readOnly : Bool) (creator addr : Nat) (w : World) (dirty : Bool)
    (removed : List Nat) (r : CallRes) (ha : addr ≠ 0)
    (h0 : (settleCreate q readOnly creator addr w dirty removed r).pushed = 0) :
    (settleCreate q readOnly creator addr w dirty removed r).world = w ∧
    (settleCreate q readOnly creator addr w dirty removed r).removed = removed ∧
    (settleCreate q readOnly creator addr w dirty removed r).logs = [] := by
  unfold settleCreate at h0 ⊢
  cases he : r.err with
  | some e => exact ⟨rfl, rfl, rfl⟩
  | none =>
    simp only [he] at h0 ⊢
    by_cases hsz : (!q.noCodeSizeLimit && decide (r.ret.size > maxCodeSize)) = true
    · rw [if_pos hsz]
      exact ⟨rfl, rfl, rfl⟩
    · rw [if_neg hsz] at h0
      cases readOnly <;> exact absurd h0 ha

/-- the new account is handed to the constructor's frame only: the accounts the creator keeps while the constructor runs
    are its own, and the child's differ from them at most in the new address -/
theorem created_account_only_in_child (w : World) (addr x : Nat) (hx : x ≠ addr) :
    (createWorld w addr).get x = w.get x := by
  unfold createWorld
  split
  · rfl
  · rw [get_put]
    exact if_neg hx

/-- a read-only creator (CREATE inside a STATICCALL frame) never adopts the constructor's frame -/
theorem static_creator_adopts_nothing_create (q : Quirks) (creator addr : Nat) (w : World) (dirty : Bool) (removed : List Nat)
    (r : CallRes) :
    (settleCreate q true creator addr w dirty removed r).world = w ∧
    (settleCreate q true creator addr w dirty removed r).removed = removed := by
  unfold settleCreate
  split
  · exact ⟨rfl, rfl⟩
  · split
    · exact ⟨rfl, rfl⟩
    · exact ⟨rfl, rfl⟩

/-- … and a constructor that succeeded in a read-only creator's frame fails the creator: an error goes into its sink -/
theorem static_creator_create_fails (creator addr : Nat) (w : World) (dirty : Bool) (removed : List Nat)
    (r : CallRes) (hok : r.err = none) :
    (settleCreate Quirks.impl true creator addr w dirty removed r).err.isSome = true := by
  unfold settleCreate
  have h1 : (!Quirks.impl.noCodeSizeLimit) = false := rfl
  simp only [hok, h1, Bool.false_and]
  cases h : (initChildErr Quirks.impl creator addr r.ret r.world) with
  | none => simp
  | some e => simp

/-- a successful constructor in a writable creator whose code `InitChildCode` accepts: the constructor's accounts become the
    creator's with the code stored (`initChildCode`, described by `initChildCode_account`), the events are handed over, the
    address is pushed, the creator's error sink receives nothing and the return-data buffer is empty -/
theorem creation_adopts_constructor (creator addr : Nat) (w : World) (dirty : Bool) (removed : List Nat) (r : CallRes)
    (hok : r.err = none) (hacc : initChildErr Quirks.impl creator addr r.ret r.world = none) :
    (settleCreate Quirks.impl false creator addr w dirty removed r).world = initChildCode creator addr r.ret r.world ∧
    (settleCreate Quirks.impl false creator addr w dirty removed r).removed = r.removed ∧
    (settleCreate Quirks.impl false creator addr w dirty removed r).logs = r.logs ∧
    (settleCreate Quirks.impl false creator addr w dirty removed r).pushed = addr ∧
    (settleCreate Quirks.impl false creator addr w dirty removed r).err = none ∧
    (settleCreate Quirks.impl false creator addr w dirty removed r).retBuf = .empty := by
  have h1 : (!Quirks.impl.noCodeSizeLimit) = false := rfl
  unfold settleCreate
  simp [hok, h1, hacc]

/-- what `initChildCode` changes: the new account gets the code and its forebear — address, balance and storage are what the
    constructor left — and no other account is touched -/
theorem initChildCode_account (creator addr : Nat) (code : ByteArray) (w : World) (acc : Account) (hacc : w.get addr = some acc) :
    (initChildCode creator addr code w).get addr = some { acc with code := code, forebear := forebearOf creator w } ∧
    ∀ x, x ≠ addr → (initChildCode creator addr code w).get x = w.get x := by
  have ha : acc.addr = addr := get_addr hacc
  unfold initChildCode
  simp only [hacc]
  constructor
  · rw [get_put]
    simp [ha]
  · intro x hx
    rw [get_put]
    have : ¬ x = ({ acc with code := code, forebear := forebearOf creator w } : Account).addr := by
      show ¬ x = acc.addr
      rw [ha]; exact hx
    exact if_neg this

example : (settleCreate Quirks.impl false 1 2 [{ addr := 1, balance := 5 }] false []
    { ret := ⟨#[0]⟩, world := [{ addr := 2, balance := 3 }, { addr := 1, balance := 2 }], dirty := true }).pushed = 2 := by decide

/-- a constructor whose code `InitChildCode` refuses — the creator's (or its forebear's) metadata lists permitted code hashes and
    the returned code is not among them, the account was destroyed by its constructor, … — puts the error into the CREATOR's
    error sink although the constructor itself succeeded -/
theorem refused_child_code_fails_creator (readOnly : Bool) (creator addr : Nat) (w : World) (dirty : Bool) (removed : List Nat)
    (r : CallRes) (e : Err) (hok : r.err = none) (hrej : initChildErr Quirks.impl creator addr r.ret r.world = some e) :
    (settleCreate Quirks.impl readOnly creator addr w dirty removed r).err = some e := by
  have h1 : (!Quirks.impl.noCodeSizeLimit) = false := rfl
  unfold settleCreate
  cases readOnly <;> simp [hok, h1, hrej]

/-- non-vacuity of the hypothesis (an instance that needs no hash): the constructor destroyed the account it was creating -/
example : initChildErr Quirks.impl 1 2 ⟨#[0]⟩ [{ addr := 1, balance := 2 }] = some .nonExistentAccount := by decide

/-- the instance the metadata check is about: the new account exists without code, the creator has no forebear and lists
    permitted code hashes, and neither the hash of the returned code nor its "deploy" hash is on the list.
    (Keccak-256 is not evaluable by the kernel, so the non-vacuity of `hperm` is an evaluated `#guard` below rather than an
    `example`; on the real interpreter the hypotheses are met by the `notListed` programs of the `create` profile.) -/
theorem whitelist_refuses (creator addr : Nat) (code : ByteArray) (w : World) (acc c : Account)
    (hacc : w.get addr = some acc) (hcode : acc.code.size = 0) (hc : w.get creator = some c) (hf : c.forebear = none)
    (hperm : codePermitted c.allowed code addr = false) :
    initChildErr Quirks.impl creator addr code w = some .invalidContractCode := by
  have hq : Quirks.impl.childCodeWhitelist = true := rfl
  unfold initChildErr ancestorOf
  simp [hacc, hcode, hc, hf, hperm, hq]

#guard codePermitted [7] ⟨#[0]⟩ 2 == false
#guard initChildErr Quirks.impl 1 2 ⟨#[0]⟩ [{ addr := 2, balance := 3 }, { addr := 1, balance := 2, allowed := [7] }] == some .invalidContractCode

/-- … and a frame with an error in its sink ends at once, with that error and no return data, whatever instruction is next: its
    result then falls under `child_failure_no_effect` (callee), `constructor_failure_no_effect` (constructor) or
    `execTop_failure_restores` (transaction), so nothing of the refused child — account, storage written by its constructor,
    endowment — persists -/
theorem frame_with_error_stops (child : ChildFn) (env : Env) (s : Frame) (e : Err) (he : s.err = some e) :
    (step child env s).val = (some (.done .empty (some e)), s) := by
  unfold step
  simp [he]

/-- a creation that succeeded inside a callee frame is gone when that frame fails: whatever accounts the failed frame held
    (`r.world`, the created contract among them), its caller continues with the accounts it had -/
theorem enclosing_failure_discards_creation (readOnly : Bool) (w : World) (dirty : Bool) (removed : List Nat) (r : CallRes)
    (created : Nat) (_hc : (r.world.get created).isSome = true) (hfail : r.err.isSome = true) :
    (settle readOnly w dirty removed r).world = w ∧ (settle readOnly w dirty removed r).res.logs = [] := by
  have h := child_failure_no_effect readOnly w dirty removed r hfail
  exact ⟨h.1, h.2.2.2.1⟩

/-- a transaction whose outermost frame does not finish without error leaves every account as it was -/
theorem execTop_failure_restores (env : Env) (gas : Nat) (pre : World) (depth : Nat)
    (hfail : (execTop env gas pre depth).err.isSome = true ∨ (execTop env gas pre depth).status ≠ 0) :
    (execTop env gas pre depth).world = pre := by
  unfold execTop at hfail ⊢
  dsimp only at hfail ⊢
  split
  · rename_i h
    simp only [Bool.and_eq_true, beq_iff_eq, Option.isNone_iff_eq_none] at h
    rw [if_pos (by simp [h.1, h.2])] at hfail
    rcases hfail with hf | hf
    · simp [h.2] at hf
    · exact absurd h.1 hf
  · rfl

/-- the CVM's sequence counter is handed back by a frame whatever its outcome (it is not part of the cache that is rolled back) -/
theorem frame_seq_survives (terr : Option Err) (o : Outcome) (s : Frame) : (packRes terr o s).seq = s.seq := by
  cases o <;> rfl

/-- the constructor runs on the creator's gas: a constructor frame that hands back no more than it was given — every frame of
    the model does, `callee_gas_bounded` — leaves the creator with exactly its remaining gas -/
theorem constructor_gas_exact (left : Nat) (s : Frame) (h : left ≤ s.gas) : (leaveGas left s).val.2.gas = left := by
  show min left s.gas = left
  exact Nat.min_eq_left h

/-- CREATE / CREATE2 never leave the frame with more gas than it had, whatever the constructor does -/
theorem create_gas_never_increases (child : ChildFn) (env : Env) (op v : Nat) (s : Frame) :
    (createRest child env op v s).val.2.gas ≤ s.gas := (createRest child env op v s).property.1

/-- gas never increases across an instruction, calls included -/
theorem call_gas_never_increases (child : ChildFn) (env : Env) (op : Nat) (s : Frame) :
    (exec child env op s).val.2.gas ≤ s.gas := C17.exec_gas_monotone child env op s

/-- the refund of a call is capped by the gas the frame had before the call, whatever the callee reports -/
theorem refund_capped (body : M (α × Nat)) (s : Frame) : (withRefund body s).val.2.gas ≤ s.gas :=
  (withRefund body s).property.1

end Shentu.Props.C18vm

#print axioms Shentu.Props.C18vm.child_failure_no_effect
#print axioms Shentu.Props.C18vm.reported_failure_no_effect
#print axioms Shentu.Props.C18vm.static_caller_adopts_nothing
#print axioms Shentu.Props.C18vm.static_caller_write_fails
#print axioms Shentu.Props.C18vm.success_adopts_callee
#print axioms Shentu.Props.C18vm.constructor_failure_no_effect
#print axioms Shentu.Props.C18vm.create_pushes_zero_no_effect
#print axioms Shentu.Props.C18vm.created_account_only_in_child
#print axioms Shentu.Props.C18vm.static_creator_adopts_nothing_create
#print axioms Shentu.Props.C18vm.static_creator_create_fails
#print axioms Shentu.Props.C18vm.creation_adopts_constructor
#print axioms Shentu.Props.C18vm.initChildCode_account
#print axioms Shentu.Props.C18vm.refused_child_code_fails_creator
#print axioms Shentu.Props.C18vm.whitelist_refuses
#print axioms Shentu.Props.C18vm.frame_with_error_stops
#print axioms Shentu.Props.C18vm.enclosing_failure_discards_creation
#print axioms Shentu.Props.C18vm.execTop_failure_restores
#print axioms Shentu.Props.C18vm.frame_seq_survives
#print axioms Shentu.Props.C18vm.constructor_gas_exact
#print axioms Shentu.Props.C18vm.create_gas_never_increases
#print axioms Shentu.Props.C18vm.callee_gas_bounded
#print axioms Shentu.Props.C18vm.call_gas_never_increases
#print axioms Shentu.Props.C18vm.refund_capped
