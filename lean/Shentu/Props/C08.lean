import Shentu.Props.C03a
import Shentu.Props.C03b
import Shentu.Proofs.HaltShieldOps
import Shentu.Proofs.HaltShieldPayout
import Shentu.Proofs.HaltOracleOps
import Shentu.Proofs.HaltGov
/-
  C08 — The chain never halts: block processing completes in every reachable state.

  "For every state the chain can reach through accepted transactions, beginning and ending the next block completes
   without a fatal error, whatever the block time and whatever proposals, expiries, withdrawals, payouts and task
   aggregations fall due in it.  A transaction can fail, but no transaction sequence can leave state that makes later
   block processing abort."

  In the models a Go panic is the error value `panicE site`; inside Begin/EndBlock it halts the chain.  The theorems
  below say: the block-level functions of the shield, oracle and governance models return `.ok` on every state that
  satisfies the invariants, and the invariants are kept by every operation (so by every history).

  Property theorems only; the work is in `Shentu/Proofs/Halt*.lean`.
-/
namespace Shentu.Props.C08
open Shentu Shentu.Shield Shentu.Shield.Coll Shentu.Shield.PoolLm Shentu.Halt

/-! # 1. Shield -/

/-! ## the invariants that the panic sites of the end-blocker need (beyond `CollInv` of C03a and `PoolInv` of C03b) -/

/-- site "unmodelled:stake-expiry": no purchase has both unstreamed fees and an original-staking record -/
theorem noFeeAndStake_def (s : State) :
    NoFeeAndStake s ↔ ∀ l ∈ s.lists, ∀ en ∈ l.entries, en.fees.raw > 0 →
      ¬ s.origStakings.any (fun o => o.1 == en.id && o.2 != 0) := Iff.rfl

/-- site "shield:negative-service-fees": the service-fee total covers the not-yet-streamed fees of all purchases.
    It is `≥`, not `=`: `MsgUpdatePool` with fees but without shield adds to the total without creating a purchase
    (and the model does not exclude that a purchase is deleted with fees that were never streamed).
    (That every entry's fees are non-negative is the clause `entryNonneg` of `PoolInv`.) -/
theorem feesInv_def (s : State) :
    FeesInv s ↔ sumI (fun l => sumI (fun en => en.fees.raw) l.entries) s.lists ≤ s.serviceFees.raw := Iff.rfl

/-! ## the end-blocker does not halt -/

/-- site "shield:expired-purchase-without-pool" (and every other failure of the expiry loop): under the books
    invariant the loop over the expiring-purchase queue completes, whatever pairs the queue names -/
theorem expireLoop_never_panics (now : Int) (ps : List (Nat × Addr)) (s : State) (hp : PoolInv s) :
    ∃ acc, expireLoop now ps { s := s, fees := Dec.zero, totalFees := s.serviceFees, totalShield := s.totalShield } = .ok acc :=
  expireLoop_total now ps _ (hp.toShieldInv.congr rfl rfl rfl rfl rfl)

/-- site "shield:negative-remaining" is unreachable: `distributeLoop` caps every share by what remains -/
theorem distribute_remaining_nonneg (total : Int) (fees : Dec) (ps : List Provider) (rem : Dec) (h : 0 ≤ rem.raw) :
    0 ≤ (distributeLoop total fees ps rem).2.raw := distributeLoop_rem_nonneg total fees ps rem h

/-- the first step of the end-blocker (`RemoveExpiredPurchasesAndDistributeFees`) completes -/
theorem expireAndDistribute_never_halts (e : Env) (s : State) (hp : PoolInv s) (hn : NoFeeAndStake s) (hf : FeesInv s)
    (hr : 0 ≤ s.remaining.raw) : ∃ s', expireAndDistribute e s = .ok s' :=
  expireAndDistribute_total e s hp.toShieldInv hn hf hr

/-- **"ending the next block completes without a fatal error" — x/shield's `EndBlocker`**, for every block time:
    expiry and fee distribution, completed withdrawals, pool closing.  All five panic / error sites are excluded:
    "expired-purchase-without-pool" by `PoolInv`, "unmodelled:stake-expiry" by `NoFeeAndStake`,
    "negative-service-fees" by `FeesInv`, "negative-remaining" by `0 ≤ remaining`,
    "withdrawal-without-provider" by `CollInv`. -/
theorem shield_endBlock_never_halts (e : Env) (s : State) (hc : CollInv s) (hp : PoolInv s) (hn : NoFeeAndStake s)
    (hf : FeesInv s) (hr : 0 ≤ s.remaining.raw) : ∃ s', Shield.endBlock e s = .ok s' := by
  rcases expireAndDistribute_never_halts e s hp hn hf hr with ⟨s1, h1⟩
  have hc1 := C03a.expireAndDistribute_preserves e s s1 hc h1
  rcases C03a.completeWithdrawals_never_panics e s1 hc1 with ⟨s2, h2⟩
  exact ⟨closePools s2, by unfold Shield.endBlock; rw [h1]; dsimp only; rw [h2]⟩

/-! ## the invariants along histories -/

/-- everything the end-blocker needs (`books` = `NoFeeAndStake`, the id bound of the staking records, `FeesInv`,
    `0 ≤ remaining`, `0 ≤ blockFees`), with the parameter fact that keeps `PoolInv` invariant under arbitrary purchase
    messages (`x/shield/types/params.go` validates a valid, i.e. non-negative, `MinShieldPurchase`) -/
structure HaltInv (s : State) : Prop where
  coll : CollInv s
  pool : PoolInv s
  books : FeeBooks s
  minPurchase : 0 ≤ s.params.minPurchase

/-- The inputs the preservation proofs need: amounts handed directly to the keeper-level functions are not negative
    (the messages check this themselves; governance hands back the `loss` it locked; the mint module funds block rewards
    with `sdk.Coins`).  No condition on messages, block times or the staking view. -/
def adm : C03b.Op → Prop
  | .purchaseCore e _ sh _ _ _ => 0 ≤ Coins.amountOf sh e.bond
  | .restoreShield _ _ _ loss => 0 ≤ loss
  | .claimEnds _ _ _ _ _ _ loss _ => 0 ≤ loss
  | .createReimbursement _ _ amount _ => 0 ≤ amount
  | .withdrawCollateral _ _ amount => 0 ≤ amount
  | .fundBlockRewards _ _ amt => 0 ≤ amt
  | _ => True

theorem orKeep_pred {P : State → Prop} {ls : Ledger × State} {r : Except Err (Ledger × State)} (hinv : P ls.2)
    (h : ∀ l' s', r = .ok (l', s') → P s') : P (C03b.orKeep ls r).2 := by
  unfold C03b.orKeep
  split
  · rename_i x; exact h x.1 x.2 rfl
  · exact hinv

theorem orKeepS_pred {P : State → Prop} {ls : Ledger × State} {r : Except Err State} (hinv : P ls.2)
    (h : ∀ s', r = .ok s' → P s') : P (C03b.orKeepS ls r).2 := by
  unfold C03b.orKeepS
  split
  · rename_i s'; exact h s' rfl
  · exact hinv

/-- one step keeps the collateral books (C03a, re-assembled over the operations of C03b's histories) -/
theorem step_collInv (ls : Ledger × State) (op : C03b.Op) (hadm : adm op) (hc : CollInv ls.2) (hp : PoolInv ls.2) :
    CollInv (C03b.step ls op).2 := by
  have htot : 0 ≤ ls.2.totalShield := hp.toShieldInv.totalNonneg
  cases op with
  | deposit e a c => exact orKeepS_pred hc (fun _ h => C03a.deposit_preserves _ _ _ _ _ hc h)
  | withdraw e a c => exact orKeepS_pred hc (fun _ h => C03a.withdraw_preserves _ _ _ _ _ hc h)
  | withdrawCollateral e a amt => exact orKeepS_pred hc (fun _ h => C03a.withdrawCollateral_preserves _ _ _ _ _ hc hadm h)
  | stakingHook e a b => exact orKeepS_pred hc (fun _ h => C03a.stakingHook_preserves _ _ _ _ _ hc h)
  | stakingChanged e a => exact orKeepS_pred hc (fun _ h => C03a.stakingChanged_preserves _ _ _ _ hc h)
  | purchaseCore e p sh a f st => exact orKeep_pred hc (fun _ _ h => C03a.purchaseCore_preserves _ _ _ _ _ _ _ _ _ _ hc h)
  | purchase e p sh a st => exact orKeep_pred hc (fun _ _ h => C03a.purchase_preserves _ _ _ _ _ _ _ _ _ hc h)
  | createPool e c sh f sp spa lim => exact orKeep_pred hc (fun _ _ h => C03a.createPool_preserves _ _ _ _ _ _ _ _ _ _ _ hc h)
  | updatePool e u p sh f lim => exact orKeep_pred hc (fun _ _ h => C03a.updatePool_preserves _ _ _ _ _ _ _ _ _ _ hc h)
  | pausePool u p act => exact orKeepS_pred hc (fun _ h => C03a.pausePool_preserves _ _ _ _ _ hc h)
  | updateSponsor u p sp spa => exact orKeepS_pred hc (fun _ h => C03a.updateSponsor_preserves _ _ _ _ _ _ hc h)
  | unstake e p a c => exact orKeepS_pred hc (fun _ h => C03a.unstake_preserves _ _ _ _ _ _ hc h)
  | withdrawRewards e a => exact orKeep_pred hc (fun _ _ h => C03a.withdrawRewards_preserves _ _ _ _ _ _ hc h)
  | withdrawReimbursement e pid a => exact orKeep_pred hc (fun _ _ h => C03a.withdrawReimbursement_preserves _ _ _ _ _ _ _ hc h)
  | delayWithdraws a amt u => exact orKeepS_pred hc (fun _ h => C03a.delayWithdraws_preserves _ _ _ _ _ hc h)
  | secureCollaterals e p a id loss dur =>
    exact orKeepS_pred hc (fun _ h => C03a.secureCollaterals_preserves _ _ _ _ _ _ _ _ hc h)
  | claimEnd loss => exact C03a.claimEnd_preserves _ _ hc
  | restoreShield p a id loss => exact C03a.restoreShield_preserves _ _ _ _ _ hc
  | createReimbursement e pid amt b =>
    exact orKeep_pred hc (fun _ _ h => (C03a.createReimbursement_preserves _ _ _ _ _ _ _ _ hc hadm htot h).1)
  | claimEnds e pid p r b id loss o =>
    exact orKeep_pred hc (fun _ _ h => C03a.claimEnds_preserves _ _ _ _ _ _ _ _ _ _ _ _ hc (fun _ => ⟨hadm, htot⟩) h)
  | expireAndDistribute e => exact orKeepS_pred hc (fun _ h => C03a.expireAndDistribute_preserves _ _ _ hc h)
  | completeWithdrawals e => exact orKeepS_pred hc (fun _ h => (C03a.completeWithdrawals_preserves _ _ _ hc h).1)
  | closePools => exact C03a.closePools_preserves _ hc
  | endBlock e => exact orKeepS_pred hc (fun _ h => C03a.endBlock_preserves _ _ _ hc h)
  | fundBlockRewards e a amt => exact C03a.fundBlockRewards_preserves _ _ _ _ _ hc

/-- one step keeps the shield / pool / purchase / stake books (C03b) -/
theorem step_poolInv (ls : Ledger × State) (op : C03b.Op) (hadm : adm op) (hp : PoolInv ls.2)
    (hmin : 0 ≤ ls.2.params.minPurchase) : PoolInv (C03b.step ls op).2 := by
  cases op with
  | purchase e p sh a st => exact C03b.orKeep_inv hp (fun _ _ h => C03b.purchase_preserves_of_minPurchase h hp hmin)
  | purchaseCore e p sh a f st => exact C03b.step_preserves ls _ hadm hp
  | restoreShield p a id loss => exact C03b.step_preserves ls _ hadm hp
  | claimEnds e pid p r b id loss o => exact C03b.step_preserves ls _ (fun _ => hadm) hp
  | _ => exact C03b.step_preserves ls _ trivial hp

/-- one step keeps the fee books: `NoFeeAndStake`, the id bound of the staking records, `FeesInv`, and the signs of
    the two fee pots -/
theorem step_feeBooks (ls : Ledger × State) (op : C03b.Op) (hadm : adm op) (hp : PoolInv ls.2)
    (hb : FeeBooks ls.2) : FeeBooks (C03b.step ls op).2 := by
  have hsh := hp.toShieldInv
  cases op with
  | deposit e a c => exact orKeepS_pred hb (fun _ h => hb.frameP (deposit_frameP h))
  | withdraw e a c => exact orKeepS_pred hb (fun _ h => hb.frameP (withdraw_frameP h))
  | withdrawCollateral e a amt => exact orKeepS_pred hb (fun _ h => hb.frameP (withdrawCollateral_frameP h))
  | stakingHook e a b => exact orKeepS_pred hb (fun _ h => hb.frameP (stakingHook_frameP h))
  | stakingChanged e a => exact orKeepS_pred hb (fun _ h => hb.frameP (stakingChanged_frameP h))
  | purchaseCore e p sh a f st => exact orKeep_pred hb (fun _ _ h => purchaseCore_feeBooks h hsh hb)
  | purchase e p sh a st => exact orKeep_pred hb (fun _ _ h => purchase_feeBooks h hsh hb)
  | createPool e c sh f sp spa lim => exact orKeep_pred hb (fun _ _ h => createPool_feeBooks h hsh hb)
  | updatePool e u p sh f lim => exact orKeep_pred hb (fun _ _ h => updatePool_feeBooks h hsh hb)
  | pausePool u p act => exact orKeepS_pred hb (fun _ h => hb.frame (pausePool_frameF h))
  | updateSponsor u p sp spa => exact orKeepS_pred hb (fun _ h => hb.frame (updateSponsor_frameF h))
  | unstake e p a c => exact orKeepS_pred hb (fun _ h => hb.frame (unstake_frameF h))
  | withdrawRewards e a => exact orKeep_pred hb (fun _ _ h => withdrawRewards_feeBooks h hb)
  | withdrawReimbursement e pid a => exact orKeep_pred hb (fun _ _ h => hb.frame (withdrawReimbursement_frameF h))
  | delayWithdraws a amt u => exact orKeepS_pred hb (fun _ h => hb.frame (delayWithdraws_frameF h))
  | secureCollaterals e p a id loss dur => exact orKeepS_pred hb (fun _ h => secureCollaterals_feeBooks h hsh hb)
  | claimEnd loss => exact hb.frame (claimEnd_frameF _ loss)
  | restoreShield p a id loss => exact restoreShield_feeBooks hsh hb
  | createReimbursement e pid amt b => exact orKeep_pred hb (fun _ _ h => hb.frameP (createReimbursement_frameP h))
  | claimEnds e pid p r b id loss o => exact orKeep_pred hb (fun _ _ h => claimEnds_feeBooks h hsh hb)
  | expireAndDistribute e => exact orKeepS_pred hb (fun _ h => expireAndDistribute_feeBooks h hsh hb)
  | completeWithdrawals e => exact orKeepS_pred hb (fun _ h => hb.frameP (completeWithdrawals_frameP h))
  | closePools => exact hb.frame (closePools_frameF _)
  | endBlock e => exact orKeepS_pred hb (fun _ h => endBlock_feeBooks h hsh hb)
  | fundBlockRewards e a amt => exact fundBlockRewards_feeBooks e ls.1 ls.2 a amt hadm hb

/-- "no transaction sequence can leave state that makes later block processing abort", one step: every operation of the
    model — message, hook, governance callback, block function; successful or failed — keeps `HaltInv` -/
theorem step_haltInv (ls : Ledger × State) (op : C03b.Op) (hadm : adm op) (hi : HaltInv ls.2) :
    HaltInv (C03b.step ls op).2 :=
  ⟨step_collInv ls op hadm hi.coll hi.pool, step_poolInv ls op hadm hi.pool hi.minPurchase,
   step_feeBooks ls op hadm hi.pool hi.books,
   by rw [C03b.step_params ls op hi.pool]; exact hi.minPurchase⟩

/-- … and every history does -/
theorem reachable_haltInv (ops : List C03b.Op) : ∀ (ls : Ledger × State), HaltInv ls.2 → (∀ op ∈ ops, adm op) →
    HaltInv (ops.foldl C03b.step ls).2 := by
  induction ops with
  | nil => intro ls hi _; exact hi
  | cons op ops ih =>
    intro ls hi ha
    simp only [List.foldl_cons]
    exact ih _ (step_haltInv ls op (ha op List.mem_cons_self) hi) (fun o ho => ha o (List.mem_cons_of_mem _ ho))

/-- **C08 for x/shield**: "for every state the chain can reach through accepted transactions … ending the next block
    completes without a fatal error, whatever the block time": after any history of operations (each with its own block
    time and staking view; failing steps leave the state unchanged) from a state satisfying the invariants, the
    end-blocker succeeds for every environment `e` — in particular for every block time, however long the gap and
    however many purchases and withdrawals fall due together. -/
theorem shield_never_halts_reachable (ops : List C03b.Op) (ls : Ledger × State) (hi : HaltInv ls.2)
    (ha : ∀ op ∈ ops, adm op) (e : Env) : ∃ s', Shield.endBlock e (ops.foldl C03b.step ls).2 = .ok s' := by
  have h := reachable_haltInv ops ls hi ha
  exact shield_endBlock_never_halts e _ h.coll h.pool h.books.noFeeStake h.books.fees h.books.money.remaining

/-- the empty store of a fresh chain satisfies the invariants: the histories have a starting point -/
theorem genesis_haltInv (s : State) (hp : s.pools = []) (hl : s.lists = []) (hk : s.stakes = []) (hpr : s.providers = [])
    (hw : s.withdraws = []) (ho : s.origStakings = []) (h1 : s.totalShield = 0) (h2 : s.stakingPool = 0)
    (h3 : s.totalCollateral = 0) (h4 : s.totalWithdrawing = 0) (h5 : s.serviceFees = Dec.zero) (h6 : s.remaining = Dec.zero)
    (h7 : s.blockFees = Dec.zero) (hmin : 0 ≤ s.params.minPurchase) : HaltInv s := by
  refine ⟨?_, ?_, ⟨?_, ?_, ?_, ?_, ?_⟩, hmin⟩
  · constructor <;> simp [hpr, hw, h3, h4]
  · constructor <;> constructor <;> simp [hp, hl, hk, h1, h2, sumStakes, entriesOf]
  · intro l hl'; rw [hl] at hl'; cases hl'
  · intro o ho'; rw [ho] at ho'; cases ho'
  · unfold FeesInv feeSum; rw [hl, h5]; decide
  · rw [h6]; decide
  · rw [h7]; decide

/-! ## a by-product: rewards are never negative

  `0 ≤ p.rewards` is the fourth conjunct of `BooksInv.provNonneg` (C03).  It is not needed for C08 — a negative reward could
  not make `remaining` negative, because `MsgWithdrawRewards` pays the whole part through the bank, which refuses negative
  amounts — but the lemmas are here.  It needs what `HaltInv` does not: a positive protection period and block times that do
  not run backwards (otherwise the streamed block share `serviceFees · (t − lastUpdate) / protection` is negative). -/

/-- block time does not run backwards: a block does not end before the last fee update -/
def timeOk : C03b.Op → State → Prop
  | .expireAndDistribute e, s => s.lastUpdate ≤ e.t
  | .endBlock e, s => s.lastUpdate ≤ e.t
  | _, _ => True

theorem step_rewardsNonneg (ls : Ledger × State) (op : C03b.Op) (ht : timeOk op ls.2) (hi : HaltInv ls.2)
    (hper : 0 < ls.2.params.protection) (hr : RewardsNonneg ls.2) : RewardsNonneg (C03b.step ls op).2 := by
  have hsh := hi.pool.toShieldInv
  have hb := hi.books
  have hcoll : ∀ p ∈ ls.2.providers, 0 ≤ p.collateral := fun p hp' => (hi.coll.provNonneg p hp').1
  cases op with
  | deposit e a c => exact orKeepS_pred hr (fun _ h => hr.frameP (deposit_frameP h))
  | withdraw e a c => exact orKeepS_pred hr (fun _ h => hr.frameP (withdraw_frameP h))
  | withdrawCollateral e a amt => exact orKeepS_pred hr (fun _ h => hr.frameP (withdrawCollateral_frameP h))
  | stakingHook e a b => exact orKeepS_pred hr (fun _ h => hr.frameP (stakingHook_frameP h))
  | stakingChanged e a => exact orKeepS_pred hr (fun _ h => hr.frameP (stakingChanged_frameP h))
  | purchaseCore e p sh a f st => exact orKeep_pred hr (fun _ _ h => hr.congr (purchaseCore_providers h))
  | purchase e p sh a st => exact orKeep_pred hr (fun _ _ h => hr.congr (purchase_providers h))
  | createPool e c sh f sp spa lim => exact orKeep_pred hr (fun _ _ h => hr.congr (createPool_providers h))
  | updatePool e u p sh f lim => exact orKeep_pred hr (fun _ _ h => hr.congr (updatePool_providers h))
  | pausePool u p act => exact orKeepS_pred hr (fun _ h => hr.frame (pausePool_frameF h))
  | updateSponsor u p sp spa => exact orKeepS_pred hr (fun _ h => hr.frame (updateSponsor_frameF h))
  | unstake e p a c => exact orKeepS_pred hr (fun _ h => hr.frame (unstake_frameF h))
  | withdrawRewards e a => exact orKeep_pred hr (fun _ _ h => withdrawRewards_rewards h hr)
  | withdrawReimbursement e pid a => exact orKeep_pred hr (fun _ _ h => hr.frame (withdrawReimbursement_frameF h))
  | delayWithdraws a amt u => exact orKeepS_pred hr (fun _ h => hr.frame (delayWithdraws_frameF h))
  | secureCollaterals e p a id loss dur => exact orKeepS_pred hr (fun _ h => hr.congr (secureCollaterals_providers h))
  | claimEnd loss => exact hr.congr rfl
  | restoreShield p a id loss => exact hr.congr (restoreShield_providers _ _ _ _ _)
  | createReimbursement e pid amt b => exact orKeep_pred hr (fun _ _ h => hr.frameP (createReimbursement_frameP h))
  | claimEnds e pid p r b id loss o => exact orKeep_pred hr (fun _ _ h => claimEnds_rewards h hr)
  | expireAndDistribute e => exact orKeepS_pred hr (fun _ h => expireAndDistribute_rewards h hsh hb hr hcoll hper ht)
  | completeWithdrawals e => exact orKeepS_pred hr (fun _ h => hr.frameP (completeWithdrawals_frameP h))
  | closePools => exact hr.frame (closePools_frameF _)
  | endBlock e => exact orKeepS_pred hr (fun _ h => endBlock_rewards h hsh hb hr hcoll hper ht)
  | fundBlockRewards e a amt => exact hr.congr rfl

/-- every step of the history meets `adm`, and `timeOk` in the state it is run in -/
def AdmissibleT : List C03b.Op → Ledger × State → Prop
  | [], _ => True
  | op :: ops, ls => adm op ∧ timeOk op ls.2 ∧ AdmissibleT ops (C03b.step ls op)

/-- along histories with monotone block time and a positive protection period no provider's rewards turn negative -/
theorem reachable_rewardsNonneg (ops : List C03b.Op) : ∀ (ls : Ledger × State), HaltInv ls.2 → 0 < ls.2.params.protection →
    RewardsNonneg ls.2 → AdmissibleT ops ls → RewardsNonneg (ops.foldl C03b.step ls).2 := by
  induction ops with
  | nil => intro ls _ _ hr _; exact hr
  | cons op ops ih =>
    intro ls hi hper hr ha
    simp only [List.foldl_cons]
    exact ih _ (step_haltInv ls op ha.1 hi) (by rw [C03b.step_params ls op hi.pool]; exact hper)
      (step_rewardsNonneg ls op ha.2.1 hi hper hr) ha.2.2

/-! ## the claim payout run by governance's end-blocker -/

/-- **the payout of an approved claim (`CreateReimbursement`), partial.**  The state-machine panics are excluded by the
    collateral books: "shield:provider-not-found" and "shield:payout-from-withdrawals" by `CollInv` (every provider of the
    snapshot is still there, its queued withdrawals add up to its `withdrawing`), "shield:forced-withdraw" by the staking
    view reporting no negative stake.  What remains is arithmetic, and is a hypothesis:
    * `s.totalCollateral ≠ 0` (site "shield:division-by-zero"),
    * `feasible …`: in the schedule the loop computes from the snapshot, every provider's share of the covered shield plus
      its payment fits into its collateral (else "shield:payout-from-withdrawals"), and the payments add up to the loss
      (else "shield:not-enough-payout").
    These two are NOT invariants of the model: `secureCollaterals` checks `totalClaimed + loss ≤ totalCollateral` when the
    claim is filed, but collateral requested for withdrawal after that can leave before the claim is paid when the
    withdraw period is shorter than the claim's voting period (see the example below).  The harness restricts the
    parameters so that this does not happen; it is a documented domain restriction. -/
theorem payout_never_halts_partial (e : Env) (l : Ledger) (s : State) (pid : Nat) (amount : Int) (b : Addr)
    (hi : CollInv s) (hT : s.totalCollateral ≠ 0) (hsh : 0 ≤ s.totalShield) (hamt : 0 ≤ amount)
    (hb : ∀ a x, e.bondedAfter a = some x → 0 ≤ x)
    (hfe : feasible (Dec.quo (Dec.ofInt s.totalShield) (Dec.ofInt s.totalCollateral))
      (Dec.quo (Dec.ofInt amount) (Dec.ofInt s.totalCollateral)) s.providers s.totalShield amount = true) :
    ∃ l' s', createReimbursement e l s pid amount b = .ok (l', s') :=
  createReimbursement_total e l s pid amount b hi hT hsh hamt hb hfe

/-- the other three outcomes of a claim proposal cannot fail at all -/
theorem claimEnds_other_never_halts (e : Env) (l : Ledger) (s : State) (pid poolID : Nat) (r b : Addr) (id : Nat) (loss : Int)
    (o : ClaimOutcome) (ho : o ≠ .paid) : ∃ l' s', claimEnds e l s pid poolID r b id loss o = .ok (l', s') := by
  cases o with
  | paid => exact absurd rfl ho
  | vetoed => exact ⟨_, _, rfl⟩
  | rejected => exact ⟨_, _, rfl⟩
  | failed => exact ⟨_, _, rfl⟩

/-- without collateral the payout panics -/
theorem payout_panics_without_collateral (e : Env) (l : Ledger) (s : State) (pid poolID : Nat) (r b : Addr) (id : Nat)
    (loss : Int) (h : s.totalCollateral = 0) :
    claimEnds e l s pid poolID r b id loss .paid = panicE "shield:division-by-zero" := by
  unfold claimEnds createReimbursement
  simp [h]

/-! ## non-vacuity (shield) -/

/-- `C03b.demo` with an original-staking record for the staked purchase 2 and block rewards waiting -/
def demo : State := { C03b.demo with origStakings := [(2, 40)], blockFees := Dec.ofInt 2 }

/-- the hypotheses of the theorems above are satisfiable by a store with a pool, a paid purchase with unstreamed fees, a
    staked purchase with its staking record, a provider, and fees in every pot -/
theorem demo_haltInv : HaltInv demo := by
  refine ⟨?_, C03b.demo_inv.frame' rfl rfl rfl rfl rfl rfl rfl, ⟨?_, ?_, ?_, ?_, ?_⟩, by decide⟩
  · constructor <;> decide
  · unfold NoFeeAndStake; decide
  · unfold OrigIdsLt; decide
  · unfold FeesInv feeSum feeOf; decide
  · decide
  · decide

/-- at time 150 purchase 1 expires and its fees stream: the end-blocker succeeds (as `shield_endBlock_never_halts` says) and
    moves fees into the provider's rewards -/
example : ((endBlock { C03b.demoEnv with t := 150 } demo).toOption.map
      (fun s => (s.lists.map (fun l => l.entries.map (·.id)), decide (0 < sumRewards s), s.blockFees.raw))) =
    some ([[2]], true, 0) := by decide

/-- a history: a paid and a staked purchase, block rewards, a block, a reward withdrawal, a claim lock … -/
def hist : List C03b.Op :=
  [.purchase C03b.demoEnv 1 [("uctk", 10)] "aa" false, .purchase C03b.demoEnv 1 [("uctk", 10)] "bb" true,
   .fundBlockRewards C03b.demoEnv "mint" 5, .endBlock { C03b.demoEnv with t := 150 },
   .withdrawRewards { C03b.demoEnv with t := 150 } "cc",
   .secureCollaterals { C03b.demoEnv with t := 160 } 1 "aa" 3 4 100]

/-- … is admissible … -/
example : ∀ op ∈ hist, adm op := by
  intro op hop
  simp only [hist, List.mem_cons, List.mem_nil_iff, or_false] at hop
  rcases hop with rfl | rfl | rfl | rfl | rfl | rfl <;> simp [adm]

/-- … and, checked independently by evaluation, the end-blocker succeeds in the state it reaches, also after a long gap
    in which everything falls due together; the staked purchase 4 got a staking record and no fees, the paid purchase 3
    fees and no record -/
example : ((endBlock { C03b.demoEnv with t := 100000 } (hist.foldl C03b.step (C03b.demoLedger, demo)).2).toOption.isSome = true) ∧
    (hist.foldl C03b.step (C03b.demoLedger, demo)).2.origStakings = [(2, 40), (4, 20)] ∧
    (hist.foldl C03b.step (C03b.demoLedger, demo)).2.lists.map (fun l => l.entries.map (fun en => (en.id, decide (en.fees.raw > 0)))) =
      [[(3, false)], [(2, false), (4, false)]] := by decide

/-- `payout_never_halts_partial`: the hypotheses hold for the state and payout of C03a's example (two providers, one with
    queued withdrawals, a payout of 90 out of 150) -/
example : CollInv C03a.Ex.s0 ∧ C03a.Ex.s0.totalCollateral ≠ 0 ∧
    feasible (Dec.quo (Dec.ofInt C03a.Ex.s0.totalShield) (Dec.ofInt C03a.Ex.s0.totalCollateral))
      (Dec.quo (Dec.ofInt 90) (Dec.ofInt C03a.Ex.s0.totalCollateral)) C03a.Ex.s0.providers C03a.Ex.s0.totalShield 90 = true ∧
    (∀ a x, C03a.Ex.e60.bondedAfter a = some x → 0 ≤ x) := by
  refine ⟨by constructor <;> decide, by decide, by decide, ?_⟩
  intro a x h
  simp only [C03a.Ex.e60] at h
  split at h
  · cases h; decide
  · split at h
    · cases h; decide
    · cases h

/-- The hypothesis `totalCollateral ≠ 0` / `feasible` of `payout_never_halts_partial` is not an invariant of the
    unrestricted model: with a withdraw period (10) shorter than the claim's voting time, the only provider withdraws
    everything after a claim of 50 has been locked; the end-blocker at time 60 releases the collateral (correctly: all
    invariants still hold), and when the claim passes at time 150 the payout panics — governance's end-blocker would
    halt.  (Known domain restriction: the harness keeps the withdraw period at least as long as the protection period.) -/
def drain : List C03b.Op :=
  [.secureCollaterals C03b.demoEnv 1 "aa" 1 50 100, .withdraw C03b.demoEnv "cc" [("uctk", 1000)],
   .endBlock { C03b.demoEnv with t := 60 }]

example : (∀ op ∈ drain, adm op) ∧
    (drain.foldl C03b.step (C03b.demoLedger, demo)).2.totalCollateral = 0 ∧
    (drain.foldl C03b.step (C03b.demoLedger, demo)).2.totalClaimed = 50 := by
  refine ⟨?_, ?_, ?_⟩
  · intro op hop
    simp only [drain, List.mem_cons, List.mem_nil_iff, or_false] at hop
    rcases hop with rfl | rfl | rfl <;> simp [adm]
  · decide
  · decide

example : claimEnds { C03b.demoEnv with t := 150 } (drain.foldl C03b.step (C03b.demoLedger, demo)).1
      (drain.foldl C03b.step (C03b.demoLedger, demo)).2 7 1 "aa" "aa" 1 50 .paid = panicE "shield:division-by-zero" :=
  payout_panics_without_collateral _ _ _ _ _ _ _ _ _ (by decide)

/-! # 2. Oracle -/

section Oracle
open Shentu.Oracle Shentu.Halt.Orc

/-- **"beginning … the next block completes without a fatal error" — x/oracle's `BeginBlocker`** (payment of the mature
    withdrawals; site "oracle:FinalizeMatureWithdraws-send"), under the funding invariant `Funded`: every pending
    withdrawal is a valid amount and the module account covers all of them.  The invariant is kept by the block function
    itself.  (C14 proves conservation per operator but carries no invariant about the module account's balance; that
    `Funded` is kept by the other oracle operations is not proved here.) -/
theorem oracle_beginBlock_never_halts (e : Oracle.Env) (l : Ledger) (s : Oracle.State) (hf : Funded e l s) :
    ∃ l' s', Oracle.beginBlock e l s = .ok (l', s') ∧ Funded e l' s' := beginBlock_total e l s hf

/-- **x/oracle's `EndBlocker`** (aggregation and bounty distribution of the tasks that close): no panic
    ("oracle:quo-zero-eps1", "oracle:quo-zero-eps2", "oracle:negative-coin") and no other failure, under `EndInv`:
    the parameters `Epsilon1`, `Epsilon2` are positive (explicit hypothesis: with a zero epsilon a response with score 0
    resp. 100 divides by zero), operators' collateral is not negative, bounties are valid amounts, scores lie in [0, 100].
    The threshold parameter needs no hypothesis.  The invariant is kept. -/
theorem oracle_endBlock_never_halts (e : Oracle.Env) (s : Oracle.State) (hi : EndInv e.bond s) :
    ∃ s', Oracle.endBlock e s = .ok s' ∧ EndInv e.bond s' := endBlock_total e s hi

/-- every successful oracle operation keeps `EndInv` … -/
theorem oracle_step_endInv (e : Oracle.Env) (ls : Ledger × Oracle.State) (op : Oracle.Op) (hi : EndInv e.bond ls.2) :
    EndInv e.bond (Oracle.step e ls op).2 := by
  unfold Oracle.step
  split
  · rename_i r hr
    exact stepE_endInv e ls.1 r.1 ls.2 r.2 op hr hi
  · exact hi

/-- … so along every history of oracle operations and blocks (one bond denomination; each step with its own height and
    time; failed transactions leave the state unchanged) the end-blocker never halts -/
theorem oracle_endBlock_never_halts_reachable (bond : Denom) (steps : List (Oracle.Env × Oracle.Op)) :
    ∀ (ls : Ledger × Oracle.State), EndInv bond ls.2 → (∀ eo ∈ steps, eo.1.bond = bond) →
      ∀ e : Oracle.Env, e.bond = bond →
        ∃ s', Oracle.endBlock e (steps.foldl (fun ls eo => Oracle.step eo.1 ls eo.2) ls).2 = .ok s' := by
  induction steps with
  | nil =>
    intro ls hi _ e he
    rcases oracle_endBlock_never_halts e ls.2 (by rw [he]; exact hi) with ⟨s', h, _⟩
    exact ⟨s', h⟩
  | cons eo rest ih =>
    intro ls hi hb e he
    simp only [List.foldl_cons]
    apply ih _ ?_ (fun x hx => hb x (List.mem_cons_of_mem _ hx)) e he
    have := hb eo List.mem_cons_self
    rw [← this]
    exact oracle_step_endInv eo.1 ls eo.2 (by rw [this]; exact hi)

/-! ## non-vacuity (oracle) -/

def oEnv : Oracle.Env := { h := 10, t := 1000, bond := "uctk", modAddr := "oracle" }
def oLedger : Ledger := { posts := [("oracle", "uctk", 200)], supply := [("uctk", 200)] }
/-- an operator, a mature withdrawal and a pending one, a task with one response that closes in block 10 -/
def oState : Oracle.State :=
  { ops := [{ addr := "op1", proposer := "op1", coll := [("uctk", 100)], rew := [] }],
    wds := [{ addr := "op1", amt := [("uctk", 5)], due := 10 }, { addr := "op2", amt := [("uctk", 7)], due := 30 }],
    total := [("uctk", 100)],
    tasks := [{ contract := "c", function := "f", begin := 5, bounty := [("uctk", 9)], expiration := 5000, creator := "u",
                responses := [{ op := "op1", score := 80, weight := 0, reward := [] }], result := 0, closing := 10,
                waiting := 5, status := 1 }],
    closing := [(10, [("c", "f")])],
    params := { lock := 2, minColl := 10, window := 5, aggRes := 50, threshold := 50, eps1 := 1, eps2 := 1, expDur := 100 } }

example : Funded oEnv oLedger oState := by
  refine ⟨by decide, ?_⟩
  intro d
  by_cases hd : d = "uctk"
  · subst hd; decide
  · have h1 : ("uctk" == d) = false := by simpa using fun h => hd h.symm
    simp [wdSum, oState, oEnv, oLedger, Ledger.balOf, Ledger.bal, h1]

example : EndInv oEnv.bond oState := by
  refine ⟨by decide, by decide, ?_, by unfold TasksOk; decide⟩
  intro a o h
  have hm := List.mem_of_find?_eq_some h
  simp only [oState, List.mem_singleton] at hm
  rw [hm]; decide

/-- the block functions evaluated: the mature withdrawal of 5 is paid, the task is aggregated (result 80) and the bounty
    of 9 goes to the only responder -/
example : ((Oracle.beginBlock oEnv oLedger oState).toOption.map (fun x => (x.1.balOf "op1" "uctk", x.2.wds.map (·.due)))) =
      some (5, [30]) ∧
    ((Oracle.endBlock oEnv oState).toOption.map (fun s => (s.tasks.map (fun t => (t.result, t.status)),
      s.ops.map (fun o => Coins.amountOf o.rew "uctk")))) = some ([(80, 2)], [9]) := by decide

end Oracle

/-! # 3. Governance -/

section Gov
open Shentu.Gov Shentu.Halt.Gv

/-- **x/gov's `EndBlocker`** (sites "gov:RefundDeposits-send", "gov:DeleteDeposits-burn"): under the escrow invariant —
    every recorded deposit is a valid amount and the module account holds at least the sum of all recorded deposits —
    no proposal that ends (dropped, rejected, failed, passed, vetoed, decided early) can make the refund or the burn
    panic, whatever falls due together; the invariant is kept.  (C11 proves that refunds and burns are exact; it carries no
    invariant about the module balance, so the invariant is stated here.) -/
theorem gov_endBlock_never_halts (e : Gov.Env) (w : Gov.World) (h : Escrow e w) :
    ∃ w', Gov.endBlock e w = .ok w' ∧ Escrow e w' := endBlock_total e w h

/-- the messages keep the escrow invariant: a deposit moves its coins into the module account as it is recorded
    (side condition: the depositor / proposer is not the module account itself, which cannot sign) -/
theorem gov_messages_keep_escrow (e : Gov.Env) (w w' : Gov.World) :
    (∀ pid a amt, addDeposit e w pid a amt = .ok w' → a ≠ e.modAddr → Escrow e w → Escrow e w') ∧
    (∀ proposer p0 deposit, submit e w proposer p0 deposit = .ok w' → proposer ≠ e.modAddr → Escrow e w → Escrow e w') ∧
    (∀ pid voter option, vote w pid voter option = .ok w' → Escrow e w → Escrow e w') :=
  ⟨fun pid a amt h hne hi => addDeposit_escrow e w w' pid a amt h hne hi,
   fun proposer p0 deposit h hne hi => submit_escrow e w w' proposer p0 deposit h hne hi,
   fun pid voter option h hi => vote_escrow e w w' pid voter option h hi⟩

/-! ## non-vacuity (governance) -/

def gEnv : Gov.Env := { t := 500, bond := "uctk", modAddr := "gov", stake := { vals := [], dels := [], totalBonded := 0 } }
/-- a proposal whose deposit period has ended, with two deposits in escrow -/
def gWorld : Gov.World :=
  { l := { posts := [("gov", "uctk", 30)], supply := [("uctk", 30)] },
    g := { proposals := [{ id := 1, kind := "text", status := 1, isCouncil := false, proposer := "u1", totalDeposit := [("uctk", 30)],
                           submitTime := 0, depositEnd := 100, votingStart := Gov.zeroTime, votingEnd := Gov.zeroTime,
                           tally := ⟨0, 0, 0, 0⟩ }],
           deposits := [{ pid := 1, depositor := "u1", amount := [("uctk", 10)] }, { pid := 1, depositor := "u2", amount := [("uctk", 20)] }],
           votes := [], nextId := 2,
           params := { minInitial := [], minDeposit := [("uctk", 100)], depositPeriod := 100, votingPeriod := 100,
                       default := ⟨Dec.zero, Dec.zero, Dec.zero⟩, security := ⟨Dec.zero, Dec.zero, Dec.zero⟩,
                       certStake := ⟨Dec.zero, Dec.zero, Dec.zero⟩ } },
    c := default }

example : Escrow gEnv gWorld := by
  refine ⟨by decide, ?_⟩
  intro d
  by_cases hd : d = "uctk"
  · subst hd; decide
  · have h1 : ("uctk" == d) = false := by simpa using fun h => hd h.symm
    simp [depSum, gWorld, gEnv, Ledger.balOf, Ledger.bal, h1]

/-- the end-blocker evaluated: the proposal is dropped and both depositors are refunded -/
example : ((Gov.endBlock gEnv gWorld).toOption.map (fun w => (w.l.balOf "u1" "uctk", w.l.balOf "u2" "uctk", w.l.balOf "gov" "uctk",
    w.g.deposits.length, w.g.proposals.length))) = some (10, 20, 0, 0, 0) := by decide

end Gov

end Shentu.Props.C08

#print axioms Shentu.Props.C08.shield_endBlock_never_halts
#print axioms Shentu.Props.C08.shield_never_halts_reachable
#print axioms Shentu.Props.C08.step_haltInv
#print axioms Shentu.Props.C08.genesis_haltInv
#print axioms Shentu.Props.C08.payout_never_halts_partial
#print axioms Shentu.Props.C08.payout_panics_without_collateral
#print axioms Shentu.Props.C08.oracle_beginBlock_never_halts
#print axioms Shentu.Props.C08.oracle_endBlock_never_halts
#print axioms Shentu.Props.C08.oracle_endBlock_never_halts_reachable
#print axioms Shentu.Props.C08.gov_endBlock_never_halts
#print axioms Shentu.Props.C08.gov_messages_keep_escrow
#print axioms Shentu.Props.C08.demo_haltInv
#print axioms Shentu.Props.C08.reachable_rewardsNonneg
