import Shentu.Proofs.VmConserve
/-
  C01 at the level of the VM model (`Shentu.EVM`): "no transfer path — … contract calls with value … — creates, destroys or
  silently drops coins".

  The interpreter model changes the accounts of a frame (`Frame.world`) in five places only: the value transfer that opens a
  CALL / CALLCODE frame (`openFrame` → `transfer`), SSTORE (`World.sstore`), the creation of a missing account by CALL or
  SELFDESTRUCT (`World.put { addr := a }`), SELFDESTRUCT itself, and the adoption of a successful callee's accounts by its
  caller (`settle`).  Each of them is shown to keep the sum of all balances (`total`) and the one-entry-per-address shape of
  the cache (`Keyed`).  That the composition — every generated program on the real interpreter — keeps the sum is what the
  monitor `value_conserved` of the VM engine checks on the implementation's own account dump.

  `selfdestruct_conserves_partial` holds because of the repair of SELFDESTRUCT naming the running contract itself
  (`Quirks.selfDestructSelfKeeps`); `selfdestruct_to_self_burnt_before` is the same model without the repair: the coins vanish.
  (The unconditional `selfdestruct_conserves` is false in the 64-bit overflow branch, see the note above the theorem.)
  Property theorems only; helper lemmas are in `Shentu/Proofs/VmConserve.lean`.
-/
namespace Shentu.Props.C01vm
open Shentu Shentu.EVM

/-- a value transfer moves coins; it creates none and destroys none -/
theorem transfer_conserves (w w' : World) (frm to value : Nat) (hk : Keyed w) (h : transfer w frm to value = .ok w') :
    total w' = total w ∧ Keyed w' :=
  transfer_total_keyed hk h

/-- opening a frame (the value transfer of CALL / CALLCODE inside the callee's cache) conserves, whether it succeeds or not -/
theorem openFrame_conserves (env : Env) (w : World) (hk : Keyed w) :
    total (openFrame env w).1 = total w ∧ Keyed (openFrame env w).1 := by
  unfold openFrame
  split
  · split
    · rename_i w' h
      exact transfer_total_keyed hk h
    · exact ⟨rfl, hk⟩
  · exact ⟨rfl, hk⟩

/-- SSTORE does not touch balances -/
theorem sstore_conserves (w : World) (a k v : Nat) (hk : Keyed w) :
    total (w.sstore a k v) = total w ∧ Keyed (w.sstore a k v) :=
  sstore_total_keyed a k v hk

/-- creating a missing account (CALL to, or SELFDESTRUCT in favour of, an address without one) adds no coins -/
theorem create_conserves (w : World) (a : Nat) (hk : Keyed w) (h : w.get a = none) :
    total (w.put { addr := a }) = total w ∧ Keyed (w.put { addr := a }) :=
  create_total_keyed hk h

/-
  The statement first written for SELFDESTRUCT is FALSE in one branch and is kept here for the record:

    /-- **SELFDESTRUCT conserves**: the balance moves to the beneficiary and the account goes; a contract that names itself keeps
        its balance and stays.  Whatever the instruction's outcome (success, error pushed, outside the model). -/
    theorem selfdestruct_conserves (env : Env) (hq : env.q.selfDestructSelfKeeps = true) (s s' : Frame) (r : Option (Option ByteArray))
        (hk : Keyed s.world) (h : (selfdestruct env s).val = (r, s')) :
        total s'.world = total s.world ∧ Keyed s'.world

  When the beneficiary's balance plus the contract's does not fit 64 bits, the model (like the code: the error goes into the
  `errors.Maybe` sink and the instruction goes on) pushes IntegerOverflow, does not credit the beneficiary, and still removes
  the contract's account: in that frame the contract's coins are gone (`selfdestruct_overflow_loses` below is the concrete
  case).  The frame then carries an error, so its accounts are never adopted by a caller (`settle_world`) nor written back
  (`execTop`).  What holds is the statement under either of two hypotheses: the coins of the cache fit 64 bits
  (`total s.world < U64`, what the chain's supply guarantees), or the instruction left no error in the frame's sink.
-/

/-- **SELFDESTRUCT conserves**: the balance moves to the beneficiary and the account goes; a contract that names itself keeps
    its balance and stays.  Whatever the instruction's outcome (success, error pushed, outside the model) — provided the coins
    of the cache fit the 64 bits of a balance, or else provided the instruction pushed no error.
    Added to the statement first written: `hb`. -/
theorem selfdestruct_conserves_partial (env : Env) (hq : env.q.selfDestructSelfKeeps = true) (s s' : Frame)
    (r : Option (Option ByteArray)) (hk : Keyed s.world) (h : (selfdestruct env s).val = (r, s'))
    (hb : total s.world < U64 ∨ s'.err = none) :
    total s'.world = total s.world ∧ Keyed s'.world := by
  have hg := ends_selfdestruct env hq (n := total s.world) ⟨hk, rfl⟩ s rfl
  rw [h] at hg
  have := hg hb
  exact ⟨this.2, this.1⟩

/-- … in particular whenever the cache holds fewer than 2^64 coins -/
theorem selfdestruct_conserves_bounded (env : Env) (hq : env.q.selfDestructSelfKeeps = true) (s s' : Frame)
    (r : Option (Option ByteArray)) (hk : Keyed s.world) (h : (selfdestruct env s).val = (r, s')) (hb : total s.world < U64) :
    total s'.world = total s.world ∧ Keyed s'.world :=
  selfdestruct_conserves_partial env hq s s' r hk h (.inl hb)

/-- … and whenever the frame goes on without error (the only case in which its accounts can reach the caller or the chain) -/
theorem selfdestruct_conserves_noerr (env : Env) (hq : env.q.selfDestructSelfKeeps = true) (s s' : Frame)
    (r : Option (Option ByteArray)) (hk : Keyed s.world) (h : (selfdestruct env s).val = (r, s')) (he : s'.err = none) :
    total s'.world = total s.world ∧ Keyed s'.world :=
  selfdestruct_conserves_partial env hq s s' r hk h (.inr he)

/-- the case that refutes the unconditional statement: the beneficiary 0x1000 holds 2^64 - 1 coins, the contract 0x2000 holds 7;
    the repaired model pushes IntegerOverflow and ends with the beneficiary's account alone -/
def overflowEnv : Env :=
  { code := .empty, opBits := .empty, input := .empty, caller := 0x1000, callee := 0x2000, origin := 0x1000, value := 0, height := 1,
    time := 0, chainId := 0 }
def overflowFrame : Frame :=
  { gas := 1000, stack := [0x1000], world := [{ addr := 0x1000, balance := 2 ^ 64 - 1 }, { addr := 0x2000, balance := 7 }] }

theorem selfdestruct_overflow_loses :
    overflowEnv.q.selfDestructSelfKeeps = true ∧ Keyed overflowFrame.world ∧ total overflowFrame.world = 2 ^ 64 + 6 ∧
    total (selfdestruct overflowEnv overflowFrame).val.2.world = 2 ^ 64 - 1 ∧
    (selfdestruct overflowEnv overflowFrame).val.2.err = some .integerOverflow := by
  decide +kernel

/-- the caller of a finished callee continues with its own accounts or with the callee's, nothing else -/
theorem settle_world (readOnly : Bool) (w : World) (dirty : Bool) (removed : List Nat) (r : CallRes) :
    (settle readOnly w dirty removed r).world = w ∨
    ((settle readOnly w dirty removed r).world = r.world ∧ r.err = none) := by
  unfold settle
  split
  · exact .inl rfl
  · rename_i he
    split
    · exact .inl rfl
    · split
      · exact .inr ⟨rfl, he⟩
      · exact .inl rfl

/-! ## the defect that was repaired, in the same model -/

/-- a contract holding 7 coins that executes `ADDRESS SELFDESTRUCT` (code 30 ff) -/
def selfEnv (q : Quirks) : Env :=
  { q := q, code := ⟨#[0x30, 0xff]⟩, opBits := opcodeBits ⟨#[0x30, 0xff]⟩, input := .empty, caller := 0x1000, callee := 0x2000,
    origin := 0x1000, value := 0, height := 1, time := 0, chainId := 0 }
def selfWorld : World := [{ addr := 0x1000, balance := 5 }, { addr := 0x2000, balance := 7, code := ⟨#[0x30, 0xff]⟩ }]

/-- without the repair (and in the EVM specification of the time) the 7 coins are gone: no account holds them, and the chain's
    recorded supply does not know — the violation of C01 that was exhibited on the real application -/
theorem selfdestruct_to_self_burnt_before :
    total (execTop (selfEnv { Quirks.impl with selfDestructSelfKeeps := false }) 100000 selfWorld).world = 5 := by
  decide +kernel

/-- with it, the contract keeps them -/
theorem selfdestruct_to_self_keeps_now : total (execTop (selfEnv Quirks.impl) 100000 selfWorld).world = 12 := by
  decide +kernel

example : Keyed selfWorld := by decide

end Shentu.Props.C01vm
