import Shentu.Proofs.OracleLemmas
/-
  C15 — Oracle tasks are scored once, fairly weighted, and never overpay the bounty.
  Property theorems only; the model consumes the guards and formulas regenerated from
  x/oracle/keeper/task.go, msg_server.go, operator.go (`Shentu/Gen/Oracle.lean`).
-/
namespace Shentu.Props.C15
open Shentu Shentu.Oracle

theorem tie_sites : Gen.Oracle.allFound = true := by decide

/-- every reward coin is built in the denomination of the bounty coin being distributed -/
theorem tie_reward_denoms : Gen.Oracle.rewardDenoms = ["bounty.Denom", "bounty.Denom", "bounty.Denom"] := by decide

/-! ### Responses -/

/-- A response is accepted exactly when the signer is a current operator, the task exists, the closing
    block has not passed, the operator has not responded before and the score is in [0,100]. -/
theorem respond_iff (e : Env) (s : State) (c f : String) (score : Int) (op : Addr) :
    (∃ s', respond e s c f score op = .ok s') ↔
      isOp s op = true ∧ ∃ t, findTask s (c ++ f) = some t ∧ e.h ≤ t.closing ∧
        t.responses.any (·.op == op) = false ∧ 0 ≤ score ∧ score ≤ 100 := by
  unfold respond
  constructor
  · intro ⟨s', h⟩
    split at h; · cases h
    rename_i hop
    split at h; · cases h
    rename_i t ht
    split at h; · cases h
    rename_i hcl
    split at h; · cases h
    rename_i hdup
    split at h; · cases h
    rename_i hsc
    refine ⟨by simpa using hop, t, ht, ?_, by simpa using hdup, ?_, ?_⟩
    · unfold Gen.Oracle.respClosed at hcl; bool_norm at hcl; omega
    · unfold Gen.Oracle.badScore Gen.Oracle.minScore Gen.Oracle.maxScore at hsc; bool_norm at hsc; omega
    · unfold Gen.Oracle.badScore Gen.Oracle.minScore Gen.Oracle.maxScore at hsc; bool_norm at hsc; omega
  · intro ⟨hop, t, ht, hcl, hdup, h0, h100⟩
    have h1 : Gen.Oracle.respClosed e.h t.closing = false := by
      unfold Gen.Oracle.respClosed; bool_norm; omega
    have h2 : Gen.Oracle.badScore score = false := by
      unfold Gen.Oracle.badScore Gen.Oracle.minScore Gen.Oracle.maxScore; bool_norm; omega
    simp [hop, ht, h1, hdup, h2]

/-- an accepted response appends exactly one entry for that operator -/
theorem respond_appends (e : Env) (s s' : State) (c f : String) (score : Int) (op : Addr)
    (h : respond e s c f score op = .ok s') :
    ∃ t, findTask s (c ++ f) = some t ∧
      s' = setTask s { t with responses := t.responses ++ [{ op := op, score := score, weight := 0, reward := [] }] } := by
  unfold respond at h
  ok_cases h
  rename_i t ht _ _ _
  injection h with h
  exact ⟨t, ht, h.symm⟩

/-! ### Removal -/

/-- A task is removed exactly when it exists, the signer is its creator, its closing block has passed,
    and it has expired unless the removal is forced. -/
theorem delete_iff (e : Env) (s : State) (c f : String) (force : Bool) (deleter : Addr) :
    (∃ s', deleteTask e s c f force deleter = .ok s') ↔
      ∃ t, findTask s (c ++ f) = some t ∧ (force = true ∨ t.expiration < e.t) ∧ t.closing < e.h ∧ t.creator = deleter := by
  unfold deleteTask
  constructor
  · intro ⟨s', h⟩
    split at h; · cases h
    rename_i t ht
    split at h; · cases h
    rename_i h1
    split at h; · cases h
    rename_i h2
    split at h; · cases h
    rename_i h3
    refine ⟨t, ht, ?_, ?_, ?_⟩
    · unfold Gen.Oracle.rmNotExpired at h1; bool_norm at h1
      cases force <;> simp_all
    · unfold Gen.Oracle.rmNotFinished at h2; bool_norm at h2; omega
    · simpa [Gen.Oracle.rmNotCreator] using h3
  · intro ⟨t, ht, h1, h2, h3⟩
    have a1 : Gen.Oracle.rmNotExpired force t.expiration e.t = false := by
      unfold Gen.Oracle.rmNotExpired; bool_norm; intro hf; rcases h1 with h | h
      · simp [h] at hf
      · exact h
    have a2 : Gen.Oracle.rmNotFinished e.h t.closing = false := by
      unfold Gen.Oracle.rmNotFinished; bool_norm; omega
    have a3 : Gen.Oracle.rmNotCreator t.creator deleter = false := by simp [Gen.Oracle.rmNotCreator, h3]
    simp [ht, a1, a2, a3]

/-! ### Creation: a task always closes in the future of its creation and cannot be replaced before it closed -/

/-- creation is refused for a negative waiting period and while an earlier task under the same key has not
    been closed by the end-blocker of its closing block -/
theorem create_guards (e : Env) (l l' : Ledger) (s s' : State) (c f : String) (b : Coins) (cr : Addr) (w v : Int)
    (h : createTask e l s c f b cr w v = .ok (l', s')) :
    0 ≤ (if w = 0 then s.params.window else w) ∧ ∀ old, findTask s (c ++ f) = some old → old.closing < e.h := by
  unfold createTask at h
  have hw : Gen.Oracle.waitIsDefault w = decide (w = 0) := by
    unfold Gen.Oracle.waitIsDefault; cases hd : decide (w = 0) <;> simp_all
  rw [hw] at h
  dsimp only at h
  generalize hwin : (if decide (w = 0) = true then s.params.window else w) = win at h
  have hwin' : (if w = 0 then s.params.window else w) = win := by
    by_cases h0 : w = 0 <;> simp_all
  rw [hwin']
  split at h; · cases h
  rename_i s0 hpre
  constructor
  · split at hpre; · cases hpre
    rename_i hbad
    unfold Gen.Oracle.ctBadWait at hbad; bool_norm at hbad
    omega
  · intro old hold
    split at hpre; · cases hpre
    rw [hold] at hpre
    dsimp only at hpre
    split at hpre; · cases hpre
    rename_i hnc
    unfold Gen.Oracle.ctNotClosed at hnc; bool_norm at hnc; omega

/-! ### Aggregation happens once -/

/-- only a pending task can be aggregated … -/
theorem aggregate_requires_pending (bond : Denom) (s s' : State) (key : String) (h : aggregate bond s key = .ok s') :
    ∃ t, findTask s key = some t ∧ t.status = 1 := by
  unfold aggregate at h
  split at h; · cases h
  rename_i t ht
  split at h; · cases h
  rename_i hp
  refine ⟨t, ht, ?_⟩
  unfold Gen.Oracle.aggPending at hp; bool_norm at hp
  omega

/-- … and aggregation leaves it succeeded or failed, so a second aggregation of the same record is refused -/
theorem aggregate_finalises (bond : Denom) (s s' : State) (key : String) (h : aggregate bond s key = .ok s') :
    ∃ t t', findTask s key = some t ∧ s' = setTask s t' ∧ t'.contract = t.contract ∧ t'.function = t.function ∧
      (t'.status = 2 ∨ t'.status = 3) ∧ t'.bounty = t.bounty ∧ t'.closing = t.closing := by
  unfold aggregate at h
  split at h; · cases h
  rename_i t ht
  split at h; · cases h
  split at h; · cases h
  rename_i a ha
  split at h
  · split at h
    · injection h with h; exact ⟨t, _, ht, h.symm, rfl, rfl, Or.inl rfl, rfl, rfl⟩
    · injection h with h; exact ⟨t, _, ht, h.symm, rfl, rfl, Or.inl rfl, rfl, rfl⟩
  · injection h with h; exact ⟨t, _, ht, h.symm, rfl, rfl, Or.inr rfl, rfl, rfl⟩

/-- with no usable response (no responder is a current operator with positive collateral) the task fails
    and keeps the default result -/
theorem no_usable_response_fails (bond : Denom) (s s' : State) (key : String) (t : Task) (a : Agg)
    (ht : findTask s key = some t) (hp : t.status = 1)
    (ha : aggFold bond s t.responses { result := Gen.Oracle.aggInit s.params.aggRes, total := 0, minC := 0, rs := [] } = .ok a)
    (hz : a.total ≤ 0) (h : aggregate bond s key = .ok s') :
    s' = setTask s { t with responses := a.rs, result := s.params.aggRes, status := 3 } := by
  unfold aggregate at h
  rw [ht] at h; dsimp only at h
  have : Gen.Oracle.aggPending (t.status : Int) = false := by
    unfold Gen.Oracle.aggPending; rw [hp]; decide
  rw [this, ha] at h
  dsimp only at h
  have : Gen.Oracle.aggHasCollateral a.total = false := by
    unfold Gen.Oracle.aggHasCollateral; bool_norm; omega
  simp only [this, Bool.false_eq_true, if_false] at h
  injection h with h; rw [← h]; rfl

/-- the accumulated numerator and denominator of the aggregation fold -/
theorem aggFold_sums (bond : Denom) (s : State) :
    ∀ (rs : List Response) (a a' : Agg), aggFold bond s rs a = .ok a' →
      ∃ ws : List (Int × Int), a'.total = a.total + (ws.map (·.2)).sum ∧
        a'.result = a.result + (ws.map (fun e => e.1 * e.2)).sum ∧
        ∀ e ∈ ws, ∃ r ∈ rs, e.1 = r.score ∧ collateralAmount bond s r.op = .ok (some e.2) := by
  intro rs
  induction rs with
  | nil => intro a a' h; simp only [aggFold] at h; injection h with h; subst h; exact ⟨[], by simp, by simp, by simp⟩
  | cons r rest ih =>
    intro a a' h
    unfold aggFold at h
    split at h
    · cases h
    · obtain ⟨ws, h1, h2, h3⟩ := ih _ _ h
      refine ⟨ws, h1, h2, fun e he => ?_⟩
      obtain ⟨r', hr', hh⟩ := h3 e he
      exact ⟨r', List.mem_cons_of_mem _ hr', hh⟩
    · rename_i amt hc
      dsimp only at h
      obtain ⟨ws, h1, h2, h3⟩ := ih _ _ h
      refine ⟨(r.score, amt) :: ws, ?_, ?_, ?_⟩
      · simp only [List.map_cons, List.sum_cons] at *; rw [h1]; omega
      · simp only [List.map_cons, List.sum_cons] at *; rw [h2]; unfold Gen.Oracle.aggAccum; omega
      · intro e he
        rcases List.mem_cons.mp he with h | h
        · subst h; exact ⟨r, List.mem_cons_self, rfl, hc⟩
        · obtain ⟨r', hr', hh⟩ := h3 e h
          exact ⟨r', List.mem_cons_of_mem _ hr', hh⟩

/-- **Fair weighting.** Outside the minimum-score regime the stored result is the truncated quotient of
    Σ scoreᵢ·collateralᵢ by Σ collateralᵢ: it lies within one unit of the collateral-weighted mean. -/
theorem mean_within_one (S W : Int) (hW : 0 < W) (hS : 0 ≤ S) :
    let r := Gen.Oracle.aggMean (Gen.Oracle.aggInit 0 + S) W
    r * W ≤ S ∧ S < (r + 1) * W := by
  unfold Gen.Oracle.aggMean Gen.Oracle.aggInit
  simp only [Int.zero_add]
  have h1 := Int.mul_tdiv_add_tmod S W
  have h2 := Int.tmod_lt_of_pos S hW
  have h3 := Int.tmod_nonneg W hS
  constructor
  · have : S.tdiv W * W = W * S.tdiv W := Int.mul_comm _ _
    omega
  · have : (S.tdiv W + 1) * W = W * S.tdiv W + W := by rw [Int.add_mul, Int.mul_comm]; omega
    omega

/-- the starting value of the sum does not depend on the default result (it is zero) -/
theorem aggInit_zero (aggRes : Int) : Gen.Oracle.aggInit aggRes = 0 := rfl

/-! ### The bounty is never overpaid -/

/-- Arithmetic core: integer shares `⌊b·wᵢ/W⌋` of a bounty `b` over non-negative weights summing to `W` never add up to more than `b`. -/
theorem shares_bounded (b W : Int) (ws : List Int) (hb : 0 ≤ b) (hW : 0 < W) (hws : ∀ w ∈ ws, 0 ≤ w) (hsum : ws.sum ≤ W) :
    (ws.map (fun w => Int.tdiv (b * w) W)).sum ≤ b := by
  have key : ∀ (l : List Int), (∀ w ∈ l, 0 ≤ w) → (l.map (fun w => Int.tdiv (b * w) W)).sum * W ≤ b * l.sum := by
    intro l
    induction l with
    | nil => intro _; simp
    | cons x xs ih =>
      intro hl
      have hx : 0 ≤ x := hl x List.mem_cons_self
      have ih' := ih (fun w hw => hl w (List.mem_cons_of_mem _ hw))
      simp only [List.map_cons, List.sum_cons]
      have h1 := Int.mul_tdiv_add_tmod (b * x) W
      have h3 := Int.tmod_nonneg W (Int.mul_nonneg hb hx)
      have : (Int.tdiv (b * x) W + (xs.map (fun w => Int.tdiv (b * w) W)).sum) * W =
             W * Int.tdiv (b * x) W + (xs.map (fun w => Int.tdiv (b * w) W)).sum * W := by
        rw [Int.add_mul, Int.mul_comm]
      rw [this, Int.mul_add]
      omega
  have h := key ws hws
  have hle : b * ws.sum ≤ b * W := Int.mul_le_mul_of_nonneg_left hsum hb
  have : (ws.map (fun w => Int.tdiv (b * w) W)).sum * W ≤ b * W := Int.le_trans h hle
  exact Int.le_of_mul_le_mul_right this hW

/-- the three payout formulas of `DistributeBounty` are exactly `⌊bounty · weight / total⌋` with the weight that
    `TotalValidTaskCollateral` summed — the two copies in the source agree -/
theorem payout_uses_summed_weight (b c sc e1 e2 tv : Int) :
    Gen.Oracle.dbAmountMin b c tv = Int.tdiv (b * Gen.Oracle.tvWeightMin c) tv ∧
    Gen.Oracle.dbAmountLow b c sc e1 tv = Int.tdiv (b * Gen.Oracle.tvWeightLow c sc e1) tv ∧
    Gen.Oracle.dbAmountHigh b c sc e2 tv = Int.tdiv (b * Gen.Oracle.tvWeightHigh c sc e2) tv :=
  ⟨rfl, rfl, rfl⟩

/-- … and select the same branch and the same responders -/
theorem payout_same_selection (s : State) (t : Task) (b : Nat) (r : Response) :
    branchDB s t = branch s t ∧ eligibleDB s b r = eligible s b r :=
  ⟨rfl, by cases b <;> rfl⟩

/-- weights are non-negative for scores in range and non-negative collateral -/
theorem weights_nonneg (c sc e1 e2 : Int) (hc : 0 ≤ c) (h0 : 0 ≤ sc) (h100 : sc ≤ 100) (he1 : 0 ≤ e1) (he2 : 0 ≤ e2) :
    0 ≤ Gen.Oracle.tvWeightMin c ∧ 0 ≤ Gen.Oracle.tvWeightLow c sc e1 ∧ 0 ≤ Gen.Oracle.tvWeightHigh c sc e2 := by
  unfold Gen.Oracle.tvWeightMin Gen.Oracle.tvWeightLow Gen.Oracle.tvWeightHigh Gen.Oracle.amplifier Gen.Oracle.maxScore
  refine ⟨hc, Int.tdiv_nonneg (Int.mul_nonneg (by decide) hc) (by omega), Int.tdiv_nonneg (Int.mul_nonneg (by decide) hc) (by omega)⟩

example : (([3, 5, 7] : List Int).map (fun w => Int.tdiv (10 * w) 15)).sum ≤ 10 := by decide

end Shentu.Props.C15

#print axioms Shentu.Props.C15.respond_iff
#print axioms Shentu.Props.C15.delete_iff
#print axioms Shentu.Props.C15.create_guards
#print axioms Shentu.Props.C15.aggregate_finalises
#print axioms Shentu.Props.C15.mean_within_one
#print axioms Shentu.Props.C15.shares_bounded
