import Shentu.Proofs.C05HLemmas
/-
  C05 over histories — shield claims as the governance module drives them.

  "A shield claim proposal is accepted only if the proposer holds the referenced purchase in the referenced pool,
   that purchase's protection has not ended, its remaining shield covers the loss, and the initial deposit is at
   least the larger of the minimum claim deposit and the deposit rate times the loss.  On acceptance exactly the
   loss is moved from that purchase, its pool and the total shield into the amount locked for claims; when the
   proposal ends the locked amount is released, and unless the claim was paid or vetoed the shield is restored to
   that same purchase."

  Shentu/Props/C05.lean proves these sentences for ONE step.  This file proves them over EVERY message-level history.

  The history model (Shentu/Proofs/C05HLemmas.lean).  A history is a list of `HOp`:
   * `accept e pid pool holder purchase loss duration deposit` — a claim proposal is submitted.  The admission check
     `claimAdmissible` runs, then the lock `secureCollaterals`, on the same state.  If the proposal id was used before,
     or either refuses, nothing changes.  Otherwise the claim is entered in the ghost log of open claims.
   * `ends e pid outcome` — governance's end-blocker ends proposal `pid`.  `claimEnds` runs with the pool, proposer,
     purchase and loss that the ghost log RECORDED at acceptance.  If `pid` is not open nothing changes.
     If `claimEnds` refuses (a payout that panics) or the outcome is `failed`, nothing changes and the claim stays open.
     Otherwise the claim moves from the open log to the list of ended proposal ids.
   * `msg m` — one of the thirteen other messages, hooks and block functions of the module (`Msg`), passed to `C03a.step`.
  The keeper functions `secureCollaterals`, `claimEnd`, `restoreShield`, `createReimbursement`, `claimEnds` do not occur
  on their own: they run only inside `accept` and `ends`.

  What is assumed.  One predicate on the start state, `Inv`: the locked amount `totalClaimed` equals the sum of the open
  losses in the ghost log, no proposal id occurs twice among the open claims or among the ended ones, and no open claim
  carries an ended id.  The state with an empty log and `totalClaimed = 0` satisfies it (`init_inv`); every step
  preserves it (`step_preserves_inv`).  Nothing is assumed about amounts, parameters, pools or the other books.

  What is proved, for every history, every start state with `Inv`, every environment in every step:
   (a) `locked_is_sum_of_open_claims`  the locked amount is the sum of the losses of the open claims;
   (b) `locks_undone`                  when no claim is open the locked amount is zero;
   (c) `each_claim_locked_once_released_once`  every step changes log and lock in one of three ways (nothing; one fresh
       claim opened, exactly its loss locked; one open claim closed, exactly its loss released); ids stay distinct;
       an ended id is never open again; `used_pid_never_accepted`, `ends_of_closed_pid_is_noop`;
   (d) `accepted_only_if_admissible`   every open claim was admitted by `claimAdmissible` in the state in which it was
       accepted, with the four admission facts of C05 spelled out;
   (e) `rejected_claim_restores_same_purchase`  accept, any number of other steps, rejected end: the purchase has its
       shield back.  Frame condition: no step in between ends this proposal, and the purchase and its pool READ the same
       before the end as right after the acceptance;
   (f) `history_is_C03a_history`      a message-level history is a history of `C03a` (same ledger, same store);
   (3) `failed_end_keeps_claim_open`   an end with outcome `failed`, or one whose payout refuses, changes nothing at all:
       the claim stays open and its loss stays locked (and stays counted in (a)).
-/
namespace Shentu.Props.C05H
open Shentu Shentu.Shield Shentu.Shield.PoolLm Shentu.C05H

/-! ## the start state and the invariant -/

/-- a start state: the given ledger and store, with an empty ghost log -/
def init (l : Ledger) (s : State) : HState := { l := l, s := s, g := { pending := [], ended := [] } }

/-- a store in which nothing is locked, with an empty log, satisfies the invariant -/
theorem init_inv (l : Ledger) (s : State) (h : s.totalClaimed = 0) : Inv (init l s) :=
  ⟨by rw [show (init l s).s.totalClaimed = s.totalClaimed from rfl, h]; rfl, List.nodup_nil, List.nodup_nil,
    fun _ hc => nomatch hc⟩

/-- every step of a history preserves the invariant -/
theorem step_preserves_inv (op : HOp) (x : HState) (hi : Inv x) : Inv (hstep op x) := hstep_inv op x hi

/-- every history preserves the invariant -/
theorem history_preserves_inv (ops : List HOp) (x : HState) (hi : Inv x) : Inv (hrun ops x) := hrun_inv ops x hi

/-- non-vacuity: `C03b.demo` with an empty log satisfies the invariant; so does a store with 15 locked and two open
    claims of 10 and 5 in the log -/
example : Inv (init C03b.demoLedger C03b.demo) := init_inv _ _ rfl
example : Inv { l := C03b.demoLedger, s := { C03b.demo with totalClaimed := 15 },
                g := { pending := [⟨8, 1, "bb", 2, 5, 50, 0⟩, ⟨7, 1, "aa", 1, 10, 50, 0⟩], ended := [3] } } := by
  constructor <;> decide

/-! ## (a), (b): the lock is the sum of the open claims -/

/-- **(a)** After every history the amount locked for claims equals the sum of the losses of the claims that were
    accepted and have not ended.  The start state may be any state whose ghost log agrees with its store (`Inv`). -/
theorem locked_is_sum_of_open_claims (ops : List HOp) (x : HState) (hi : Inv x) :
    (hrun ops x).s.totalClaimed = sumLoss (hrun ops x).g.pending := (hrun_inv ops x hi).locked

/-- (a) from a chain start: nothing locked, empty log -/
theorem locked_is_sum_of_open_claims_from_start (ops : List HOp) (l : Ledger) (s : State) (h : s.totalClaimed = 0) :
    (hrun ops (init l s)).s.totalClaimed = sumLoss (hrun ops (init l s)).g.pending :=
  locked_is_sum_of_open_claims ops _ (init_inv l s h)

/-- **(b)** When no claim is open, nothing is locked: every lock taken along the history has been undone. -/
theorem locks_undone (ops : List HOp) (x : HState) (hi : Inv x) (hnone : (hrun ops x).g.pending = []) :
    (hrun ops x).s.totalClaimed = 0 := by
  rw [locked_is_sum_of_open_claims ops x hi, hnone]; rfl

/-- no message, hook or block function other than `accept` and `ends` changes the locked amount -/
theorem messages_leave_lock (m : Msg) (x : HState) : (hstep (.msg m) x).s.totalClaimed = x.s.totalClaimed :=
  msg_totalClaimed m x.l x.s

/-! ## (c): each claim is locked once and released once -/

/-- **(c)** Along every history, each step does one of three things to the ghost log and the lock (`Delta`):
    it leaves both alone; or it opens ONE claim whose proposal id was never used and locks exactly its loss; or it closes
    ONE open claim, moves its id to the ended ids and releases exactly its loss.
    At every point the open claims have pairwise distinct ids and so have the ended ones, and no open claim has an ended id.
    An id that has ended stays ended, so it is never open again.
    Hence an accepted proposal contributes `+loss` exactly once and `−loss` at most once. -/
theorem each_claim_locked_once_released_once (pre post : List HOp) (op : HOp) (x : HState) (hi : Inv x) :
    Delta (hrun pre x) (hrun (pre ++ [op]) x) ∧
    ((hrun pre x).g.pending.map (·.pid)).Nodup ∧ (hrun pre x).g.ended.Nodup ∧
    (∀ pid ∈ (hrun pre x).g.ended,
      pid ∈ (hrun (pre ++ post) x).g.ended ∧ pid ∉ (hrun (pre ++ post) x).g.pending.map (·.pid)) := by
  have hpre := hrun_inv pre x hi
  refine ⟨?_, hpre.openNodup, hpre.endedNodup, ?_⟩
  · rw [hrun_append]; exact hstep_delta op _
  · intro pid hp
    rw [hrun_append]
    have hend := hrun_ended_mono post _ hp
    refine ⟨hend, ?_⟩
    intro hm
    rcases List.mem_map.mp hm with ⟨c, hc, hcp⟩
    exact (hrun_inv post _ hpre).disjoint c hc (hcp ▸ hend)

/-- the open and the ended proposal ids together have no duplicates, at the end of every history -/
theorem ids_never_reused (ops : List HOp) (x : HState) (hi : Inv x) :
    ((hrun ops x).g.pending.map (·.pid) ++ (hrun ops x).g.ended).Nodup := by
  have h := hrun_inv ops x hi
  refine List.nodup_append.mpr ⟨h.openNodup, h.endedNodup, ?_⟩
  intro a ha b hb hab
  rcases List.mem_map.mp ha with ⟨c, hc, hcp⟩
  exact h.disjoint c hc (hcp ▸ hab ▸ hb)

/-- an `accept` that names a proposal id of an open or ended claim changes nothing -/
theorem used_pid_never_accepted (e : Env) (pid pool : Nat) (holder : Addr) (purchase : Nat) (loss dur deposit : Int)
    (x : HState) (hu : x.g.usedPid pid = true) : hstep (.accept e pid pool holder purchase loss dur deposit) x = x :=
  acceptStep_used hu

/-- an `ends` for a proposal id that is not open (never accepted, or ended before) changes nothing -/
theorem ends_of_closed_pid_is_noop (e : Env) (pid : Nat) (o : ClaimOutcome) (x : HState)
    (h : pid ∉ x.g.pending.map (·.pid)) : hstep (.ends e pid o) x = x := by
  apply endsStep_notOpen
  apply List.find?_eq_none.mpr
  intro c hc hcp
  exact h (List.mem_map.mpr ⟨c, hc, by simpa using hcp⟩)

/-! ## (d): accepted only if admissible -/

/-- **(d)** Every open claim at the end of a history was open at the start or was accepted by a step of the history.
    In the second case the history splits at that step.  In the state reached before it the proposal id was unused and
    `claimAdmissible` admitted the claim with the recorded arguments.  The four admission facts of C05 held in that state:
    the holder's purchase list of that pool contains the purchase; its protection had not ended at the block time of the
    submission; its remaining shield covered the loss; the deposit was at least the minimum claim deposit and at least
    rate × loss. -/
theorem accepted_only_if_admissible (ops : List HOp) (x : HState) {c : Claim} (hc : c ∈ (hrun ops x).g.pending) :
    c ∈ x.g.pending ∨ ∃ pre post e dur,
      ops = pre ++ HOp.accept e c.pid c.pool c.holder c.purchase c.loss dur c.deposit :: post ∧ c.time = e.t ∧
      (hrun pre x).g.usedPid c.pid = false ∧
      claimAdmissible (hrun pre x).s c.time c.holder c.pool c.purchase c.loss c.deposit = none ∧
      ∃ en, findPurchase (hrun pre x).s c.pool c.holder c.purchase = some en ∧ c.time ≤ en.endTime ∧ c.loss ≤ en.shield ∧
        (hrun pre x).s.params.claimMinDeposit ≤ c.deposit ∧
        (Dec.mul (Dec.ofInt c.loss) (hrun pre x).s.params.claimDepositRate).raw ≤ (Dec.ofInt c.deposit).raw := by
  rcases hrun_pending_origin ops x hc with h | ⟨pre, post, e, dur, hops, ht, hu, hadm, _⟩
  · exact Or.inl h
  · rw [← ht] at hadm
    exact Or.inr ⟨pre, post, e, dur, hops, ht, hu, hadm, (C05.admitted_iff' _ _ _ _ _ _ _).mp hadm⟩

/-- (d) from a chain start (empty log): every open claim was accepted by a step of the history, admissibly -/
theorem accepted_only_if_admissible_from_start (ops : List HOp) (l : Ledger) (s : State) {c : Claim}
    (hc : c ∈ (hrun ops (init l s)).g.pending) :
    ∃ pre post e dur, ops = pre ++ HOp.accept e c.pid c.pool c.holder c.purchase c.loss dur c.deposit :: post ∧ c.time = e.t ∧
      claimAdmissible (hrun pre (init l s)).s c.time c.holder c.pool c.purchase c.loss c.deposit = none := by
  rcases accepted_only_if_admissible ops (init l s) hc with h | ⟨pre, post, e, dur, hops, ht, _, hadm, _⟩
  · cases h
  · exact ⟨pre, post, e, dur, hops, ht, hadm⟩

/-! ## (3): an end that fails -/

/-- **(3)** `claimEnds` can fail in two ways: the outcome is `failed` (the proposal passed but its handler returned an
    error: governance discards the handler's writes), or the outcome is `paid` and `createReimbursement` refuses.
    In both cases the step changes nothing: store, ledger and log are as before.  The claim stays open, its loss stays
    locked (`C05.failed_keeps_lock`), and it stays counted in `locked_is_sum_of_open_claims`. -/
theorem failed_end_keeps_claim_open (e : Env) (pid : Nat) (o : ClaimOutcome) (x : HState)
    (h : o = .failed ∨ ∀ c, x.g.pending.find? (·.pid == pid) = some c →
      ∃ err, claimEnds e x.l x.s pid c.pool c.holder c.holder c.purchase c.loss o = .error err) :
    hstep (.ends e pid o) x = x := endsStep_stuck e pid o x h

/-- and an end that does not fail closes the claim: with distinct ids, the open claim `c` leaves the log, its id joins
    the ended ids, and exactly its loss is released -/
theorem successful_end_closes_claim (e : Env) (o : ClaimOutcome) (x : HState) (hi : Inv x) {c : Claim}
    (hc : c ∈ x.g.pending) {l' : Ledger} {s' : State}
    (hce : claimEnds e x.l x.s c.pid c.pool c.holder c.holder c.purchase c.loss o = .ok (l', s')) (ho : o ≠ .failed) :
    (hstep (.ends e c.pid o) x).s = s' ∧ (hstep (.ends e c.pid o) x).l = l' ∧
    c ∉ (hstep (.ends e c.pid o) x).g.pending ∧ c.pid ∈ (hstep (.ends e c.pid o) x).g.ended ∧
    s'.totalClaimed = x.s.totalClaimed - c.loss := by
  rw [endsStep_ok (find?_of_mem hi.openNodup hc) hce ho]
  refine ⟨rfl, rfl, ?_, List.mem_cons_self, C05.release_on_end hce ho⟩
  intro hm
  have := (List.mem_filter.mp hm).2
  simp at this

/-! ## (e): accept, anything, rejected end -/

/-- **(e)** A claim is accepted in `x` (fresh id, admitted, lock taken: state `x1`).  Any history `mid` follows that
    does not end this proposal (state `x2`).  Then the proposal ends `rejected` (state `x3`).
    Frame condition: the purchase and its pool read the same in `x2` as in `x1` — what happened in between (other
    claims, purchases, deposits, blocks) did not touch that purchase's entry or that pool's record.
    Then the shield is restored to that same purchase: it reads as before the acceptance, except that its deletion time
    keeps the extension of the lock.  The pool reads as before the acceptance.  Exactly the loss is released from the
    lock and added back to the total shield.  Every other purchase and pool reads as in `x2`.  The claim is closed. -/
theorem rejected_claim_restores_same_purchase (x : HState) (hi : Inv x) (e e' : Env) (pid pool : Nat) (holder : Addr)
    (purchase : Nat) (loss dur deposit : Int) (mid : List HOp) {s1 : State}
    (hfresh : x.g.usedPid pid = false)
    (hadm : claimAdmissible x.s e.t holder pool purchase loss deposit = none)
    (hlock : secureCollaterals e x.s pool holder purchase loss dur = .ok s1)
    (hmid : ∀ op ∈ mid, ∀ e'' o, op ≠ HOp.ends e'' pid o)
    (hframe : findPurchase (hrun mid (hstep (.accept e pid pool holder purchase loss dur deposit) x)).s pool holder purchase
                = findPurchase s1 pool holder purchase ∧
              findPool (hrun mid (hstep (.accept e pid pool holder purchase loss dur deposit) x)).s pool = findPool s1 pool) :
    let x2 := hrun mid (hstep (.accept e pid pool holder purchase loss dur deposit) x)
    let x3 := hstep (.ends e' pid .rejected) x2
    ∃ en, findPurchase x.s pool holder purchase = some en ∧ e.t ≤ en.endTime ∧ loss ≤ en.shield ∧
      findPurchase x3.s pool holder purchase = some { en with delTime := max en.delTime (e.t + dur) } ∧
      findPool x3.s pool = findPool x.s pool ∧
      x3.s.totalClaimed = x2.s.totalClaimed - loss ∧ x3.s.totalShield = x2.s.totalShield + loss ∧
      (∀ pool' holder' id', ¬(pool' = pool ∧ holder' = holder ∧ id' = purchase) →
        findPurchase x3.s pool' holder' id' = findPurchase x2.s pool' holder' id') ∧
      (∀ pool', pool' ≠ pool → findPool x3.s pool' = findPool x2.s pool') ∧
      pid ∈ x3.g.ended ∧ pid ∉ x3.g.pending.map (·.pid) := by
  intro x2 x3
  -- the acceptance
  have hx1 := acceptStep_ok (pid := pid) hfresh hadm hlock
  have hi1 : Inv (hstep (.accept e pid pool holder purchase loss dur deposit) x) := hstep_inv _ x hi
  let c : Claim := { pid := pid, pool := pool, holder := holder, purchase := purchase, loss := loss, time := e.t, deposit := deposit }
  have hc1 : c ∈ (hstep (.accept e pid pool holder purchase loss dur deposit) x).g.pending := by
    rw [hx1]; exact List.mem_cons_self
  -- the claim is still open, under its id, after `mid`
  have hi2 : Inv x2 := hrun_inv mid _ hi1
  have hc2 : c ∈ x2.g.pending := hrun_pending_keeps mid _ hc1 hmid
  have hfind : x2.g.pending.find? (·.pid == pid) = some c := find?_of_mem hi2.openNodup hc2
  -- the rejected end
  have hce : claimEnds e' x2.l x2.s pid pool holder holder purchase loss .rejected
      = .ok (x2.l, claimEnd (restoreShield x2.s pool holder purchase loss) loss) := rfl
  have hx3 : x3 = { l := x2.l, s := claimEnd (restoreShield x2.s pool holder purchase loss) loss,
                    g := { pending := x2.g.pending.filter (·.pid != pid), ended := pid :: x2.g.ended } } :=
    endsStep_ok (c := c) hfind hce (by decide)
  -- reads after the lock, carried over `mid` by the frame condition
  rcases (C05.admitted_iff' _ _ _ _ _ _ _).mp hadm with ⟨en, hen, ht, hsh, _, _⟩
  rcases C05.lock_exact_reads hlock hen with ⟨r1, _, ⟨p, hfp, r3⟩, _, _, _⟩
  have hen2 : findPurchase x2.s pool holder purchase = some (lockedEntry e en loss dur) := hframe.1.trans r1
  have hfp2 : findPool x2.s pool = some { p with shield := p.shield - loss } := hframe.2.trans r3
  rcases C05.rejected_restores_reads hce hfp2 hen2 with ⟨q1, q2, q3, q4, q5, q6⟩
  have hs3 : x3.s = claimEnd (restoreShield x2.s pool holder purchase loss) loss := by rw [hx3]
  refine ⟨en, hen, ht, hsh, ?_, ?_, by rw [hs3]; exact q6, by rw [hs3]; exact q5, ?_, ?_, ?_, ?_⟩
  · rw [hs3, q1]
    congr 1
    show Purchase.mk en.id en.endTime (lockedEntry e en loss dur).delTime (en.shield - loss + loss) en.fees = _
    have : en.shield - loss + loss = en.shield := by omega
    rw [this, lockedEntry_delTime]
  · rw [hs3, q3, hfp]
    congr 1
    show Pool.mk p.id (p.shield - loss + loss) p.limit p.active p.sponsor p.sponsorAddr = p
    have : p.shield - loss + loss = p.shield := by omega
    rw [this]
  · intro pool' holder' id' hne; rw [hs3]; exact q2 pool' holder' id' hne
  · intro pool' hne; rw [hs3]; exact q4 pool' hne
  · rw [hx3]; exact List.mem_cons_self
  · rw [hx3]
    intro hm
    rcases List.mem_map.mp hm with ⟨c', hc', hcp⟩
    have := (List.mem_filter.mp hc').2
    simp [hcp] at this

/-- the frame condition of (e) follows from a step-by-step one: if every step of `mid` leaves the two reads alone,
    so does `mid` -/
theorem frame_of_stepwise (pool : Nat) (holder : Addr) (purchase : Nat) (mid : List HOp) (x1 : HState)
    (hstepwise : ∀ k, k < mid.length →
      findPurchase (hrun (mid.take (k + 1)) x1).s pool holder purchase = findPurchase (hrun (mid.take k) x1).s pool holder purchase ∧
      findPool (hrun (mid.take (k + 1)) x1).s pool = findPool (hrun (mid.take k) x1).s pool) :
    findPurchase (hrun mid x1).s pool holder purchase = findPurchase x1.s pool holder purchase ∧
    findPool (hrun mid x1).s pool = findPool x1.s pool := by
  have key : ∀ k, k ≤ mid.length →
      findPurchase (hrun (mid.take k) x1).s pool holder purchase = findPurchase x1.s pool holder purchase ∧
      findPool (hrun (mid.take k) x1).s pool = findPool x1.s pool := by
    intro k
    induction k with
    | zero => intro _; exact ⟨rfl, rfl⟩
    | succ k ih =>
      intro hk
      have h1 := hstepwise k (by omega)
      have h2 := ih (by omega)
      exact ⟨h1.1.trans h2.1, h1.2.trans h2.2⟩
  have := key mid.length (Nat.le_refl _)
  rwa [List.take_length] at this

/-! ## the keeper functions occur only inside `accept` and `ends` -/

/-- Every message-level history is a history of `C03a`: its ledger and store are reached by a list of `C03a` operations
    that is no longer than the history.  `accept` contributes `secureCollaterals` or nothing, `ends` contributes
    `claimEnds` with the recorded arguments or nothing, a message contributes itself.  So whatever `C03a` proves about
    all its histories holds along message-level histories too. -/
theorem history_is_C03a_history (ops : List HOp) (x : HState) :
    ∃ ops' : List C03a.Op, ops'.length ≤ ops.length ∧ ((hrun ops x).l, (hrun ops x).s) = C03a.run ops' (x.l, x.s) :=
  hrun_refines ops x

/-! ## non-vacuity: two overlapping claims on `C03b.demo`, one rejected, one paid -/

namespace Ex
open C03b

/-- block time 50; claim 7 (purchase 1 of "aa", loss 10) and claim 8 (purchase 2 of "bb", loss 5) overlap; in between
    "aa" buys more shield, a block ends, a second `accept` re-uses id 7, and an `ends` names the unknown id 9;
    claim 7 is rejected, claim 8 is paid -/
def hist : List HOp :=
  [.accept demoEnv 7 1 "aa" 1 10 100 0,
   .accept demoEnv 8 1 "bb" 2 5 100 0,
   .msg (.purchase demoEnv 1 [("uctk", 10)] "aa" false),
   .accept demoEnv 7 1 "bb" 2 1 100 0,
   .ends demoEnv 9 .rejected,
   .msg (.endBlock demoEnv),
   .ends demoEnv 7 .rejected,
   .ends demoEnv 8 .paid]

def x0 : HState := init demoLedger demo

/-- what the examples look at: locked amount, total shield, open (id, loss), ended ids -/
def view (x : HState) : Int × Int × List (Nat × Int) × List Nat :=
  (x.s.totalClaimed, x.s.totalShield, x.g.pending.map (fun c => (c.pid, c.loss)), x.g.ended)

/-- the log and the lock along the history (prefixes of length 1, 2, 4, 7, 8) -/
example : view (hrun (hist.take 1) x0) = (10, 60, [(7, 10)], []) := by decide
example : view (hrun (hist.take 2) x0) = (15, 55, [(8, 5), (7, 10)], []) := by decide
example : view (hrun (hist.take 4) x0) = (15, 65, [(8, 5), (7, 10)], []) := by decide
example : view (hrun (hist.take 7) x0) = (5, 75, [(8, 5)], [7]) := by decide
example : view (hrun hist x0) = (0, 75, [], [8, 7]) := by decide

/-- the rejected claim gave the shield back to purchase 1 of "aa" (50, deletion time extended to 150); the paid claim
    did not give it back to purchase 2 of "bb" (15 of 20), and created a reimbursement of 5 -/
example : ((findPurchase (hrun hist x0).s 1 "aa" 1).map (fun p => (p.shield, p.delTime)),
           (findPurchase (hrun hist x0).s 1 "bb" 2).map (fun p => (p.shield, p.delTime)),
           (hrun hist x0).s.reimbs.map (fun r => (r.pid, r.amount))) =
    (some (50, 150), some (15, 200), [(8, 5)]) := by decide

/-- the store after the lock of claim 7 on `demo` -/
def s1 : State :=
  match secureCollaterals demoEnv x0.s 1 "aa" 1 10 100 with
  | .ok s => s
  | .error _ => x0.s

theorem s1_lock : secureCollaterals demoEnv x0.s 1 "aa" 1 10 100 = .ok s1 := by
  unfold s1
  cases h : secureCollaterals demoEnv x0.s 1 "aa" 1 10 100 with
  | ok s => rfl
  | error err =>
    have : C03a.Ex.isOk (secureCollaterals demoEnv x0.s 1 "aa" 1 10 100) = true := by decide
    rw [h] at this; cases this

/-- steps between the acceptance and the end of claim 7 that leave purchase 1 of "aa" and pool 1 alone: a deposit of
    collateral, an `ends` for an unknown id, block rewards, the end of a block -/
def mid : List HOp :=
  [.msg (.deposit demoEnv "cc" [("uctk", 5)]), .ends demoEnv 9 .vetoed, .msg (.fundBlockRewards demoEnv "ad" 3),
   .msg (.endBlock demoEnv)]

/-- non-vacuity of (e): every hypothesis holds for claim 7 on `demo` with `mid` in between, so the theorem applies;
    its conclusion, evaluated: purchase 1 reads 50 again (deletion time 150), pool 1 reads 70 again -/
example :
    let x2 := hrun mid (hstep (.accept demoEnv 7 1 "aa" 1 10 100 0) x0)
    let x3 := hstep (.ends demoEnv 7 .rejected) x2
    ∃ en, findPurchase x0.s 1 "aa" 1 = some en ∧ demoEnv.t ≤ en.endTime ∧ 10 ≤ en.shield ∧
      findPurchase x3.s 1 "aa" 1 = some { en with delTime := max en.delTime (demoEnv.t + 100) } ∧
      findPool x3.s 1 = findPool x0.s 1 ∧
      x3.s.totalClaimed = x2.s.totalClaimed - 10 ∧ x3.s.totalShield = x2.s.totalShield + 10 ∧
      (∀ pool' holder' id', ¬(pool' = 1 ∧ holder' = "aa" ∧ id' = 1) →
        findPurchase x3.s pool' holder' id' = findPurchase x2.s pool' holder' id') ∧
      (∀ pool', pool' ≠ 1 → findPool x3.s pool' = findPool x2.s pool') ∧
      7 ∈ x3.g.ended ∧ 7 ∉ x3.g.pending.map (·.pid) := by
  refine rejected_claim_restores_same_purchase x0 (init_inv _ _ rfl) demoEnv demoEnv 7 1 "aa" 1 10 100 0 mid
    (by decide) (by decide) s1_lock ?_ ?_
  · intro op hop e'' o heq
    subst heq
    simp [mid] at hop
  · rw [acceptStep_ok (pid := 7) (deposit := 0) (x := x0) (by decide) (by decide) s1_lock]
    unfold s1
    decide

example : ((findPurchase (hstep (.ends demoEnv 7 .rejected) (hrun mid (hstep (.accept demoEnv 7 1 "aa" 1 10 100 0) x0))).s 1 "aa" 1).map
             (fun p => (p.shield, p.delTime)),
           (findPool (hstep (.ends demoEnv 7 .rejected) (hrun mid (hstep (.accept demoEnv 7 1 "aa" 1 10 100 0) x0))).s 1).map (·.shield)) =
    (some (50, 150), some 70) := by decide

/-- the frame condition of (e) is a real restriction: in `hist` claim 8 and the purchase change the record of pool 1
    between the acceptance and the end of claim 7 (the purchase entry itself is left alone) -/
example :
    findPurchase (hrun ((hist.drop 1).take 5) (hrun (hist.take 1) x0)).s 1 "aa" 1 = findPurchase (hrun (hist.take 1) x0).s 1 "aa" 1 ∧
    findPool (hrun ((hist.drop 1).take 5) (hrun (hist.take 1) x0)).s 1 ≠ findPool (hrun (hist.take 1) x0).s 1 := by decide

/-- non-vacuity of (3): with the collateral gone, the payout of the open claim 7 refuses; the step changes nothing -/
def stuck : HState :=
  { l := demoLedger, s := { demo with totalCollateral := 0, totalClaimed := 10 },
    g := { pending := [⟨7, 1, "aa", 1, 10, 50, 0⟩], ended := [] } }

example : Inv stuck := by constructor <;> decide
example : ∀ c, stuck.g.pending.find? (·.pid == 7) = some c →
    ∃ err, claimEnds demoEnv stuck.l stuck.s 7 c.pool c.holder c.holder c.purchase c.loss .paid = .error err := by
  intro c hc
  have : c = ⟨7, 1, "aa", 1, 10, 50, 0⟩ := by
    have h : stuck.g.pending.find? (·.pid == 7) = some ⟨7, 1, "aa", 1, 10, 50, 0⟩ := by decide
    rw [h] at hc; injection hc with hc; exact hc.symm
  subst this
  exact ⟨_, rfl⟩
example : view (hstep (.ends demoEnv 7 .paid) stuck) = (10, 70, [(7, 10)], []) := by decide
example : view (hstep (.ends demoEnv 7 .failed) (hrun (hist.take 2) x0)) = (15, 55, [(8, 5), (7, 10)], []) := by decide

end Ex

end Shentu.Props.C05H

#print axioms Shentu.Props.C05H.init_inv
#print axioms Shentu.Props.C05H.step_preserves_inv
#print axioms Shentu.Props.C05H.history_preserves_inv
#print axioms Shentu.Props.C05H.locked_is_sum_of_open_claims
#print axioms Shentu.Props.C05H.locked_is_sum_of_open_claims_from_start
#print axioms Shentu.Props.C05H.locks_undone
#print axioms Shentu.Props.C05H.messages_leave_lock
#print axioms Shentu.Props.C05H.each_claim_locked_once_released_once
#print axioms Shentu.Props.C05H.ids_never_reused
#print axioms Shentu.Props.C05H.used_pid_never_accepted
#print axioms Shentu.Props.C05H.ends_of_closed_pid_is_noop
#print axioms Shentu.Props.C05H.accepted_only_if_admissible
#print axioms Shentu.Props.C05H.accepted_only_if_admissible_from_start
#print axioms Shentu.Props.C05H.failed_end_keeps_claim_open
#print axioms Shentu.Props.C05H.successful_end_closes_claim
#print axioms Shentu.Props.C05H.rejected_claim_restores_same_purchase
#print axioms Shentu.Props.C05H.frame_of_stepwise
#print axioms Shentu.Props.C05H.history_is_C03a_history
#print axioms Shentu.Props.C05H.Ex.s1_lock
