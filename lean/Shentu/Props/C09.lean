import Shentu.Model.Staking
import Shentu.Proofs.BankLemmas
import Shentu.Gen.Wiring
/-
  C09 — Staking takes effect: validator-set changes and unbondings are processed.

  The theorems are about the specification in Shentu/Model/Staking.lean.  It is tied to the code in three ways, all checked on
  every run: (1) `tie_wiring` — facts regenerated from x/staking/module.go and app/app.go by the translator (the wrapper's
  EndBlock calls the SDK end-blocker and returns its result; staking is in the end-blocker order, after shield, before gov);
  (2) the correspondence check compares `updates view (target …)` with the validator updates the real application returns
  from EndBlock on every block of the generated histories, and `completeUnbondings` with the observed balances;
  (3) the monitors evaluate `sameViewB` between the accumulated consensus view and the bonded set on every block.
-/
namespace Shentu.Props.C09
open Shentu Shentu.Staking Shentu.Ledger

/-- the wiring facts the translator extracts from the current source -/
theorem tie_wiring : Gen.Wiring.allFound = true ∧ Gen.Wiring.stakingEndBlockDelegates = true ∧
    Gen.Wiring.stakingInEndBlockers = true ∧ Gen.Wiring.shieldBeforeStaking = true ∧ Gen.Wiring.stakingBeforeGov = true := by decide

/-- every entry of a view is the first (hence the only relevant) one for its key -/
def Functional (w : View) : Prop := ∀ e ∈ w, lookup w e.1 = e.2

/-- every wrapper module hands every ABCI hook on to the module it wraps, with the hook's own arguments (the staking wrapper's
    `ExportGenesis` calls the SDK's export on the embedded keeper instead), and every module with a begin- or end-blocker of its own
    calls it first thing: nothing that the wrapped SDK modules do at block boundaries or at genesis is skipped -/
theorem tie_wrappers :
    Gen.Wiring.wrapperHandsOn =
      ["auth.InitGenesis", "auth.ExportGenesis", "auth.BeginBlock", "auth.EndBlock",
       "bank.InitGenesis", "bank.ExportGenesis", "bank.BeginBlock", "bank.EndBlock",
       "distribution.InitGenesis", "distribution.ExportGenesis", "distribution.BeginBlock", "distribution.EndBlock",
       "slashing.InitGenesis", "slashing.ExportGenesis", "slashing.BeginBlock", "slashing.EndBlock",
       "staking.InitGenesis", "staking.BeginBlock", "staking.EndBlock"] ∧
    Gen.Wiring.ownBlockers =
      ["mint.BeginBlock", "gov.EndBlock", "shield.EndBlock", "oracle.EndBlock", "oracle.BeginBlock", "cvm.BeginBlock", "cvm.EndBlock",
       "shield.BeginBlock", "crisis.EndBlock"] := by decide

theorem lookup_none (w : View) (pk : String) (h : ∀ e ∈ w, ¬ e.1 = pk) : lookup w pk = 0 := by
  induction w with
  | nil => rfl
  | cons x xs ih =>
    have hx : (x.1 == pk) = false := by simpa using h x (List.mem_cons_self ..)
    simp only [lookup, hx, Bool.false_eq_true, if_false]
    exact ih (fun e he => h e (List.mem_cons_of_mem _ he))

theorem lookup_filter_ne (w : View) (k pk : String) (h : ¬ k = pk) :
    lookup (w.filter (fun e => !(e.1 == k))) pk = lookup w pk := by
  induction w with
  | nil => rfl
  | cons x xs ih =>
    by_cases hx : x.1 = k
    · have h1 : (x.1 == pk) = false := by simp; intro hh; exact h (hx ▸ hh)
      have h2 : (x.1 == k) = true := by simp [hx]
      simp only [List.filter, h2, Bool.not_true, lookup, h1, Bool.false_eq_true, if_false]
      exact ih
    · have h2 : (x.1 == k) = false := by simp [hx]
      simp only [List.filter, h2, Bool.not_false, lookup]
      rw [ih]

theorem lookup_filter_eq (w : View) (k : String) : lookup (w.filter (fun e => !(e.1 == k))) k = 0 := by
  apply lookup_none
  intro e he
  simp [List.mem_filter] at he
  exact he.2

theorem lookup_append_single (w : View) (u : String × Int) (pk : String) :
    lookup (w ++ [u]) pk = if w.any (fun e => e.1 == pk) then lookup w pk else (if u.1 == pk then u.2 else 0) := by
  induction w with
  | nil => simp [lookup]
  | cons x xs ih =>
    by_cases hx : (x.1 == pk) = true
    · simp [lookup, hx]
    · have hx' : (x.1 == pk) = false := by simpa using hx
      simp only [List.cons_append, lookup, hx', Bool.false_eq_true, if_false, List.any_cons, Bool.false_or]
      exact ih

/-- what consensus sees after one update -/
theorem lookup_applyOne (w : View) (u : String × Int) (pk : String) :
    lookup (applyOne w u) pk = if u.1 = pk then u.2 else lookup w pk := by
  unfold applyOne
  by_cases hk : u.1 = pk
  · subst hk
    have hany : (w.filter (fun e => !(e.1 == u.1))).any (fun e => e.1 == u.1) = false := by
      simp [List.any_eq_false, List.mem_filter]
    by_cases hz : u.2 = 0
    · simp [hz, lookup_filter_eq]
    · have hz' : (u.2 == 0) = false := by simp [hz]
      simp only [hz', Bool.false_eq_true, if_false, if_true]
      rw [lookup_append_single, hany]
      simp
  · have hk' : (u.1 == pk) = false := by simp [hk]
    by_cases hz : u.2 = 0
    · simp [hz, hk, lookup_filter_ne _ _ _ hk]
    · have hz' : (u.2 == 0) = false := by simp [hz]
      simp only [hz', Bool.false_eq_true, if_false, hk]
      rw [lookup_append_single, hk']
      simp only [Bool.false_eq_true, if_false]
      rw [lookup_filter_ne _ _ _ hk]
      split
      · rfl
      · rename_i hno
        -- no entry with key pk survives the filter, so none was there
        have : ∀ e ∈ w, ¬ e.1 = pk := by
          intro e he hek
          apply hno
          simp only [List.any_eq_true, List.mem_filter]
          refine ⟨e, ⟨he, ?_⟩, by simp [hek]⟩
          simp; intro h2; exact hk (h2.symm ▸ hek ▸ rfl)
        exact (lookup_none w pk this).symm

/-- a batch of updates that agree on the power of `pk`: consensus ends with that power, or keeps what it had -/
theorem lookup_applyUpdates (us : View) (pk : String) (v : Int) (hv : ∀ u ∈ us, u.1 = pk → u.2 = v) (w : View) :
    lookup (applyUpdates w us) pk = if us.any (fun u => u.1 == pk) then v else lookup w pk := by
  unfold applyUpdates
  induction us generalizing w with
  | nil => simp
  | cons u us ih =>
    simp only [List.foldl_cons]
    rw [ih (fun x hx => hv x (List.mem_cons_of_mem _ hx))]
    by_cases hus : us.any (fun u => u.1 == pk) = true
    · simp [hus]
    · have hus' : us.any (fun u => u.1 == pk) = false := Bool.eq_false_iff.mpr hus
      rw [lookup_applyOne]
      by_cases hk : u.1 = pk
      · have := hv u (List.mem_cons_self ..) hk
        simp [hus', hk, this]
      · simp [hus', hk]

/-- **Validator-set changes are reported**: whatever consensus had been told before (`last`), after applying the updates computed
    for the new set (`next`) consensus sees exactly `next` — new validators appear with their power, changed powers are
    replaced, validators that left are removed. -/
theorem updates_sync (last next : View) (hf : Functional next) :
    sameView (applyUpdates last (updates last next)) next := by
  intro pk
  have hv : ∀ u ∈ updates last next, u.1 = pk → u.2 = lookup next pk := by
    intro u hu hk
    unfold updates at hu
    rcases List.mem_append.mp hu with h1 | h2
    · have hm := (List.mem_filter.mp h1).1
      rw [← hk]; exact (hf u hm).symm
    · obtain ⟨e, he, rfl⟩ := List.mem_map.mp h2
      have hnot := (List.mem_filter.mp he).2
      simp only [Bool.not_eq_true', List.any_eq_false, beq_iff_eq] at hnot
      show (0 : Int) = lookup next pk
      rw [lookup_none]
      intro x hx hxk
      have := hnot x hx
      simp at hk
      exact this (by simpa [hk] using hxk)
  rw [lookup_applyUpdates _ pk _ hv]
  by_cases hany : (updates last next).any (fun u => u.1 == pk) = true
  · simp [hany]
  · have hany' : (updates last next).any (fun u => u.1 == pk) = false := Bool.eq_false_iff.mpr hany
    simp only [hany', Bool.false_eq_true, if_false]
    -- no update mentions pk: either it keeps its power or it was in neither view
    have hno : ∀ u ∈ updates last next, ¬ u.1 = pk := by
      intro u hu
      have := (List.any_eq_false.mp hany') u hu
      simpa using this
    by_cases hin : ∃ e ∈ next, e.1 = pk
    · obtain ⟨e, he, hek⟩ := hin
      have hl : lookup next pk = e.2 := by rw [← hek]; exact hf e he
      by_cases hch : lookup last e.1 = e.2
      · rw [hl, ← hek]; exact hch
      · exfalso
        apply hno e _ hek
        unfold updates
        apply List.mem_append_left
        apply List.mem_filter.mpr
        exact ⟨he, by simpa using hch⟩
    · have hnext : lookup next pk = 0 := lookup_none _ _ (fun e he hk => hin ⟨e, he, hk⟩)
      rw [hnext]
      apply lookup_none
      intro e he hk
      apply hno (e.1, 0) _ hk
      unfold updates
      apply List.mem_append_right
      apply List.mem_map.mpr
      refine ⟨e, List.mem_filter.mpr ⟨he, ?_⟩, rfl⟩
      simp only [Bool.not_eq_true', List.any_eq_false, beq_iff_eq]
      intro x hx hxe
      exact hin ⟨x, hx, by rw [hxe, hk]⟩

/-- **At the end of every block** of any history consensus' view is the set that deserves to be bonded in that block: the view is
    whatever it was (`v0`) followed, block by block, by the updates from the previous view to the block's target. -/
def runBlocks (v0 : View) : List View → View
  | [] => v0
  | t :: ts => runBlocks (applyUpdates v0 (updates v0 t)) ts

theorem view_tracks_target (v0 : View) (targets : List View) (t : View) (hf : Functional t) :
    sameView (runBlocks v0 (targets ++ [t])) t := by
  induction targets generalizing v0 with
  | nil => exact updates_sync v0 t hf
  | cons x xs ih => exact ih _

/-! ### who deserves to be bonded -/

theorem insVal_perm (v : Val) (l : List Val) : (insVal v l).Perm (v :: l) := by
  induction l with
  | nil => exact List.Perm.refl _
  | cons x xs ih =>
    unfold insVal
    split
    · exact List.Perm.refl _
    · exact ((List.Perm.cons x ih).trans (List.Perm.swap v x xs))

theorem ranked_perm (l : List Val) : (ranked l).Perm l := by
  unfold ranked
  induction l with
  | nil => exact List.Perm.refl _
  | cons x xs ih => exact (insVal_perm x _).trans (List.Perm.cons x ih)

/-- whoever is in the target set is a validator that is not jailed, with its own non-zero power -/
theorem target_sound (vs : List Val) (maxN : Nat) (e : String × Int) (h : e ∈ target vs maxN) :
    ∃ v ∈ vs, v.pk = e.1 ∧ v.jailed = false ∧ e.2 = powerOf v.tokens ∧ 0 < e.2 := by
  unfold target at h
  obtain ⟨v, hv, rfl⟩ := List.mem_map.mp h
  have hv' := (ranked_perm _).subset (List.mem_of_mem_take hv)
  have hf := List.mem_filter.mp hv'
  refine ⟨v, hf.1, rfl, ?_, rfl, ?_⟩
  · have := hf.2; simp at this; exact this.1
  · have := hf.2; simp at this; exact this.2

theorem target_size (vs : List Val) (maxN : Nat) : (target vs maxN).length ≤ maxN := by
  unfold target; simp [List.length_take]; omega

theorem functional_of_nodup (w : View) (h : (w.map (·.1)).Nodup) : Functional w := by
  induction w with
  | nil => intro e he; cases he
  | cons x xs ih =>
    have hn : ¬ x.1 ∈ xs.map (·.1) ∧ (xs.map (·.1)).Nodup := by
      rw [List.map_cons] at h; exact List.nodup_cons.mp h
    intro e he
    rcases List.mem_cons.mp he with rfl | hm
    · simp [lookup]
    · have hne : (x.1 == e.1) = false := by
        simp; intro hh; exact hn.1 (hh ▸ List.mem_map_of_mem (f := (·.1)) hm)
      simp only [lookup, hne, Bool.false_eq_true, if_false]
      exact ih hn.2 e hm

/-- consensus keys are unique among validators (the SDK refuses a second validator with the same key): the target is a map -/
theorem target_functional (vs : List Val) (maxN : Nat) (h : (vs.map (·.pk)).Nodup) : Functional (target vs maxN) := by
  apply functional_of_nodup
  unfold target
  rw [List.map_map]
  have hcomp : ((fun e : String × Int => e.1) ∘ fun v : Val => (v.pk, powerOf v.tokens)) = (·.pk) := rfl
  rw [hcomp]
  have h1 : ((vs.filter (fun v => !v.jailed && powerOf v.tokens > 0)).map (·.pk)).Nodup :=
    h.sublist ((List.filter_sublist).map _)
  have h2 : ((ranked (vs.filter (fun v => !v.jailed && powerOf v.tokens > 0))).map (·.pk)).Nodup :=
    ((ranked_perm _).map _).nodup_iff.mpr h1
  exact h2.sublist ((List.take_sublist _ _).map _)

/-- **jailed or fully-unbonded validators are removed**: a key all of whose validators are jailed or without power is not in the set -/
theorem jailed_or_powerless_removed (vs : List Val) (maxN : Nat) (pk : String)
    (h : ∀ v ∈ vs, v.pk = pk → v.jailed = true ∨ powerOf v.tokens ≤ 0) : lookup (target vs maxN) pk = 0 := by
  apply lookup_none
  intro e he hk
  obtain ⟨v, hv, hpk, hj, hp, hpos⟩ := target_sound vs maxN e he
  rcases h v hv (hpk.trans hk) with h1 | h2
  · rw [hj] at h1; cases h1
  · omega

/-- **a newly created validator with enough stake becomes bonded**: while there are seats for every eligible validator, each of
    them is in the set with its power -/
theorem eligible_bonded_when_seats_free (vs : List Val) (maxN : Nat) (v : Val) (hv : v ∈ vs) (hj : v.jailed = false) (hp : 0 < powerOf v.tokens)
    (hseats : (vs.filter (fun v => !v.jailed && powerOf v.tokens > 0)).length ≤ maxN) : (v.pk, powerOf v.tokens) ∈ target vs maxN := by
  unfold target
  apply List.mem_map.mpr
  refine ⟨v, ?_, rfl⟩
  have hlen : (ranked (vs.filter (fun v => !v.jailed && powerOf v.tokens > 0))).length ≤ maxN := by
    rw [(ranked_perm _).length_eq]; exact hseats
  rw [List.take_of_length_le hlen]
  apply (ranked_perm _).symm.subset
  apply List.mem_filter.mpr
  exact ⟨hv, by simp [hj, hp]⟩

/-! ### unbonding entries -/

/-- **unbondings complete once the time has elapsed** — exactly those, the others stay as they are -/
theorem matured_iff (now : Int) (q : List Ubd) (u : Ubd) : u ∈ matured now q ↔ u ∈ q ∧ u.time ≤ now := by
  unfold matured; simp [List.mem_filter]
theorem pending_iff (now : Int) (q : List Ubd) (u : Ubd) : u ∈ pending now q ↔ u ∈ q ∧ now < u.time := by
  unfold pending; simp [List.mem_filter]
theorem nothing_lost (now : Int) (q : List Ubd) (u : Ubd) (h : u ∈ q) : u ∈ matured now q ∨ u ∈ pending now q := by
  by_cases ht : u.time ≤ now
  · left; exact (matured_iff now q u).mpr ⟨h, ht⟩
  · right; exact (pending_iff now q u).mpr ⟨h, by omega⟩

/-- **returning the coins to the delegator**, exactly: every account other than the pool gains the sum of its completed entries -/
theorem payBack_exact (l : Ledger) (pool : Addr) (bond : Denom) (us : List Ubd) (a : Addr) (ha : ¬ a = pool) :
    (payBack l pool bond us).balOf a bond = l.balOf a bond + returnedTo a us := by
  induction us generalizing l with
  | nil => simp [payBack, returnedTo]
  | cons u us ih =>
    unfold payBack
    rw [ih]
    unfold returnedTo
    rw [balOf_move]
    have hp : (pool == a) = false := by
      simp; intro h; exact ha h.symm
    by_cases hd : u.del = a
    · simp [hp, hd, List.filter]; omega
    · have : (u.del == a) = false := by simp [hd]
      simp [hp, this, List.filter, hd]

theorem payBack_supply (l : Ledger) (pool : Addr) (bond : Denom) (us : List Ubd) : (payBack l pool bond us).supply = l.supply := by
  induction us generalizing l with
  | nil => rfl
  | cons u us ih => unfold payBack; rw [ih]; rfl

theorem payBack_inv (l : Ledger) (pool : Addr) (bond : Denom) (us : List Ubd) (h : l.Inv) : (payBack l pool bond us).Inv := by
  induction us generalizing l with
  | nil => exact h
  | cons u us ih => unfold payBack; exact ih _ (inv_move l _ _ _ h)

/-- the end of a block for the unbonding queue, in one statement -/
theorem completeUnbondings_spec (l : Ledger) (pool : Addr) (bond : Denom) (now : Int) (q : List Ubd) (a : Addr) (ha : ¬ a = pool) :
    let r := completeUnbondings l pool bond now q
    r.1.balOf a bond = l.balOf a bond + returnedTo a (matured now q) ∧
    (∀ u, u ∈ r.2 ↔ u ∈ q ∧ now < u.time) := by
  refine ⟨payBack_exact l pool bond _ a ha, fun u => pending_iff now q u⟩

/-! non-vacuity -/
example : Functional (target [⟨"b", "pkB", 5000000, false⟩, ⟨"a", "pkA", 7000000, false⟩, ⟨"c", "pkC", 9000000, true⟩] 2) := by
  intro e he
  have : target [⟨"b", "pkB", 5000000, false⟩, ⟨"a", "pkA", 7000000, false⟩, ⟨"c", "pkC", 9000000, true⟩] 2 = [("pkA", 7), ("pkB", 5)] := by decide
  rw [this] at he ⊢
  simp at he
  rcases he with rfl | rfl <;> decide
example : target [⟨"b", "pkB", 5000000, false⟩, ⟨"a", "pkA", 7000000, false⟩, ⟨"c", "pkC", 9000000, true⟩, ⟨"d", "pkD", 999999, false⟩] 2
    = [("pkA", 7), ("pkB", 5)] := by decide
example : applyUpdates [("pkB", 5), ("pkC", 9)] (updates [("pkB", 5), ("pkC", 9)] [("pkA", 7), ("pkB", 6)]) = [("pkA", 7), ("pkB", 6)] := by decide
example : (completeUnbondings ⟨[("pool", "uctk", 30)], [("uctk", 30)]⟩ "pool" "uctk" 10 [⟨"x", "v", 7, 10, 1⟩, ⟨"x", "v", 5, 11, 1⟩]).2 = [⟨"x", "v", 5, 11, 1⟩] := by decide

end Shentu.Props.C09
