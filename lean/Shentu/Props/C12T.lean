import Shentu.Proofs.C12TVotesRun
/-
  C12, the accumulation of the stake round ("… yes votes exceed the threshold share of non-abstaining power …"):
  `Props/C12.lean` states the decision rule on the accumulated `Results`; this file proves that the accumulation
  performed by `Gov.stakeTally` attributes the stake to the options correctly.

  What is proved, for ALL vote lists, validator sets and delegation lists:
  * `stake_tally_is_two_loops`, `results_are_pieces`, `results_by_option`: the tally is the vote loop followed by the
    validator loop, and its accumulators are exactly the sums of the powers of an explicit list of counted *pieces*
    (validator, option, shares): one piece per delegation of a voting delegator to a bonded validator, one piece per
    voting validator (its shares minus the deductions).
  * `deductions_exact`: a validator's deductions are the shares delegated to it by the delegators that voted themselves.
  * `operator_vote_only_records`, `operator_delegations_follow_target`: the vote of a bonded validator's operator address
    only records the option; the operator's delegations to OTHER validators are not counted for the operator's option,
    they follow the other validator's vote.  The stated rule "a delegator's own vote wins" is therefore false for these
    delegations (`share_level_refinement_fails`); it holds when no voting operator delegates to another validator
    (`share_level_refinement_stated`).
  * `no_share_counted_twice_partial`: per validator, shares counted through delegators plus shares counted through the
    validator never exceed the validator's shares, with equality when the validator voted (the "only when" is false:
    `no_share_counted_twice_fails`).
  * `share_level_refinement_partial`: per validator and option, the counted shares are the specification's.
  * `piece_rounding`, `option_power_refinement`, `validator_power_le_tokens_plus_slack`, `total_power_le_bonded_plus_slack`:
    the conversion of a piece to tokens deviates from the exact value by at most `tokens·(1/2 + 10⁻¹⁸)` units of 10⁻¹⁸
    token; per validator and option the counted power deviates from the exact value of the specified shares by at most that
    much per piece; the total counted power is at most the bonded tokens plus half a unit of 10⁻¹⁸ per piece and bonded token.
  * `tally_independent_of_vote_order` (and `results_…`, `counted_shares_independent_of_vote_order`): the outcome does not
    depend on the order in which the votes are stored.
  * `one_vote_per_voter_*`: the vote store keeps at most one vote per proposal and voter, initially and after every
    step of every history (`one_vote_per_voter_run`).
  * `status_only_moves_forward`, `finalised_never_changes`, `status_forward_between_any_two_points`: over every history of
    submit / deposit / vote / end-block steps (each with its own environment; a failing step leaves the state as it is),
    the rank of a stored proposal's status never decreases, a proposal is dropped only from the deposit period, and a
    passed / rejected / failed proposal's record never changes again.  Assumed: `GovWF` (ids distinct and below `nextId`),
    proved of the empty store and of every step (`store_wf_init`, `store_wf_run`).
  * `finish_applies_handler_only_on_pass`, `handler_effect_only_when_passed`, `handler_runs_at_most_once`: the result of a
    proposal's handler is kept only by the finalisation that writes status passed; a step changes the certifier state (the
    only thing the modelled handlers change) only if it turns a not-yet-final proposal into a passed one; that happens at
    most once per proposal.  (The dry run of the handler at submission is discarded by the model; a handler that fails at
    finalisation gives status failed and no effect.)

  What is assumed: `StakeWF` of the staking view that governance reads (an input of the model, not part of its state):
  validators distinct, with positive shares and non-negative tokens; listed delegations non-negative and, per validator,
  not exceeding the validator's shares (`≤`, not `=`: the view may list only the delegations of the voters; shares outside
  the listed delegations belong to holders that did not vote and follow the validator).  `VotersDistinct`/`VotesWF` is
  proved of the vote store, not assumed.  Helper lemmas: `Shentu/Proofs/C12T*.lean`.
-/
namespace Shentu.Props.C12T
open Shentu Shentu.Gov Shentu.C12TH

/-! ### the tally, restated -/

/-- The stake round sorts the proposal's votes by voter, runs the vote loop and the validator loop (`stakeResults`),
    applies the decision rule to the accumulated results, stores their truncation and deletes the votes. -/
theorem stake_tally_is_two_loops (e : Env) (g : State) (p : Proposal) (cd : Int) :
    stakeTally e g p cd =
      let r := stakeResults e (sortVotes (g.votes.filter (·.pid == p.id)))
      ((C12TH.decide e g p cd r).1, (C12TH.decide e g p cd r).2, r.tally,
        { g with votes := g.votes.filter (fun v => !(v.pid == p.id)) }) := stakeTally_eq e g p cd

/-- The accumulated results are the powers of the counted pieces, added in order. -/
theorem results_are_pieces (e : Env) (votes : List Vote) :
    stakeResults e votes = addList ({} : Results) ((pieces e votes).map (fun p => (p.option, p.power))) :=
  C12TH.results_are_pieces e votes

/-- Each option's accumulator is the sum of the powers of the pieces counted for that option.
    The total is the sum of the powers of all pieces. -/
theorem results_by_option (e : Env) (votes : List Vote) :
    (stakeResults e votes).yes.raw = sumOn ((pieces e votes).filter (fun p => p.option == 1)) (fun p => p.power.raw) ∧
    (stakeResults e votes).abstain.raw = sumOn ((pieces e votes).filter (fun p => p.option == 2)) (fun p => p.power.raw) ∧
    (stakeResults e votes).no.raw = sumOn ((pieces e votes).filter (fun p => p.option == 3)) (fun p => p.power.raw) ∧
    (stakeResults e votes).veto.raw = sumOn ((pieces e votes).filter (fun p => p.option == 4)) (fun p => p.power.raw) ∧
    (stakeResults e votes).total.raw = sumOn (pieces e votes) (fun p => p.power.raw) :=
  ⟨get_eq e votes 1 (by simp), get_eq e votes 2 (by simp), get_eq e votes 3 (by simp), get_eq e votes 4 (by simp),
   total_eq e votes⟩

/-! ### one vote per voter -/

/-- The empty vote store has at most one vote per proposal and voter. -/
theorem one_vote_per_voter_init : VotesWF [] := votesWF_nil

/-- Casting a vote (`setVote`) keeps at most one vote per proposal and voter. -/
theorem one_vote_per_voter_vote (w w' : World) (pid : Nat) (voter : Addr) (o : Nat)
    (h : vote w pid voter o = .ok w') (hwf : VotesWF w.g.votes) : VotesWF w'.g.votes := by
  unfold vote at h
  split at h; · cases h
  split at h; · cases h
  split at h; · cases h
  split at h; · cases h
  split at h; · cases h
  split at h; · cases h
  cases h
  exact votesWF_setVote pid voter o _ hwf

/-- The tally deletes the proposal's votes and keeps at most one vote per proposal and voter. -/
theorem one_vote_per_voter_tally (e : Env) (g : State) (p : Proposal) (cd : Int) (hwf : VotesWF g.votes) :
    VotesWF (stakeTally e g p cd).2.2.2.votes := by
  rw [stakeTally_eq]
  exact votesWF_filter _ _ hwf

/-- The votes the tally reads for a proposal come from distinct voters. -/
theorem tally_votes_distinct (g : State) (p : Proposal) (hwf : VotesWF g.votes) :
    VotersDistinct (sortVotes (g.votes.filter (·.pid == p.id))) := mine_distinct g.votes hwf p.id

/-! ### (a) deductions -/

/-- After the vote loop every validator record keeps its address, tokens and shares.
    Its vote is the option voted from its operator address.
    Its deductions are exactly the shares of the listed delegations to it whose delegator voted and is not itself the
    operator address of a bonded validator. -/
theorem deductions_exact (e : Env) (votes : List Vote) (hd : VotersDistinct votes) :
    (voteLoop e votes).1 = e.stake.vals.map (fun v =>
      { addr := v.1, tokens := v.2.1, shares := v.2.2, vote := voteAt votes v.1,
        deductions := ⟨sumOn (e.stake.dels.filter (fun d => d.2.1 == v.1 && (!isValidator e d.1 && hasVoted votes d.1)))
          (fun d => d.2.2.raw)⟩ }) := by
  rw [voteLoop_eq, finalVals_closed e votes hd]
  rfl

/-- A vote from the operator address of a bonded validator only records the option: it adds nothing to the results and
    changes no deductions — `delegatorVoting` is not run for it. -/
theorem operator_vote_only_records (e : Env) (acc : List ValInfo × Results) (v : Vote)
    (h : acc.1.any (·.addr == v.voter) = true) :
    (voteStep e acc v).2 = acc.2 ∧
    (voteStep e acc v).1.map (fun x => (x.addr, x.tokens, x.shares, x.deductions)) =
      acc.1.map (fun x => (x.addr, x.tokens, x.shares, x.deductions)) := validator_vote_step e acc v h

/-- Hence a delegation held by a bonded validator's operator address is counted for the vote of the validator it is
    delegated to (its own validator for the self-delegation, ANOTHER validator's vote otherwise), whatever the operator
    voted — and not at all if that validator did not vote. -/
theorem operator_delegations_follow_target (e : Env) (votes : List Vote) (d : Del) (h : isValidator e d.1 = true) :
    choiceM e votes d = voteAt votes d.2.1 := by
  simp [choiceM, delegatorVoted, h]

/-! ### (b) no share is counted twice -/

/-- For every bonded validator: the shares counted through voting delegators are its deductions.
    The shares counted through its own vote are its shares minus the deductions if it voted, nothing otherwise.
    Together they never exceed the validator's shares.
    They equal the validator's shares if the validator voted.
    They equal the validator's shares exactly when the validator voted or all its shares are held by voting delegators. -/
theorem no_share_counted_twice_partial (e : Env) (wf : StakeWF e) (votes : List Vote) (hd : VotersDistinct votes)
    (v : Addr × Int × Dec) (hv : v ∈ e.stake.vals) :
    delCounted e votes v.1 = dedOf e votes v.1 ∧
    valCounted e votes v.1 = (if voteAt votes v.1 == 0 then 0 else v.2.2.raw - dedOf e votes v.1) ∧
    delCounted e votes v.1 + valCounted e votes v.1 ≤ v.2.2.raw ∧
    (voteAt votes v.1 ≠ 0 → delCounted e votes v.1 + valCounted e votes v.1 = v.2.2.raw) ∧
    (delCounted e votes v.1 + valCounted e votes v.1 = v.2.2.raw ↔ (voteAt votes v.1 ≠ 0 ∨ dedOf e votes v.1 = v.2.2.raw)) := by
  have h1 := delCounted_eq e votes hd v.1 (isValidator_of_mem e v hv)
  have h2 := valCounted_eq e votes hd wf.distinct v hv
  have h3 := counted_le_shares e wf votes hd v hv
  refine ⟨h1, h2, h3.1, h3.2, ?_⟩
  rw [h1, h2]
  by_cases h0 : voteAt votes v.1 = 0
  · simp [h0]
  · have : (voteAt votes v.1 == 0) = false := by simpa using h0
    simp [h0, this]

/-- counterexample environment: validator `vb`, all of whose 500 shares are held by `d2` -/
def cxAllDelegated : Env :=
  { t := 0, bond := "uctk", modAddr := "gov",
    stake := { vals := [("vb", 500, Dec.ofInt 500)], dels := [("d2", "vb", Dec.ofInt 500)], totalBonded := 500 } }

/-- "Equality only if the validator voted" is false: when a delegator holding all of a validator's shares votes, all
    the shares are counted although the validator did not vote. -/
theorem no_share_counted_twice_fails :
    ¬ (∀ (e : Env) (votes : List Vote) (v : Addr × Int × Dec), StakeWF e → VotersDistinct votes → v ∈ e.stake.vals →
        (delCounted e votes v.1 + valCounted e votes v.1 = v.2.2.raw ↔ voteAt votes v.1 ≠ 0)) := by
  intro h
  have := h cxAllDelegated [⟨7, "d2", 1⟩] ("vb", 500, Dec.ofInt 500)
    ⟨by decide, by decide, by decide, by decide, by decide⟩ (by unfold VotersDistinct; decide) (by decide)
  revert this
  decide

/-- In exact arithmetic the counted shares of a validator are worth at most its tokens: `counted·tokens ≤ shares·tokens`,
    that is `counted/shares·tokens ≤ tokens`; summing over the validators gives at most the sum of their bonded tokens. -/
theorem exact_power_le_tokens (e : Env) (wf : StakeWF e) (votes : List Vote) (hd : VotersDistinct votes)
    (v : Addr × Int × Dec) (hv : v ∈ e.stake.vals) :
    (delCounted e votes v.1 + valCounted e votes v.1) * v.2.1 ≤ v.2.2.raw * v.2.1 :=
  Int.mul_le_mul_of_nonneg_right (counted_le_shares e wf votes hd v hv).1 (wf.tokensNonneg v hv)

/-! ### (c) the counted shares are the specification's -/

/-- For every bonded validator and every option, the shares the tally counts for the option are: the listed delegations
    to the validator whose choice (the chain's rule `choiceM`) is the option, plus — if the validator voted the option — the
    validator's shares outside the listed delegations.
    What is missing with respect to the stated rule (`choice`, see `share_level_refinement_fails`): a delegation held by the
    operator address of a bonded validator is not counted for the operator's own vote but for the vote of the validator it
    is delegated to; `choiceM` differs from `choice` on exactly these delegations. -/
theorem share_level_refinement_partial (e : Env) (wf : StakeWF e) (votes : List Vote) (hd : VotersDistinct votes)
    (v : Addr × Int × Dec) (hv : v ∈ e.stake.vals) (o : Nat) (ho : o ≠ 0) :
    countedShares e votes v.1 o = specShares (choiceM e votes) e votes v o :=
  counted_eq_spec e votes hd wf.distinct v hv o ho

/-- counterexample environment: validator `va` holds 100 of the 500 shares of validator `vb` -/
def cxCross : Env :=
  { t := 0, bond := "uctk", modAddr := "gov",
    stake := { vals := [("va", 900, Dec.ofInt 900), ("vb", 500, Dec.ofInt 500)],
               dels := [("va", "va", Dec.ofInt 900), ("va", "vb", Dec.ofInt 100), ("d2", "vb", Dec.ofInt 400)],
               totalBonded := 1400 } }

/-- With the rule as stated ("the delegator's own vote if the delegator voted") the refinement is FALSE: validator `va`
    votes yes and holds 100 shares of validator `vb`, which votes no; the chain counts these 100 shares as no. -/
theorem share_level_refinement_fails :
    ¬ (∀ (e : Env) (votes : List Vote) (v : Addr × Int × Dec) (o : Nat), StakeWF e → VotersDistinct votes →
        v ∈ e.stake.vals → o ≠ 0 → countedShares e votes v.1 o = specShares (choice votes) e votes v o) := by
  intro h
  have := h cxCross [⟨7, "va", 1⟩, ⟨7, "vb", 3⟩] ("vb", 500, Dec.ofInt 500) 1
    ⟨by decide, by decide, by decide, by decide, by decide⟩ (by unfold VotersDistinct; decide) (by decide) (by decide)
  revert this
  decide

/-- The stated rule holds whenever no voting validator operator holds a delegation to another validator. -/
theorem share_level_refinement_stated (e : Env) (wf : StakeWF e) (votes : List Vote) (hd : VotersDistinct votes)
    (hcross : ∀ d ∈ e.stake.dels, isValidator e d.1 = true → hasVoted votes d.1 = true → d.2.1 = d.1)
    (v : Addr × Int × Dec) (hv : v ∈ e.stake.vals) (o : Nat) (ho : o ≠ 0) :
    countedShares e votes v.1 o = specShares (choice votes) e votes v o := by
  rw [share_level_refinement_partial e wf votes hd v hv o ho]
  unfold specShares
  congr 2
  apply List.filter_congr
  intro d hdm
  rw [choice_eq_choiceM e votes d hd (hcross d hdm)]

/-! ### (d) rounding -/

/-- Every counted piece belongs to a bonded validator and is converted with that validator's shares and tokens.
    Its power (units of 10⁻¹⁸ token), times the validator's shares, is at most the exact value `shares·10¹⁸·tokens` plus
    `validatorShares·tokens/2`: at most `tokens/2` units above the exact power.
    It is at least the exact value minus `validatorShares·tokens·(1/2 + 10⁻¹⁸)`: at most `tokens·(1/2 + 10⁻¹⁸)` units below. -/
theorem piece_rounding (e : Env) (wf : StakeWF e) (votes : List Vote) (hd : VotersDistinct votes) (p : Piece)
    (hp : p ∈ pieces e votes) :
    (∃ v ∈ e.stake.vals, p.val = v.1 ∧ p.vshares = v.2.2 ∧ p.vtokens = v.2.1) ∧
    2 * (p.power.raw * p.vshares.raw) ≤ 2 * (p.shares.raw * Dec.prec * p.vtokens) + p.vshares.raw * p.vtokens ∧
    Dec.prec * (2 * (p.shares.raw * Dec.prec * p.vtokens)) ≤
      Dec.prec * (2 * (p.power.raw * p.vshares.raw)) + p.vshares.raw * p.vtokens * (Dec.prec + 2) := by
  obtain ⟨v, hv, h1, h2, h3, h4⟩ := piece_facts e wf votes hd p hp
  have hb := pw_bounds p.shares p.vshares p.vtokens h4 (by rw [h2]; exact wf.sharesPos v hv)
    (by rw [h3]; exact wf.tokensNonneg v hv)
  exact ⟨⟨v, hv, h1, h2, h3⟩, hb.1, hb.2.1⟩

/-- The power counted for one validator is at most its tokens plus half a unit of 10⁻¹⁸ token per counted piece and token. -/
theorem validator_power_le_tokens_plus_slack (e : Env) (wf : StakeWF e) (votes : List Vote) (hd : VotersDistinct votes)
    (v : Addr × Int × Dec) (hv : v ∈ e.stake.vals) :
    2 * sumOn ((pieces e votes).filter (fun p => p.val == v.1)) (fun p => p.power.raw) ≤
      (2 * Dec.prec + ((pieces e votes).filter (fun p => p.val == v.1)).length) * v.2.1 :=
  validator_power_bound e wf votes hd v hv

/-- The total counted power (units of 10⁻¹⁸ token) is at most the validators' bonded tokens plus `N/2` units per bonded
    token, `N` the number of counted pieces: `total ≤ bonded·(1 + N/2·10⁻¹⁸)`. -/
theorem total_power_le_bonded_plus_slack (e : Env) (wf : StakeWF e) (votes : List Vote) (hd : VotersDistinct votes) :
    2 * (stakeResults e votes).total.raw ≤
      (2 * Dec.prec + (pieces e votes).length) * sumOn e.stake.vals (fun v => v.2.1) :=
  total_bound_simple e wf votes hd

/-- Power against the specification, per validator and option: the power the chain counts for validator `v` and option `o`
    (units of 10⁻¹⁸ token), times the validator's shares, is at most the exact value of the specified shares
    `spec·10¹⁸·tokens` plus `n·shares·tokens/2`, and at least that exact value minus `n·shares·tokens·(1/2 + 10⁻¹⁸)`, `n`
    the number of pieces counted for `v` and `o`.
    Dividing by the validator's shares: `|power − spec/shares·tokens| ≤ n·tokens·(1/2 + 10⁻¹⁸)` units of 10⁻¹⁸ token. -/
theorem option_power_refinement (e : Env) (wf : StakeWF e) (votes : List Vote) (hd : VotersDistinct votes)
    (v : Addr × Int × Dec) (hv : v ∈ e.stake.vals) (o : Nat) (ho : o ≠ 0) :
    2 * (sumOn ((pieces e votes).filter (fun p => p.val == v.1 && p.option == o)) (fun p => p.power.raw) * v.2.2.raw) ≤
      2 * (specShares (choiceM e votes) e votes v o * Dec.prec * v.2.1) +
        ((pieces e votes).filter (fun p => p.val == v.1 && p.option == o)).length * (v.2.2.raw * v.2.1) ∧
    Dec.prec * (2 * (specShares (choiceM e votes) e votes v o * Dec.prec * v.2.1)) ≤
      Dec.prec * (2 * (sumOn ((pieces e votes).filter (fun p => p.val == v.1 && p.option == o)) (fun p => p.power.raw) * v.2.2.raw)) +
        ((pieces e votes).filter (fun p => p.val == v.1 && p.option == o)).length * (v.2.2.raw * v.2.1 * (Dec.prec + 2)) :=
  option_power_bounds e wf votes hd v hv o ho

/-! ### (e) the order of the stored votes does not matter -/

/-- The accumulated results do not depend on the order of the votes. -/
theorem results_independent_of_vote_order (e : Env) (votes votes' : List Vote) (hp : votes.Perm votes')
    (hd : VotersDistinct votes) : stakeResults e votes = stakeResults e votes' := stakeResults_perm e hp hd

/-- The counted shares do not depend on the order of the votes: what is proved above of any vote list holds of the
    sorted list the tally walks. -/
theorem counted_shares_independent_of_vote_order (e : Env) (votes votes' : List Vote) (hp : votes.Perm votes')
    (hd : VotersDistinct votes) (a : Addr) (o : Nat) : countedShares e votes a o = countedShares e votes' a o :=
  countedShares_perm e hp hd a o

/-- Two states that hold the same votes in different orders get the same outcome of the stake round: pass, veto and the
    stored tally are equal, and the same votes remain. -/
theorem tally_independent_of_vote_order (e : Env) (g : State) (p : Proposal) (cd : Int) (votes' : List Vote)
    (hp : g.votes.Perm votes') (hwf : VotesWF g.votes) :
    (stakeTally e g p cd).1 = (stakeTally e { g with votes := votes' } p cd).1 ∧
    (stakeTally e g p cd).2.1 = (stakeTally e { g with votes := votes' } p cd).2.1 ∧
    (stakeTally e g p cd).2.2.1 = (stakeTally e { g with votes := votes' } p cd).2.2.1 ∧
    (stakeTally e g p cd).2.2.2.votes.Perm (stakeTally e { g with votes := votes' } p cd).2.2.2.votes := by
  have hr : stakeResults e (sortVotes (g.votes.filter (·.pid == p.id))) =
      stakeResults e (sortVotes (votes'.filter (·.pid == p.id))) := by
    apply stakeResults_perm e _ (mine_distinct g.votes hwf p.id)
    exact (sortVotes_perm _).trans ((hp.filter _).trans (sortVotes_perm _).symm)
  rw [stakeTally_eq, stakeTally_eq]
  simp only []
  rw [hr]
  exact ⟨rfl, rfl, rfl, hp.filter _⟩

/-! ### non-vacuity: three validators, five delegations, four votes on proposal 7 (and one on proposal 8) -/

/-- `va` (1000 shares: 400 its own, 600 of `d1`), `vb` (500 shares, all of `d2`), `vc` (300 shares: 100 of `d1`, 200 of `d3`) -/
def exEnv : Env :=
  { t := 0, bond := "uctk", modAddr := "gov",
    stake := { vals := [("va", 1000, Dec.ofInt 1000), ("vb", 500, Dec.ofInt 500), ("vc", 300, Dec.ofInt 300)],
               dels := [("va", "va", Dec.ofInt 400), ("d1", "va", Dec.ofInt 600), ("d2", "vb", Dec.ofInt 500),
                        ("d1", "vc", Dec.ofInt 100), ("d3", "vc", Dec.ofInt 200)],
               totalBonded := 1800 } }

/-- `x9` (no delegations) votes yes, `vb` vetoes, `d1` votes no against its validator `va` which votes yes; `vc` and `d2`,
    `d3` do not vote on proposal 7 -/
def exVotes : List Vote := [⟨7, "x9", 1⟩, ⟨7, "vb", 4⟩, ⟨8, "d3", 1⟩, ⟨7, "d1", 3⟩, ⟨7, "va", 1⟩]
def exMine : List Vote := sortVotes (exVotes.filter (·.pid == 7))

example : StakeWF exEnv := ⟨by decide, by decide, by decide, by decide, by decide⟩
example : VotesWF exVotes := by unfold VotesWF; decide
example : VotersDistinct exMine := by unfold VotersDistinct; decide
example : exMine.map (·.voter) = ["d1", "va", "vb", "x9"] := by decide
/-- the deductions: 600 from `va` (`d1` overrides it), 100 from `vc`; `vb` none -/
example : (voteLoop exEnv exMine).1.map (fun x => (x.addr, x.vote, x.deductions.raw)) =
    [("va", 1, 600 * Dec.prec), ("vb", 4, 0), ("vc", 0, 100 * Dec.prec)] := by decide
/-- yes: the 400 remaining shares of `va`; no: 600 + 100 of `d1`; veto: all 500 of `vb` (`d2` did not vote); `d3`'s 200
    shares of `vc` are not counted; `x9` counts nothing -/
example : countedShares exEnv exMine "va" 1 = 400 * Dec.prec ∧ countedShares exEnv exMine "va" 3 = 600 * Dec.prec ∧
    countedShares exEnv exMine "vc" 3 = 100 * Dec.prec ∧ countedShares exEnv exMine "vb" 4 = 500 * Dec.prec ∧
    countedShares exEnv exMine "vc" 1 = 0 := by decide
example : (pieces exEnv exMine).length = 4 := by decide
/-- rounding at work: `100/300` of 300 tokens is 99.999…9, so "no" is stored as 699 and the total is 1600 − 10⁻¹⁶ -/
example : (stakeResults exEnv exMine).tally = ⟨400, 0, 699, 500⟩ ∧
    (stakeResults exEnv exMine).total.raw = 1600 * Dec.prec - 100 := by decide
/-- the rounding bound of `piece_rounding` is nearly attained: 100 of 300 shares of a validator with 300 tokens get
    100 tokens minus 100 units, the bound being 150 units -/
example : (pw (Dec.ofInt 100) (Dec.ofInt 300) 300).raw = 100 * Dec.prec - 100 := by decide
/-- the cross-delegation hypothesis of `share_level_refinement_stated` holds here: `va` only delegates to itself -/
example : ∀ d ∈ exEnv.stake.dels, isValidator exEnv d.1 = true → hasVoted exMine d.1 = true → d.2.1 = d.1 := by decide
/-- the order of the stored votes: reversing the store gives the same outcome -/
example : (stakeTally exEnv { (default : State) with votes := exVotes } { (default : Proposal) with id := 7 } 0).2.2.1 =
    (stakeTally exEnv { (default : State) with votes := exVotes.reverse } { (default : Proposal) with id := 7 } 0).2.2.1 := by
  decide

/-! ### one vote per voter, over histories -/

/-- Every step of the model keeps at most one stored vote per proposal and voter. -/
theorem one_vote_per_voter_step (w w' : World) (op : Op) (hwf : VotesWF w.g.votes) (h : step w op = .ok w') :
    VotesWF w'.g.votes := step_votesWF w w' op hwf h

/-- After every history there is at most one stored vote per proposal and voter. -/
theorem one_vote_per_voter_run (w : World) (hwf : VotesWF w.g.votes) (ops : List Op) : VotesWF (run w ops).g.votes :=
  run_votesWF ops w hwf

/-! ### status only moves forward, over histories -/

/-- The empty proposal store is well formed, whatever the next id. -/
theorem store_wf_init (ds : List Deposit) (vs : List Vote) (n : Nat) (ps : Params) :
    GovWF { proposals := [], deposits := ds, votes := vs, nextId := n, params := ps } :=
  ⟨List.nodup_nil, fun _ h => by cases h⟩

/-- Every history keeps the proposal store well formed: ids distinct and below the next id. -/
theorem store_wf_run (w : World) (wf : GovWF w.g) (ops : List Op) : GovWF (run w ops).g := (run_adv ops w wf).wf wf

/-- Over every history, a stored proposal is either still stored with a status of the same or a higher rank — and with
    the very same record if it was passed, rejected or failed — or it has been dropped, which happens only to proposals in
    the deposit period. -/
theorem status_only_moves_forward (w : World) (wf : GovWF w.g) (ops : List Op) (id : Nat) (p : Proposal)
    (h : findP w.g id = some p) :
    match findP (run w ops).g id with
    | some p' => Props.C12.rank p.status ≤ Props.C12.rank p'.status ∧ (Props.C12.rank p.status = 4 → p' = p)
    | none => p.status = 1 := (run_adv ops w wf).fwd id p h

/-- A passed, rejected or failed proposal stays stored and unchanged for ever. -/
theorem finalised_never_changes (w : World) (wf : GovWF w.g) (ops : List Op) (id : Nat) (p : Proposal)
    (h : findP w.g id = some p) (hfin : p.status = 4 ∨ p.status = 5 ∨ p.status = 6) :
    findP (run w ops).g id = some p := by
  have hr : Props.C12.rank p.status = 4 := by rcases hfin with h1 | h1 | h1 <;> rw [h1] <;> rfl
  have := status_only_moves_forward w wf ops id p h
  cases hf : findP (run w ops).g id with
  | none => rw [hf] at this; simp only [] at this; rw [this] at hr; simp [Props.C12.rank] at hr
  | some q => rw [hf] at this; simp only [] at this; rw [this.2 hr]

/-- The same between any two points of a history that starts in a well-formed state. -/
theorem status_forward_between_any_two_points (w : World) (wf : GovWF w.g) (ops₁ ops₂ : List Op) :
    Fwd (run w ops₁).g (run w (ops₁ ++ ops₂)).g := by
  rw [run_append]
  exact (run_adv ops₂ _ (store_wf_run w wf ops₁)).fwd

/-- The finalisation keeps the handler's result only when the votes passed the proposal and the handler succeeded,
    and then it writes status passed. -/
theorem finish_applies_handler_only_on_pass (w : World) (p : Proposal) (pass : Bool) (t : Tally)
    (hc : (finish w p pass t).c ≠ w.c ∨ (finish w p pass t).l ≠ w.l) :
    pass = true ∧ ∃ w', runHandler w p = .ok w' ∧ (finish w p pass t).c = w'.c ∧ (finish w p pass t).l = w'.l ∧
      findP (finish w p pass t).g p.id = some { p with status := 4, tally := t } := by
  unfold finish at hc ⊢
  cases pass with
  | false => simp at hc
  | true =>
    simp only [if_true] at hc ⊢
    cases hh : runHandler w p with
    | error x => rw [hh] at hc; simp at hc
    | ok w' =>
      refine ⟨by trivial, w', rfl, rfl, rfl, ?_⟩
      simp only []
      rw [Gov.findP_setP]; simp

/-- A step changes the certifier state — the only thing the modelled handlers change — only if it turns a proposal that
    was not final (or not stored) before the step into a passed one. -/
theorem handler_effect_only_when_passed (w w' : World) (op : Op) (wf : GovWF w.g) (h : step w op = .ok w')
    (hc : w'.c ≠ w.c) :
    ∃ id p', findP w'.g id = some p' ∧ p'.status = 4 ∧ ∀ p, findP w.g id = some p → Props.C12.rank p.status < 4 := by
  rcases (step_adv w w' op wf h).cert with h1 | h1
  · exact absurd h1 hc
  · exact h1

/-- Once a proposal is passed, no later step of any history turns it into a passed one again: the handler's effect is
    applied at most once per proposal. -/
theorem handler_runs_at_most_once (w : World) (wf : GovWF w.g) (id : Nat) (p : Proposal) (h : findP w.g id = some p)
    (h4 : p.status = 4) (ops : List Op) (op : Op) :
    ¬ ∃ p', findP (apply (run w ops) op).g id = some p' ∧ p'.status = 4 ∧
        ∀ q, findP (run w ops).g id = some q → Props.C12.rank q.status < 4 := by
  intro ⟨p', _, _, hq⟩
  have := hq p (finalised_never_changes w wf ops id p h (Or.inl h4))
  rw [h4] at this
  simp [Props.C12.rank] at this

/-! non-vacuity: validator `va` submits a text proposal (id 0, straight into the validator voting period), `va` votes
    yes and `d1` no, the end-blocker passes it; a second end-blocker and a late vote change nothing -/
def exOps : List Op :=
  [.submit exEnv "va" { (default : Proposal) with kind := "text" } [], .vote 0 "va" 1, .vote 0 "d1" 3,
   .endBlock exEnv, .endBlock exEnv, .vote 0 "va" 3]

example : GovWF (default : World).g := store_wf_init [] [] 0 default
example : VotesWF (default : World).g.votes := one_vote_per_voter_init
example : (List.range 7).map (fun n => ((findP (run default (exOps.take n)).g 0).map (·.status),
      (run default (exOps.take n)).g.votes.length)) =
    [(none, 0), (some 3, 0), (some 3, 1), (some 3, 2), (some 4, 0), (some 4, 0), (some 4, 0)] := by decide

/-! non-vacuity of `handler_effect_only_when_passed`: with certifier `c1` in the council, validator `va` proposes to add
    certifier `c2` (id 0, certifier round), `c1` votes yes; the end-blocker passes the proposal and the council changes
    in that step — and only in that step -/
def exCertWorld : World :=
  { (default : World) with c := { (default : Cert.State) with certifiers := [⟨"c1", "", ""⟩] } }
def exCertOps : List Op :=
  [.submit exEnv "va" { (default : Proposal) with kind := "certifierUpdate", cuCertifier := "c2", cuAdd := true } [],
   .vote 0 "c1" 1, .endBlock exEnv, .endBlock exEnv]

example : (List.range 5).map (fun n => ((findP (run exCertWorld (exCertOps.take n)).g 0).map (·.status),
      (run exCertWorld (exCertOps.take n)).c.certifiers.map (·.addr))) =
    [(none, ["c1"]), (some 2, ["c1"]), (some 2, ["c1"]), (some 4, ["c1", "c2"]), (some 4, ["c1", "c2"])] := by decide

end Shentu.Props.C12T

#print axioms Shentu.Props.C12T.stake_tally_is_two_loops
#print axioms Shentu.Props.C12T.results_are_pieces
#print axioms Shentu.Props.C12T.results_by_option
#print axioms Shentu.Props.C12T.one_vote_per_voter_init
#print axioms Shentu.Props.C12T.one_vote_per_voter_vote
#print axioms Shentu.Props.C12T.one_vote_per_voter_tally
#print axioms Shentu.Props.C12T.tally_votes_distinct
#print axioms Shentu.Props.C12T.deductions_exact
#print axioms Shentu.Props.C12T.operator_vote_only_records
#print axioms Shentu.Props.C12T.operator_delegations_follow_target
#print axioms Shentu.Props.C12T.no_share_counted_twice_partial
#print axioms Shentu.Props.C12T.no_share_counted_twice_fails
#print axioms Shentu.Props.C12T.exact_power_le_tokens
#print axioms Shentu.Props.C12T.share_level_refinement_partial
#print axioms Shentu.Props.C12T.share_level_refinement_fails
#print axioms Shentu.Props.C12T.share_level_refinement_stated
#print axioms Shentu.Props.C12T.piece_rounding
#print axioms Shentu.Props.C12T.validator_power_le_tokens_plus_slack
#print axioms Shentu.Props.C12T.total_power_le_bonded_plus_slack
#print axioms Shentu.Props.C12T.option_power_refinement
#print axioms Shentu.Props.C12T.counted_shares_independent_of_vote_order
#print axioms Shentu.Props.C12T.results_independent_of_vote_order
#print axioms Shentu.Props.C12T.tally_independent_of_vote_order
#print axioms Shentu.Props.C12T.one_vote_per_voter_step
#print axioms Shentu.Props.C12T.one_vote_per_voter_run
#print axioms Shentu.Props.C12T.store_wf_init
#print axioms Shentu.Props.C12T.store_wf_run
#print axioms Shentu.Props.C12T.status_only_moves_forward
#print axioms Shentu.Props.C12T.finalised_never_changes
#print axioms Shentu.Props.C12T.status_forward_between_any_two_points
#print axioms Shentu.Props.C12T.finish_applies_handler_only_on_pass
#print axioms Shentu.Props.C12T.handler_effect_only_when_passed
#print axioms Shentu.Props.C12T.handler_runs_at_most_once
