import Shentu.Gen.EVM
import Shentu.Arith.Spec
import Shentu.Proofs.EVMLemmas
/-
  C16 (arithmetic core) — Contracts compute what the EVM specification says:
  "Arithmetic, comparison, bitwise, shift ... instructions all wrap, truncate and sign-extend as 256-bit EVM words."

  `Gen.EVM.op_X w0 w1 ..` is what the `case X:` of `vm/contract.go` `execute` leaves on top of the stack when
  the words `w0 w1 ..` are popped in that order (regenerated from the Go AST on every run, see translator/evm.go;
  `Option Nat` when the case uses a primitive that can panic or raise an error, `none` being that failure).
  `Spec.x` is the Yellow Paper / execution-specs semantics on `BitVec 256` (Shentu/Arith/Spec.lean).
  Each `refines_X` holds for ALL 256-bit operands.  (Before the `fix:` commits 986ee65 / 35da036 SIGNEXTEND and BYTE
  deviated for index operands ≥ 2^64 and only had `_partial` theorems; 4014336 made EXP modular.)
-/
namespace Shentu.Props.C16
open Shentu Shentu.Arith Shentu.Gen.EVM

theorem tie_sites : Gen.EVM.allFound = true := by decide

theorem refines_ADD (x y : BitVec 256) : op_ADD x.toNat y.toNat = (Spec.add x y).toNat := by
  simp only [op_ADD, Spec.add, pushBigInt, bigOfWord, BitVec.toNat_add, u256]
  omega

theorem refines_MUL (x y : BitVec 256) : op_MUL x.toNat y.toNat = (Spec.mul x y).toNat := by
  simp only [op_MUL, Spec.mul, pushBigInt, bigOfWord, BitVec.toNat_mul, u256, ← Int.natCast_mul]
  omega

theorem refines_SUB (x y : BitVec 256) : op_SUB x.toNat y.toNat = (Spec.sub x y).toNat := by
  have := x.isLt; have := y.isLt
  simp only [op_SUB, Spec.sub, pushBigInt, bigOfWord, BitVec.toNat_sub, u256]
  omega

theorem refines_LT (x y : BitVec 256) : op_LT x.toNat y.toNat = (Spec.lt x y).toNat := by
  simp only [op_LT, Spec.lt, Spec.ofBool, bigOfWord, bigCmp_lt, Int.ofNat_lt, decide_eq_true_eq]
  split <;> rfl

theorem refines_GT (x y : BitVec 256) : op_GT x.toNat y.toNat = (Spec.gt x y).toNat := by
  simp only [op_GT, Spec.gt, Spec.ofBool, bigOfWord, bigCmp_gt, gt_iff_lt, Int.ofNat_lt, decide_eq_true_eq]
  split <;> rfl

theorem refines_EQ (x y : BitVec 256) : op_EQ x.toNat y.toNat = (Spec.eq x y).toNat := by
  simp only [op_EQ, Spec.eq, Spec.ofBool, wordEq, beq_iff_eq, decide_eq_true_eq, BitVec.toNat_inj]
  split <;> rfl

theorem refines_ISZERO (x : BitVec 256) : op_ISZERO x.toNat = (Spec.iszero x).toNat := by
  simp only [op_ISZERO, Spec.iszero, Spec.ofBool, wordIsZero, beq_iff_eq, decide_eq_true_eq, toNat_eq_zero]
  split <;> rfl

theorem refines_AND (x y : BitVec 256) : op_AND x.toNat y.toNat = (Spec.and x y).toNat := by
  simp only [op_AND, Spec.and, BitVec.toNat_and, bytewise2_bitwise _ and256 andDiv256, pow256_32]
  rw [Nat.mod_eq_of_lt (Nat.and_lt_two_pow _ y.isLt)]

theorem refines_OR (x y : BitVec 256) : op_OR x.toNat y.toNat = (Spec.or x y).toNat := by
  simp only [op_OR, Spec.or, BitVec.toNat_or, bytewise2_bitwise _ or256 orDiv256, pow256_32]
  rw [Nat.mod_eq_of_lt (Nat.or_lt_two_pow x.isLt y.isLt)]

theorem refines_XOR (x y : BitVec 256) : op_XOR x.toNat y.toNat = (Spec.xor x y).toNat := by
  simp only [op_XOR, Spec.xor, BitVec.toNat_xor, bytewise2_bitwise _ xor256 xorDiv256, pow256_32]
  rw [Nat.mod_eq_of_lt (Nat.xor_lt_two_pow x.isLt y.isLt)]

theorem refines_NOT (x : BitVec 256) : op_NOT x.toNat = (Spec.not x).toNat := by
  simp only [op_NOT, Spec.not, BitVec.toNat_not, bytewise1_not, pow256_32]
  rw [Nat.mod_eq_of_lt x.isLt]

theorem refines_DIV (x y : BitVec 256) : op_DIV x.toNat y.toNat = some (Spec.div x y).toNat := by
  have hx := x.isLt
  have hd : x.toNat / y.toNat ≤ x.toNat := Nat.div_le_self _ _
  simp only [op_DIV, Spec.div, bigOfWord, bigSign_eq_zero, Int.natCast_eq_zero, toNat_eq_zero]
  split
  · rfl
  · next h =>
    have h' : ¬ ((y.toNat : Int) = 0) := by rw [Int.natCast_eq_zero, toNat_eq_zero]; exact h
    simp only [bigDiv, if_neg h', Option.bind_some, pushBigInt, ← Int.natCast_ediv, u256_natCast, BitVec.toNat_ofNat]

theorem refines_MOD (x y : BitVec 256) : op_MOD x.toNat y.toNat = some (Spec.mod x y).toNat := by
  simp only [op_MOD, Spec.mod, bigOfWord, bigSign_eq_zero, Int.natCast_eq_zero, toNat_eq_zero]
  split
  · rfl
  · next h =>
    have h' : ¬ ((y.toNat : Int) = 0) := by rw [Int.natCast_eq_zero, toNat_eq_zero]; exact h
    simp only [bigMod, if_neg h', Option.bind_some, pushBigInt, ← Int.natCast_emod, u256_natCast, BitVec.toNat_ofNat]

theorem refines_ADDMOD (x y z : BitVec 256) : op_ADDMOD x.toNat y.toNat z.toNat = some (Spec.addmod x y z).toNat := by
  simp only [op_ADDMOD, Spec.addmod, bigOfWord, bigSign_eq_zero, Int.natCast_eq_zero, toNat_eq_zero]
  split
  · rfl
  · next h =>
    have h' : ¬ ((z.toNat : Int) = 0) := by rw [Int.natCast_eq_zero, toNat_eq_zero]; exact h
    simp only [bigMod, if_neg h', Option.bind_some, pushBigInt, ← Int.natCast_add, ← Int.natCast_emod, u256_natCast, BitVec.toNat_ofNat]

theorem refines_MULMOD (x y z : BitVec 256) : op_MULMOD x.toNat y.toNat z.toNat = some (Spec.mulmod x y z).toNat := by
  simp only [op_MULMOD, Spec.mulmod, bigOfWord, bigSign_eq_zero, Int.natCast_eq_zero, toNat_eq_zero]
  split
  · rfl
  · next h =>
    have h' : ¬ ((z.toNat : Int) = 0) := by rw [Int.natCast_eq_zero, toNat_eq_zero]; exact h
    simp only [bigMod, if_neg h', Option.bind_some, pushBigInt, ← Int.natCast_mul, ← Int.natCast_emod, u256_natCast, BitVec.toNat_ofNat]

/-- EXP is computed as `Exp(x, y, tt256)` with the package-level `tt256 = 1 << 256` (resolved from its declaration) -/
theorem refines_EXP (x y : BitVec 256) : op_EXP x.toNat y.toNat = some (Spec.exp x y).toNat := by
  simp only [op_EXP, Spec.exp, bigOfWord, bigExpMod_natCast, Option.bind_some, pushBigInt, BitVec.toNat_ofNat,
    u256_natCast, Nat.mod_mod]

theorem refines_SDIV (x y : BitVec 256) : op_SDIV x.toNat y.toNat = some (Spec.sdiv x y).toNat := by
  simp only [op_SDIV, bigOfWordSigned_toNat, bigSign_eq_zero, toInt_eq_zero]
  split
  · next h => subst h; rfl
  · next h =>
    have h' : ¬ (y.toInt = 0) := by rw [toInt_eq_zero]; exact h
    simp only [bigQuo, if_neg h', Option.bind_some, pushBigInt, Spec.sdiv_eq_tdiv x y h, Spec.ofSigned, toNat_ofInt_eq_u256]

theorem refines_SMOD (x y : BitVec 256) : op_SMOD x.toNat y.toNat = some (Spec.smod x y).toNat := by
  simp only [op_SMOD, bigOfWordSigned_toNat, bigSign_eq_zero, toInt_eq_zero]
  split
  · next h => subst h; rfl
  · next h =>
    have h' : ¬ (y.toInt = 0) := by rw [toInt_eq_zero]; exact h
    simp only [bigRem, if_neg h', Option.bind_some, pushBigInt, Spec.smod_eq_tmod x y h, Spec.ofSigned, toNat_ofInt_eq_u256]

theorem refines_SLT (x y : BitVec 256) : op_SLT x.toNat y.toNat = (Spec.slt x y).toNat := by
  simp only [op_SLT, Spec.slt, Spec.ofBool, bigOfWordSigned_toNat, bigCmp_lt, decide_eq_true_eq]
  split <;> rfl

theorem refines_SGT (x y : BitVec 256) : op_SGT x.toNat y.toNat = (Spec.sgt x y).toNat := by
  simp only [op_SGT, Spec.sgt, Spec.ofBool, bigOfWordSigned_toNat, bigCmp_gt, decide_eq_true_eq]
  split <;> rfl

theorem refines_SAR (s x : BitVec 256) : op_SAR s.toNat x.toNat = (Spec.sar s x).toNat := by
  simp only [op_SAR, Spec.sar, bigOfWordSigned_toNat, bigOfWord, bigCmp_ge, bigSign_neg, pushBigInt, Spec.ofSigned]
  by_cases h : s.toNat ≥ 256
  · rw [if_pos (by omega), if_pos h]
    by_cases hx : x.toInt < 0
    · rw [if_pos hx, if_neg (by omega)]; rfl
    · rw [if_neg hx, if_pos (by omega)]; rfl
  · rw [if_neg (by omega), if_neg h, toNat_ofInt_eq_u256]
    have : bigUint64 (s.toNat : Int) = s.toNat := by unfold bigUint64; omega
    rw [this, bigRsh]

theorem refines_SIGNEXTEND (b x : BitVec 256) : op_SIGNEXTEND b.toNat x.toNat = (Spec.signextend b x).toNat := by
  simp only [op_SIGNEXTEND, Spec.signextend, bigOfWord, bigIsUint64_natCast, pushBigInt]
  by_cases hb : b.toNat < 31
  · have h0 : b.toNat < 2 ^ 64 := by omega
    have h1 : bigUint64 (b.toNat : Int) = b.toNat := bigUint64_small _ h0
    have h2 : u64 (u64 (b.toNat + 1) * 8) = 8 * (b.toNat + 1) := by unfold u64; omega
    simp only [h0, h1, hb, and_self, if_true, h2]
    rw [signExtend_eq_bmod _ _ (by omega), toNat_eq_u256_toInt (BitVec.signExtend 256 _),
      BitVec.toInt_signExtend_of_le (by omega), BitVec.toInt_setWidth]
  · have h1 : ¬ (b.toNat < 2 ^ 64 ∧ bigUint64 (b.toNat : Int) < 31) := by
      intro ⟨h0, h⟩; rw [bigUint64_small _ h0] at h; exact hb h
    simp only [h1, hb, if_false]

theorem refines_SHL (s x : BitVec 256) : op_SHL s.toNat x.toNat = (Spec.shl s x).toNat := by
  simp only [op_SHL, Spec.shl, bigOfWord, bigCmp_ge, pushBigInt]
  by_cases h : s.toNat ≥ 256
  · have h' : (s.toNat : Int) ≥ 256 := by omega
    simp only [h, h', if_true]; rfl
  · have h' : ¬ ((s.toNat : Int) ≥ 256) := by omega
    simp only [h, h', if_false, bigUint64_small _ (by omega : s.toNat < 2 ^ 64), bigLsh, BitVec.toNat_shiftLeft,
      Nat.shiftLeft_eq]
    rw [show (2 : Int) ^ s.toNat = ((2 ^ s.toNat : Nat) : Int) by simp, ← Int.natCast_mul, u256_natCast]

theorem refines_SHR (s x : BitVec 256) : op_SHR s.toNat x.toNat = (Spec.shr s x).toNat := by
  simp only [op_SHR, Spec.shr, bigOfWord, bigCmp_ge, pushBigInt]
  by_cases h : s.toNat ≥ 256
  · have h' : (s.toNat : Int) ≥ 256 := by omega
    simp only [h, h', if_true]; rfl
  · have h' : ¬ ((s.toNat : Int) ≥ 256) := by omega
    simp only [h, h', if_false, bigUint64_small _ (by omega : s.toNat < 2 ^ 64), bigRsh, BitVec.toNat_ushiftRight,
      Nat.shiftRight_eq_div_pow]
    have hx := x.isLt
    have hd : x.toNat / 2 ^ s.toNat ≤ x.toNat := Nat.div_le_self _ _
    rw [show (2 : Int) ^ s.toNat = ((2 ^ s.toNat : Nat) : Int) by simp, ← Int.natCast_ediv, u256_of_lt _ (by omega)]

theorem refines_BYTE (i x : BitVec 256) : op_BYTE i.toNat x.toNat = some (Spec.byte i x).toNat := by
  simp only [op_BYTE, Spec.byte, bigOfWord, bigIsUint64_natCast]
  by_cases hi : i.toNat < 32
  · have h0 : i.toNat < 2 ^ 64 := by omega
    have h1 : bigUint64 (i.toNat : Int) = i.toNat := bigUint64_small _ h0
    simp only [h0, h1, hi, and_self, if_true, wordByte, Option.bind_some, push64, BitVec.toNat_and,
      BitVec.toNat_ushiftRight, Nat.shiftRight_eq_div_pow]
    have e1 : (255#256).toNat = 2 ^ 8 - 1 := by decide
    have e2 : 2 ^ (8 * (31 - i.toNat)) = 256 ^ (31 - i.toNat) := by rw [Nat.pow_mul]
    rw [e1, Nat.and_two_pow_sub_one_eq_mod, e2]
    congr 1
    omega
  · have h1 : ¬ (i.toNat < 2 ^ 64 ∧ bigUint64 (i.toNat : Int) < 32) := by
      intro ⟨h0, h⟩; rw [bigUint64_small _ h0] at h; exact hi h
    simp only [h1, hi, if_false]; rfl

/-- the operands that used to deviate (index ≥ 2^64) now follow the specification -/
example : op_SIGNEXTEND (2 ^ 64) 0xff = 0xff ∧ op_BYTE (2 ^ 64) 1 = some 0 := by decide

end Shentu.Props.C16

#print axioms Shentu.Props.C16.tie_sites
#print axioms Shentu.Props.C16.refines_ADD
#print axioms Shentu.Props.C16.refines_MUL
#print axioms Shentu.Props.C16.refines_SUB
#print axioms Shentu.Props.C16.refines_DIV
#print axioms Shentu.Props.C16.refines_SDIV
#print axioms Shentu.Props.C16.refines_MOD
#print axioms Shentu.Props.C16.refines_SMOD
#print axioms Shentu.Props.C16.refines_ADDMOD
#print axioms Shentu.Props.C16.refines_MULMOD
#print axioms Shentu.Props.C16.refines_EXP
#print axioms Shentu.Props.C16.refines_SIGNEXTEND
#print axioms Shentu.Props.C16.refines_LT
#print axioms Shentu.Props.C16.refines_GT
#print axioms Shentu.Props.C16.refines_SLT
#print axioms Shentu.Props.C16.refines_SGT
#print axioms Shentu.Props.C16.refines_EQ
#print axioms Shentu.Props.C16.refines_ISZERO
#print axioms Shentu.Props.C16.refines_AND
#print axioms Shentu.Props.C16.refines_OR
#print axioms Shentu.Props.C16.refines_XOR
#print axioms Shentu.Props.C16.refines_NOT
#print axioms Shentu.Props.C16.refines_BYTE
#print axioms Shentu.Props.C16.refines_SHL
#print axioms Shentu.Props.C16.refines_SHR
#print axioms Shentu.Props.C16.refines_SAR

