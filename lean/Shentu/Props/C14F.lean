import Shentu.Proofs.C14FDust
import Shentu.Props.C15H
/-
  C14 / C15, the module-account statement at the level of histories — the oracle module account always covers what the
  module owes, and the recorded total collateral is the sum of the operators' collateral.

  **What is proved.**  `owed s d` is, in the denomination `d`, the sum over all operators of their collateral, plus the sum
  over all pending withdrawals of their amount, plus the sum over all operators of their accumulated rewards, plus the sum
  over all PENDING tasks (status 1) of their bounty.  `Funded m l s` says `owed s d ≤` balance of `m` in `l`, for every `d`.
  `TotalIsSum s` says that `s.total` and the sum of the operators' collateral agree in every denomination.  Both hold in the
  empty state, every operation of `Oracle.Op` keeps them (`step_preserves`), a refused operation changes nothing
  (`refused_changes_nothing`), hence they hold after every history (`reachable_funded`, `reachable_total_is_sum`): any list
  of `(Env × Op)`, of any length, each operation in its own environment, heights in any order.

  **What is assumed** (`Hyp m bond ops`).  All environments carry the module address `m` and the bond denomination `bond`.
  No `createOperator`, `addCollateral` or `createTask` is signed by `m` itself.  The last hypothesis is needed:
  `funded_fails_when_module_pays` is a history in which `m` creates a task, the bank moves the bounty from `m` to `m`, and
  the rewards credited for it are then paid out of an operator's collateral until the begin-blocker halts.  On the chain a
  module account has no key and signs nothing.  The start state must be well-formed (`WF bond s`): positive `eps1`, `eps2`,
  non-negative collateral in the bond denomination, valid bounties, scores in [0, 100], distinct operator addresses, distinct
  task keys.  The empty state is well-formed (`empty_wf`) and every operation keeps it (`step_preserves`).  For the empty
  state to be funded the module account must not be overdrawn at the start (`empty_funded`; the posting ledger of the model
  allows negative balances, `empty_funded_negative_balance_fails`).

  **Which tasks hold their bounty.**  Exactly the pending ones.  The end-blocker takes a task out of `pending` and in the same
  step credits at most its bounty as rewards (`end_block_never_raises_debt`, `end_one_releases_at_most_the_bounty`).  What is
  not credited stays in the module account and is owed to nobody any more: the rounding remainder of a distribution, the
  whole bounty of a task that failed (no eligible response), the bounty of a pending task that its creator deletes after a
  skipped closing block (`deleteTask_moves_no_coins`: nothing is returned to the creator), and what a task replaced by
  `createTask` still held (`createTask_exact`).  There is no message that takes such coins out again, so the inequality is
  `≤` and the gap only ever grows, by exactly these amounts.  The rounding remainder of one distribution is at most the
  number of the task's responses minus one, in every denomination of the bounty (`rounding_remainder_bound`); the history
  `histB` below attains this bound (two responses, one unit left over in each of the two denominations).

  **Nothing false was found in the statement itself** once the hypothesis on the module address is made.
-/
namespace Shentu.Props.C14F
open Shentu Shentu.Oracle Shentu.C14FH

/-! ### the start -/

/-- The empty oracle state with positive epsilons is well-formed, whatever the other parameters. -/
theorem empty_wf (bond : Denom) (p : Params) (h1 : 0 < p.eps1) (h2 : 0 < p.eps2) : WF bond (emptyS p) :=
  wf_empty bond p h1 h2

/-- The empty oracle state is funded in every ledger in which the module account is not overdrawn: it owes nothing. -/
theorem empty_funded (m : Addr) (l : Ledger) (p : Params) (h : ∀ d, 0 ≤ l.balOf m d) : Funded m l (emptyS p) := by
  intro d; rw [owed_empty]; exact h d

/-- In the empty oracle state the total collateral and the sum over the operators are both zero. -/
theorem empty_total_is_sum (p : Params) : TotalIsSum (emptyS p) := by
  intro d; simp [emptyS, C15HH.collSum]

/-- "The empty state with ANY ledger is funded" is false: the posting ledger allows an overdrawn module account. -/
theorem empty_funded_negative_balance_fails :
    ¬ (∀ (m : Addr) (l : Ledger) (p : Params), Funded m l (emptyS p)) := by
  intro h
  have := h "oracle" { posts := [("oracle", "uctk", -1)], supply := [] } default "uctk"
  rw [owed_empty] at this
  revert this
  decide

/-! ### one operation -/

/-- **A refused operation changes nothing**: neither the ledger nor the oracle state. -/
theorem refused_changes_nothing (e : Env) (ls : Ledger × State) (op : Op) (x : Err)
    (h : stepE e ls.1 ls.2 op = .error x) : step e ls op = ls := by
  unfold step; rw [h]

/-- **Every accepted operation, in figures.**  In every denomination the debt grows by no more than the module account's
    balance grows, and the recorded total collateral changes by exactly as much as the sum of the operators' collateral.
    The state stays well-formed. -/
theorem operation_delta {m : Addr} {bond : Denom} {e : Env} {l l' : Ledger} {s s' : State} {op : Op} (hm : e.modAddr = m)
    (hb : e.bond = bond) (hp : OpPayer op ≠ some m) (hw : WF bond s) (h : stepE e l s op = .ok (l', s')) :
    (∀ d, owed s' d - owed s d ≤ l'.balOf m d - l.balOf m d) ∧
    (∀ d, Coins.amountOf s'.total d - Coins.amountOf s.total d = C15HH.collSum s'.ops d - C15HH.collSum s.ops d) ∧
    WF bond s' := by
  obtain ⟨a1, a2⟩ := stepE_facts hm hb hp hw h
  exact ⟨a1.owed, a1.total, a2⟩

/-- **Every operation keeps the module account funded, the total equal to the sum, and the state well-formed** — each of
    the eight messages, the begin-blocker and the end-blocker, accepted or refused. -/
theorem step_preserves {m : Addr} {bond : Denom} {e : Env} {ls : Ledger × State} {op : Op} (hm : e.modAddr = m)
    (hb : e.bond = bond) (hp : OpPayer op ≠ some m) (hw : WF bond ls.2) (hf : Funded m ls.1 ls.2) (ht : TotalIsSum ls.2) :
    WF bond (step e ls op).2 ∧ Funded m (step e ls op).1 (step e ls op).2 ∧ TotalIsSum (step e ls op).2 := by
  have := good_step (eo := (e, op)) hm hb hp ⟨hw, hf, ht⟩
  exact ⟨this.wf, this.funded, this.total⟩

/-! ### every history -/

/-- **C14/C15, module account.**  After every history that satisfies `Hyp`, from every well-formed funded start, the oracle
    module account holds at least the operators' collateral plus the pending withdrawals plus the accumulated rewards plus
    the bounties of the pending tasks, in every denomination. -/
theorem reachable_funded {m : Addr} {bond : Denom} (ops : List (Env × Op)) (ls : Ledger × State) (hh : Hyp m bond ops)
    (hw : WF bond ls.2) (hf : Funded m ls.1 ls.2) (ht : TotalIsSum ls.2) :
    Funded m (run ls ops).1 (run ls ops).2 :=
  (good_run ops hh ⟨hw, hf, ht⟩).funded

/-- **C14, total collateral.**  After every such history the recorded total collateral equals the sum of the operators'
    collateral, in every denomination. -/
theorem reachable_total_is_sum {m : Addr} {bond : Denom} (ops : List (Env × Op)) (ls : Ledger × State)
    (hh : Hyp m bond ops) (hw : WF bond ls.2) (hf : Funded m ls.1 ls.2) (ht : TotalIsSum ls.2) :
    TotalIsSum (run ls ops).2 :=
  (good_run ops hh ⟨hw, hf, ht⟩).total

/-- After every such history the state is still well-formed: the hypothesis of the two theorems above is an invariant. -/
theorem reachable_wf {m : Addr} {bond : Denom} (ops : List (Env × Op)) (ls : Ledger × State) (hh : Hyp m bond ops)
    (hw : WF bond ls.2) (hf : Funded m ls.1 ls.2) (ht : TotalIsSum ls.2) : WF bond (run ls ops).2 :=
  (good_run ops hh ⟨hw, hf, ht⟩).wf

/-- From genesis: the empty oracle state, any parameters with positive epsilons, any ledger in which the module account is
    not overdrawn.  Both statements hold after every history that satisfies `Hyp`. -/
theorem from_genesis {m : Addr} {bond : Denom} (ops : List (Env × Op)) (l : Ledger) (p : Params) (h1 : 0 < p.eps1)
    (h2 : 0 < p.eps2) (h0 : ∀ d, 0 ≤ l.balOf m d) (hh : Hyp m bond ops) :
    Funded m (run (l, emptyS p) ops).1 (run (l, emptyS p) ops).2 ∧ TotalIsSum (run (l, emptyS p) ops).2 :=
  ⟨reachable_funded ops _ hh (empty_wf bond p h1 h2) (empty_funded m l p h0) (empty_total_is_sum p),
   reachable_total_is_sum ops _ hh (empty_wf bond p h1 h2) (empty_funded m l p h0) (empty_total_is_sum p)⟩

/-- The same for the ghost run of `Props/C15H` (which carries the same ledger and state): the statement `module_funded`
    left open there. -/
theorem module_funded {m : Addr} {bond : Denom} (ops : List (Env × Op)) (r0 : C15HH.Run) (hh : Hyp m bond ops)
    (hw : WF bond r0.s) (hf : Funded m r0.l r0.s) (ht : TotalIsSum r0.s) :
    Funded m (ops.foldl C15HH.runStep r0).l (ops.foldl C15HH.runStep r0).s ∧ TotalIsSum (ops.foldl C15HH.runStep r0).s := by
  have e := foldl_runStep_ls ops r0
  have h1 := reachable_funded ops (r0.l, r0.s) hh hw hf ht
  have h2 := reachable_total_is_sum ops (r0.l, r0.s) hh hw hf ht
  rw [← e] at h1 h2
  exact ⟨h1, h2⟩

/-! ### where the bounty goes -/

/-- **The end-blocker never raises the debt.**  It moves no coins, leaves collateral, withdrawals and the recorded total
    alone, and in every denomination what it credits as rewards is at most the bounties of the tasks it takes out of
    `pending`. -/
theorem end_block_never_raises_debt {e : Env} {l l' : Ledger} {s s' : State} (hw : WF e.bond s)
    (h : stepE e l s .endBlock = .ok (l', s')) :
    l' = l ∧ (∀ d, owed s' d ≤ owed s d) ∧ (∀ d, C15HH.collSum s'.ops d = C15HH.collSum s.ops d) ∧ s'.total = s.total := by
  simp only [stepE] at h
  cases hr : endBlock e s with
  | error x => rw [hr] at h; cases h
  | ok s1 =>
    rw [hr] at h; injection h with h; injection h with h1 h2; subst h1 h2
    have hs := endBlock_step hw hr
    exact ⟨rfl, hs.owed, hs.coll, hs.total⟩

/-- **One closing task releases at most its bounty.**  Handling one identifier in the end-blocker lowers the debt by at
    most what the task under that key held (its bounty if pending, nothing otherwise) and never raises it.  The difference
    between the two bounds is what was credited as rewards; the rest of the bounty stays in the account, owed to nobody. -/
theorem end_one_releases_at_most_the_bounty {bond : Denom} {s s' : State} {id : String × String} (hw : WF bond s)
    (h : endOne bond s id = .ok s') (d : Denom) :
    owed s d - heldUnder s (id.1 ++ id.2) d ≤ owed s' d ∧ owed s' d ≤ owed s d :=
  ⟨endOne_released hw h d, (endOne_step hw h).1.owed d⟩

/-- **The rounding remainder of one distribution.**  Handling one identifier in the end-blocker either credits nothing at
    all (no task, task not pending, or the task ends without an eligible response: the whole bounty stays in the account),
    or it distributes the bounty of the pending task under that key: then, in every denomination, the rewards credited are at
    most the bounty and at least the bounty minus (number of responses − 1) — every share is rounded down once. -/
theorem rounding_remainder_bound {bond : Denom} {s s' : State} {id : String × String} (hw : WF bond s)
    (h : endOne bond s id = .ok s') :
    (∀ d, C15HH.rewSum s'.ops d = C15HH.rewSum s.ops d) ∨
    ∃ t, findTask s (id.1 ++ id.2) = some t ∧ t.status = 1 ∧
      ∀ d, C15HH.rewSum s.ops d + Coins.amountOf t.bounty d - ((t.responses.length : Int) - 1) ≤ C15HH.rewSum s'.ops d ∧
           C15HH.rewSum s'.ops d ≤ C15HH.rewSum s.ops d + Coins.amountOf t.bounty d :=
  endOne_rewards hw h

/-- **`deleteTask` moves no coins.**  An accepted deletion leaves the ledger as it is: nothing goes back to the creator.
    The debt falls by what the deleted task still held, which is its whole bounty if it was still pending (possible only
    when the end-blocker of its closing block never ran), and nothing if it was finished. -/
theorem deleteTask_moves_no_coins {bond : Denom} {e : Env} {l l' : Ledger} {s s' : State} {ct fn : String} {fo : Bool}
    {dl : Addr} (hw : WF bond s) (h : stepE e l s (.deleteTask ct fn fo dl) = .ok (l', s')) :
    l' = l ∧ ∃ t, findTask s (ct ++ fn) = some t ∧ t.creator = dl ∧ t.closing < e.h ∧
      ∀ d, owed s' d = owed s d - holds t d := by
  simp only [stepE] at h
  cases hr : deleteTask e s ct fn fo dl with
  | error x => rw [hr] at h; cases h
  | ok s1 =>
    rw [hr] at h; injection h with h; injection h with h1 h2; subst h1 h2
    exact ⟨rfl, deleteTask_exact hw hr⟩

/-- **`createTask`, exactly.**  The bounty arrives in the module account.  The debt grows by the bounty and falls by what
    the task replaced under the same key still held: leftovers of a replaced task are not refunded and not carried over. -/
theorem createTask_exact {m : Addr} {bond : Denom} {e : Env} {l l' : Ledger} {s s' : State} {ct fn : String} {b : Coins}
    {cr : Addr} {w v : Int} (hm : e.modAddr = m) (hcr : cr ≠ m) (hw : WF bond s)
    (h : stepE e l s (.createTask ct fn b cr w v) = .ok (l', s')) :
    (∀ d, l'.balOf m d = l.balOf m d + Coins.amountOf b d) ∧
    (∀ d, owed s' d = owed s d + Coins.amountOf b d - heldUnder s (ct ++ fn) d) := by
  have := C14FH.createTask_exact hm hcr hw (by simpa [stepE] using h)
  exact ⟨this.1, this.2.1⟩

/-! ### the hypothesis on the module address is needed -/

def ledgerM : Ledger := { posts := [("alice", "uctk", 1000)], supply := [] }

/-- alice puts up 100 as collateral; the module address itself creates a task with a bounty of 60 (the bank moves 60 from
    the module account to the module account); alice answers, is credited the 60, withdraws them and leaves -/
def histM : List (Env × Op) :=
  [ (C15H.env 1, .createOperator "alice" [("uctk", 100)] "alice"),
    (C15H.env 2, .createTask "ab" "c" [("uctk", 60)] "oracle" 3 0),
    (C15H.env 3, .respond "ab" "c" 80 "alice"),
    (C15H.env 5, .endBlock),
    (C15H.env 6, .withdrawReward "alice"),
    (C15H.env 6, .removeOperator "alice") ]

def atM (n : Nat) : Ledger × State := run (ledgerM, emptyS C15H.params0) (histM.take n)

/-- what the begin-blocker answers -/
def beginRefusal (e : Env) (ls : Ledger × State) : Option String :=
  match stepE e ls.1 ls.2 .beginBlock with
  | .error x => some x.kind
  | .ok _ => none

set_option maxRecDepth 100000 in
/-- the figures of `histM`: after the module's own `createTask` the account holds 100 against a debt of 160; the 60 of
    rewards are paid out of alice's collateral; when her withdrawal of 100 falls due the account holds 40 and the
    begin-blocker panics -/
theorem histM_figures :
    ((atM 1).1.balOf "oracle" "uctk", owed (atM 1).2 "uctk") = (100, 100) ∧
    ((atM 2).1.balOf "oracle" "uctk", owed (atM 2).2 "uctk") = (100, 160) ∧
    ((atM 4).1.balOf "oracle" "uctk", C15HH.rewSum (atM 4).2.ops "uctk") = (100, 60) ∧
    ((atM 6).1.balOf "oracle" "uctk", owed (atM 6).2 "uctk") = (40, 100) ∧
    beginRefusal (C15H.env 11) (atM 6) = some "panic:oracle:FinalizeMatureWithdraws-send" := by decide

/-- **Without "the module address signs no paying message" the statement is false**: every other hypothesis holds for the
    first two operations of `histM` (one module address, one bond denomination, a well-formed funded start), and the module
    account is not funded after them. -/
theorem funded_fails_when_module_pays :
    ¬ (∀ (m : Addr) (bond : Denom) (ops : List (Env × Op)) (ls : Ledger × State),
        (∀ eo ∈ ops, eo.1.modAddr = m ∧ eo.1.bond = bond) → WF bond ls.2 → Funded m ls.1 ls.2 → TotalIsSum ls.2 →
        Funded m (run ls ops).1 (run ls ops).2) := by
  intro h
  have := h "oracle" "uctk" (histM.take 2) (ledgerM, emptyS C15H.params0) (by decide)
    (empty_wf _ _ (by decide) (by decide)) (empty_funded _ _ _ (fun d => by simp [ledgerM, Ledger.balOf, Ledger.bal]))
    (empty_total_is_sum _) "uctk"
  have hf := histM_figures.2.1
  simp only [atM, Prod.mk.injEq] at hf
  rw [hf.1, hf.2] at this
  omega

/-! ### non-vacuity: the history of `Props/C15H` -/

/-- The 14-step history `hist` of `Props/C15H` (two operators, three `createTask`, four `respond`, two end-blockers, three
    `deleteTask`) and its variant `histB` satisfy the hypotheses of every theorem above, from the empty state over
    `ledger0`: one module address "oracle" that signs nothing, one bond denomination, positive epsilons, no overdraft. -/
example : Hyp "oracle" "uctk" C15H.hist ∧ Hyp "oracle" "uctk" C15H.histB ∧ 0 < C15H.params0.eps1 ∧ 0 < C15H.params0.eps2 ∧
    ∀ d, 0 ≤ C15H.ledger0.balOf "oracle" d :=
  ⟨by decide, by decide, by decide, by decide, fun d => by simp [C15H.ledger0, Ledger.balOf, Ledger.bal]⟩

/-- hence both statements hold at the end of `hist` -/
example : Funded "oracle" (run (C15H.ledger0, emptyS C15H.params0) C15H.hist).1 (run (C15H.ledger0, emptyS C15H.params0) C15H.hist).2 ∧
    TotalIsSum (run (C15H.ledger0, emptyS C15H.params0) C15H.hist).2 :=
  from_genesis (bond := "uctk") C15H.hist C15H.ledger0 C15H.params0 (by decide) (by decide)
    (fun d => by simp [C15H.ledger0, Ledger.balOf, Ledger.bal]) (by decide)

def endB : Ledger × State := run (C15H.ledger0, emptyS C15H.params0) C15H.histB

set_option maxRecDepth 100000 in
/-- both sides of the inequality at the end of `histB`, checked by the kernel: the account holds 490 uctk against 400 of
    collateral, no withdrawal, 89 of rewards and no pending bounty (one unit of rounding remainder of the 90 uctk bounty
    stays for good), and 40 uatom against 39 of rewards; the recorded total collateral is 400 -/
example :
    endB.1.balOf "oracle" "uctk" = 490 ∧ owed endB.2 "uctk" = 489 ∧
    (C15HH.collSum endB.2.ops "uctk", Halt.Orc.wdSum endB.2.wds "uctk", C15HH.rewSum endB.2.ops "uctk", bountySum endB.2.tasks "uctk") =
      (400, 0, 89, 0) ∧
    endB.1.balOf "oracle" "uatom" = 40 ∧ owed endB.2 "uatom" = 39 ∧ Coins.amountOf endB.2.total "uctk" = 400 := by decide

set_option maxRecDepth 100000 in
/-- non-vacuity of `rounding_remainder_bound` and `end_one_releases_at_most_the_bounty`, and the bound is attained: before
    the end-blocker of block 5 of `histB` the state is well-formed (`reachable_wf`) and the task "abc" is pending with two
    responses and a bounty of 90 uctk and 40 uatom; the end-blocker credits 89 and 39 -/
example :
    WF "uctk" (run (C15H.ledger0, emptyS C15H.params0) (C15H.histB.take 6)).2 ∧
    ((findTask (run (C15H.ledger0, emptyS C15H.params0) (C15H.histB.take 6)).2 "abc").map
      (fun t => (t.status, t.responses.length, Coins.amountOf t.bounty "uctk", Coins.amountOf t.bounty "uatom"))) = some (1, 2, 90, 40) ∧
    C15HH.rewSum (run (C15H.ledger0, emptyS C15H.params0) (C15H.histB.take 6)).2.ops "uctk" = 0 ∧
    (C15HH.rewSum (run (C15H.ledger0, emptyS C15H.params0) (C15H.histB.take 7)).2.ops "uctk",
     C15HH.rewSum (run (C15H.ledger0, emptyS C15H.params0) (C15H.histB.take 7)).2.ops "uatom") = (89, 39) :=
  ⟨reachable_wf (m := "oracle") (C15H.histB.take 6) _ (by decide) (empty_wf _ _ (by decide) (by decide))
      (empty_funded _ _ _ (fun d => by simp [C15H.ledger0, Ledger.balOf, Ledger.bal])) (empty_total_is_sum _),
   by decide, by decide, by decide⟩

def endH : Ledger × State := run (C15H.ledger0, emptyS C15H.params0) C15H.hist

/-! Both sides at the end of the 14-step `hist`, by evaluation (`#guard`; the kernel cannot unfold `String.startsWith`,
    which the end-blocker calls when the task "xy" fails): the account holds 497 uctk against a debt of 489 — the 7 uctk
    bounty of the failed task "xy" and one unit of rounding remainder stay in the account, owed to nobody. -/
#guard (endH.1.balOf "oracle" "uctk", owed endH.2 "uctk", endH.1.balOf "oracle" "uatom", owed endH.2 "uatom") = (497, 489, 40, 39)
#guard (C15HH.collSum endH.2.ops "uctk", Halt.Orc.wdSum endH.2.wds "uctk", C15HH.rewSum endH.2.ops "uctk",
        bountySum endH.2.tasks "uctk", Coins.amountOf endH.2.total "uctk") = (400, 0, 89, 0, 400)

/-- a pending task is deleted by its creator after a skipped closing block: the bounty of 7 stays in the account and leaves
    the debt (non-vacuity of `deleteTask_moves_no_coins` with a task that still held its bounty) -/
def histD : List (Env × Op) :=
  [ (C15H.env 2, .createTask "x" "y" [("uctk", 7)] "carol" 2 0),
    (C15H.env 6, .deleteTask "x" "y" true "carol") ]

set_option maxRecDepth 100000 in
example :
    ((run (C15H.ledger0, emptyS C15H.params0) (histD.take 1)).1.balOf "oracle" "uctk",
      owed (run (C15H.ledger0, emptyS C15H.params0) (histD.take 1)).2 "uctk") = (7, 7) ∧
    ((run (C15H.ledger0, emptyS C15H.params0) histD).1.balOf "oracle" "uctk",
      owed (run (C15H.ledger0, emptyS C15H.params0) histD).2 "uctk",
      (run (C15H.ledger0, emptyS C15H.params0) histD).1.balOf "carol" "uctk") = (7, 0, 493) := by decide

/-- the hypotheses of `deleteTask_moves_no_coins` and `createTask_exact` hold along `histD`: the creator "carol" is not the
    module address, the state before each of the two messages is well-formed, and both messages are accepted -/
example :
    WF "uctk" (emptyS C15H.params0) ∧ WF "uctk" (run (C15H.ledger0, emptyS C15H.params0) (histD.take 1)).2 ∧
    ("carol" : Addr) ≠ "oracle" ∧
    (run (C15H.ledger0, emptyS C15H.params0) (histD.take 1)).2.tasks.length = 1 ∧
    (run (C15H.ledger0, emptyS C15H.params0) histD).2.tasks.length = 0 :=
  ⟨empty_wf _ _ (by decide) (by decide),
   reachable_wf (m := "oracle") (histD.take 1) _ (by decide) (empty_wf _ _ (by decide) (by decide))
      (empty_funded _ _ _ (fun d => by simp [C15H.ledger0, Ledger.balOf, Ledger.bal])) (empty_total_is_sum _),
   by decide, by decide, by decide⟩

end Shentu.Props.C14F

#print axioms Shentu.Props.C14F.empty_wf
#print axioms Shentu.Props.C14F.empty_funded
#print axioms Shentu.Props.C14F.empty_total_is_sum
#print axioms Shentu.Props.C14F.empty_funded_negative_balance_fails
#print axioms Shentu.Props.C14F.refused_changes_nothing
#print axioms Shentu.Props.C14F.operation_delta
#print axioms Shentu.Props.C14F.step_preserves
#print axioms Shentu.Props.C14F.reachable_funded
#print axioms Shentu.Props.C14F.reachable_total_is_sum
#print axioms Shentu.Props.C14F.reachable_wf
#print axioms Shentu.Props.C14F.from_genesis
#print axioms Shentu.Props.C14F.module_funded
#print axioms Shentu.Props.C14F.end_block_never_raises_debt
#print axioms Shentu.Props.C14F.end_one_releases_at_most_the_bounty
#print axioms Shentu.Props.C14F.rounding_remainder_bound
#print axioms Shentu.Props.C14F.deleteTask_moves_no_coins
#print axioms Shentu.Props.C14F.createTask_exact
#print axioms Shentu.Props.C14F.histM_figures
#print axioms Shentu.Props.C14F.funded_fails_when_module_pays
