import Shentu.Proofs.ReimbSplit
import Shentu.Props.C04
/-!
  C04r — the proportional split of an approved claim's loss over the collateral providers
  (`Shield.reimburseLoop` / `Shield.createReimbursement`).

  What one would like to have: "an approved claim within the books (shield sold plus loss within total collateral) is
  always paid".  This is FALSE of the code.  The split gives every provider its truncated share of the loss plus at most
  one unit, and the extra unit is only taken while the provider's collateral exceeds its two shares.  The shares can add
  up to less than the loss.  Then the Go code panics "not enough payout made" (the model returns the error
  `panic:shield:not-enough-payout`).

  What is proved here.
  * `split_short_at_full_utilisation`: two providers of 3, shield 4, loss 2 (shield plus loss equals the collateral):
    the model's payout panics, one unit short.  The same for three providers of 100000000.
  * `slack_of_one_unit_per_provider_fails`: being below full utilisation by one unit per provider is not enough.
    Providers of 1, 1 and 9 with shield 2 and loss 6 are still one unit short; this is the smallest such case.
    `split_short_below_full_utilisation` shows the same panic on the model for that state.
  * `payout_succeeds_only_if_split_complete`: the payout succeeds only if the pure split `splitLeft` leaves nothing.
  * `split_pays_in_full_with_two_spare_units` (alias `split_pays_in_full_below_full_utilisation_partial`), the
    strongest version we could prove: the payout succeeds when every provider's share of the UNUSED collateral
    (total collateral minus shield minus loss) is at least two units, `2·T ≤ c·(T − shield − loss)`.  Providers whose
    collateral is zero (they withdrew everything) are exempt: they are asked for nothing and pay nothing.
    `split_pays_in_full_with_two_spare_units_spare` has the sharper hypothesis `SpareTwo`: every provider that has collateral
    keeps two units beyond its two truncated shares.
  * `approved_claim_is_paid_in_full_with_two_spare_units`: under these hypotheses the payout succeeds, the module
    account gains exactly the loss, total collateral and the providers' collateral drop by exactly the loss, no
    collateral goes negative, and the reimbursement is recorded for the beneficiary.

  What is assumed: the collateral books are consistent (`Coll.CollInv`, an invariant of the shield model), there is
  collateral and it is below 10^18 units, the shield sold is not negative, the loss is positive, and the staking hooks
  report no negative stake.

  What is missing compared with "an approved claim within the books is always paid": the split is not complete.
  It can fall short by a unit whenever some provider has fewer than two spare units.  At exactly full utilisation
  every provider with a fractional share is in that situation.  The hypothesis of two spare units per provider cannot
  be replaced by one unit of slack per provider (second theorem).
-/
namespace Shentu.Props.C04r
open Shentu Shentu.Shield Shentu.Shield.Fund Shentu.ReimbSplit

/-! ## the split can fall short -/

section Short

def shParams : Params :=
  { protection := 1000, withdrawPeriod := 100, feesRate := ⟨10000000000000000⟩, poolLimit := ⟨500000000000000000⟩,
    minPurchase := 1, stakingRate := ⟨2000000000000000000⟩, payoutPeriod := 50 }

def prov (a : Addr) (c : Int) : Provider := { addr := a, collateral := c, withdrawing := 0, bonded := c, rewards := Dec.zero }

/-- a state with the given providers (no queued withdrawals), shield sold and loss locked -/
def shState (ps : List Provider) (total shield claimed : Int) : State :=
  { admin := "admin", pools := [{ id := 1, shield := shield, limit := 1000, active := true, sponsor := "sp", sponsorAddr := "spa" }],
    lists := [], providers := ps, withdraws := [], stakes := [], origStakings := [], reimbs := [],
    totalCollateral := total, totalWithdrawing := 0, totalShield := shield, totalClaimed := claimed, serviceFees := Dec.zero,
    remaining := Dec.zero, blockFees := Dec.zero, stakingPool := 0, lastUpdate := zeroTime, nextPool := 2, nextPurchase := 2,
    params := shParams }

def shEnv : Env := { t := 1200, bond := "uctk", modAddr := "shield", bondedPool := "bonded" }

def shLedger (n : Int) : Ledger := { posts := [("bonded", "uctk", n)], supply := [("uctk", n)] }

/-- two providers of 3; shield 4 and loss 2: exactly full utilisation -/
def shSmall : State := shState [prov "alice" 3, prov "bob" 3] 6 4 2

/-- three providers of 100000000; shield 199999999 and loss 100000001: exactly full utilisation -/
def shBig : State :=
  shState [prov "alice" 100000000, prov "bob" 100000000, prov "carol" 100000000] 300000000 199999999 100000001

/-- providers of 1, 1 and 9; shield 2 and loss 6: three units below full utilisation -/
def shSlack : State := shState [prov "alice" 1, prov "bob" 1, prov "carol" 9] 11 2 6

/-- the error kind of a result (`"ok"` when there is none) -/
def kindOf {α} (r : Except Err α) : String := match r with | .error x => x.kind | .ok _ => "ok"

/-- the collateral books of the three example states are consistent -/
theorem short_states_consistent : Coll.CollInv shSmall ∧ Coll.CollInv shBig ∧ Coll.CollInv shSlack := by
  refine ⟨?_, ?_, ?_⟩ <;> constructor <;> decide

/-- **The split falls short at full utilisation.**  Two providers of 3, shield 4, loss 2: the books are consistent and
    shield plus loss equals the collateral.  The payout of the approved claim panics "not enough payout": the split leaves
    one unit unpaid.  The same happens with three providers of 100000000, shield 199999999 and loss 100000001. -/
theorem split_short_at_full_utilisation :
    kindOf (createReimbursement shEnv (shLedger 6) shSmall 7 2 "admin") = "panic:shield:not-enough-payout" ∧
    splitLeft (Dec.quo (Dec.ofInt 4) (Dec.ofInt 6)) (Dec.quo (Dec.ofInt 2) (Dec.ofInt 6)) shSmall.providers 4 2 = 1 ∧
    shSmall.totalShield + 2 = shSmall.totalCollateral ∧
    kindOf (createReimbursement shEnv (shLedger 300000000) shBig 7 100000001 "admin") = "panic:shield:not-enough-payout" ∧
    splitLeft (Dec.quo (Dec.ofInt 199999999) (Dec.ofInt 300000000)) (Dec.quo (Dec.ofInt 100000001) (Dec.ofInt 300000000))
      shBig.providers 199999999 100000001 = 1 ∧
    shBig.totalShield + 100000001 = shBig.totalCollateral := by
  decide

/-- **One unit of slack per provider is not enough.**  The claim "if all collaterals are positive, the shield is not
    negative, the loss is positive and shield plus loss plus one unit per provider is within the collateral, then the
    split leaves nothing" is false.  Providers of 1, 1 and 9 with shield 2 and loss 6 leave one unit unpaid (smallest
    total collateral among all lists of up to three providers with collaterals up to 12 and of four providers with
    collaterals up to 8). -/
theorem slack_of_one_unit_per_provider_fails :
    ¬ (∀ (ps : List Provider) (ts a : Int), (∀ p ∈ ps, 0 < p.collateral) → 0 ≤ ts → 0 < a →
        ts + a + ps.length ≤ sumI (·.collateral) ps →
        splitLeft (Dec.quo (Dec.ofInt ts) (Dec.ofInt (sumI (·.collateral) ps)))
          (Dec.quo (Dec.ofInt a) (Dec.ofInt (sumI (·.collateral) ps))) ps ts a ≤ 0) := by
  intro h
  exact absurd (h shSlack.providers 2 6 (by decide) (by decide) (by decide) (by decide)) (by decide)

/-- The same on the model: with consistent books, providers of 1, 1 and 9, shield 2 and loss 6 (three units below full
    utilisation) the payout panics "not enough payout", one unit short. -/
theorem split_short_below_full_utilisation :
    kindOf (createReimbursement shEnv (shLedger 11) shSlack 7 6 "admin") = "panic:shield:not-enough-payout" ∧
    splitLeft (Dec.quo (Dec.ofInt 2) (Dec.ofInt 11)) (Dec.quo (Dec.ofInt 6) (Dec.ofInt 11)) shSlack.providers 2 6 = 1 ∧
    shSlack.totalShield + 6 + shSlack.providers.length ≤ shSlack.totalCollateral := by
  decide

end Short

/-! ## when the split pays in full -/

/-- **The payout succeeds only if the pure split leaves nothing.**  `splitLeft` (the two shares of every provider, in
    store order) is exactly what the model's loop leaves unpaid. -/
theorem payout_succeeds_only_if_split_complete (e : Env) (l l' : Ledger) (s s' : State) (pid : Nat) (amount : Int) (b : Addr)
    (h : createReimbursement e l s pid amount b = .ok (l', s')) :
    splitLeft (Dec.quo (Dec.ofInt s.totalShield) (Dec.ofInt s.totalCollateral))
      (Dec.quo (Dec.ofInt amount) (Dec.ofInt s.totalCollateral)) s.providers s.totalShield amount ≤ 0 := by
  obtain ⟨left, s1, _, hl, hleft, _⟩ := createReimbursement_ok e l l' s s' pid amount b h
  rw [← reimburseLoop_left e _ _ _ _ _ _ _ _ _ _ hl]
  exact hleft

/-- **The split pays in full when every provider keeps two spare units** (sharper hypothesis).  Assumed: consistent
    collateral books, collateral positive and below 10^18, shield not negative, loss positive, no negative stake reported
    by the staking hooks, and every provider either has no collateral at all (it withdrew everything; it is asked for
    nothing) or its collateral exceeds its two truncated shares by at least two units.
    Then the payout of the approved claim does not panic. -/
theorem split_pays_in_full_with_two_spare_units_spare (e : Env) (l : Ledger) (s : State) (pid : Nat) (amount : Int) (b : Addr)
    (hi : Coll.CollInv s) (hT : 0 < s.totalCollateral) (hTP : s.totalCollateral < Dec.prec) (hsh : 0 ≤ s.totalShield)
    (hamt : 0 < amount) (hb : ∀ a x, e.bondedAfter a = some x → 0 ≤ x)
    (hsp : ∀ p ∈ s.providers, p.collateral = 0 ∨
      SpareTwo (Dec.quo (Dec.ofInt s.totalShield) (Dec.ofInt s.totalCollateral))
        (Dec.quo (Dec.ofInt amount) (Dec.ofInt s.totalCollateral)) p) :
    ∃ l' s', createReimbursement e l s pid amount b = .ok (l', s') :=
  Halt.createReimbursement_total e l s pid amount b hi (by omega) hsh (by omega) hb
    (feasible_of_books s amount hi hT hTP (by omega) hsh hsp)

/-- **The split pays in full when every provider's share of the unused collateral is at least two units.**
    This is the strongest version of "an approved claim within the books is always paid" that we could prove; the
    statement without the last hypothesis is false (`split_short_at_full_utilisation`), and so is the statement with
    one unit of slack per provider instead (`slack_of_one_unit_per_provider_fails`).
    Assumed: consistent collateral books, collateral positive and below 10^18, shield not negative, loss positive, no
    negative stake reported by the staking hooks, and `2·T ≤ c·(T − shield − loss)` for every provider's collateral `c`
    that is not zero (`T` the total collateral; providers without collateral are exempt).  Then the payout of the approved claim does not panic. -/
theorem split_pays_in_full_with_two_spare_units (e : Env) (l : Ledger) (s : State) (pid : Nat) (amount : Int) (b : Addr)
    (hi : Coll.CollInv s) (hT : 0 < s.totalCollateral) (hTP : s.totalCollateral < Dec.prec) (hsh : 0 ≤ s.totalShield)
    (hamt : 0 < amount) (hb : ∀ a x, e.bondedAfter a = some x → 0 ≤ x)
    (hshare : ∀ p ∈ s.providers, p.collateral = 0 ∨
      2 * s.totalCollateral ≤ p.collateral * (s.totalCollateral - s.totalShield - amount)) :
    ∃ l' s', createReimbursement e l s pid amount b = .ok (l', s') :=
  split_pays_in_full_with_two_spare_units_spare e l s pid amount b hi hT hTP hsh hamt hb
    (spareTwo_of_books s amount hi hT hTP hsh (by omega) hshare)

/-- The same theorem under the name that says what it is: the partial version of "an approved claim below full
    utilisation is paid in full".  Missing: the cases where some provider has fewer than two spare units. -/
theorem split_pays_in_full_below_full_utilisation_partial (e : Env) (l : Ledger) (s : State) (pid : Nat) (amount : Int)
    (b : Addr) (hi : Coll.CollInv s) (hT : 0 < s.totalCollateral) (hTP : s.totalCollateral < Dec.prec)
    (hsh : 0 ≤ s.totalShield) (hamt : 0 < amount) (hb : ∀ a x, e.bondedAfter a = some x → 0 ≤ x)
    (hshare : ∀ p ∈ s.providers, p.collateral = 0 ∨
      2 * s.totalCollateral ≤ p.collateral * (s.totalCollateral - s.totalShield - amount)) :
    ∃ l' s', createReimbursement e l s pid amount b = .ok (l', s') :=
  split_pays_in_full_with_two_spare_units e l s pid amount b hi hT hTP hsh hamt hb hshare

/-- **An approved claim is paid in full when every provider keeps two spare units.**  Under the hypotheses above and
    with the bonded pool distinct from the module account: the payout succeeds.  The module account gains exactly the
    loss and nobody else's balance moves except the bonded pool's.  Total collateral and the locked amount drop by
    exactly the loss.  The providers' collateral drops by exactly the loss in total and none goes negative.  The
    reimbursement of the loss for the beneficiary is recorded and is the only record under that proposal id. -/
theorem approved_claim_is_paid_in_full_with_two_spare_units (e : Env) (l : Ledger) (s : State) (pid : Nat) (amount : Int)
    (b : Addr) (hi : Coll.CollInv s) (hT : 0 < s.totalCollateral) (hTP : s.totalCollateral < Dec.prec)
    (hsh : 0 ≤ s.totalShield) (hamt : 0 < amount) (hb : ∀ a x, e.bondedAfter a = some x → 0 ≤ x)
    (hbp : e.bondedPool ≠ e.modAddr)
    (hshare : ∀ p ∈ s.providers, p.collateral = 0 ∨
      2 * s.totalCollateral ≤ p.collateral * (s.totalCollateral - s.totalShield - amount)) :
    ∃ l' s', createReimbursement e l s pid amount b = .ok (l', s') ∧
      l'.balOf e.modAddr e.bond = l.balOf e.modAddr e.bond + amount ∧
      (∀ a d, a ≠ e.bondedPool → a ≠ e.modAddr → l'.balOf a d = l.balOf a d) ∧
      s'.totalCollateral = s.totalCollateral - amount ∧ s'.totalClaimed = s.totalClaimed - amount ∧
      sumI (·.collateral) s'.providers = sumI (·.collateral) s.providers - amount ∧
      (∀ q ∈ s'.providers, 0 ≤ q.collateral) ∧
      C04.record e s pid amount b ∈ s'.reimbs ∧
      (∀ r' ∈ s'.reimbs, r'.pid = pid → r' = C04.record e s pid amount b) := by
  obtain ⟨l', s', h⟩ := split_pays_in_full_with_two_spare_units e l s pid amount b hi hT hTP hsh hamt hb hshare
  have hc : ∀ p ∈ s.providers, 0 ≤ p.collateral := fun p hp => (hi.provNonneg p hp).1
  have hle : amount ≤ s.totalCollateral := by
    have := amount_le_of_share s amount hi hT hshare
    omega
  obtain ⟨hbal, hothers⟩ := C04.createReimbursement_coins_arrive e l l' s s' pid amount b h hbp (by omega)
  obtain ⟨ht1, ht2, _, _, _, _, _, hsum⟩ :=
    C04.createReimbursement_collateral_exact e l l' s s' pid amount b h hi.nodup (by omega) (by omega) hc
  obtain ⟨_, _, _, _, hnn⟩ := C04.createReimbursement_each_bounded e l l' s s' pid amount b h hi.nodup (by omega) hle hsh hc
  obtain ⟨_, hrec, honly, _⟩ := C04.createReimbursement_records e l l' s s' pid amount b h
  exact ⟨l', s', h, hbal, hothers, ht1, ht2, hsum, hnn, hrec, honly⟩

/-! ## non-vacuity -/

/-- The example of `Props/C04.lean` (alice 500, bob 300 with 290 queued for withdrawal, shield 200, loss 77) meets every
    hypothesis of the theorems above: the books are consistent, and the smaller provider's share of the unused
    collateral is 300 · 523 / 800 = 196 units. -/
example : Coll.CollInv C04.exBefore.2 ∧ 0 < C04.exBefore.2.totalCollateral ∧ C04.exBefore.2.totalCollateral < Dec.prec ∧
    0 ≤ C04.exBefore.2.totalShield ∧ (0 : Int) < 77 ∧ (∀ a x, (C04.exEnv 1200).bondedAfter a = some x → 0 ≤ x) ∧
    (C04.exEnv 1200).bondedPool ≠ (C04.exEnv 1200).modAddr ∧
    (∀ p ∈ C04.exBefore.2.providers, p.collateral = 0 ∨ 2 * C04.exBefore.2.totalCollateral ≤
      p.collateral * (C04.exBefore.2.totalCollateral - C04.exBefore.2.totalShield - 77)) ∧
    (∀ p ∈ C04.exBefore.2.providers, p.collateral = 0 ∨ SpareTwo (Dec.quo (Dec.ofInt C04.exBefore.2.totalShield) (Dec.ofInt C04.exBefore.2.totalCollateral))
      (Dec.quo (Dec.ofInt 77) (Dec.ofInt C04.exBefore.2.totalCollateral)) p) ∧
    (createReimbursement (C04.exEnv 1200) C04.exBefore.1 C04.exBefore.2 7 77 "admin").toOption.isSome = true := by
  refine ⟨by constructor <;> decide, by decide, by decide, by decide, by decide, ?_, by decide, by decide, by decide, by decide⟩
  intro a x h
  unfold C04.exEnv at h
  dsimp only at h
  split at h <;> (injection h with h; omega)

/-- providers of 0, 500, 0 and 300 (two of them withdrew everything); shield 200 and loss 77 -/
def exZeros : State := shState [prov "a" 0, prov "alice" 500, prov "b" 0, prov "bob" 300] 800 200 77

/-- A state with providers that have no collateral left meets every hypothesis too, and is paid in full. -/
example : Coll.CollInv exZeros ∧ 0 < exZeros.totalCollateral ∧ exZeros.totalCollateral < Dec.prec ∧
    0 ≤ exZeros.totalShield ∧ (∀ a x, shEnv.bondedAfter a = some x → 0 ≤ x) ∧ shEnv.bondedPool ≠ shEnv.modAddr ∧
    (∀ p ∈ exZeros.providers, p.collateral = 0 ∨ 2 * exZeros.totalCollateral ≤
      p.collateral * (exZeros.totalCollateral - exZeros.totalShield - 77)) ∧
    (createReimbursement shEnv (shLedger 800) exZeros 7 77 "admin").toOption.isSome = true ∧
    splitLeft (Dec.quo (Dec.ofInt 200) (Dec.ofInt 800)) (Dec.quo (Dec.ofInt 77) (Dec.ofInt 800)) exZeros.providers 200 77 = 0 := by
  refine ⟨by constructor <;> decide, by decide, by decide, by decide, ?_, by decide, by decide, by decide, by decide⟩
  intro a x h
  cases h

/-- The hypothesis of two spare units fails in the short examples, as it must. -/
example : (¬ ∀ p ∈ shSmall.providers, p.collateral = 0 ∨
      SpareTwo (Dec.quo (Dec.ofInt 4) (Dec.ofInt 6)) (Dec.quo (Dec.ofInt 2) (Dec.ofInt 6)) p) ∧
    (¬ ∀ p ∈ shSlack.providers, p.collateral = 0 ∨
      SpareTwo (Dec.quo (Dec.ofInt 2) (Dec.ofInt 11)) (Dec.quo (Dec.ofInt 6) (Dec.ofInt 11)) p) := by
  decide

end Shentu.Props.C04r

#print axioms Shentu.Props.C04r.short_states_consistent
#print axioms Shentu.Props.C04r.split_short_at_full_utilisation
#print axioms Shentu.Props.C04r.slack_of_one_unit_per_provider_fails
#print axioms Shentu.Props.C04r.split_short_below_full_utilisation
#print axioms Shentu.Props.C04r.payout_succeeds_only_if_split_complete
#print axioms Shentu.Props.C04r.split_pays_in_full_with_two_spare_units_spare
#print axioms Shentu.Props.C04r.split_pays_in_full_with_two_spare_units
#print axioms Shentu.Props.C04r.split_pays_in_full_below_full_utilisation_partial
#print axioms Shentu.Props.C04r.approved_claim_is_paid_in_full_with_two_spare_units
