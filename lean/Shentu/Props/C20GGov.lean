import Shentu.Proofs.C20GGovLemmas
import Shentu.Props.C11H
/-
  C20 for x/gov — export the governance state, import it into a fresh chain: observably the same chain; proposals in
  progress complete with the same amounts, recipients and outcomes.

  The model of export and import is `Shentu/Model/GenesisGov.lean` (`exportGenesis`, `initGenesis` in the order of
  x/gov/genesis.go).  `ExportGenesis` lists deposits and votes grouped by proposal.  The model keeps them in insertion
  order.  So the import changes the ORDER of the two record lists (`normalise`); it changes nothing else.

  What is proved, for ALL governance states that satisfy the invariant `WFG` (keys of the three stores are keys, every
  deposit and vote record belongs to a stored proposal):

   * `reimport_same`, `normalise_idem`, `normalise_import`: import after export is exactly the grouping `normalise`.
     Grouping twice is grouping once.  `reimport_identity_fails`: it is NOT the identity on the model state, because
     the model's lists remember how records of different proposals were interleaved.  The Go store does not hold that
     order (records are keyed by proposal first), so this is a difference of representation only.
   * `reexport_same`: exporting the imported state gives the same genesis file again.
   * `rebuilt_queues_same_as_running`, `rebuilt_queues_sorted`, `rebuilt_queues_content`,
     `rebuilt_queues_order_independent`, `endBlock_walks_rebuilt_inactive`, `endBlock_walks_rebuilt_active`,
     `endBlock_walks_rebuilt_all`: the two queues that `InitGenesis` rebuilds entry by entry are exactly the queues a
     running node holds.  They are in (time, id) order and contain exactly the proposals in deposit period, resp. in a
     voting period.  They do not depend on the order of the proposals in the genesis file.  The id sequences that the
     model's end blocker walks are the due entries of the rebuilt queues.  These hold for all states (no hypothesis).
   * `equiv_normalised`, `equiv_is_equivalence`: a state and its grouped form are `Equiv` (same proposals, counter,
     parameters; per proposal the same deposit records in the same order and the same vote records in the same order).
   * `vote_same`, `deposit_same`, `submit_same`, `endBlock_same`: every operation on two equivalent worlds gives the
     same error, or succeeds on both with equivalent worlds; equivalent worlds have EQUAL ledgers and EQUAL
     certification states.  So refunds go to the same depositors in the same order with the same amounts, burns are
     the same, tallies and outcomes are the same.
   * `continuation_same`: the same holds for every history (arbitrary list of operations, no bound).
     `continuation_reimported`, `reachable_continuation_same`: in particular for a state and its re-import, at any
     point of any history from an initial world.
   * `invariant_reimported`, `history_invariant_reimported`, `escrow_reimported`: `WFG`, the history invariant `WFH`
     and the escrow invariant of C11 hold for the re-imported state when they hold for the original.
   * `wf_init`, `wf_step`, `wf_reachable`: the invariant `WFH` (which contains `WFG`) holds in every initial world and
     is kept by every step, hence holds after every history.

  What is assumed.  Nothing beyond `WFG`, which is proved for every reachable state.  An initial world here has no
  proposal, no deposit record, an empty module account (`C11H.Init`) and no vote record.  The last condition is needed:
  `orphan_vote_breaks_equiv` shows that a vote record without a proposal is lost by the export.  Within one proposal the
  model keeps the records in insertion order on both sides; the Go store iterates them in address order on both sides.
-/
namespace Shentu.Props.C20GGov
open Shentu Shentu.Gov Shentu.Genesis.Gov Shentu.C20GGovH
open Shentu.C11H (Ctx env Op stepW runW Init EscrowInv)

/-! ## G1: import after export -/

/-- Importing the export of a well-formed state gives the state with deposits and votes grouped by proposal.
    Proposals, counter and parameters are unchanged. -/
theorem reimport_same (g : State) (h : WFG g) : initGenesis (exportGenesis g) = normalise g :=
  initGenesis_export g h

/-- Grouping a grouped state changes nothing. -/
theorem normalise_idem (g : State) (h : WFG g) : normalise (normalise g) = normalise g :=
  normalise_normalise g h.ids

/-- A state that was imported from an export is already grouped. -/
theorem normalise_import (g : State) (h : WFG g) :
    normalise (initGenesis (exportGenesis g)) = initGenesis (exportGenesis g) := by
  rw [initGenesis_export g h]; exact normalise_normalise g h.ids

/-- Exporting the re-imported state gives the same genesis file. -/
theorem reexport_same (g : State) (h : WFG g) :
    exportGenesis (initGenesis (exportGenesis g)) = exportGenesis g := by
  rw [initGenesis_export g h]; exact export_normalise g h.ids

/-! ## the two queues -/

/-- The queues that the import rebuilds entry by entry are the queues of the running node. -/
theorem rebuilt_queues_same_as_running (g : State) : rebuildQueues (exportGenesis g).proposals = queuesOf g :=
  rebuild_eq_queuesOf g

/-- Both rebuilt queues are in (time, id) order. -/
theorem rebuilt_queues_sorted (ps : List Proposal) :
    (rebuildQueues ps).inactive.Pairwise (fun a b => keyLE a b = true) ∧
    (rebuildQueues ps).active.Pairwise (fun a b => keyLE a b = true) :=
  ⟨rebuild_inactive_sorted ps, rebuild_active_sorted ps⟩

/-- The rebuilt inactive queue holds exactly the (deposit end, id) of the proposals in deposit period.  The rebuilt
    active queue holds exactly the (voting end, id) of the proposals in one of the two voting periods. -/
theorem rebuilt_queues_content (ps : List Proposal) :
    (rebuildQueues ps).inactive.Perm ((ps.filter (fun p => p.status == 1)).map inactiveKey) ∧
    (rebuildQueues ps).active.Perm ((ps.filter (fun p => p.status == 2 || p.status == 3)).map activeKey) :=
  ⟨rebuild_inactive_perm ps, rebuild_active_perm ps⟩

/-- The rebuilt queues depend on the set of proposals only, not on the order in which they are inserted. -/
theorem rebuilt_queues_order_independent {ps ps' : List Proposal} (h : ps.Perm ps') :
    rebuildQueues ps = rebuildQueues ps' := rebuild_perm h

/-- The proposals whose deposit period is over, in the order the end blocker drops them, are the due entries of the
    rebuilt inactive queue. -/
theorem endBlock_walks_rebuilt_inactive (g : State) (t : Int) :
    (sortByKey (·.depositEnd) (g.proposals.filter (fun p => p.status == 1 && p.depositEnd ≤ t))).map (·.id)
      = dueIds (rebuildQueues (exportGenesis g).proposals).inactive t := endBlock_inactive_ids g t

/-- The proposals whose voting period is over, in the order the end blocker tallies them, are the due entries of the
    rebuilt active queue. -/
theorem endBlock_walks_rebuilt_active (g : State) (t : Int) :
    (sortByKey (·.votingEnd) (g.proposals.filter (fun p => (p.status == 2 || p.status == 3) && p.votingEnd ≤ t))).map (·.id)
      = dueIds (rebuildQueues (exportGenesis g).proposals).active t := endBlock_active_ids g t

/-- The early decision of the certifier round walks the whole rebuilt active queue. -/
theorem endBlock_walks_rebuilt_all (g : State) :
    (sortByKey (·.votingEnd) (g.proposals.filter (fun p => p.status == 2 || p.status == 3))).map (·.id)
      = (rebuildQueues (exportGenesis g).proposals).active.map (·.2) := endBlock_all_ids g

/-! ## G3: the continuation is the same -/

/-- A well-formed state and its grouped form are equivalent. -/
theorem equiv_normalised (g : State) (h : WFG g) : Equiv g (normalise g) := equiv_normalise g h

/-- `Equiv` is reflexive, symmetric and transitive. -/
theorem equiv_is_equivalence :
    (∀ a : State, Equiv a a) ∧ (∀ a b : State, Equiv a b → Equiv b a) ∧
    (∀ a b c : State, Equiv a b → Equiv b c → Equiv a c) :=
  ⟨equiv_refl, fun _ _ h => equiv_symm h, fun _ _ _ h k => equiv_trans h k⟩

/-- A vote on two equivalent worlds fails with the same error on both, or succeeds on both with equivalent worlds. -/
theorem vote_same (a b : World) (h : EquivW a b) (pid : Nat) (v : Addr) (o : Nat) :
    RelE (vote a pid v o) (vote b pid v o) := vote_equiv h pid v o

/-- A deposit on two equivalent worlds fails with the same error on both, or succeeds on both with equivalent worlds
    (in particular with equal ledgers). -/
theorem deposit_same (e : Env) (a b : World) (h : EquivW a b) (pid : Nat) (d : Addr) (amt : Coins) :
    RelE (addDeposit e a pid d amt) (addDeposit e b pid d amt) := addDeposit_equiv e h pid d amt

/-- A submission on two equivalent worlds fails with the same error on both, or succeeds on both with equivalent
    worlds. -/
theorem submit_same (e : Env) (a b : World) (h : EquivW a b) (pr : Addr) (p0 : Proposal) (dep : Coins) :
    RelE (submit e a pr p0 dep) (submit e b pr p0 dep) := submit_equiv e h pr p0 dep

/-- The end blocker on two equivalent worlds halts with the same error on both, or succeeds on both with equivalent
    worlds.  Equal ledgers afterwards: the same refunds to the same depositors and the same burns.  Equal proposal
    stores afterwards: the same outcomes and tallies. -/
theorem endBlock_same (e : Env) (a b : World) (h : EquivW a b) : RelE (endBlock e a) (endBlock e b) :=
  endBlock_equiv e h

/-- Every history leads two equivalent worlds to equivalent worlds. -/
theorem continuation_same (m : Addr) (a b : World) (h : EquivW a b) (ops : List Op) :
    EquivW (runW m a ops) (runW m b ops) := runW_equiv m ops h

/-- What equivalence of worlds gives an observer: the same balances and supply, the same certification state, the
    same proposals (status, tally, total deposit, times), the same counter and parameters. -/
theorem equiv_observably_same (a b : World) (h : EquivW a b) :
    a.l = b.l ∧ a.c = b.c ∧ a.g.proposals = b.g.proposals ∧ a.g.nextId = b.g.nextId ∧ a.g.params = b.g.params :=
  ⟨h.1, h.2.1, h.2.2.1, h.2.2.2.1, h.2.2.2.2.1⟩

/-- Export and re-import the governance state of a well-formed world, then run any history on both: the resulting
    worlds are equivalent. -/
theorem continuation_reimported (m : Addr) (w : World) (h : WFG w.g) (ops : List Op) :
    EquivW (runW m w ops) (runW m { w with g := initGenesis (exportGenesis w.g) } ops) := by
  apply runW_equiv m ops
  rw [initGenesis_export w.g h]
  exact ⟨rfl, rfl, equiv_normalise w.g h⟩

/-! ## the invariant along histories -/

/-- The history invariant holds in every state without proposals, deposit records and vote records. -/
theorem wf_init (g : State) (hp : g.proposals = []) (hd : g.deposits = []) (hv : g.votes = []) : WFH g :=
  WFH.init hp hd hv

/-- Every step keeps the history invariant. -/
theorem wf_step (m : Addr) (w : World) (op : Op) (h : WFH w.g) : WFH (stepW m w op).g := WFH.step m w op h

/-- The history invariant, hence `WFG`, holds after every history from an initial world without votes. -/
theorem wf_reachable (m : Addr) (w : World) (h : Init m w) (hv : w.g.votes = []) (ops : List Op) :
    WFH (runW m w ops).g := WFH.run m w ops (WFH.init h.noProposal h.noDeposit hv)

/-- At any point of any history from an initial world: export and re-import the governance state, then continue with
    any history on both.  The resulting worlds are equivalent. -/
theorem reachable_continuation_same (m : Addr) (w : World) (h : Init m w) (hv : w.g.votes = []) (ops1 ops2 : List Op) :
    EquivW (runW m (runW m w ops1) ops2)
      (runW m { runW m w ops1 with g := initGenesis (exportGenesis (runW m w ops1).g) } ops2) :=
  continuation_reimported m _ (wf_reachable m w h hv ops1).toWFG ops2

/-! ## G4: the invariants on the re-imported state -/

/-- The re-imported state is well-formed when the original is. -/
theorem invariant_reimported (g : State) (h : WFG g) : WFG (initGenesis (exportGenesis g)) := by
  rw [initGenesis_export g h]; exact WFG_normalise g h

/-- The re-imported state satisfies the history invariant when the original does. -/
theorem history_invariant_reimported (g : State) (h : WFH g) : WFH (initGenesis (exportGenesis g)) := by
  rw [initGenesis_export g h.toWFG]; exact WFH_normalise g h

/-- The escrow invariant of C11 holds for the world with the re-imported governance state when it holds for the
    original: the module account still holds exactly the sum of the deposit records. -/
theorem escrow_reimported (m : Addr) (w : World) (hw : WFG w.g) (h : EscrowInv m w) :
    EscrowInv m { w with g := initGenesis (exportGenesis w.g) } := by
  rw [initGenesis_export w.g hw]; exact escrow_normalise m w hw h

/-- After every history from an initial world the world with the re-imported governance state satisfies both
    invariants. -/
theorem reachable_reimported (m : Addr) (w : World) (h : Init m w) (hv : w.g.votes = []) (ops : List Op) :
    WFH (initGenesis (exportGenesis (runW m w ops).g)) ∧
    EscrowInv m { runW m w ops with g := initGenesis (exportGenesis (runW m w ops).g) } :=
  ⟨history_invariant_reimported _ (wf_reachable m w h hv ops),
   escrow_reimported m _ (wf_reachable m w h hv ops).toWFG (Shentu.Props.C11H.reachable_escrow m w h ops)⟩

/-! ## a concrete state: three proposals in the three live periods, interleaved records -/

namespace Demo

def tp : TallyParams := { quorum := Dec.zero, threshold := Dec.zero, veto := Dec.zero }
def params : Params :=
  { minInitial := [], minDeposit := [("uctk", 100)], depositPeriod := 10, votingPeriod := 10, «default» := tp,
    security := tp, certStake := tp }
def mkP (id status : Nat) (dEnd vEnd : Int) : Proposal :=
  { id := id, kind := "text", status := status, isCouncil := false, proposer := "alice", totalDeposit := [],
    submitTime := 0, depositEnd := dEnd, votingStart := 0, votingEnd := vEnd, tally := ⟨0, 0, 0, 0⟩ }
/-- proposal 1 in deposit period, 2 in certifier voting, 3 in validator voting; alice and bob deposited on them in
    turn; three votes -/
def g3 : State :=
  { proposals := [mkP 1 1 30 0, mkP 2 2 5 20, mkP 3 3 7 15]
    deposits := [⟨1, "alice", [("uctk", 10)]⟩, ⟨2, "alice", [("uctk", 20)]⟩, ⟨1, "bob", [("uctk", 5)]⟩,
                 ⟨3, "bob", [("uctk", 7)]⟩, ⟨2, "bob", [("uctk", 1)]⟩]
    votes := [⟨3, "val1", 1⟩, ⟨2, "cert1", 1⟩, ⟨3, "alice", 3⟩]
    nextId := 4
    params := params }
def w3 : World :=
  { l := { posts := [("gov", "uctk", 43)], supply := [("uctk", 43)] }, g := g3,
    c := { certifiers := [], aliasIdx := [], certs := [], nextId := 1, platforms := [] } }

theorem g3_wf : WFG g3 := by
  refine ⟨?_, ?_, ?_, ?_, ?_⟩ <;> decide

theorem g3_wfh : WFH g3 := by
  refine { toWFG := g3_wf, fresh := ?_, voteStarted := ?_ } <;> decide

/-- the demo world with the governance state exported and imported again -/
def w3r : World := { w3 with g := initGenesis (exportGenesis g3) }
/-- one bonded validator with all the stake -/
def sv : StakeView := { vals := [("val1", 1000, Dec.ofInt 1000)], dels := [], totalBonded := 1000 }
def cx (t : Int) : Ctx := { t := t, bond := "uctk", stake := sv }
/-- the postings of the end blocker at time 40: proposal 1 is dropped (alice 10, bob 5 back), proposal 3 is tallied
    (bob 7 back), the certifier round of proposal 2 ends (alice 20, bob 1 back) -/
def postsAfter : List Posting :=
  [("gov", "uctk", 43), ("gov", "uctk", -10), ("alice", "uctk", 10), ("gov", "uctk", -5), ("bob", "uctk", 5),
   ("gov", "uctk", -7), ("bob", "uctk", 7), ("gov", "uctk", -20), ("alice", "uctk", 20), ("gov", "uctk", -1),
   ("bob", "uctk", 1)]

end Demo

/-- non-vacuity of `WFG` and `WFH`: the demo state satisfies them -/
example : WFG Demo.g3 ∧ WFH Demo.g3 := ⟨Demo.g3_wf, Demo.g3_wfh⟩

/-- the import of the demo state's export has the deposits grouped by proposal … -/
example : (initGenesis (exportGenesis Demo.g3)).deposits.map (fun d => (d.pid, d.depositor))
    = [(1, "alice"), (1, "bob"), (2, "alice"), (2, "bob"), (3, "bob")] := by decide
/-- … and the votes grouped by proposal -/
example : (initGenesis (exportGenesis Demo.g3)).votes.map (fun v => (v.pid, v.voter, v.option))
    = [(2, "cert1", 1), (3, "val1", 1), (3, "alice", 3)] := by decide
/-- the original order is the interleaved one -/
example : Demo.g3.deposits.map (fun d => (d.pid, d.depositor))
    = [(1, "alice"), (2, "alice"), (1, "bob"), (3, "bob"), (2, "bob")] := by decide
/-- the rebuilt queues of the demo state: proposal 1 waits for its deposit end at 30; proposal 3 (voting end 15)
    comes before proposal 2 (voting end 20) -/
example : rebuildQueues (exportGenesis Demo.g3).proposals = ⟨[(30, 1)], [(15, 3), (20, 2)]⟩ := by decide
/-- at time 17 only proposal 3 is due -/
example : dueIds (rebuildQueues (exportGenesis Demo.g3).proposals).active 17 = [3] := by decide
/-- non-vacuity of the hypothesis of `continuation_same`: the demo world and its re-import are equivalent and are
    different worlds -/
example : EquivW Demo.w3 { Demo.w3 with g := normalise Demo.g3 } := ⟨rfl, rfl, equiv_normalise _ Demo.g3_wf⟩
/-- a concrete continuation: the end blocker at time 40 on the demo world makes these refunds, in this order, and
    leaves proposal 2 rejected and proposal 3 passed … -/
example : (runW "gov" Demo.w3 [.endBlock (Demo.cx 40)]).l.posts = Demo.postsAfter ∧
    (runW "gov" Demo.w3 [.endBlock (Demo.cx 40)]).g.proposals.map (fun p => (p.id, p.status)) = [(2, 5), (3, 4)] := by
  decide
/-- … and so it does on the re-imported world -/
example : (runW "gov" Demo.w3r [.endBlock (Demo.cx 40)]).l.posts = Demo.postsAfter ∧
    (runW "gov" Demo.w3r [.endBlock (Demo.cx 40)]).g.proposals.map (fun p => (p.id, p.status)) = [(2, 5), (3, 4)] := by
  decide
/-- non-vacuity of `Init` with no votes: the demo world of C11H -/
example : Init Shentu.Props.C11H.Demo.m Shentu.Props.C11H.Demo.w0 ∧ Shentu.Props.C11H.Demo.w0.g.votes = [] :=
  ⟨Shentu.Props.C11H.Demo.w0_init, rfl⟩

/-- Import after export is not the identity on the model's state: on the demo state (which is well-formed) the
    deposit list comes back in a different order.  The Go store has no such order, records being keyed by proposal
    first; the observable behaviour is the same (`continuation_reimported`). -/
theorem reimport_identity_fails : ¬ (∀ g : State, WFG g → initGenesis (exportGenesis g) = g) := by
  intro h
  have h1 := congrArg (fun s : State => s.deposits.map (fun d => (d.pid, d.depositor))) (h Demo.g3 Demo.g3_wf)
  revert h1
  decide

/-- The clause of `WFG` that every vote belongs to a stored proposal is needed: a vote record without a proposal is
    not exported, so the re-imported state is not equivalent to the original.  (`C11H.Init` alone does not exclude such
    records, hence the extra hypothesis "no vote record" on initial worlds; no history creates one, `wf_reachable`.) -/
theorem orphan_vote_breaks_equiv :
    ¬ Equiv { Demo.g3 with proposals := [], deposits := [], votes := [⟨1, "val1", 1⟩] }
        (initGenesis (exportGenesis { Demo.g3 with proposals := [], deposits := [], votes := [⟨1, "val1", 1⟩] })) := by
  intro h
  have h1 := congrArg List.length (h.2.2.2.2 1)
  revert h1
  decide

#print axioms reimport_same
#print axioms normalise_idem
#print axioms normalise_import
#print axioms reexport_same
#print axioms rebuilt_queues_same_as_running
#print axioms rebuilt_queues_sorted
#print axioms rebuilt_queues_content
#print axioms rebuilt_queues_order_independent
#print axioms endBlock_walks_rebuilt_inactive
#print axioms endBlock_walks_rebuilt_active
#print axioms endBlock_walks_rebuilt_all
#print axioms equiv_normalised
#print axioms equiv_is_equivalence
#print axioms vote_same
#print axioms deposit_same
#print axioms submit_same
#print axioms endBlock_same
#print axioms continuation_same
#print axioms equiv_observably_same
#print axioms continuation_reimported
#print axioms wf_init
#print axioms wf_step
#print axioms wf_reachable
#print axioms reachable_continuation_same
#print axioms invariant_reimported
#print axioms history_invariant_reimported
#print axioms escrow_reimported
#print axioms reachable_reimported
#print axioms reimport_identity_fails
#print axioms orphan_vote_breaks_equiv
