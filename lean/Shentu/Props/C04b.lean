import Shentu.Proofs.PayoutLemmas
/-
  C04, "… (each provider by at most its own collateral, taken from its bonded or unbonding stake), and the coins arrive
  in the shield module account": the arithmetic of `MakePayoutByProviderDelegations` (`Model/Payout.lean`).

  `Props/C04.lean` proves the books of a payout over the shield model, in which the coins move in one step.  This file proves
  that the way the code actually takes them — split, pro-rata loop with rounding, shares rounded up and converted back by the
  validator, walk over the unbonding entries — moves exactly `payout`, for every population of delegations and unbonding
  entries, every exchange rate a slash can produce, and every amount, provided the stake the split uses is the sum of the
  delegations (what d75c287 establishes) and the provider's stake covers `purchased + payout` (C06's invariant).
  Property theorems only; helper lemmas are in `Shentu/Proofs/PayoutLemmas.lean`.
-/
namespace Shentu.Props.C04b
open Shentu Shentu.Payout

/-- a delegation to a validator that has tokens and whose shares are worth at most two tokens each (shares are issued one per token; a slash lowers the rate, rounding dust left in the validator can raise it by a hair); the delegation holds part of the validator's shares -/
def WF (d : Del) : Prop :=
  0 < d.vtokens ∧ d.vtokens * Dec.prec ≤ 2 * d.vshares.raw ∧ 0 ≤ d.shares.raw ∧ d.shares.raw ≤ d.vshares.raw

/-- the split: from delegations what exceeds `purchased`, at most `payout`; uncovered is what the delegations lack -/
theorem split_spec (bonded purchased payout : Int) (hq : 0 ≤ payout) :
    (split bonded purchased payout).1 = min payout (max (bonded - purchased) 0) ∧
    (split bonded purchased payout).2 = max (purchased - bonded) 0 :=
  split_core bonded purchased payout hq

/-- the pro-rata loop hands out exactly `p`, never more from a delegation than it is worth -/
theorem amounts_exact (p : Int) (ds : List Int) (hd : ∀ d ∈ ds, 0 ≤ d) (hp : 0 < p) (hpT : p ≤ sum ds)
    (hbig : sum ds < 2 * Dec.prec) :
    sum (amounts (Dec.quo (Dec.ofInt p) (Dec.ofInt (sum ds))) ds p) = p ∧
    List.Forall₂ (fun a d => 0 ≤ a ∧ a ≤ d) (amounts (Dec.quo (Dec.ofInt p) (Dec.ofInt (sum ds))) ds p)
      (ds.take (amounts (Dec.quo (Dec.ofInt p) (Dec.ofInt (sum ds))) ds p).length) :=
  amounts_exact_core p ds hd hp hpT hbig

/-- rounding the shares up makes the validator issue exactly the amount asked for, whatever the exchange rate -/
theorem shares_exact (d : Del) (hwf : WF d) (a : Int) (ha : 0 ≤ a) (had : a ≤ d.amount) :
    issued d (ubdShares d a) = a :=
  shares_core d hwf.1 hwf.2.1 hwf.2.2.1 hwf.2.2.2 a ha had

/-- the walk over the unbonding entries pays `min q (Σ balances − uncovered)`, never more from an entry than its balance -/
theorem ubdLoop_spec (bs : List Int) (hb : ∀ b ∈ bs, 0 ≤ b) (u q : Int) (hu : 0 ≤ u) (hq : 0 ≤ q) :
    sum (ubdLoop bs u q).1 + (ubdLoop bs u q).2 = q ∧
    (ubdLoop bs u q).2 = max (q - max (sum bs - u) 0) 0 ∧
    List.Forall₂ (fun t b => 0 ≤ t ∧ t ≤ b) (ubdLoop bs u q).1 (bs.take (ubdLoop bs u q).1.length) :=
  ubdLoop_core bs hb u q hu hq

/-- **the payout out of a provider's stake is exact**: with the stake up to date and covering `purchased + payout`, the
    code moves exactly `payout` coins, each delegation and each unbonding entry giving at most what it holds -/
theorem makePayout_exact (ds : List Del) (ubds : List Int) (purchased payout : Int)
    (hwf : ∀ d ∈ ds, WF d) (hu : ∀ b ∈ ubds, 0 ≤ b) (hp : 0 ≤ purchased) (hq : 0 < payout)
    (hback : purchased + payout ≤ bondedOf ds + sum ubds) (hbig : bondedOf ds < 2 * Dec.prec) :
    ∃ pd pu, makePayout (bondedOf ds) purchased payout ds ubds = .ok (pd, pu) ∧ sum pd + sum pu = payout ∧
      List.Forall₂ (fun a d => 0 ≤ a ∧ a ≤ Del.amount d) pd (ds.take pd.length) ∧
      List.Forall₂ (fun t b => 0 ≤ t ∧ t ≤ b) pu (ubds.take pu.length) :=
  makePayout_core ds ubds purchased payout hwf hu hp hq hback hbig

-- (`hwf` and `hp` are part of the statement but the proof does not need them: an uncovered payout panics whatever the
-- delegations look like)
set_option linter.unusedVariables false in
/-- … and when the stake does not cover it, the code panics rather than pay short (the gov end-blocker then fails the
    proposal: a47d31f, 102ee33) -/
theorem makePayout_uncovered_panics (ds : List Del) (ubds : List Int) (purchased payout : Int)
    (hwf : ∀ d ∈ ds, WF d) (hu : ∀ b ∈ ubds, 0 ≤ b) (hp : 0 ≤ purchased) (hq : 0 < payout)
    (hback : bondedOf ds + sum ubds < purchased + payout) :
    ∃ msg, makePayout (bondedOf ds) purchased payout ds ubds = .error msg :=
  makePayout_uncovered_core ds ubds purchased payout hu hq hback

/-! ## why the hypotheses are there: the two repaired defects, as evaluations of the same model -/

/-- a validator slashed by 7 %: 100,000,000 shares for 93,000,000 tokens -/
def slashed (shares : Int) : Del := { shares := ⟨shares * Dec.prec⟩, vtokens := 93000000, vshares := ⟨100000000 * Dec.prec⟩ }
def whole (shares : Int) : Del := { shares := ⟨shares * Dec.prec⟩, vtokens := 100000000, vshares := ⟨100000000 * Dec.prec⟩ }

example : WF (slashed 5000000) ∧ WF (whole 3000000) := by
  simp [WF, slashed, whole, Dec.prec]

/-- d75c287: with a *stale* stake (recorded before the slash: 110 instead of 103) the last delegation is asked for more
    than it is worth and the payout arrives short -/
example : sum (payFromDelegation 110 [slashed 100, whole 10] 100) < 100 := by decide
/-- … with the stake up to date it is exact -/
example : sum (payFromDelegation (bondedOf [slashed 100, whole 10]) [slashed 100, whole 10] 100) = 100 := by decide

/-- 2c959f7: truncated shares make a slashed validator issue one unit less than asked -/
example : issued (slashed 5000000) (ubdSharesTruncated (slashed 5000000) 1000002) = 1000001 := by decide
example : issued (slashed 5000000) (ubdShares (slashed 5000000) 1000002) = 1000002 := by decide

end Shentu.Props.C04b
