import Shentu.Proofs.ShieldFundPay
/-
  C02 — Shield pool is exactly funded: module balance equals what it owes.

  "At every block boundary the shield module account holds exactly the native coins it owes:
   undistributed service fees plus providers' unclaimed rewards plus coins staked for shield plus
   approved-but-unwithdrawn reimbursements plus block rewards awaiting distribution, with no
   fractional remainder.  Consequently every reward withdrawal, stake refund and reimbursement can
   be paid, and fees are never credited without the payer's coins arriving."

  Property theorems only; the work is in `Shentu/Proofs/ShieldFund*.lean`.

  The invariant is `Shield.FundInv (l.balOf e.modAddr e.bond) s` (defined in the model).  It is
  carried through histories together with `Shield.Keyed s`: the keys of the provider, stake and
  reimbursement stores are unique.  A KV store gives this for free; the list model has to say it,
  because `setProvider` / `setStake` / the reimbursement filter act on *every* record with the key.
-/
namespace Shentu.Props.C02
open Shentu Shentu.Shield Shentu.Shield.Fund

/-- the invariant carried along a history: exactly funded, store keys unique -/
def Funded (e : Env) (l : Ledger) (s : State) : Prop :=
  FundInv (l.balOf e.modAddr e.bond) s ∧ Keyed s

/-! ## every operation that succeeds preserves the invariant -/

/-! ### operations that move coins -/

/-- sentence 1, step `purchaseShield` (the common path of paid, staked and admin purchases) -/
theorem purchaseCore_funded (e : Env) (l l' : Ledger) (s s' : State) (poolID : Nat) (shield : Coins) (purchaser : Addr)
    (fees staking : Coins) (h : purchaseCore e l s poolID shield purchaser fees staking = .ok (l', s'))
    (hne : purchaser ≠ e.modAddr) (hf : Funded e l s) : Funded e l' s' := by
  obtain ⟨f, k, hp⟩ := purchaseCore_spec e l l' s s' poolID shield purchaser fees staking h hne hf.2.stake
  exact ⟨hp.fund hf.1, hp.keyed hf.2⟩

/-- sentence 1, step `MsgPurchaseShield` / `MsgStakeForShield` -/
theorem purchase_funded (e : Env) (l l' : Ledger) (s s' : State) (poolID : Nat) (shield : Coins) (purchaser : Addr)
    (staking : Bool) (h : purchase e l s poolID shield purchaser staking = .ok (l', s'))
    (hne : purchaser ≠ e.modAddr) (hf : Funded e l s) : Funded e l' s' := by
  obtain ⟨f, k, hp⟩ := purchase_spec e l l' s s' poolID shield purchaser staking h hne hf.2.stake
  exact ⟨hp.fund hf.1, hp.keyed hf.2⟩

/-- sentence 1, step `MsgCreatePool` -/
theorem createPool_funded (e : Env) (l l' : Ledger) (s s' : State) (creator : Addr) (shield fees : Coins) (sponsor : String)
    (sponsorAddr : Addr) (limit : Int) (h : createPool e l s creator shield fees sponsor sponsorAddr limit = .ok (l', s'))
    (hne : creator ≠ e.modAddr) (hf : Funded e l s) : Funded e l' s' := by
  obtain ⟨f, k, hp⟩ := createPool_spec e l l' s s' creator shield fees sponsor sponsorAddr limit h hne hf.2.stake
  exact ⟨hp.fund hf.1, hp.keyed hf.2⟩

/-- sentence 1, step `MsgUpdatePool` -/
theorem updatePool_funded (e : Env) (l l' : Ledger) (s s' : State) (updater : Addr) (poolID : Nat) (shield fees : Coins)
    (limit : Int) (h : updatePool e l s updater poolID shield fees limit = .ok (l', s'))
    (hne : updater ≠ e.modAddr) (hf : Funded e l s) : Funded e l' s' := by
  obtain ⟨f, k, hp⟩ := updatePool_spec e l l' s s' updater poolID shield fees limit h hne hf.2.stake
  exact ⟨hp.fund hf.1, hp.keyed hf.2⟩

/-- sentence 1, step `MsgWithdrawRewards`: the whole coins leave, the fractional change goes back to `remaining` -/
theorem withdrawRewards_funded (e : Env) (l l' : Ledger) (s s' : State) (a : Addr)
    (h : withdrawRewards e l s a = .ok (l', s')) (hne : a ≠ e.modAddr) (hf : Funded e l s) : Funded e l' s' := by
  obtain ⟨hk, hb, whole, ho, hl⟩ := withdrawRewards_spec e l l' s s' a h hne hf.2
  exact ⟨fund_pay _ _ s s' whole hf.1 hb ho hl, hk⟩

/-- sentence 1, step `MsgWithdrawReimbursement` -/
theorem withdrawReimbursement_funded (e : Env) (l l' : Ledger) (s s' : State) (pid : Nat) (a : Addr)
    (h : withdrawReimbursement e l s pid a = .ok (l', s')) (hne : a ≠ e.modAddr) (hf : Funded e l s) : Funded e l' s' := by
  obtain ⟨hk, hb, amt, ho, hl⟩ := withdrawReimbursement_spec e l l' s s' pid a h hne hf.2
  exact ⟨fund_pay _ _ s s' amt hf.1 hb ho hl, hk⟩

/-- sentence 1, step `FundShieldBlockRewards` (block rewards awaiting distribution; whole coins, so no fractional remainder) -/
theorem fundBlockRewards_funded (e : Env) (l : Ledger) (s : State) (sender : Addr) (amount : Int)
    (hne : sender ≠ e.modAddr) (hf : Funded e l s) :
    Funded e (fundBlockRewards e l s sender amount).1 (fundBlockRewards e l s sender amount).2 :=
  ⟨fundBlockRewards_fund e l s sender amount hne hf.1, fundBlockRewards_keyed e l s sender amount hf.2⟩

/-- sentence 1, step `CreateReimbursement` (the payout of an approved claim): the coins arrive exactly.
    Side conditions: the bonded pool is not the module account, the loss is not negative, and the proposal id
    has no unwithdrawn reimbursement yet (a second record under the same id would overwrite the first). -/
theorem createReimbursement_funded (e : Env) (l l' : Ledger) (s s' : State) (pid : Nat) (amount : Int) (b : Addr)
    (h : createReimbursement e l s pid amount b = .ok (l', s'))
    (hbp : e.bondedPool ≠ e.modAddr) (hamt : 0 ≤ amount) (hfresh : ∀ r ∈ s.reimbs, r.pid ≠ pid)
    (hf : Funded e l s) : Funded e l' s' := by
  obtain ⟨hk, hb, ho, hl⟩ := createReimbursement_spec e l l' s s' pid amount b h hbp hamt hfresh hf.2
  refine ⟨?_, hk⟩
  have h1 := hf.1
  unfold FundInv at *
  rw [ho, hl, hb]
  refine ⟨?_, h1.2⟩
  have := h1.1
  simp only [Dec.prec] at *
  omega

/-- the side conditions of a paid claim -/
def PaidSide (e : Env) (s : State) (pid : Nat) (loss : Int) : Prop :=
  e.bondedPool ≠ e.modAddr ∧ 0 ≤ loss ∧ ∀ r ∈ s.reimbs, r.pid ≠ pid

/-- sentence 1, the end of a claim proposal in governance's end-blocker, all four outcomes -/
theorem claimEnds_funded (e : Env) (l l' : Ledger) (s s' : State) (pid poolID : Nat) (restoreTo beneficiary : Addr)
    (purchaseID : Nat) (loss : Int) (o : ClaimOutcome)
    (h : claimEnds e l s pid poolID restoreTo beneficiary purchaseID loss o = .ok (l', s'))
    (hside : o = .paid → PaidSide e s pid loss) (hf : Funded e l s) : Funded e l' s' := by
  cases o with
  | paid =>
    obtain ⟨h1, h2, h3⟩ := hside rfl
    exact createReimbursement_funded e l l' s s' pid loss beneficiary h h1 h2 h3 hf
  | vetoed =>
    simp only [claimEnds] at h
    injection h with h; injection h with h1 h2; subst h1 h2
    exact ⟨(claimEnd_frame s loss).same.fund hf.2 _ hf.1, (claimEnd_frame s loss).same.keyed hf.2⟩
  | rejected =>
    simp only [claimEnds] at h
    injection h with h; injection h with h1 h2; subst h1 h2
    have hfr := ((restoreShield_frame s poolID restoreTo purchaseID loss).trans (claimEnd_frame _ loss)).same
    exact ⟨hfr.fund hf.2 _ hf.1, hfr.keyed hf.2⟩
  | failed =>
    simp only [claimEnds] at h
    injection h with h; injection h with h1 h2; subst h1 h2
    exact hf

/-! ### the end-blocker -/

/-- fee distribution moves fees from `remaining` to the providers' `rewards` without changing their sum:
    nothing is created, nothing is lost, whatever the rounding of the individual shares -/
theorem distribute_conserves (total : Int) (fees : Dec) (ps : List Provider) (rem : Dec) :
    sumI (fun p => p.rewards.raw) (distributeLoop total fees ps rem).1 + (distributeLoop total fees ps rem).2.raw =
      sumI (fun p => p.rewards.raw) ps + rem.raw := by
  rw [distributeLoop_sum]; omega

/-- sentence 1, "at every block boundary": `EndBlocker` = expiry and fee distribution; completed withdrawals; pool closing.
    The block does not touch the ledger, the owed total is unchanged (block fees move into `remaining`). -/
theorem endBlock_funded (e : Env) (l : Ledger) (s s' : State) (h : endBlock e s = .ok s') (hf : Funded e l s) :
    Funded e l s' :=
  ⟨endBlock_fund e s s' h hf.2 _ hf.1, (endBlock_spec e s s' h hf.2).1⟩

/-! ### operations that touch neither the ledger nor the owed amounts -/

theorem same_funded {e : Env} {l : Ledger} {s s' : State} (h : Same s s') (hf : Funded e l s) : Funded e l s' :=
  ⟨h.fund hf.2 _ hf.1, h.keyed hf.2⟩

/-- sentence 1, step `MsgDepositCollateral` -/
theorem deposit_funded (e : Env) (l : Ledger) (s s' : State) (a : Addr) (c : Coins)
    (h : deposit e s a c = .ok s') (hf : Funded e l s) : Funded e l s' := same_funded (deposit_same e s s' a c h) hf
/-- sentence 1, step `MsgWithdrawCollateral` -/
theorem withdraw_funded (e : Env) (l : Ledger) (s s' : State) (a : Addr) (c : Coins)
    (h : withdraw e s a c = .ok s') (hf : Funded e l s) : Funded e l s' := same_funded (withdraw_same e s s' a c h) hf
/-- sentence 1, step `Keeper.WithdrawCollateral` -/
theorem withdrawCollateral_funded (e : Env) (l : Ledger) (s s' : State) (a : Addr) (amount : Int)
    (h : withdrawCollateral e s a amount = .ok s') (hf : Funded e l s) : Funded e l s' :=
  same_funded (withdrawCollateral_same e s s' a amount h) hf
/-- sentence 1, the staking hooks -/
theorem stakingHook_funded (e : Env) (l : Ledger) (s s' : State) (a : Addr) (staked : Int)
    (h : stakingHook e s a staked = .ok s') (hf : Funded e l s) : Funded e l s' :=
  same_funded (stakingHook_same e s s' a staked h) hf
/-- sentence 1, the staking hooks as they fire for a staking message -/
theorem stakingChanged_funded (e : Env) (l : Ledger) (s s' : State) (a : Addr)
    (h : stakingChanged e s a = .ok s') (hf : Funded e l s) : Funded e l s' :=
  same_funded (stakingChanged_same e s s' a h) hf
/-- sentence 1, step `MsgUnstakeFromShield` (the request; the stake stays in the module account) -/
theorem unstake_funded (e : Env) (l : Ledger) (s s' : State) (poolID : Nat) (a : Addr) (c : Coins)
    (h : unstake e s poolID a c = .ok s') (hf : Funded e l s) : Funded e l s' :=
  same_funded (unstake_same e s s' poolID a c h) hf
/-- sentence 1, step `MsgPausePool` / `MsgResumePool` -/
theorem pausePool_funded (e : Env) (l : Ledger) (s s' : State) (u : Addr) (poolID : Nat) (active : Bool)
    (h : pausePool s u poolID active = .ok s') (hf : Funded e l s) : Funded e l s' :=
  same_funded (pausePool_frame s s' u poolID active h).same hf
/-- sentence 1, step `MsgUpdateSponsor` -/
theorem updateSponsor_funded (e : Env) (l : Ledger) (s s' : State) (u : Addr) (poolID : Nat) (sp : String) (spa : Addr)
    (h : updateSponsor s u poolID sp spa = .ok s') (hf : Funded e l s) : Funded e l s' :=
  same_funded (updateSponsor_frame s s' u poolID sp spa h).same hf
/-- sentence 1, `SecureCollaterals` (submission of a claim proposal) -/
theorem secureCollaterals_funded (e : Env) (l : Ledger) (s s' : State) (poolID : Nat) (a : Addr) (purchaseID : Nat)
    (loss duration : Int) (h : secureCollaterals e s poolID a purchaseID loss duration = .ok s') (hf : Funded e l s) :
    Funded e l s' :=
  same_funded (secureCollaterals_frame e s s' poolID a purchaseID loss duration h).same hf
/-- sentence 1, `RestoreShield` -/
theorem restoreShield_funded (e : Env) (l : Ledger) (s : State) (poolID : Nat) (a : Addr) (id : Nat) (loss : Int)
    (hf : Funded e l s) : Funded e l (restoreShield s poolID a id loss) :=
  same_funded (restoreShield_frame s poolID a id loss).same hf
/-- sentence 1, `ClaimEnd` -/
theorem claimEnd_funded (e : Env) (l : Ledger) (s : State) (loss : Int) (hf : Funded e l s) :
    Funded e l (claimEnd s loss) := same_funded (claimEnd_frame s loss).same hf

/-! ## histories -/

/-- every operation of the model, with its arguments -/
inductive Op where
  | purchaseCore (poolID : Nat) (shield : Coins) (purchaser : Addr) (fees staking : Coins)
  | purchase (poolID : Nat) (shield : Coins) (purchaser : Addr) (staking : Bool)
  | createPool (creator : Addr) (shield fees : Coins) (sponsor : String) (sponsorAddr : Addr) (limit : Int)
  | updatePool (updater : Addr) (poolID : Nat) (shield fees : Coins) (limit : Int)
  | withdrawRewards (a : Addr)
  | withdrawReimbursement (pid : Nat) (a : Addr)
  | fundBlockRewards (sender : Addr) (amount : Int)
  | createReimbursement (pid : Nat) (amount : Int) (beneficiary : Addr)
  | claimEnds (pid poolID : Nat) (restoreTo beneficiary : Addr) (purchaseID : Nat) (loss : Int) (o : ClaimOutcome)
  | endBlock
  | deposit (from_ : Addr) (coins : Coins)
  | withdraw (from_ : Addr) (coins : Coins)
  | withdrawCollateral (from_ : Addr) (amount : Int)
  | stakingHook (a : Addr) (staked : Int)
  | stakingChanged (a : Addr)
  | unstake (poolID : Nat) (purchaser : Addr) (coins : Coins)
  | pausePool (updater : Addr) (poolID : Nat) (active : Bool)
  | updateSponsor (updater : Addr) (poolID : Nat) (sponsor : String) (sponsorAddr : Addr)
  | secureCollaterals (poolID : Nat) (purchaser : Addr) (purchaseID : Nat) (loss duration : Int)
  | restoreShield (poolID : Nat) (purchaser : Addr) (id : Nat) (loss : Int)
  | claimEnd (loss : Int)

/-- an operation that does not touch the ledger -/
def keepLedger (l : Ledger) (r : Except Err State) : Except Err (Ledger × State) :=
  match r with
  | .ok s => .ok (l, s)
  | .error x => .error x

/-- one step of a history: the model function the operation names, in the environment of that step -/
def step (e : Env) (c : Ledger × State) : Op → Except Err (Ledger × State)
  | .purchaseCore poolID shield purchaser fees staking => Shield.purchaseCore e c.1 c.2 poolID shield purchaser fees staking
  | .purchase poolID shield purchaser staking => Shield.purchase e c.1 c.2 poolID shield purchaser staking
  | .createPool creator shield fees sponsor sponsorAddr limit => Shield.createPool e c.1 c.2 creator shield fees sponsor sponsorAddr limit
  | .updatePool updater poolID shield fees limit => Shield.updatePool e c.1 c.2 updater poolID shield fees limit
  | .withdrawRewards a => Shield.withdrawRewards e c.1 c.2 a
  | .withdrawReimbursement pid a => Shield.withdrawReimbursement e c.1 c.2 pid a
  | .fundBlockRewards sender amount => .ok (Shield.fundBlockRewards e c.1 c.2 sender amount)
  | .createReimbursement pid amount b => Shield.createReimbursement e c.1 c.2 pid amount b
  | .claimEnds pid poolID restoreTo b purchaseID loss o => Shield.claimEnds e c.1 c.2 pid poolID restoreTo b purchaseID loss o
  | .endBlock => keepLedger c.1 (Shield.endBlock e c.2)
  | .deposit a coins => keepLedger c.1 (Shield.deposit e c.2 a coins)
  | .withdraw a coins => keepLedger c.1 (Shield.withdraw e c.2 a coins)
  | .withdrawCollateral a amount => keepLedger c.1 (Shield.withdrawCollateral e c.2 a amount)
  | .stakingHook a staked => keepLedger c.1 (Shield.stakingHook e c.2 a staked)
  | .stakingChanged a => keepLedger c.1 (Shield.stakingChanged e c.2 a)
  | .unstake poolID a coins => keepLedger c.1 (Shield.unstake e c.2 poolID a coins)
  | .pausePool u poolID active => keepLedger c.1 (Shield.pausePool c.2 u poolID active)
  | .updateSponsor u poolID sp spa => keepLedger c.1 (Shield.updateSponsor c.2 u poolID sp spa)
  | .secureCollaterals poolID a purchaseID loss duration => keepLedger c.1 (Shield.secureCollaterals e c.2 poolID a purchaseID loss duration)
  | .restoreShield poolID a id loss => .ok (c.1, Shield.restoreShield c.2 poolID a id loss)
  | .claimEnd loss => .ok (c.1, Shield.claimEnd c.2 loss)

/-- the side conditions of a step: the user account that pays or is paid is not the module account itself;
    a paid claim comes from a bonded pool that is not the module account, with a non-negative loss and a
    proposal id that has no unwithdrawn reimbursement -/
def Op.side (e : Env) (s : State) : Op → Prop
  | .purchaseCore _ _ purchaser _ _ => purchaser ≠ e.modAddr
  | .purchase _ _ purchaser _ => purchaser ≠ e.modAddr
  | .createPool creator _ _ _ _ _ => creator ≠ e.modAddr
  | .updatePool updater _ _ _ _ => updater ≠ e.modAddr
  | .withdrawRewards a => a ≠ e.modAddr
  | .withdrawReimbursement _ a => a ≠ e.modAddr
  | .fundBlockRewards sender _ => sender ≠ e.modAddr
  | .createReimbursement pid amount _ => PaidSide e s pid amount
  | .claimEnds pid _ _ _ _ loss o => o = .paid → PaidSide e s pid loss
  | _ => True

theorem keepLedger_ok {l : Ledger} {r : Except Err State} {c' : Ledger × State} (h : keepLedger l r = .ok c') :
    c'.1 = l ∧ r = .ok c'.2 := by
  unfold keepLedger at h
  split at h
  · injection h with h; subst h; exact ⟨rfl, rfl⟩
  · cases h

/-- every successful step preserves the invariant -/
theorem step_funded (e : Env) (c c' : Ledger × State) (op : Op) (h : step e c op = .ok c') (hs : op.side e c.2)
    (hf : Funded e c.1 c.2) : Funded e c'.1 c'.2 := by
  cases op with
  | purchaseCore poolID shield purchaser fees staking => exact purchaseCore_funded e _ _ _ _ _ _ _ _ _ h hs hf
  | purchase poolID shield purchaser staking => exact purchase_funded e _ _ _ _ _ _ _ _ h hs hf
  | createPool creator shield fees sponsor sponsorAddr limit => exact createPool_funded e _ _ _ _ _ _ _ _ _ _ h hs hf
  | updatePool updater poolID shield fees limit => exact updatePool_funded e _ _ _ _ _ _ _ _ _ h hs hf
  | withdrawRewards a => exact withdrawRewards_funded e _ _ _ _ _ h hs hf
  | withdrawReimbursement pid a => exact withdrawReimbursement_funded e _ _ _ _ _ _ h hs hf
  | fundBlockRewards sender amount =>
    simp only [step] at h; injection h with h; subst h
    exact fundBlockRewards_funded e _ _ _ _ hs hf
  | createReimbursement pid amount b => exact createReimbursement_funded e _ _ _ _ _ _ _ h hs.1 hs.2.1 hs.2.2 hf
  | claimEnds pid poolID restoreTo b purchaseID loss o => exact claimEnds_funded e _ _ _ _ _ _ _ _ _ _ _ h hs hf
  | endBlock => obtain ⟨h1, h2⟩ := keepLedger_ok h; rw [h1]; exact endBlock_funded e _ _ _ h2 hf
  | deposit a coins => obtain ⟨h1, h2⟩ := keepLedger_ok h; rw [h1]; exact deposit_funded e _ _ _ _ _ h2 hf
  | withdraw a coins => obtain ⟨h1, h2⟩ := keepLedger_ok h; rw [h1]; exact withdraw_funded e _ _ _ _ _ h2 hf
  | withdrawCollateral a amount => obtain ⟨h1, h2⟩ := keepLedger_ok h; rw [h1]; exact withdrawCollateral_funded e _ _ _ _ _ h2 hf
  | stakingHook a staked => obtain ⟨h1, h2⟩ := keepLedger_ok h; rw [h1]; exact stakingHook_funded e _ _ _ _ _ h2 hf
  | stakingChanged a => obtain ⟨h1, h2⟩ := keepLedger_ok h; rw [h1]; exact stakingChanged_funded e _ _ _ _ h2 hf
  | unstake poolID a coins => obtain ⟨h1, h2⟩ := keepLedger_ok h; rw [h1]; exact unstake_funded e _ _ _ _ _ _ h2 hf
  | pausePool u poolID active => obtain ⟨h1, h2⟩ := keepLedger_ok h; rw [h1]; exact pausePool_funded e _ _ _ _ _ _ h2 hf
  | updateSponsor u poolID sp spa => obtain ⟨h1, h2⟩ := keepLedger_ok h; rw [h1]; exact updateSponsor_funded e _ _ _ _ _ _ _ h2 hf
  | secureCollaterals poolID a purchaseID loss duration =>
    obtain ⟨h1, h2⟩ := keepLedger_ok h; rw [h1]; exact secureCollaterals_funded e _ _ _ _ _ _ _ _ h2 hf
  | restoreShield poolID a id loss =>
    simp only [step] at h; injection h with h; subst h
    exact restoreShield_funded e _ _ _ _ _ _ hf
  | claimEnd loss =>
    simp only [step] at h; injection h with h; subst h
    exact claimEnd_funded e _ _ _ hf

/-- run a history: each step comes with its own environment (block time, the staking module's answers);
    a step that succeeds advances the state, a step that fails leaves it unchanged -/
def run (c : Ledger × State) : List (Env × Op) → Ledger × State
  | [] => c
  | (e, op) :: rest =>
    match step e c op with
    | .ok c' => run c' rest
    | .error _ => run c rest

/-- the history is played against one module account and one bond denomination, and every step that succeeds
    meets its side conditions -/
def Admissible (mod : Addr) (bond : Denom) : Ledger × State → List (Env × Op) → Prop
  | _, [] => True
  | c, (e, op) :: rest =>
    e.modAddr = mod ∧ e.bond = bond ∧
      match step e c op with
      | .ok c' => op.side e c.2 ∧ Admissible mod bond c' rest
      | .error _ => Admissible mod bond c rest

/-- Sentence 1 over histories ("at every block boundary", for all sequences of shield, staking, governance and bank
    transactions with arbitrary amounts and arbitrary block-time gaps): from any exactly funded state, after any list
    of steps — each of which succeeds or fails — the module account holds exactly what it owes. -/
theorem reachable_funded (mod : Addr) (bond : Denom) (steps : List (Env × Op)) :
    ∀ (c : Ledger × State), FundInv (c.1.balOf mod bond) c.2 → Keyed c.2 → Admissible mod bond c steps →
      FundInv ((run c steps).1.balOf mod bond) (run c steps).2 ∧ Keyed (run c steps).2 := by
  induction steps with
  | nil => intro c hf hk _; exact ⟨hf, hk⟩
  | cons x rest ih =>
    intro c hf hk ha
    obtain ⟨e, op⟩ := x
    simp only [Admissible] at ha
    obtain ⟨hm, hb, ha⟩ := ha
    simp only [run]
    cases hstep : step e c op with
    | error x =>
      simp only [hstep] at ha ⊢
      exact ih c hf hk ha
    | ok c' =>
      simp only [hstep] at ha ⊢
      have hf' : Funded e c.1 c.2 := by rw [← hm, ← hb] at hf; exact ⟨hf, hk⟩
      have := step_funded e c c' op hstep ha.1 hf'
      unfold Funded at this
      rw [hm, hb] at this
      exact ih c' this.1 this.2 ha.2

/-- the same at every intermediate point of the history (every block boundary on the way) -/
theorem reachable_funded_prefix (mod : Addr) (bond : Denom) (steps : List (Env × Op)) (n : Nat) :
    ∀ (c : Ledger × State), FundInv (c.1.balOf mod bond) c.2 → Keyed c.2 → Admissible mod bond c steps →
      FundInv ((run c (steps.take n)).1.balOf mod bond) (run c (steps.take n)).2 := by
  intro c hf hk ha
  refine (reachable_funded mod bond (steps.take n) c hf hk ?_).1
  clear hf hk
  induction steps generalizing c n with
  | nil => simp [Admissible]
  | cons x rest ih =>
    cases n with
    | zero => simp [Admissible]
    | succ n =>
      obtain ⟨e, op⟩ := x
      simp only [List.take_succ_cons, Admissible] at ha ⊢
      obtain ⟨hm, hb, ha⟩ := ha
      refine ⟨hm, hb, ?_⟩
      cases hstep : step e c op with
      | error x => simp only [hstep] at ha ⊢; exact ih n c ha
      | ok c' => simp only [hstep] at ha ⊢; exact ⟨ha.1, ih n c' ha.2⟩

/-- the empty store is exactly funded by an empty account: the histories have a starting point -/
theorem genesis_funded (l : Ledger) (s : State) (mod : Addr) (bond : Denom)
    (h0 : l.balOf mod bond = 0) (hp : s.providers = []) (hs : s.stakes = []) (hr : s.reimbs = [])
    (h1 : s.remaining = Dec.zero) (h2 : s.blockFees = Dec.zero) :
    FundInv (l.balOf mod bond) s ∧ Keyed s := by
  refine ⟨?_, ⟨by simp [hp], by simp [hs], by simp [hr]⟩⟩
  simp [FundInv, owedRaw, sumRewards, sumStakes, sumReimbs, h0, hp, hs, hr, h1, h2, Dec.zero]

/-! ## consequences -/

/-- Sentence 2, "every reward withdrawal can be paid": in an exactly funded state whose owed parts are non-negative,
    a provider's `MsgWithdrawRewards` never fails (in particular not for lack of funds). -/
theorem withdrawRewards_payable (e : Env) (l : Ledger) (s : State) (a : Addr) (p : Provider)
    (hp : findProvider s a = some p) (hf : FundInv (l.balOf e.modAddr e.bond) s) (hn : OwedNonneg s) :
    ∃ l' s', withdrawRewards e l s a = .ok (l', s') := by
  obtain ⟨h0, hb⟩ := rewards_covered _ s hf hn p (findProvider_mem s a p hp)
  unfold withdrawRewards
  simp only [hp]
  split
  · exact ⟨_, _, rfl⟩
  · rw [send_one_ok l e.modAddr a e.bond _ h0 hb]
    exact ⟨_, _, rfl⟩

/-- Sentence 2, "every reimbursement can be paid": a recorded reimbursement whose payout time has come can be withdrawn
    by its beneficiary, in any exactly funded state whose owed parts are non-negative. -/
theorem withdrawReimbursement_payable (e : Env) (l : Ledger) (s : State) (pid : Nat) (a : Addr) (r : Reimb)
    (hr : s.reimbs.find? (·.pid == pid) = some r) (hb : r.beneficiary = a) (ht : r.payoutTime ≤ e.t)
    (hf : FundInv (l.balOf e.modAddr e.bond) s) (hn : OwedNonneg s) :
    ∃ l' s', withdrawReimbursement e l s pid a = .ok (l', s') := by
  obtain ⟨h0, hc⟩ := reimb_covered _ s hf hn r (List.mem_of_find?_eq_some hr)
  unfold withdrawReimbursement
  simp only [hr]
  have h1 : (r.beneficiary != a) = false := by simp [hb]
  have h2 : ¬ r.payoutTime > e.t := by omega
  simp only [h1, h2, Bool.false_eq_true, if_false]
  rw [send_one_ok l e.modAddr a e.bond _ h0 hc]
  exact ⟨_, _, rfl⟩

/-- Sentence 2, "every stake refund can be paid": the module account covers each recorded stake for shield
    (the refund itself happens in the purchase-expiry path the model rejects as `unmodelled:stake-expiry`). -/
theorem stake_refund_covered (e : Env) (l : Ledger) (s : State) (k : Stake) (hk : k ∈ s.stakes)
    (hf : FundInv (l.balOf e.modAddr e.bond) s) (hn : OwedNonneg s) :
    ∃ l', l.send e.modAddr k.purchaser [(e.bond, k.amount)] = .ok l' := by
  obtain ⟨h0, hc⟩ := stake_covered _ s hf hn k hk
  exact ⟨_, send_one_ok l e.modAddr k.purchaser e.bond _ h0 hc⟩

/-- Sentence 2, "fees are never credited without the payer's coins arriving": whatever a successful `purchaseShield`
    adds to `serviceFees` / `remaining` (`f` whole coins) or to the stakes (`k` coins), the module balance grew by. -/
theorem fees_need_payment (e : Env) (l l' : Ledger) (s s' : State) (poolID : Nat) (shield : Coins) (purchaser : Addr)
    (fees staking : Coins) (h : purchaseCore e l s poolID shield purchaser fees staking = .ok (l', s'))
    (hne : purchaser ≠ e.modAddr) (hk : Keyed s) :
    ∃ f k : Int, (f = 0 ∨ k = 0) ∧
      s'.serviceFees.raw = s.serviceFees.raw + f * Dec.prec ∧ s'.remaining.raw = s.remaining.raw + f * Dec.prec ∧
      sumStakes s' = sumStakes s + k ∧ l'.balOf e.modAddr e.bond = l.balOf e.modAddr e.bond + f + k := by
  obtain ⟨f, k, hp⟩ := purchaseCore_spec e l l' s s' poolID shield purchaser fees staking h hne hk.stake
  exact ⟨f, k, hp.one, by rw [hp.serviceFees]; rfl, by rw [hp.remaining]; rfl, hp.stakes, hp.bal⟩

/-- the same for `MsgUpdatePool` (the admin's additional service fees) -/
theorem fees_need_payment_updatePool (e : Env) (l l' : Ledger) (s s' : State) (updater : Addr) (poolID : Nat)
    (shield fees : Coins) (limit : Int) (h : updatePool e l s updater poolID shield fees limit = .ok (l', s'))
    (hne : updater ≠ e.modAddr) (hk : Keyed s) :
    ∃ f k : Int, (f = 0 ∨ k = 0) ∧
      s'.serviceFees.raw = s.serviceFees.raw + f * Dec.prec ∧ s'.remaining.raw = s.remaining.raw + f * Dec.prec ∧
      sumStakes s' = sumStakes s + k ∧ l'.balOf e.modAddr e.bond = l.balOf e.modAddr e.bond + f + k := by
  obtain ⟨f, k, hp⟩ := updatePool_spec e l l' s s' updater poolID shield fees limit h hne hk.stake
  exact ⟨f, k, hp.one, by rw [hp.serviceFees]; rfl, by rw [hp.remaining]; rfl, hp.stakes, hp.bal⟩

/-! ## non-vacuity: a concrete history with fee streaming, block rewards, a reward withdrawal, a paid claim and its
    withdrawal, and three steps that fail -/

section Example

/-- Boolean form of the side conditions (for the concrete history below) -/
def paidSideB (e : Env) (s : State) (pid : Nat) (loss : Int) : Bool :=
  e.bondedPool != e.modAddr && decide (0 ≤ loss) && s.reimbs.all (fun r => r.pid != pid)

def Op.sideB (e : Env) (s : State) : Op → Bool
  | .purchaseCore _ _ purchaser _ _ => purchaser != e.modAddr
  | .purchase _ _ purchaser _ => purchaser != e.modAddr
  | .createPool creator _ _ _ _ _ => creator != e.modAddr
  | .updatePool updater _ _ _ _ => updater != e.modAddr
  | .withdrawRewards a => a != e.modAddr
  | .withdrawReimbursement _ a => a != e.modAddr
  | .fundBlockRewards sender _ => sender != e.modAddr
  | .createReimbursement pid amount _ => paidSideB e s pid amount
  | .claimEnds pid _ _ _ _ loss o => o != .paid || paidSideB e s pid loss
  | _ => true

def admissibleB (mod : Addr) (bond : Denom) : Ledger × State → List (Env × Op) → Bool
  | _, [] => true
  | c, (e, op) :: rest =>
    e.modAddr == mod && e.bond == bond &&
      match step e c op with
      | .ok c' => op.sideB e c.2 && admissibleB mod bond c' rest
      | .error _ => admissibleB mod bond c rest

theorem paidSideB_sound (e : Env) (s : State) (pid : Nat) (loss : Int) (h : paidSideB e s pid loss = true) :
    PaidSide e s pid loss := by
  simp only [paidSideB, Bool.and_eq_true, bne_iff_ne, ne_eq, decide_eq_true_eq, List.all_eq_true] at h
  exact ⟨h.1.1, h.1.2, h.2⟩

theorem sideB_sound (e : Env) (s : State) (op : Op) (h : op.sideB e s = true) : op.side e s := by
  cases op <;> simp only [Op.sideB, Op.side, bne_iff_ne, ne_eq, Bool.or_eq_true] at h ⊢ <;> try exact h
  · exact paidSideB_sound _ _ _ _ h
  · intro ho
    rcases h with h | h
    · exact absurd ho h
    · exact paidSideB_sound _ _ _ _ h

theorem admissibleB_sound (mod : Addr) (bond : Denom) (steps : List (Env × Op)) :
    ∀ c, admissibleB mod bond c steps = true → Admissible mod bond c steps := by
  induction steps with
  | nil => intro c _; trivial
  | cons x rest ih =>
    intro c h
    obtain ⟨e, op⟩ := x
    simp only [admissibleB, Bool.and_eq_true, beq_iff_eq] at h
    simp only [Admissible]
    refine ⟨h.1.1, h.1.2, ?_⟩
    cases hstep : step e c op with
    | error x => simp only [hstep] at h ⊢; exact ih c h.2
    | ok c' =>
      simp only [hstep, Bool.and_eq_true] at h ⊢
      exact ⟨sideB_sound _ _ _ h.2.1, ih c' h.2.2⟩

def exParams : Params :=
  { protection := 1000, withdrawPeriod := 100, feesRate := ⟨10000000000000000⟩, poolLimit := ⟨500000000000000000⟩,
    minPurchase := 1, stakingRate := ⟨2000000000000000000⟩, payoutPeriod := 50 }

/-- one open pool, nobody has deposited or bought anything yet -/
def exState : State :=
  { admin := "admin", pools := [{ id := 1, shield := 0, limit := 1000, active := true, sponsor := "sp", sponsorAddr := "spa" }],
    lists := [], providers := [], withdraws := [], stakes := [], origStakings := [], reimbs := [],
    totalCollateral := 0, totalWithdrawing := 0, totalShield := 0, totalClaimed := 0, serviceFees := Dec.zero,
    remaining := Dec.zero, blockFees := Dec.zero, stakingPool := 0, lastUpdate := zeroTime, nextPool := 2, nextPurchase := 1,
    params := exParams }

def exLedger : Ledger :=
  { posts := [("alice", "uctk", 1000), ("admin", "uctk", 1000), ("bob", "uctk", 1000), ("bonded", "uctk", 5000)],
    supply := [("uctk", 8000)] }

def exEnv (t : Int) : Env :=
  { t := t, bond := "uctk", modAddr := "shield", bondedPool := "bonded", bondedAfter := fun _ => some 500 }

/-- deposit; a paid and a staked purchase; block rewards; a block half-way through the protection period (fees stream to
    the provider); the provider takes her rewards; a withdrawal by a non-provider fails; a claim is secured and paid;
    withdrawing it too early fails; a later block; the beneficiary withdraws; a second withdrawal fails. -/
def exHistory : List (Env × Op) :=
  [ (exEnv 1000, .deposit "alice" [("uctk", 500)]),
    (exEnv 1000, .purchase 1 [("uctk", 200)] "admin" false),
    (exEnv 1000, .purchase 1 [("uctk", 10)] "bob" true),
    (exEnv 1000, .fundBlockRewards "mint" 3),
    (exEnv 1500, .endBlock),
    (exEnv 1500, .withdrawRewards "alice"),
    (exEnv 1500, .withdrawRewards "carol"),
    (exEnv 1600, .secureCollaterals 1 "admin" 1 50 100),
    (exEnv 1700, .claimEnds 7 1 "admin" "admin" 1 50 .paid),
    (exEnv 1710, .withdrawReimbursement 7 "admin"),
    (exEnv 1750, .endBlock),
    (exEnv 1760, .withdrawReimbursement 7 "admin"),
    (exEnv 1770, .withdrawReimbursement 7 "admin") ]

/-- which steps succeed, and the module balance after each -/
def exTrace (c : Ledger × State) : List (Env × Op) → List (Bool × Int)
  | [] => []
  | (e, op) :: rest =>
    match step e c op with
    | .ok c' => (true, c'.1.balOf "shield" "uctk") :: exTrace c' rest
    | .error _ => (false, c.1.balOf "shield" "uctk") :: exTrace c rest

/-- the hypotheses of `reachable_funded` hold for the concrete history … -/
example : FundInv (exLedger.balOf "shield" "uctk") exState ∧ Keyed exState ∧
    Admissible "shield" "uctk" (exLedger, exState) exHistory := by
  refine ⟨(genesis_funded exLedger exState "shield" "uctk" (by decide) rfl rfl rfl rfl rfl).1,
    (genesis_funded exLedger exState "shield" "uctk" (by decide) rfl rfl rfl rfl rfl).2,
    admissibleB_sound _ _ _ _ (by decide)⟩

/-- … ten of its steps succeed, three fail, and coins really move (2 of fees, 20 staked, 3 of block rewards, 2 of rewards
    paid out, 50 of reimbursement in and out) … -/
example : exTrace (exLedger, exState) exHistory =
    [(true, 0), (true, 2), (true, 22), (true, 25), (true, 25), (true, 23), (false, 23), (true, 23), (true, 73),
     (false, 73), (true, 73), (true, 23), (false, 23)] := by decide

/-- … and the conclusion is checked independently by evaluation: 23 coins held = 20 staked + 3 of fees and rewards. -/
example : fundInvB ((run (exLedger, exState) exHistory).1.balOf "shield" "uctk") (run (exLedger, exState) exHistory).2 = true ∧
    (run (exLedger, exState) exHistory).1.balOf "shield" "uctk" = 23 ∧
    sumStakes (run (exLedger, exState) exHistory).2 = 20 := by decide

/-- the state before the reward withdrawal (after five steps) satisfies the hypotheses of `withdrawRewards_payable`
    with a provider who has whole coins to take -/
example : (∃ p, findProvider (run (exLedger, exState) (exHistory.take 5)).2 "alice" = some p ∧ Dec.truncateInt p.rewards = 2) ∧
    OwedNonneg (run (exLedger, exState) (exHistory.take 5)).2 :=
  ⟨⟨_, rfl, by decide⟩, ⟨by decide, by decide, by decide, by decide, by decide⟩⟩

/-- the state after the second end-blocker (eleven steps) satisfies the hypotheses of `withdrawReimbursement_payable`:
    the record of proposal 7 is there, its beneficiary asks, the payout time has come -/
example : (∃ r, (run (exLedger, exState) (exHistory.take 11)).2.reimbs.find? (·.pid == 7) = some r ∧
      r.beneficiary = "admin" ∧ r.payoutTime ≤ (exEnv 1760).t ∧ r.amount = 50) ∧
    OwedNonneg (run (exLedger, exState) (exHistory.take 11)).2 :=
  ⟨⟨_, rfl, by decide, by decide, by decide⟩, ⟨by decide, by decide, by decide, by decide, by decide⟩⟩

/-- The side condition `0 ≤ amount` of `createReimbursement_funded` is needed, and the model does not enforce it: after the
    claim has been secured (eight steps), `CreateReimbursement` with a loss of -5 succeeds, records a reimbursement of -5
    and moves no coins, so the account no longer holds what the books say.  (In the Go code the only guard would be
    `ShieldClaimProposal.ValidateBasic`, which is a TODO returning nil.) -/
example : fundInvB ((run (exLedger, exState) (exHistory.take 8)).1.balOf "shield" "uctk") (run (exLedger, exState) (exHistory.take 8)).2 = true ∧
    (createReimbursement (exEnv 1700) (run (exLedger, exState) (exHistory.take 8)).1 (run (exLedger, exState) (exHistory.take 8)).2
      7 (-5) "admin").toOption.map (fun c => (fundInvB (c.1.balOf "shield" "uctk") c.2, c.2.reimbs.map (·.amount))) =
      some (false, [-5]) := by decide

/-- The side condition "no unwithdrawn reimbursement under this proposal id" is needed as well: paying proposal 7 a second
    time (here with a loss of 0) overwrites the record of 50 while the 50 coins stay in the account.  Governance ends every
    proposal once, so no history of real transactions does this. -/
example : fundInvB ((run (exLedger, exState) (exHistory.take 9)).1.balOf "shield" "uctk") (run (exLedger, exState) (exHistory.take 9)).2 = true ∧
    (createReimbursement (exEnv 1700) (run (exLedger, exState) (exHistory.take 9)).1 (run (exLedger, exState) (exHistory.take 9)).2
      7 0 "admin").toOption.map (fun c => (fundInvB (c.1.balOf "shield" "uctk") c.2, c.2.reimbs.map (·.amount))) =
      some (false, [0]) := by decide

end Example

end Shentu.Props.C02
