import Shentu.Proofs.GovLemmas
import Shentu.Proofs.BankLemmas
/-
  C11 — Governance deposits are held in escrow and returned or burned exactly once.
-/
namespace Shentu.Props.C11
open Shentu Shentu.Gov

theorem tie_sites : Gen.Gov.allFound = true := by decide
/-- the early-approval branch of the certifier round refunds the deposits like every other non-vetoed outcome -/
theorem tie_early_pass_refunds : Gen.Gov.earlyPassRefunds = true := by decide

/-- escrow recorded for a proposal, per depositor and denomination -/
def recOf (ds : List Deposit) (pid : Nat) (a : Addr) (d : Denom) : Int :=
  ((ds.filter (fun x => x.pid == pid && x.depositor == a)).map (fun x => Coins.amountOf x.amount d)).sum
/-- … and for a proposal as a whole -/
def recAll (ds : List Deposit) (pid : Nat) (d : Denom) : Int :=
  ((ds.filter (fun x => x.pid == pid)).map (fun x => Coins.amountOf x.amount d)).sum

theorem recOf_upsert (pid : Nat) (a : Addr) (amt : Coins) (ds : List Deposit) (pid' : Nat) (a' : Addr) (d : Denom) :
    recOf (upsertDeposit pid a amt ds) pid' a' d =
      recOf ds pid' a' d + (if pid == pid' && a == a' then Coins.amountOf amt d else 0) := by
  induction ds with
  | nil =>
    simp only [upsertDeposit, recOf, List.filter_cons, List.filter_nil]
    by_cases h : (pid == pid' && a == a') <;> simp [h]
  | cons x xs ih =>
    unfold upsertDeposit
    split
    · rename_i hk
      simp only [Bool.and_eq_true, beq_iff_eq] at hk
      obtain ⟨hk1, hk2⟩ := hk
      simp only [recOf, List.filter_cons]
      by_cases h : (pid == pid' && a == a')
      · have : (x.pid == pid' && x.depositor == a') = true := by
          simp only [Bool.and_eq_true, beq_iff_eq] at h ⊢; rw [hk1, hk2]; exact h
        simp [this, h, Coins.add]; omega
      · have : (x.pid == pid' && x.depositor == a') = false := by
          rw [hk1, hk2]; simpa using h
        simp [this, h]
    · simp only [recOf, List.filter_cons] at ih ⊢
      split <;> simp_all <;> omega

/-- **Escrow on deposit.** A successful deposit moves exactly the deposited coins from the depositor into the module
    account, records them under (proposal, depositor) and adds them to the proposal's total. -/
theorem deposit_escrows (e : Env) (w w' : World) (pid : Nat) (a : Addr) (amt : Coins)
    (h : addDeposit e w pid a amt = .ok w') :
    w'.l = w.l.move a e.modAddr amt ∧
    (∀ pid' a' d, recOf w'.g.deposits pid' a' d = recOf w.g.deposits pid' a' d + (if pid == pid' && a == a' then Coins.amountOf amt d else 0)) ∧
    ∃ p, findP w.g pid = some p ∧ p.status = 1 ∧ p.isCouncil = false := by
  unfold addDeposit at h
  split at h; · cases h
  rename_i p hp
  split at h; · cases h
  rename_i hst
  split at h; · cases h
  rename_i l1 hsend
  injection h with h; subst h
  refine ⟨Ledger.send_ok _ _ _ _ _ hsend, ?_, p, hp, ?_, ?_⟩
  · intro pid' a' d
    dsimp only
    split
    · unfold activateVotingPeriod; simp only [setP_deposits]; exact recOf_upsert ..
    · simp only [setP_deposits]; exact recOf_upsert ..
  · unfold Gen.Gov.depositRefused at hst; bool_norm at hst; omega
  · unfold Gen.Gov.depositRefused at hst; bool_norm at hst; exact hst.2

/-- what the refund loop pays: every record's amount goes to its depositor -/
theorem refund_go_bal (e : Env) : ∀ (ds : List Deposit) (l l' : Ledger), refundDeposits.go e ds l = .ok l' →
    ∀ a d, a ≠ e.modAddr → l'.balOf a d = l.balOf a d + ((ds.filter (·.depositor == a)).map (fun x => Coins.amountOf x.amount d)).sum := by
  intro ds
  induction ds with
  | nil => intro l l' h a d _; simp only [refundDeposits.go] at h; injection h with h; subst h; simp
  | cons x xs ih =>
    intro l l' h a d ha
    unfold refundDeposits.go at h
    split at h
    · cases h
    · rename_i l1 hs
      rw [ih l1 l' h a d ha, Ledger.send_ok _ _ _ _ _ hs, Ledger.balOf_move]
      have hm : (e.modAddr == a) = false := by
        cases hx : e.modAddr == a with
        | false => rfl
        | true => exact absurd (beq_iff_eq.mp hx).symm ha
      simp only [List.filter_cons, hm]
      by_cases hw : x.depositor == a <;> simp [hw] <;> omega

theorem refund_go_supply (e : Env) : ∀ (ds : List Deposit) (l l' : Ledger), refundDeposits.go e ds l = .ok l' →
    l'.supply = l.supply ∧ ∀ d, l'.total d = l.total d := by
  intro ds
  induction ds with
  | nil => intro l l' h; simp only [refundDeposits.go] at h; injection h with h; subst h; exact ⟨rfl, fun _ => rfl⟩
  | cons x xs ih =>
    intro l l' h
    unfold refundDeposits.go at h
    split at h
    · cases h
    · rename_i l1 hs
      obtain ⟨h1, h2⟩ := ih l1 l' h
      rw [Ledger.send_ok _ _ _ _ _ hs] at h1 h2
      exact ⟨by simpa using h1, fun d => by rw [h2 d]; simp⟩

/-- **Refund.** When a proposal is dropped, rejected, fails or passes, every depositor gets back exactly what is recorded
    for them, nothing is minted or burned, and no record of the proposal remains (so nothing can be paid twice). -/
theorem refund_exact (e : Env) (w w' : World) (pid : Nat) (h : refundDeposits e w pid = .ok w') :
    (∀ a d, a ≠ e.modAddr → w'.l.balOf a d = w.l.balOf a d + recOf w.g.deposits pid a d) ∧
    w'.l.supply = w.l.supply ∧
    (∀ x ∈ w'.g.deposits, x.pid ≠ pid) ∧ (∀ x ∈ w.g.deposits, x.pid ≠ pid → x ∈ w'.g.deposits) := by
  unfold refundDeposits at h
  dsimp only at h
  split at h; · cases h
  rename_i l1 hgo
  injection h with h; subst h
  refine ⟨?_, (refund_go_supply e _ _ _ hgo).1, ?_, ?_⟩
  · intro a d ha
    rw [refund_go_bal e _ _ _ hgo a d ha]
    simp only [recOf, List.filter_filter]
    congr 3
    apply List.filter_congr
    intro x _
    exact Bool.and_comm _ _
  · intro x hx; have := (List.mem_filter.mp hx).2; simpa using this
  · intro x hx hne; exact List.mem_filter.mpr ⟨hx, by simpa using hne⟩

/-- **Veto.** Exactly the recorded deposits of the proposal are burned: the supply and the module account drop by their
    sum, nobody is paid, and no record remains. -/
theorem burn_exact (e : Env) (w w' : World) (pid : Nat) (h : burnDeposits e w pid = .ok w') :
    (∀ d, Coins.amountOf w'.l.supply d = Coins.amountOf w.l.supply d - recAll w.g.deposits pid d) ∧
    (∀ a d, a ≠ e.modAddr → w'.l.balOf a d = w.l.balOf a d) ∧
    (∀ d, w'.l.balOf e.modAddr d = w.l.balOf e.modAddr d - recAll w.g.deposits pid d) ∧
    (∀ x ∈ w'.g.deposits, x.pid ≠ pid) := by
  unfold burnDeposits at h
  dsimp only at h
  split at h; · cases h
  injection h with h; subst h
  have hsum : ∀ (ds : List Deposit) (acc : Coins) (d : Denom),
      Coins.amountOf (ds.foldl (fun acc d => Coins.add acc d.amount) acc) d =
        Coins.amountOf acc d + (ds.map (fun x => Coins.amountOf x.amount d)).sum := by
    intro ds
    induction ds with
    | nil => intro acc d; simp
    | cons x xs ih => intro acc d; simp only [List.foldl_cons, ih, Coins.amountOf_add, List.map_cons, List.sum_cons]; omega
  refine ⟨?_, ?_, ?_, ?_⟩
  · intro d
    show Coins.amountOf (Coins.sub w.l.supply _) d = _
    rw [Coins.amountOf_sub, hsum]; simp [recAll]
  · intro a d ha
    show (w.l.debit e.modAddr _).balOf a d = _
    rw [Ledger.balOf_debit]
    have hm : (e.modAddr == a) = false := by
      cases hx : e.modAddr == a with
      | false => rfl
      | true => exact absurd (beq_iff_eq.mp hx).symm ha
    simp [hm]
  · intro d
    show (w.l.debit e.modAddr _).balOf e.modAddr d = _
    rw [Ledger.balOf_debit, hsum]; simp [recAll]
  · intro x hx; have := (List.mem_filter.mp hx).2; simpa using this

/-- deposits are refused once a proposal has left its deposit period, and for council-member proposals (which never
    collect a deposit) -/
theorem deposit_refused (e : Env) (w : World) (pid : Nat) (a : Addr) (amt : Coins) (p : Proposal)
    (hp : findP w.g pid = some p) (h : p.status ≠ 1 ∨ p.isCouncil = true) : ∃ x, addDeposit e w pid a amt = .error x := by
  unfold addDeposit
  rw [hp]; dsimp only
  have : Gen.Gov.depositRefused (p.status : Int) p.isCouncil = true := by
    unfold Gen.Gov.depositRefused; bool_norm
    rcases h with h | h
    · left; omega
    · right; exact h
  rw [this]; exact ⟨_, rfl⟩

end Shentu.Props.C11

#print axioms Shentu.Props.C11.deposit_escrows
#print axioms Shentu.Props.C11.refund_exact
#print axioms Shentu.Props.C11.burn_exact
