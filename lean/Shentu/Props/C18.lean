import Shentu.Gen.CvmBridge
import Shentu.Model.Cvm
import Shentu.Proofs.BankLemmas
import Shentu.Proofs.Tactics
/-
  C18 — Failed contract calls change nothing and are reported as failures.

  Chain-level statements over the message path `Keeper.Tx`/`Call` and the library of programs the chain engine
  deploys (their EVM meaning is fixed by construction, see harness/sim/gen_bankvm.go); the interpreter-level statements
  (a failing frame leaves the caller's cache untouched) are in Shentu/Props/C17.lean and the VM engine.
-/
namespace Shentu.Props.C18
open Shentu Shentu.Cvm

/-- the message path: the result is either the new state, or a reported failure with the state as it was -/
def tx (bond : Denom) (l : Ledger) (vs : Vesting.Accounts) (s : State) (caller callee : Addr) (value : Int)
    (d0 : String) (z : Bool) (t : Addr) (hd : Bool) : (Ledger × State) × Bool :=
  match call bond l vs s caller callee value d0 z t hd with
  | .ok r => (r, true)
  | .error _ => ((l, s), false)

/-- `Keeper.Call` hands the execution's error on: after `k.Tx` the error branch returns the error, and the result is returned with
    `nil` only past it (the defect repaired earlier was `return res, nil` straight after the call) -/
theorem tie_call_hands_error_on : Gen.CvmBridge.call_found = true ∧ Gen.CvmBridge.call =
    ["return []byte{}, err", "return []byte{}, err",
     "call k.Tx(ctx, callerAddr, calleeAddr, msg.Value, msg.Data, []*payload.ContractMeta{}, view, false, false)",
     "return []byte{}, err", "return res, nil"] := by decide

/-- a failure is reported, and a reported failure has changed nothing -/
theorem failed_call_changes_nothing (bond : Denom) (l : Ledger) (vs : Vesting.Accounts) (s : State) (caller callee : Addr) (v : Int)
    (d0 : String) (z : Bool) (t : Addr) (hd : Bool) :
    (tx bond l vs s caller callee v d0 z t hd).2 = false → (tx bond l vs s caller callee v d0 z t hd).1 = (l, s) := by
  unfold tx; split <;> simp

theorem failure_reported (bond : Denom) (l : Ledger) (vs : Vesting.Accounts) (s : State) (caller callee : Addr) (v : Int)
    (d0 : String) (z : Bool) (t : Addr) (hd : Bool) :
    (tx bond l vs s caller callee v d0 z t hd).2 = false ↔ ∃ x, call bond l vs s caller callee v d0 z t hd = .error x := by
  unfold tx; split <;> simp_all

/-- programs that revert, abort or loop fail whatever they did before (their earlier SSTORE / LOG included) -/
theorem failing_programs_fail (bond : Denom) (kind : String) (hk : kind ∈ ["revert", "storeRevert", "logRevert", "loop", "invalid", "storeInvalid"])
    (l : Ledger) (s : State) (caller callee : Addr) (v : Int) (d0 : String) (z : Bool) (t : Addr) (depth : Nat) :
    ∃ x, runKind bond kind l s caller callee v d0 z t depth = .error x := by
  simp only [List.mem_cons, List.mem_nil_iff, or_false] at hk
  rcases hk with h | h | h | h | h | h <;> subst h <;> (unfold runKind; exact ⟨_, rfl⟩)

/-- **An inner call that reverts leaves no trace when the outer call succeeds**: the forwarding contract keeps the value, no
    storage of anybody changes. -/
theorem inner_revert_no_trace_forward (bond : Denom) (l : Ledger) (s : State) (caller callee target : Addr) (v : Int) (d0 : String) (z : Bool)
    (n : Nat) (hk : kindAt s target ∈ ["revert", "storeRevert", "logRevert"]) :
    runKind bond "forward" l s caller callee v d0 z target (n + 1) = .ok (l, s) := by
  simp only [List.mem_cons, List.mem_nil_iff, or_false] at hk
  unfold runKind
  simp only
  rcases hk with h | h | h <;> (rw [h]; unfold runKind; simp [err])

/-- … and for the contract that calls and then records completion: only its own completion slot changes -/
theorem inner_revert_no_trace_innerCall (bond : Denom) (l : Ledger) (s : State) (caller callee target : Addr) (v : Int) (d0 : String) (z : Bool)
    (n : Nat) (hk : kindAt s target ∈ ["revert", "storeRevert", "logRevert"]) :
    runKind bond "innerCall" l s caller callee v d0 z target (n + 1) = .ok (l, setStorage s callee slot1 "1" false) := by
  simp only [List.mem_cons, List.mem_nil_iff, or_false] at hk
  unfold runKind
  simp only
  rcases hk with h | h | h <;> (rw [h]; unfold runKind; simp [err])

/-- **A successful value transfer debits the sender and credits the recipient by exactly the value** -/
theorem transfer_exact (bond : Denom) (l l' : Ledger) (vs : Vesting.Accounts) (s s' : State) (caller callee : Addr) (v : Int)
    (d0 : String) (z : Bool) (t : Addr) (hk : kindAt s callee = "stop")
    (h : call bond l vs s caller callee v d0 z t false = .ok (l', s')) :
    l' = l.move caller callee [(bond, v)] ∧ s' = s := by
  unfold call at h
  split at h; · cases h
  dsimp only at h
  rw [hk] at h
  simp only [Bool.and_false, Bool.false_eq_true, if_false] at h
  unfold runKind at h
  simp only at h
  injection h with h; injection h with h1 h2
  exact ⟨h1.symm, h2.symm⟩

theorem transfer_moves_exactly (bond : Denom) (l : Ledger) (caller callee : Addr) (v : Int) (hne : caller ≠ callee) :
    (l.move caller callee [(bond, v)]).balOf caller bond = l.balOf caller bond - v ∧
    (l.move caller callee [(bond, v)]).balOf callee bond = l.balOf callee bond + v := by
  have h1 : (callee == caller) = false := by simpa using Ne.symm hne
  have h2 : (caller == callee) = false := by simpa using hne
  constructor <;> (rw [Ledger.balOf_move]; simp [h1, h2])

end Shentu.Props.C18

#print axioms Shentu.Props.C18.failed_call_changes_nothing
#print axioms Shentu.Props.C18.inner_revert_no_trace_forward
#print axioms Shentu.Props.C18.transfer_exact
