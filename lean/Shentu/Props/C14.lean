import Shentu.Proofs.OracleLemmas
import Shentu.Proofs.BankLemmas
/-
  C14 — Oracle collateral is never lost and is released exactly at its due block.

  Property theorems only.  The model (`Shentu/Model/Oracle.lean`) consumes the
  guards and arithmetic regenerated from /repo (`Shentu/Gen/Oracle.lean`), so these
  statements are re-checked against what the source says on every run.
-/
namespace Shentu.Props.C14
open Shentu Shentu.Oracle

/-- every extraction site the oracle model depends on was recognised in the current source -/
theorem tie_sites : Gen.Oracle.allFound = true := by decide

/-- `IterateMatureWithdraws` selects exactly the withdrawals whose due block has been reached -/
theorem mature_iff (h : Int) (w : Withdraw) : mature h w = true ↔ w.due ≤ h := by
  simp [mature, Gen.Oracle.matureSkip]

/-- a withdrawal created at height h is due at h + lock -/
theorem due_is_height_plus_lock (h lock : Int) : Gen.Oracle.dueBlock h lock = h + lock := rfl

theorem upsertWd_mem (a : Addr) (due : Int) (amt : Coins) (l : List Withdraw) :
    ∀ w ∈ upsertWd a due amt l, w ∈ l ∨ (w.addr = a ∧ w.due = due) := by
  induction l with
  | nil => intro w hw; simp only [upsertWd, List.mem_singleton] at hw; right; subst hw; exact ⟨rfl, rfl⟩
  | cons x xs ih =>
    intro w hw
    unfold upsertWd at hw
    split at hw
    · rename_i hk
      simp only [Bool.and_eq_true, beq_iff_eq] at hk
      rcases List.mem_cons.mp hw with h | h
      · right; subst h; exact ⟨hk.2, hk.1⟩
      · left; exact List.mem_cons_of_mem _ h
    · rcases List.mem_cons.mp hw with h | h
      · left; subst h; exact List.mem_cons_self
      · rcases ih w h with h' | h'
        · left; exact List.mem_cons_of_mem _ h'
        · right; exact h'

/-- every record `CreateWithdraw` adds or changes belongs to that operator and is due at h + lock -/
theorem createWithdraw_records (e : Env) (s : State) (a : Addr) (amt : Coins) :
    ∀ w ∈ (createWithdraw e s a amt).wds, w ∈ s.wds ∨ (w.addr = a ∧ w.due = e.h + s.params.lock) := by
  intro w hw
  exact upsertWd_mem a (e.h + s.params.lock) amt s.wds w hw

/-- Timing: with consecutive block heights, a withdrawal requested in block h0 is paid when the chain
    begins block `max due (h0+1)` — the next block if the lock is zero — and at no earlier block. -/
theorem paid_exactly_at_due (h0 : Int) (w : Withdraw) :
    mature (max w.due (h0 + 1)) w = true ∧ ∀ h, h0 < h → h < max w.due (h0 + 1) → mature h w = false := by
  constructor
  · rw [mature_iff]; omega
  · intro h h1 h2
    cases hm : mature h w with
    | false => rfl
    | true => rw [mature_iff] at hm; omega

example : mature 300 { addr := "a", amt := [("uctk", 5)], due := 300 } = true ∧
          mature 299 { addr := "a", amt := [("uctk", 5)], due := 300 } = false := by decide

/-- BeginBlock removes exactly the withdrawals whose due block has been reached: none stays overdue
    (not later), nothing else is touched (not earlier), and a removed record cannot be paid again. -/
theorem begin_block_exact (e : Env) (l l' : Ledger) (s s' : State)
    (h : beginBlock e l s = .ok (l', s')) :
    s'.wds = s.wds.filter (fun w => !(decide (w.due ≤ e.h))) ∧ s'.ops = s.ops := by
  unfold beginBlock at h
  ok_cases h
  injection h with h; injection h with _ h2
  subst h2
  refine ⟨?_, rfl⟩
  dsimp only
  congr 1
  funext w
  cases hm : mature e.h w with
  | true => have := (mature_iff e.h w).mp hm; simp [this]
  | false =>
    have : ¬ w.due ≤ e.h := fun hc => by rw [(mature_iff e.h w).mpr hc] at hm; cases hm
    simp [this]

/-! ### Nothing is lost: the operator's claim (collateral + pending withdrawals) -/

/-- reducing collateral moves the amount from collateral to a pending withdrawal of the same operator,
    however many times it is done in one block -/
theorem reduce_preserves_held (e : Env) (l l' : Ledger) (s s' : State) (a : Addr) (dec : Coins)
    (h : reduceCollateral e l s a dec = .ok (l', s')) (a' : Addr) (d : Denom) :
    held s' a' d = held s a' d := by
  unfold reduceCollateral at h
  ok_cases h
  rename_i o ho _ _ _
  injection h with h; injection h with _ h2
  subst h2
  have hoa := findOp_addr s a o ho
  simp only [findOp] at ho
  simp only [held, collAmt, pendAmt, createWithdraw, pendList_upsert, findOp, setOp_find, setOp_wds]
  by_cases haa : a == a'
  · have : a' = a := (beq_iff_eq.mp haa).symm
    subst this
    simp [ho, hoa]
    omega
  · simp [haa, hoa]

/-- leaving (operator removal) turns the whole collateral into a pending withdrawal -/
theorem remove_preserves_held (e : Env) (l l' : Ledger) (s s' : State) (a : Addr)
    (h : removeOperator e l s a = .ok (l', s')) (a' : Addr) (d : Denom) :
    held s' a' d = held s a' d := by
  unfold removeOperator at h
  ok_cases h
  rename_i _ o ho _ _ _ _
  injection h with h; injection h with _ h2
  subst h2
  simp only [findOp] at ho
  simp only [held, collAmt, pendAmt, createWithdraw, findOp, delOp_find, delOp_wds, pendList_upsert]
  by_cases haa : a == a'
  · have : a' = a := (beq_iff_eq.mp haa).symm
    subst this
    simp [ho]
    omega
  · simp [haa]

/-- becoming an operator: the claim grows by exactly the coins that moved into the module account -/
theorem create_deposits_exactly (e : Env) (l l' : Ledger) (s s' : State) (a : Addr) (c : Coins) (p : Addr)
    (h : createOperator e l s a c p = .ok (l', s')) :
    l' = l.move a e.modAddr c ∧ ∀ a' d, held s' a' d = held s a' d + (if a == a' then Coins.amountOf c d else 0) := by
  unfold createOperator at h
  ok_cases h
  rename_i hno _ _ l2 hsend
  injection h with h; injection h with h1 h2
  subst h1 h2
  refine ⟨Ledger.send_ok _ _ _ _ _ hsend, fun a' d => ?_⟩
  simp only [held, collAmt, pendAmt, findOp, setOp_find, setOp_wds]
  by_cases haa : a == a'
  · have : a' = a := (beq_iff_eq.mp haa).symm
    subst this
    have : s.ops.find? (fun x => x.addr == a') = none := by
      simpa [isOp, findOp] using hno
    simp [this]; omega
  · simp [haa]

theorem add_deposits_exactly (e : Env) (l l' : Ledger) (s s' : State) (a : Addr) (c : Coins)
    (h : addCollateral e l s a c = .ok (l', s')) :
    l' = l.move a e.modAddr c ∧ ∀ a' d, held s' a' d = held s a' d + (if a == a' then Coins.amountOf c d else 0) := by
  unfold addCollateral at h
  ok_cases h
  rename_i _ o ho _ l2 hsend
  injection h with h; injection h with h1 h2
  subst h1 h2
  have hoa := findOp_addr s a o ho
  simp only [findOp] at ho
  refine ⟨Ledger.send_ok _ _ _ _ _ hsend, fun a' d => ?_⟩
  simp only [held, collAmt, pendAmt, findOp, setOp_find, setOp_wds]
  by_cases haa : a == a'
  · have : a' = a := (beq_iff_eq.mp haa).symm
    subst this
    simp [ho, hoa]; omega
  · simp [haa, hoa]

/-- what the module pays out when a block begins -/
def returnedAt (e : Env) (s : State) (a : Addr) (d : Denom) : Int := pendList (s.wds.filter (mature e.h)) a d

theorem payWithdraws_bal (e : Env) : ∀ (ws : List Withdraw) (l l' : Ledger), payWithdraws e ws l = .ok l' →
    ∀ a d, a ≠ e.modAddr → l'.balOf a d = l.balOf a d + pendList ws a d := by
  intro ws
  induction ws with
  | nil => intro l l' h a d _; simp only [payWithdraws] at h; injection h with h; subst h; simp [pendList]
  | cons w ws ih =>
    intro l l' h a d ha
    unfold payWithdraws at h
    split at h
    · cases h
    · rename_i l1 hs
      have := ih l1 l' h a d ha
      rw [this, Ledger.send_ok _ _ _ _ _ hs, Ledger.balOf_move]
      have hm : (e.modAddr == a) = false := by
        cases hx : e.modAddr == a with
        | false => rfl
        | true => exact absurd (beq_iff_eq.mp hx).symm ha
      simp only [pendList, List.filter_cons, hm]
      by_cases hw : w.addr == a <;> simp [hw] <;> omega

/-- BeginBlock: what leaves an operator's claim arrives in that operator's account, coin for coin -/
theorem begin_returns_exactly (e : Env) (l l' : Ledger) (s s' : State)
    (h : beginBlock e l s = .ok (l', s')) (a : Addr) (d : Denom) :
    held s a d = held s' a d + returnedAt e s a d ∧
    (a ≠ e.modAddr → l'.balOf a d = l.balOf a d + returnedAt e s a d) := by
  unfold beginBlock at h
  ok_cases h
  rename_i _ l1 hp
  injection h with h; injection h with h1 h2
  subst h1 h2
  constructor
  · simp only [held, collAmt, pendAmt, findOp, returnedAt]
    have := pendList_split (mature e.h) s.wds a d
    omega
  · intro ha
    exact payWithdraws_bal e _ _ _ hp a d ha

/-- every other operation leaves every operator's claim untouched -/
theorem other_ops_preserve_held (e : Env) (l l' : Ledger) (s s' : State) (op : Op)
    (hop : match op with
      | .withdrawReward _ | .createTask .. | .respond .. | .deleteTask .. | .endBlock => True
      | _ => False)
    (h : stepE e l s op = .ok (l', s')) (a : Addr) (d : Denom) : held s' a d = held s a d := by
  cases op <;> simp only at hop
  case withdrawReward a0 =>
    simp only [stepE] at h; unfold withdrawReward at h; ok_cases h
    rename_i _ o ho _ _ _
    injection h with h; injection h with _ h2; subst h2
    have hoa := findOp_addr s a0 o ho
    exact (sameColl_setOp_rew s o [] a0 ho).held_eq a d
  case createTask c f b cr w v =>
    simp only [stepE] at h; unfold createTask at h
    dsimp only at h
    split at h; · cases h
    rename_i s0 hpre
    split at h; · cases h
    injection h with h; injection h with _ h2; subst h2
    have h0 : SameColl s s0 := by
      ok_cases hpre
      all_goals (injection hpre with hpre; subst hpre; first | exact sameColl_delTask _ _ | exact SameColl.refl _)
    exact (SameColl.trans h0 (SameColl.trans (sameColl_setTask _ _) (sameColl_addClosing _ _ _))).held_eq a d
  case respond c f sc o =>
    simp only [stepE] at h
    cases hr : respond e s c f sc o with
    | error x => simp [hr, Except.map] at h
    | ok s1 =>
      simp only [hr, Except.map] at h; injection h with h; injection h with _ h2; subst h2
      unfold respond at hr; ok_cases hr
      injection hr with hr; subst hr
      exact (sameColl_setTask _ _).held_eq a d
  case deleteTask c f fo dl =>
    simp only [stepE] at h
    cases hr : deleteTask e s c f fo dl with
    | error x => simp [hr, Except.map] at h
    | ok s1 =>
      simp only [hr, Except.map] at h; injection h with h; injection h with _ h2; subst h2
      unfold deleteTask at hr; ok_cases hr
      injection hr with hr; subst hr
      exact (sameColl_delTask _ _).held_eq a d
  case endBlock =>
    simp only [stepE] at h
    cases hr : endBlock e s with
    | error x => simp [hr, Except.map] at h
    | ok s1 =>
      simp only [hr, Except.map] at h; injection h with h; injection h with _ h2; subst h2
      exact (sameColl_endBlock e s s1 hr).held_eq a d

/-! ### The history statement -/

/-- ghost accounting along a history: what each account put up and what it got back -/
structure Run where
  l : Ledger
  s : State
  deposited : Addr → Denom → Int
  returned : Addr → Denom → Int

def runStep (r : Run) (eo : Env × Op) : Run :=
  match stepE eo.1 r.l r.s eo.2 with
  | .error _ => r
  | .ok (l', s') =>
    match eo.2 with
    | .createOperator a c _ =>
      Run.mk l' s' (fun a' d => r.deposited a' d + (if a == a' then Coins.amountOf c d else 0)) r.returned
    | .addCollateral a c =>
      Run.mk l' s' (fun a' d => r.deposited a' d + (if a == a' then Coins.amountOf c d else 0)) r.returned
    | .beginBlock =>
      Run.mk l' s' r.deposited (fun a' d => r.returned a' d + returnedAt eo.1 r.s a' d)
    | _ => Run.mk l' s' r.deposited r.returned

def Conserved (r : Run) : Prop := ∀ a d, r.deposited a d = collAmt r.s a d + pendAmt r.s a d + r.returned a d

theorem conserved_step (r : Run) (eo : Env × Op) (h : Conserved r) : Conserved (runStep r eo) := by
  obtain ⟨e, op⟩ := eo
  unfold runStep
  cases hs : stepE e r.l r.s op with
  | error x => exact h
  | ok ls =>
    obtain ⟨l', s'⟩ := ls
    intro a d
    have hh := h a d
    cases op with
    | createOperator a0 c p =>
      have := (create_deposits_exactly e r.l l' r.s s' a0 c p (by simpa [stepE] using hs)).2 a d
      simp only [held] at this; dsimp only; omega
    | addCollateral a0 c =>
      have := (add_deposits_exactly e r.l l' r.s s' a0 c (by simpa [stepE] using hs)).2 a d
      simp only [held] at this; dsimp only; omega
    | reduceCollateral a0 c =>
      have := reduce_preserves_held e r.l l' r.s s' a0 c (by simpa [stepE] using hs) a d
      simp only [held] at this; dsimp only; omega
    | removeOperator a0 =>
      have := remove_preserves_held e r.l l' r.s s' a0 (by simpa [stepE] using hs) a d
      simp only [held] at this; dsimp only; omega
    | beginBlock =>
      have := (begin_returns_exactly e r.l l' r.s s' (by simpa [stepE] using hs) a d).1
      simp only [held] at this; dsimp only; omega
    | withdrawReward a0 =>
      have := other_ops_preserve_held e r.l l' r.s s' (.withdrawReward a0) trivial hs a d
      simp only [held] at this; dsimp only; omega
    | createTask c f b cr w v =>
      have := other_ops_preserve_held e r.l l' r.s s' (.createTask c f b cr w v) trivial hs a d
      simp only [held] at this; dsimp only; omega
    | respond c f sc o =>
      have := other_ops_preserve_held e r.l l' r.s s' (.respond c f sc o) trivial hs a d
      simp only [held] at this; dsimp only; omega
    | deleteTask c f fo dl =>
      have := other_ops_preserve_held e r.l l' r.s s' (.deleteTask c f fo dl) trivial hs a d
      simp only [held] at this; dsimp only; omega
    | endBlock =>
      have := other_ops_preserve_held e r.l l' r.s s' .endBlock trivial hs a d
      simp only [held] at this; dsimp only; omega

/-- **C14, conservation.** Along every history of oracle operations, blocks and failed transactions,
    every coin an account put up as collateral is part of its collateral, part of a pending
    withdrawal of its own, or has been returned to it. -/
theorem collateral_conserved (ops : List (Env × Op)) (r0 : Run) (h0 : Conserved r0) :
    Conserved (ops.foldl runStep r0) := by
  induction ops generalizing r0 with
  | nil => exact h0
  | cons eo rest ih => exact ih _ (conserved_step r0 eo h0)

/-- the empty oracle state satisfies the hypothesis (non-vacuity) -/
example : Conserved { l := default, s := { ops := [], wds := [], total := [], tasks := [], closing := [], params := default },
                      deposited := fun _ _ => 0, returned := fun _ _ => 0 } := by
  intro a d; simp [collAmt, pendAmt, pendList, findOp]

end Shentu.Props.C14

open Shentu.Props.C14 in
#print axioms tie_sites
#print axioms Shentu.Props.C14.mature_iff
#print axioms Shentu.Props.C14.due_is_height_plus_lock
#print axioms Shentu.Props.C14.createWithdraw_records
#print axioms Shentu.Props.C14.paid_exactly_at_due
#print axioms Shentu.Props.C14.begin_block_exact
#print axioms Shentu.Props.C14.reduce_preserves_held
#print axioms Shentu.Props.C14.remove_preserves_held
#print axioms Shentu.Props.C14.create_deposits_exactly
#print axioms Shentu.Props.C14.add_deposits_exactly
#print axioms Shentu.Props.C14.begin_returns_exactly
#print axioms Shentu.Props.C14.other_ops_preserve_held
#print axioms Shentu.Props.C14.collateral_conserved
