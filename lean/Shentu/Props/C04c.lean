import Shentu.Proofs.ShieldFundClaim
import Shentu.Proofs.ShieldFundPay
import Shentu.Proofs.ShieldLimitLemmas
import Shentu.Props.C04b
/-
  C04 / C08, the bridge between the books of a payout (`Props/C04.lean`, shield model) and its arithmetic at the staking level
  (`Props/C04b.lean`): what `CreateReimbursement` asks of one provider — its share of the shield still sold (`purchased`) plus
  its share of the payout — never exceeds that provider's collateral, provided the two ratios add up to at most one (plus one
  unit of rounding).  With C06's invariant (a provider's collateral is backed by its bonded and unbonding stake) this is the
  hypothesis `purchased + payout ≤ stake` of `C04b.makePayout_exact`: a payout that the books allow is one that the staking
  level can make, exactly, without the panic "exact pay out was not made from unbondings".
-/
namespace Shentu.Props.C04c
open Shentu Shentu.Shield Shentu.Shield.Fund

theorem tdiv_nonneg_le (a : Int) (ha : 0 ≤ a) : Int.tdiv a Dec.prec * Dec.prec ≤ a := by
  have hp : (0 : Int) < Dec.prec := by decide
  rw [Int.tdiv_eq_ediv_of_nonneg ha]
  exact Int.ediv_mul_le a (Int.ne_of_gt hp)

/-- **what a payout asks of a provider is within its collateral** -/
theorem asked_within_collateral (pr yr : Dec) (p : Provider) (tp ty : Int)
    (hc : 0 ≤ p.collateral) (hcb : p.collateral < Dec.prec) (hpr : 0 ≤ pr.raw) (hyr : 0 ≤ yr.raw)
    (hsum : pr.raw + yr.raw ≤ Dec.prec + 1) :
    payoutPur pr yr p tp ty + payoutPay pr yr p tp ty ≤ p.collateral := by
  have hP : Dec.prec = 1000000000000000000 := rfl
  -- the two truncated products add up to at most the collateral
  have h1 := tdiv_nonneg_le (p.collateral * pr.raw) (Int.mul_nonneg hc hpr)
  have h2 := tdiv_nonneg_le (p.collateral * yr.raw) (Int.mul_nonneg hc hyr)
  have hA : Dec.truncateInt (Dec.mul (Dec.ofInt p.collateral) pr) = Int.tdiv (p.collateral * pr.raw) Dec.prec :=
    Shentu.Shield.Limit.trunc_mul_ofInt _ _
  have hB : Dec.truncateInt (Dec.mul (Dec.ofInt p.collateral) yr) = Int.tdiv (p.collateral * yr.raw) Dec.prec :=
    Shentu.Shield.Limit.trunc_mul_ofInt _ _
  have hbase : Int.tdiv (p.collateral * pr.raw) Dec.prec + Int.tdiv (p.collateral * yr.raw) Dec.prec ≤ p.collateral := by
    -- (x + y) * P ≤ c * (pr + yr) ≤ c * (P + 1) = c * P + c < (c + 1) * P
    have hmul : p.collateral * (pr.raw + yr.raw) ≤ p.collateral * (Dec.prec + 1) := Int.mul_le_mul_of_nonneg_left hsum hc
    have : (Int.tdiv (p.collateral * pr.raw) Dec.prec + Int.tdiv (p.collateral * yr.raw) Dec.prec) * Dec.prec < (p.collateral + 1) * Dec.prec := by
      have e1 : p.collateral * (pr.raw + yr.raw) = p.collateral * pr.raw + p.collateral * yr.raw := Int.mul_add ..
      have e2 : p.collateral * (Dec.prec + 1) = p.collateral * Dec.prec + p.collateral := by rw [Int.mul_add, Int.mul_one]
      have e3 : (p.collateral + 1) * Dec.prec = p.collateral * Dec.prec + Dec.prec := by rw [Int.add_mul, Int.one_mul]
      have e4 : (Int.tdiv (p.collateral * pr.raw) Dec.prec + Int.tdiv (p.collateral * yr.raw) Dec.prec) * Dec.prec =
          Int.tdiv (p.collateral * pr.raw) Dec.prec * Dec.prec + Int.tdiv (p.collateral * yr.raw) Dec.prec * Dec.prec := Int.add_mul ..
      omega
    have hpos : (0 : Int) < Dec.prec := by decide
    have := Int.lt_of_mul_lt_mul_right this (Int.le_of_lt hpos)
    omega
  unfold payoutPay payoutPur
  dsimp only
  rw [hA, hB]
  -- the minima only lower the two amounts; each "+ 1" is taken only while the collateral still exceeds the sum
  generalize Int.tdiv (p.collateral * pr.raw) Dec.prec = x at hbase ⊢
  generalize Int.tdiv (p.collateral * yr.raw) Dec.prec = y at hbase ⊢
  repeat' split
  all_goals (rename_i h1' h2' <;> first | omega | (simp only [Bool.and_eq_true, decide_eq_true_eq, not_and, Int.not_lt] at *; omega))

theorem tdiv_mul_le' (x d : Int) (hx : 0 ≤ x) (hd : 0 < d) : Int.tdiv x d * d ≤ x := by
  rw [Int.tdiv_eq_ediv_of_nonneg hx]
  exact Int.ediv_mul_le x (Int.ne_of_gt hd)

/-- the two ratios `CreateReimbursement` works with — shield sold over collateral and payout over collateral — add up to at most
    one plus one unit of rounding whenever shield plus payout is within the collateral (which C06 maintains: the payout was
    locked, and shield is sold only against collateral that is neither locked nor being withdrawn) -/
theorem ratios_add_up (ts a T : Int) (hts : 0 ≤ ts) (ha : 0 ≤ a) (hT : 0 < T) (hle : ts + a ≤ T) :
    (Dec.quo (Dec.ofInt ts) (Dec.ofInt T)).raw + (Dec.quo (Dec.ofInt a) (Dec.ofInt T)).raw ≤ Dec.prec + 1 := by
  have hP : (0 : Int) < Dec.prec := by decide
  have hTP : 0 < T * Dec.prec := Int.mul_pos hT hP
  have hx1 : 0 ≤ ts * Dec.prec * Dec.prec * Dec.prec :=
    Int.mul_nonneg (Int.mul_nonneg (Int.mul_nonneg hts (Int.le_of_lt hP)) (Int.le_of_lt hP)) (Int.le_of_lt hP)
  have hx2 : 0 ≤ a * Dec.prec * Dec.prec * Dec.prec :=
    Int.mul_nonneg (Int.mul_nonneg (Int.mul_nonneg ha (Int.le_of_lt hP)) (Int.le_of_lt hP)) (Int.le_of_lt hP)
  show Dec.chopRound (Int.tdiv (ts * Dec.prec * Dec.prec * Dec.prec) (T * Dec.prec)) +
       Dec.chopRound (Int.tdiv (a * Dec.prec * Dec.prec * Dec.prec) (T * Dec.prec)) ≤ Dec.prec + 1
  generalize hz1 : Int.tdiv (ts * Dec.prec * Dec.prec * Dec.prec) (T * Dec.prec) = z1
  generalize hz2 : Int.tdiv (a * Dec.prec * Dec.prec * Dec.prec) (T * Dec.prec) = z2
  have hz1n : 0 ≤ z1 := by rw [← hz1, Int.tdiv_eq_ediv_of_nonneg hx1]; exact Int.ediv_nonneg hx1 (Int.le_of_lt hTP)
  have hz2n : 0 ≤ z2 := by rw [← hz2, Int.tdiv_eq_ediv_of_nonneg hx2]; exact Int.ediv_nonneg hx2 (Int.le_of_lt hTP)
  have h1 : z1 * (T * Dec.prec) ≤ ts * Dec.prec * Dec.prec * Dec.prec := by rw [← hz1]; exact tdiv_mul_le' _ _ hx1 hTP
  have h2 : z2 * (T * Dec.prec) ≤ a * Dec.prec * Dec.prec * Dec.prec := by rw [← hz2]; exact tdiv_mul_le' _ _ hx2 hTP
  -- (z1 + z2) · T ≤ (ts + a) · P² ≤ T · P², hence z1 + z2 ≤ P²
  have hsum : (z1 + z2) * (T * Dec.prec) ≤ (Dec.prec * Dec.prec) * (T * Dec.prec) := by
    have e1 : (z1 + z2) * (T * Dec.prec) = z1 * (T * Dec.prec) + z2 * (T * Dec.prec) := Int.add_mul ..
    have e2 : ts * Dec.prec * Dec.prec * Dec.prec + a * Dec.prec * Dec.prec * Dec.prec = (ts + a) * (Dec.prec * Dec.prec * Dec.prec) := by
      simp only [Int.mul_assoc, Int.add_mul]
    have e3 : (ts + a) * (Dec.prec * Dec.prec * Dec.prec) ≤ T * (Dec.prec * Dec.prec * Dec.prec) :=
      Int.mul_le_mul_of_nonneg_right hle (Int.le_of_lt (Int.mul_pos (Int.mul_pos hP hP) hP))
    have e4 : T * (Dec.prec * Dec.prec * Dec.prec) = (Dec.prec * Dec.prec) * (T * Dec.prec) := by
      simp only [Int.mul_assoc, Int.mul_comm, Int.mul_left_comm]
    omega
  have hz : z1 + z2 ≤ Dec.prec * Dec.prec := Int.le_of_mul_le_mul_right hsum hTP
  have b1 := (Shentu.Payout.chopRound_bounds z1 hz1n).2
  have b2 := (Shentu.Payout.chopRound_bounds z2 hz2n).2
  -- 2·(r1 + r2)·P ≤ 2·(z1 + z2) + 2·P ≤ 2·P² + 2·P
  have : (Dec.chopRound z1 + Dec.chopRound z2) * Dec.prec ≤ (Dec.prec + 1) * Dec.prec := by
    have e5 : (Dec.chopRound z1 + Dec.chopRound z2) * Dec.prec = Dec.chopRound z1 * Dec.prec + Dec.chopRound z2 * Dec.prec := Int.add_mul ..
    have e6 : (Dec.prec + 1) * Dec.prec = Dec.prec * Dec.prec + Dec.prec := by rw [Int.add_mul, Int.one_mul]
    omega
  exact Int.le_of_mul_le_mul_right this hP

/-- **a payout that the books allow can be made**: if the provider's collateral is backed by its stake (C06) and the delegations
    are well formed, the staking level pays the provider's share exactly — no panic, no coin short -/
theorem payout_is_makeable (pr yr : Dec) (p : Provider) (tp ty : Int) (ds : List Payout.Del) (ubds : List Int)
    (hc : 0 ≤ p.collateral) (hcb : p.collateral < Dec.prec) (hpr : 0 ≤ pr.raw) (hyr : 0 ≤ yr.raw)
    (hsum : pr.raw + yr.raw ≤ Dec.prec + 1)
    (hwf : ∀ d ∈ ds, C04b.WF d) (hu : ∀ b ∈ ubds, 0 ≤ b)
    (hpur : 0 ≤ payoutPur pr yr p tp ty) (hpay : 0 < payoutPay pr yr p tp ty)
    (hbacked : p.collateral ≤ Payout.bondedOf ds + Payout.sum ubds) (hbig : Payout.bondedOf ds < 2 * Dec.prec) :
    ∃ pd pu, Payout.makePayout (Payout.bondedOf ds) (payoutPur pr yr p tp ty) (payoutPay pr yr p tp ty) ds ubds = .ok (pd, pu) ∧
      Payout.sum pd + Payout.sum pu = payoutPay pr yr p tp ty := by
  have hask := asked_within_collateral pr yr p tp ty hc hcb hpr hyr hsum
  obtain ⟨pd, pu, h1, h2, _, _⟩ := C04b.makePayout_exact ds ubds _ _ hwf hu hpur hpay (by omega) hbig
  exact ⟨pd, pu, h1, h2⟩

end Shentu.Props.C04c
