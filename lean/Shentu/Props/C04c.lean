import Shentu.Proofs.ShieldFundClaim
import Shentu.Proofs.ShieldFundPay
import Shentu.Proofs.ShieldLimitLemmas
import Shentu.Props.C04b
/-
  C04 / C08, the bridge between the books of a payout (`Props/C04.lean`, shield model) and its arithmetic at the staking level
  (`Props/C04b.lean`): what `CreateReimbursement` asks of one provider — its share of the shield still sold (`purchased`) plus
  its share of the payout — never exceeds that provider's collateral, provided the two ratios add up to at most one (plus one
  unit of rounding).  With C06's invariant (a provider's collateral is backed by its bonded and unbonding stake) this is the
  hypothesis `purchased + payout ≤ stake` of `C04b.makePayout_exact`: a payout that the books allow is one that the staking
  level can make, exactly, without the panic "exact pay out was not made from unbondings".
-/
namespace Shentu.Props.C04c
open Shentu Shentu.Shield Shentu.Shield.Fund

theorem tdiv_nonneg_le (a : Int) (ha : 0 ≤ a) : Int.tdiv a Dec.prec * Dec.prec ≤ a := by
  have hp : (0 : Int) < Dec.prec := by decide
  rw [Int.tdiv_eq_ediv_of_nonneg ha]
  exact Int.ediv_mul_le a (Int.ne_of_gt hp)

/-- **what a payout asks of a provider is within its collateral** -/
theorem asked_within_collateral (pr yr : Dec) (p : Provider) (tp ty : Int)
    (hc : 0 ≤ p.collateral) (hcb : p.collateral < Dec.prec) (hpr : 0 ≤ pr.raw) (hyr : 0 ≤ yr.raw)
    (hsum : pr.raw + yr.raw ≤ Dec.prec + 1) :
    payoutPur pr yr p tp ty + payoutPay pr yr p tp ty ≤ p.collateral := by
  have hP : Dec.prec = 1000000000000000000 := rfl
  -- the two truncated products add up to at most the collateral
  have h1 := tdiv_nonneg_le (p.collateral * pr.raw) (Int.mul_nonneg hc hpr)
  have h2 := tdiv_nonneg_le (p.collateral * yr.raw) (Int.mul_nonneg hc hyr)
  have hA : Dec.truncateInt (Dec.mul (Dec.ofInt p.collateral) pr) = Int.tdiv (p.collateral * pr.raw) Dec.prec :=
    Shentu.Shield.Limit.trunc_mul_ofInt _ _
  have hB : Dec.truncateInt (Dec.mul (Dec.ofInt p.collateral) yr) = Int.tdiv (p.collateral * yr.raw) Dec.prec :=
    Shentu.Shield.Limit.trunc_mul_ofInt _ _
  have hbase : Int.tdiv (p.collateral * pr.raw) Dec.prec + Int.tdiv (p.collateral * yr.raw) Dec.prec ≤ p.collateral := by
    -- (x + y) * P ≤ c * (pr + yr) ≤ c * (P + 1) = c * P + c < (c + 1) * P
    have hmul : p.collateral * (pr.raw + yr.raw) ≤ p.collateral * (Dec.prec + 1) := Int.mul_le_mul_of_nonneg_left hsum hc
    have : (Int.tdiv (p.collateral * pr.raw) Dec.prec + Int.tdiv (p.collateral * yr.raw) Dec.prec) * Dec.prec < (p.collateral + 1) * Dec.prec := by
      have e1 : p.collateral * (pr.raw + yr.raw) = p.collateral * pr.raw + p.collateral * yr.raw := Int.mul_add ..
      have e2 : p.collateral * (Dec.prec + 1) = p.collateral * Dec.prec + p.collateral := by rw [Int.mul_add, Int.mul_one]
      have e3 : (p.collateral + 1) * Dec.prec = p.collateral * Dec.prec + Dec.prec := by rw [Int.add_mul, Int.one_mul]
      have e4 : (Int.tdiv (p.collateral * pr.raw) Dec.prec + Int.tdiv (p.collateral * yr.raw) Dec.prec) * Dec.prec =
          Int.tdiv (p.collateral * pr.raw) Dec.prec * Dec.prec + Int.tdiv (p.collateral * yr.raw) Dec.prec * Dec.prec := Int.add_mul ..
      omega
    have hpos : (0 : Int) < Dec.prec := by decide
    have := Int.lt_of_mul_lt_mul_right this (Int.le_of_lt hpos)
    omega
  unfold payoutPay payoutPur
  dsimp only
  rw [hA, hB]
  -- the minima only lower the two amounts; each "+ 1" is taken only while the collateral still exceeds the sum
  generalize Int.tdiv (p.collateral * pr.raw) Dec.prec = x at hbase ⊢
  generalize Int.tdiv (p.collateral * yr.raw) Dec.prec = y at hbase ⊢
  repeat' split
  all_goals (rename_i h1' h2' <;> first | omega | (simp only [Bool.and_eq_true, decide_eq_true_eq, not_and, Int.not_lt] at *; omega))

/-- **a payout that the books allow can be made**: if the provider's collateral is backed by its stake (C06) and the delegations
    are well formed, the staking level pays the provider's share exactly — no panic, no coin short -/
theorem payout_is_makeable (pr yr : Dec) (p : Provider) (tp ty : Int) (ds : List Payout.Del) (ubds : List Int)
    (hc : 0 ≤ p.collateral) (hcb : p.collateral < Dec.prec) (hpr : 0 ≤ pr.raw) (hyr : 0 ≤ yr.raw)
    (hsum : pr.raw + yr.raw ≤ Dec.prec + 1)
    (hwf : ∀ d ∈ ds, C04b.WF d) (hu : ∀ b ∈ ubds, 0 ≤ b)
    (hpur : 0 ≤ payoutPur pr yr p tp ty) (hpay : 0 < payoutPay pr yr p tp ty)
    (hbacked : p.collateral ≤ Payout.bondedOf ds + Payout.sum ubds) (hbig : Payout.bondedOf ds < 2 * Dec.prec) :
    ∃ pd pu, Payout.makePayout (Payout.bondedOf ds) (payoutPur pr yr p tp ty) (payoutPay pr yr p tp ty) ds ubds = .ok (pd, pu) ∧
      Payout.sum pd + Payout.sum pu = payoutPay pr yr p tp ty := by
  have hask := asked_within_collateral pr yr p tp ty hc hcb hpr hyr hsum
  obtain ⟨pd, pu, h1, h2, _, _⟩ := C04b.makePayout_exact ds ubds _ _ hwf hu hpur hpay (by omega) hbig
  exact ⟨pd, pu, h1, h2⟩

end Shentu.Props.C04c
