import Shentu.Gen.CvmBridge
import Shentu.Proofs.BankLemmas
import Shentu.Proofs.OracleLemmas
import Shentu.Proofs.GovLemmas
import Shentu.Model.Cvm
import Shentu.Props.C11
/-
  C01 — Coins are conserved: balances always add up to the recorded supply.

  `Ledger.Inv l` : for every denomination, the sum of all postings equals the recorded supply.
  Every operation of every model is a composition of `move` (a transfer), `mint` and `burn`
  (which change balances and the recorded supply together); the theorems below say so model by model.
-/
namespace Shentu.Props.C01
open Shentu

/-- the primitives -/
theorem inv_transfer (l : Ledger) (a b : Addr) (c : Coins) (h : l.Inv) : (l.move a b c).Inv := Ledger.inv_move l a b c h
/-! ## the bridge between the VM's account cache and the bank, pinned (regenerated on every run) -/

/-- `State.UpdateAccount`: the write-back of one cached account sets the BOND-denomination balance only (`SetBalance`, every other
    denomination is left alone), refuses to raise the balance of a blocked (module) address, and creates the auth account if there
    is none -/
theorem tie_write_back : Gen.CvmBridge.allFound = true ∧ Gen.CvmBridge.updateAccount =
    ["if updatedAccount == nil", "call s.ak.GetAccount(s.ctx, address)", "if account == nil",
     "call s.ak.NewAccountWithAddress(s.ctx, address)", "if len(updatedAccount.WASMCode) > 0",
     "call s.store.Set(types.CodeStoreKey(updatedAccount.Address), s.cdc.MustMarshalBinaryBare(&cvmCode))",
     "if s.bk.BlockedAddr(address) && updatedAccount.Balance > s.bk.GetBalance(s.ctx, address, bondDenom).Amount.Uint64()",
     "call s.bk.BlockedAddr(address)", "call s.bk.GetBalance(s.ctx, address, bondDenom)",
     "call s.bk.SetBalance(s.ctx, address, sdk.NewInt64Coin(bondDenom, int64(updatedAccount.Balance)))",
     "call s.ak.SetAccount(s.ctx, account)", "return s.SetAddressMeta(updatedAccount.Address, updatedAccount.ContractMeta)",
     "call s.SetAddressMeta(updatedAccount.Address, updatedAccount.ContractMeta)"] := by decide

/-- `State.RemoveAccount` (SELFDESTRUCT): code, ABI and metadata are deleted and the destroyed account's bond balance is set to zero
    (the VM has credited the beneficiary in its cache) -/
theorem tie_remove_account : Gen.CvmBridge.removeAccount =
    ["call s.ak.GetAccount(s.ctx, address.Bytes())", "if account == nil", "call s.store.Delete(types.CodeStoreKey(address))",
     "call s.store.Delete(types.AbiStoreKey(address))", "call s.store.Delete(types.AddressMetaStoreKey(address))",
     "return s.bk.SetBalance(s.ctx, address.Bytes(), sdk.NewInt64Coin(s.sk.BondDenom(s.ctx), 0))",
     "call s.bk.SetBalance(s.ctx, address.Bytes(), sdk.NewInt64Coin(s.sk.BondDenom(s.ctx), 0))"] := by decide

/-- the bank wrapper: a send to an address with code goes through the VM (`cvmk.Send`), any other through the SDK keeper; a
    multi-send to an address with code is refused -/
theorem tie_bank_routing :
    Gen.CvmBridge.bankSend = ["call k.GetCode(ctx, toAddr)", "if len(code) > 0", "return k.cvmk.Send(ctx, fromAddr, toAddr, amt)",
      "call k.cvmk.Send(ctx, fromAddr, toAddr, amt)", "return k.BaseKeeper.SendCoins(ctx, fromAddr, toAddr, amt)",
      "call k.BaseKeeper.SendCoins(ctx, fromAddr, toAddr, amt)"] ∧
    Gen.CvmBridge.bankMultiSend = ["call k.GetCode(ctx, outAddr)", "if len(code) > 0", "return types.ErrCodeExists",
      "return k.BaseKeeper.InputOutputCoins(ctx, inputs, outputs)", "call k.BaseKeeper.InputOutputCoins(ctx, inputs, outputs)"] := by decide

theorem inv_mint (l : Ledger) (a : Addr) (c : Coins) (h : l.Inv) : (l.mint a c).Inv := Ledger.inv_mint l a c h
theorem inv_burn (l : Ledger) (a : Addr) (c : Coins) (h : l.Inv) : (l.burn a c).Inv := Ledger.inv_burn l a c h

/-- a transfer moves exactly the coins it was given, in every denomination: the sender loses them, the recipient gets them,
    nobody else is touched -/
theorem transfer_exact (l : Ledger) (a b : Addr) (c : Coins) (hab : a ≠ b) (x : Addr) (d : Denom) :
    (l.move a b c).balOf x d = l.balOf x d - (if x = a then Coins.amountOf c d else 0) + (if x = b then Coins.amountOf c d else 0) := by
  rw [Ledger.balOf_move]
  by_cases h1 : x = a <;> by_cases h2 : x = b
  · exact absurd (h1.symm.trans h2) hab
  · subst h1; have : (b == x) = false := by simpa using Ne.symm h2
    simp [this, h2]
  · subst h2; have : (a == x) = false := by simpa using hab
    simp [this, h1]
  · have e1 : (a == x) = false := by simpa using Ne.symm h1
    have e2 : (b == x) = false := by simpa using Ne.symm h2
    simp [e1, e2, h1, h2]

/-- crediting and then debiting the same amount elsewhere (locked send) is a transfer as far as the invariant goes -/
theorem inv_credit_debit (l : Ledger) (a b : Addr) (c : Coins) (h : l.Inv) : ((l.credit b c).debit a c).Inv := by
  intro d
  rw [Ledger.total_debit, Ledger.total_credit, Ledger.supply_debit, Ledger.supply_credit, h d]; omega

/-! ### Oracle -/
theorem oracle_payWithdraws (e : Oracle.Env) : ∀ (ws : List Oracle.Withdraw) (l l' : Ledger), l.Inv → Oracle.payWithdraws e ws l = .ok l' → l'.Inv := by
  intro ws
  induction ws with
  | nil => intro l l' hi h; simp only [Oracle.payWithdraws] at h; injection h with h; subst h; exact hi
  | cons w ws ih =>
    intro l l' hi h
    unfold Oracle.payWithdraws at h
    split at h
    · cases h
    · rename_i l1 hs
      exact ih l1 l' (Ledger.inv_send _ _ _ _ _ hi hs) h

/-- every oracle operation (messages, BeginBlock payouts, EndBlock aggregation) conserves coins -/
theorem oracle_step (e : Oracle.Env) (l l' : Ledger) (s s' : Oracle.State) (op : Oracle.Op) (hi : l.Inv)
    (h : Oracle.stepE e l s op = .ok (l', s')) : l'.Inv := by
  cases op <;> simp only [Oracle.stepE] at h
  case createOperator a c p =>
    unfold Oracle.createOperator at h; ok_cases h; rename_i _ _ _ l2 hs
    injection h with h; injection h with h1 _; subst h1; exact Ledger.inv_send _ _ _ _ _ hi hs
  case removeOperator a =>
    unfold Oracle.removeOperator at h; ok_cases h; rename_i _ _ _ _ _ l2 hs
    injection h with h; injection h with h1 _; subst h1; exact Ledger.inv_send _ _ _ _ _ hi hs
  case addCollateral a c =>
    unfold Oracle.addCollateral at h; ok_cases h; rename_i _ _ _ _ _ l2 hs
    injection h with h; injection h with h1 _; subst h1; exact Ledger.inv_send _ _ _ _ _ hi hs
  case reduceCollateral a c =>
    unfold Oracle.reduceCollateral at h; ok_cases h
    injection h with h; injection h with h1 _; subst h1; exact hi
  case withdrawReward a =>
    unfold Oracle.withdrawReward at h; ok_cases h; rename_i _ _ _ _ l2 hs
    injection h with h; injection h with h1 _; subst h1; exact Ledger.inv_send _ _ _ _ _ hi hs
  case createTask c f b cr w v =>
    unfold Oracle.createTask at h
    dsimp only at h
    split at h; · cases h
    split at h; · cases h
    rename_i l2 hs
    injection h with h; injection h with h1 _; subst h1; exact Ledger.inv_send _ _ _ _ _ hi hs
  case respond c f sc o =>
    cases hr : Oracle.respond e s c f sc o with
    | error x => simp [hr, Except.map] at h
    | ok s1 => simp only [hr, Except.map] at h; injection h with h; injection h with h1 _; subst h1; exact hi
  case deleteTask c f fo dl =>
    cases hr : Oracle.deleteTask e s c f fo dl with
    | error x => simp [hr, Except.map] at h
    | ok s1 => simp only [hr, Except.map] at h; injection h with h; injection h with h1 _; subst h1; exact hi
  case beginBlock =>
    unfold Oracle.beginBlock at h; ok_cases h; rename_i _ l1 hp
    injection h with h; injection h with h1 _; subst h1
    exact oracle_payWithdraws e _ _ _ hi hp
  case endBlock =>
    cases hr : Oracle.endBlock e s with
    | error x => simp [hr, Except.map] at h
    | ok s1 => simp only [hr, Except.map] at h; injection h with h; injection h with h1 _; subst h1; exact hi

/-! ### Governance escrow -/
theorem gov_deposit (e : Gov.Env) (w w' : Gov.World) (pid : Nat) (a : Addr) (amt : Coins) (hi : w.l.Inv)
    (h : Gov.addDeposit e w pid a amt = .ok w') : w'.l.Inv := by
  rw [(Props.C11.deposit_escrows e w w' pid a amt h).1]
  exact Ledger.inv_move _ _ _ _ hi

theorem gov_refund_go (e : Gov.Env) : ∀ (ds : List Gov.Deposit) (l l' : Ledger), l.Inv → Gov.refundDeposits.go e ds l = .ok l' → l'.Inv := by
  intro ds
  induction ds with
  | nil => intro l l' hi h; simp only [Gov.refundDeposits.go] at h; injection h with h; subst h; exact hi
  | cons x xs ih =>
    intro l l' hi h
    unfold Gov.refundDeposits.go at h
    split at h
    · cases h
    · rename_i l1 hs
      exact ih l1 l' (Ledger.inv_send _ _ _ _ _ hi hs) h

theorem gov_refund (e : Gov.Env) (w w' : Gov.World) (pid : Nat) (hi : w.l.Inv) (h : Gov.refundDeposits e w pid = .ok w') : w'.l.Inv := by
  unfold Gov.refundDeposits at h
  dsimp only at h
  split at h; · cases h
  rename_i l1 hgo
  injection h with h; subst h
  exact gov_refund_go e _ _ _ hi hgo

/-- burning vetoed deposits lowers balances and the recorded supply together -/
theorem gov_burn (e : Gov.Env) (w w' : Gov.World) (pid : Nat) (hi : w.l.Inv) (h : Gov.burnDeposits e w pid = .ok w') : w'.l.Inv := by
  unfold Gov.burnDeposits at h
  dsimp only at h
  split at h; · cases h
  injection h with h; subst h
  exact Ledger.inv_burn _ _ _ hi

/-! ### Bank with vesting accounts -/
theorem bank_send (l l' : Ledger) (vs : Vesting.Accounts) (a b : Addr) (c : Coins) (hi : l.Inv) (h : Vesting.send l vs a b c = .ok l') : l'.Inv := by
  unfold Vesting.send at h
  split at h; · cases h
  injection h with h; subst h; exact Ledger.inv_move _ _ _ _ hi

theorem bank_lockedSend (l l' : Ledger) (vs vs' : Vesting.Accounts) (f : Addr → Bool) (a b u : Addr) (c : Coins) (hi : l.Inv)
    (h : Vesting.lockedSend l vs f a b u c = .ok (l', vs')) : l'.Inv := by
  unfold Vesting.lockedSend at h
  dsimp only at h
  split at h; · cases h
  split at h; · cases h
  split at h; · cases h
  split at h; · cases h
  injection h with h; injection h with h1 _; subst h1
  exact inv_credit_debit _ _ _ _ hi

/-! ### Contracts: value transfers, forwarding, self-destruction -/
theorem cvm_runKind (bond : Denom) : ∀ (depth : Nat) (kind : String) (l l' : Ledger) (s s' : Cvm.State) (caller callee : Addr) (v : Int)
    (d0 : String) (z : Bool) (t : Addr), l.Inv → Cvm.runKind bond kind l s caller callee v d0 z t depth = .ok (l', s') → l'.Inv := by
  intro depth
  induction depth with
  | zero =>
    intro kind l l' s s' caller callee v d0 z t hi h
    unfold Cvm.runKind at h
    split at h <;> (first | (injection h with h; injection h with h1 _; subst h1; first | exact hi | exact Ledger.inv_move _ _ _ _ hi) | (cases h; done) | (split at h <;> (injection h with h; injection h with h1 _; subst h1; first | exact hi | exact Ledger.inv_move _ _ _ _ hi); done) | skip)
    all_goals (simp only at h; cases h)
  | succ n ih =>
    intro kind l l' s s' caller callee v d0 z t hi h
    unfold Cvm.runKind at h
    split at h <;> (first | (injection h with h; injection h with h1 _; subst h1; first | exact hi | exact Ledger.inv_move _ _ _ _ hi) | (cases h; done) | (split at h <;> (injection h with h; injection h with h1 _; subst h1; first | exact hi | exact Ledger.inv_move _ _ _ _ hi); done) | skip)
    · -- forward
      simp only at h
      split at h
      · rename_i r hr
        injection h with h; subst h
        exact ih _ _ _ _ _ _ _ _ _ _ _ (Ledger.inv_move _ _ _ _ hi) hr
      · split at h
        · injection h with h; injection h with h1 _; subst h1; exact hi
        · cases h
    · -- innerCall
      simp only at h
      split at h
      · cases h
      · rename_i l2 s2 hr
        injection h with h; injection h with h1 _; subst h1
        split at hr
        · rename_i r hr2
          injection hr with hr; subst hr
          exact ih _ _ _ _ _ _ _ _ _ _ _ hi hr2
        · split at hr
          · injection hr with hr; injection hr with h1 _; subst h1; exact hi
          · cases hr

theorem cvm_call (bond : Denom) (l l' : Ledger) (vs : Vesting.Accounts) (s s' : Cvm.State) (caller callee : Addr) (v : Int)
    (d0 : String) (z : Bool) (t : Addr) (hd : Bool) (hi : l.Inv) (h : Cvm.call bond l vs s caller callee v d0 z t hd = .ok (l', s')) : l'.Inv := by
  unfold Cvm.call at h
  split at h; · cases h
  dsimp only at h
  split at h; · cases h
  exact cvm_runKind bond _ _ _ _ _ _ _ _ _ _ _ _ (Ledger.inv_move _ _ _ _ hi) h

/-! ### The VM write-back (x/cvm/keeper/state.go) -/

/-- `UpdateAccount`/`RemoveAccount` as corrected: for every account the execution touched, only the bond-denomination balance is
    rewritten (to the cached value, or to zero for a destroyed account). -/
def writeBack (bond : Denom) (l : Ledger) : List (Addr × Int) → Ledger
  | [] => l
  | (a, newBal) :: rest => writeBack bond (l.credit a [(bond, newBal - l.balOf a bond)]) rest

theorem writeBack_total (bond : Denom) : ∀ (ups : List (Addr × Int)) (l : Ledger) (hnd : (ups.map (·.1)).Nodup) (d : Denom),
    (writeBack bond l ups).total d = l.total d + (if bond == d then (ups.map (·.2)).sum - (ups.map (fun u => l.balOf u.1 bond)).sum else 0) ∧
    (writeBack bond l ups).supply = l.supply := by
  intro ups
  induction ups with
  | nil => intro l _ d; simp [writeBack]
  | cons u rest ih =>
    intro l hnd d
    obtain ⟨a, nb⟩ := u
    simp only [List.map_cons, List.nodup_cons] at hnd
    have := ih (l.credit a [(bond, nb - l.balOf a bond)]) hnd.2 d
    simp only [writeBack]
    rw [this.1, this.2, Ledger.total_credit]
    refine ⟨?_, rfl⟩
    -- balances of the remaining touched accounts are not changed by crediting `a`
    have hrest : (rest.map (fun u => (l.credit a [(bond, nb - l.balOf a bond)]).balOf u.1 bond)) = rest.map (fun u => l.balOf u.1 bond) := by
      apply List.map_congr_left
      intro u hu
      rw [Ledger.balOf_credit]
      have : (a == u.1) = false := by
        cases hx : a == u.1 with
        | false => rfl
        | true => exact absurd (List.mem_map.mpr ⟨u, hu, (beq_iff_eq.mp hx).symm⟩) hnd.1
      simp [this]
    rw [hrest]
    by_cases hb : bond == d
    · simp only [hb, if_true, Coins.amountOf_cons, Coins.amountOf_nil, List.map_cons, List.sum_cons]; omega
    · have hb' : (bond == d) = false := by simpa using hb
      simp [hb']

/-- **Write-back conserves coins** as long as the VM's own bookkeeping does: if the cached balances of the touched accounts add up
    to what those accounts held before (`frame_conserves`), the ledger invariant survives the write-back — whatever other
    denominations the touched accounts hold. -/
theorem writeBack_inv (bond : Denom) (l : Ledger) (ups : List (Addr × Int)) (hnd : (ups.map (·.1)).Nodup)
    (hsum : (ups.map (·.2)).sum = (ups.map (fun u => l.balOf u.1 bond)).sum) (hi : l.Inv) : (writeBack bond l ups).Inv := by
  intro d
  obtain ⟨h1, h2⟩ := writeBack_total bond ups l hnd d
  rw [h1, h2, hi d, hsum]
  split <;> omega

/-- the write-back leaves every other denomination of every account alone -/
theorem writeBack_other_denoms (bond : Denom) : ∀ (ups : List (Addr × Int)) (l : Ledger) (x : Addr) (d : Denom), d ≠ bond →
    (writeBack bond l ups).balOf x d = l.balOf x d := by
  intro ups
  induction ups with
  | nil => intro l x d _; rfl
  | cons u rest ih =>
    intro l x d hd
    obtain ⟨a, nb⟩ := u
    simp only [writeBack]
    rw [ih _ x d hd, Ledger.balOf_credit]
    have : (bond == d) = false := by simpa using Ne.symm hd
    split <;> simp [this]

example : (writeBack "uctk" { posts := [("a", "uctk", 10), ("a", "foo", 5), ("c", "uctk", 1)], supply := [("uctk", 11), ("foo", 5)] } [("a", 3), ("c", 8)]).invB = true := by decide

end Shentu.Props.C01

#print axioms Shentu.Props.C01.oracle_step
#print axioms Shentu.Props.C01.cvm_runKind
#print axioms Shentu.Props.C01.writeBack_inv
