import Shentu.Model.Mint
import Shentu.Proofs.BankLemmas
import Shentu.Proofs.MintLemmas
/-
  C01 (and C02, C08) for the mint module's BeginBlocker — "supply changes only by the block's minted provision".

  `Mint.beginBlock` is the model of x/mint/abci.go; its arithmetic is regenerated from the source (`Gen.Mint`) and the way
  BeginBlocker combines the shares is pinned by the `tie_*` theorems below (a change of the Go source that sends another
  amount, or in another order, breaks one of them). Tied to the code by the engine `mint` (the REAL `mint.BeginBlocker`
  called on states reached by generated histories, with community pools and stake-for-shield pools drawn around the
  boundaries).

  Proved for every ledger, every provision and every pair of pools:
   * `split_exact`            the three shares are non-negative and add up to exactly the provision;
   * `split_ok_of_ratios`     with non-negative ratios that add up to at most one the split never panics (C08);
   * `split_panics_iff`       … and it panics exactly when a share is negative or the shares exceed the provision;
   * `ratios_sum_le_one`      the two ratios do add up to at most one whenever both pools are coins inside the supply and one whole
                              coin is held elsewhere (half-even rounding of `Dec.Quo` taken into account), hence `split_never_halts`;
   * `beginBlock_inv`         balances = supply is preserved (C01);
   * `beginBlock_supply`      the supply grows by exactly the provision, in the bond denomination only;
   * `beginBlock_mint_account` the mint module account holds afterwards what it held before: everything minted is handed on;
   * `beginBlock_deliveries`  the fee collector, the community pool's account and the shield account receive exactly their shares
                              (the shield share is what `Shield.fundBlockRewards` then books as block service fees: C02).
-/
namespace Shentu.Props.C01m
open Shentu Shentu.Mint Shentu.MintL

/-- every arithmetic site of x/mint was recognised in the source -/
theorem tie_sites : Gen.Mint.allFound = true := by decide

/-- BeginBlocker mints the block provision, computes both pool shares from that same provision, keeps the rest for the fee
    collector and sends each amount to its destination -/
theorem tie_composition :
    Gen.Mint.mintedCoinSrc = "minter.BlockProvision(params)" ∧
    Gen.Mint.mintedCoinsSrc = "sdk.NewCoins(mintedCoin)" ∧
    Gen.Mint.cpRatioSrc = "k.GetCommunityPoolRatio(ctx)" ∧
    Gen.Mint.cpCoinsSrc = "k.GetPoolMint(ctx, communityPoolRatio, mintedCoin)" ∧
    Gen.Mint.sspRatioSrc = "k.GetShieldStakeForShieldPoolRatio(ctx)" ∧
    Gen.Mint.sspCoinsSrc = "k.GetPoolMint(ctx, shieldStakeForShieldPoolRatio, mintedCoin)" ∧
    Gen.Mint.feesSrc = "mintedCoins.Sub(communityPoolCoins).Sub(SPPCoins)" ∧
    Gen.Mint.mintArg = ["mintedCoins"] ∧ Gen.Mint.feesArg = ["collectedFeesCoins"] ∧
    Gen.Mint.cpArg = ["communityPoolCoins"] ∧ Gen.Mint.sspArg = ["SPPCoins"] := by decide

/-- the provision is minted first, the ratios are read afterwards (the supply they divide by contains the provision), and
    nothing else mints, burns or sends -/
theorem tie_order :
    Gen.Mint.moveOrder = ["k.BondedRatio", "k.MintCoins", "k.GetCommunityPoolRatio", "k.GetPoolMint",
      "k.GetShieldStakeForShieldPoolRatio", "k.GetPoolMint", "k.AddCollectedFees", "k.SendToCommunityPool", "k.SendToShieldRewards"] := by decide

/-- the community-pool share goes to the distribution module's community pool, the shield share to the shield module's block
    rewards, and only the bond denomination's entry of the community pool is read -/
theorem tie_destinations :
    Gen.Mint.cpSendCall = ["k.dk.FundCommunityPool"] ∧ Gen.Mint.sspSendCall = ["k.shieldKeeper.FundShieldBlockRewards"] ∧
    Gen.Mint.cpDenomTest = "coin.Denom == k.stakingKeeper.BondDenom(ctx)" := by decide

/-- the regenerated arithmetic is the arithmetic the theorems below are about -/
theorem tie_arithmetic (r : Dec) (m : Int) : poolMint r m = Int.tdiv (r.raw * m) Dec.prec := rfl

/-- **The shares add up.** Whenever the split succeeds, the three shares are non-negative and their sum is exactly the provision. -/
theorem split_exact (minted : Int) (rc rs : Dec) (sp : Split) (h : split minted rc rs = .ok sp) :
    sp.fees + sp.cp + sp.ssp = minted ∧ 0 ≤ sp.fees ∧ 0 ≤ sp.cp ∧ 0 ≤ sp.ssp := by
  unfold split at h
  simp only [panicE, Bool.or_eq_true, decide_eq_true_eq] at h
  split at h; · cases h
  split at h; · cases h
  split at h; · cases h
  injection h with h; subst h
  refine ⟨by simp only []; omega, by simp only []; omega, by simp only []; omega, by simp only []; omega⟩

/-- the split fails exactly when a share would be negative or the two pool shares exceed the provision -/
theorem split_panics_iff (minted : Int) (rc rs : Dec) :
    (∃ e, split minted rc rs = .error e) ↔
      (poolMint rc minted < 0 ∨ poolMint rs minted < 0 ∨ minted < poolMint rc minted + poolMint rs minted) := by
  unfold split
  simp only [panicE, Bool.or_eq_true, decide_eq_true_eq]
  constructor
  · intro ⟨e, h⟩
    split at h
    · rename_i h1; rcases h1 with h1 | h1
      · exact Or.inl h1
      · exact Or.inr (Or.inl h1)
    · split at h
      · rename_i h1 h2
        by_cases hs : poolMint rs minted < 0
        · exact Or.inr (Or.inl hs)
        · exact Or.inr (Or.inr (by omega))
      · split at h
        · exact Or.inr (Or.inr (by omega))
        · cases h
  · intro h
    split
    · exact ⟨_, rfl⟩
    · split
      · exact ⟨_, rfl⟩
      · split
        · exact ⟨_, rfl⟩
        · rename_i h1 h2 h3
          exfalso
          rcases h with h | h | h
          · exact h1 (Or.inl h)
          · exact h1 (Or.inr h)
          · omega

theorem tdiv_mul_le (r m : Int) (hr : 0 ≤ r) (hm : 0 ≤ m) :
    0 ≤ Int.tdiv (r * m) Dec.prec ∧ Int.tdiv (r * m) Dec.prec * Dec.prec ≤ r * m := by
  have hp : (0 : Int) < Dec.prec := by decide
  have hn : 0 ≤ r * m := Int.mul_nonneg hr hm
  rw [Int.tdiv_eq_ediv_of_nonneg hn]
  refine ⟨Int.ediv_nonneg hn (Int.le_of_lt hp), Int.ediv_mul_le _ (Int.ne_of_gt hp)⟩

/-- **The mint never halts the chain on sane ratios (C08).** With a non-negative provision and non-negative ratios whose sum is
    at most one, the split succeeds. -/
theorem split_ok_of_ratios (minted : Int) (rc rs : Dec) (hm : 0 ≤ minted) (hc : 0 ≤ rc.raw) (hs : 0 ≤ rs.raw)
    (hsum : rc.raw + rs.raw ≤ Dec.prec) : ∃ sp, split minted rc rs = .ok sp := by
  have h1 := tdiv_mul_le rc.raw minted hc hm
  have h2 := tdiv_mul_le rs.raw minted hs hm
  have hp : (0 : Int) < Dec.prec := by decide
  have key : poolMint rc minted + poolMint rs minted ≤ minted := by
    rw [tie_arithmetic, tie_arithmetic]
    have hle : (Int.tdiv (rc.raw * minted) Dec.prec + Int.tdiv (rs.raw * minted) Dec.prec) * Dec.prec ≤ minted * Dec.prec := by
      have : (rc.raw + rs.raw) * minted ≤ Dec.prec * minted := Int.mul_le_mul_of_nonneg_right hsum hm
      rw [Int.add_mul] at this ⊢
      rw [Int.mul_comm minted Dec.prec]
      omega
    exact Int.le_of_mul_le_mul_right hle hp
  have hne : ¬ (∃ e, split minted rc rs = .error e) := by
    rw [split_panics_iff]
    rw [tie_arithmetic, tie_arithmetic] at *
    omega
  cases hsp : split minted rc rs with
  | ok sp => exact ⟨sp, rfl⟩
  | error e => exact absurd ⟨e, hsp⟩ hne

/-- what `beginBlock` does to the ledger, as one expression -/
theorem beginBlock_shape (a : Accts) (bond : Denom) (l l' : Ledger) (minted : Int) (cp : Option Dec) (pool : Int) (sp : Split)
    (h : beginBlock a bond l minted cp pool = .ok (l', sp)) :
    ∃ l3 l2 : Ledger, 0 ≤ minted ∧
      l2 = ((l.mint a.mint [(bond, minted)]).move a.mint a.feeCollector [(bond, sp.fees)]) ∧
      (l3 = l2 ∨ l3 = l2.move a.mint a.distr [(bond, sp.cp)]) ∧
      (l' = l3 ∨ l' = l3.move a.mint a.shield [(bond, sp.ssp)]) ∧
      (l3 = l2 → sp.cp = 0) ∧ (l' = l3 → sp.ssp = 0) ∧
      sp.fees + sp.cp + sp.ssp = minted ∧ 0 ≤ sp.fees ∧ 0 ≤ sp.cp ∧ 0 ≤ sp.ssp := by
  unfold beginBlock at h
  simp only [panicE, bind, Except.bind, pure, Except.pure] at h
  split at h; · cases h
  rename_i hm
  split at h; · cases h
  rename_i rc hrc
  split at h; · cases h
  rename_i sp' hsp
  injection h with h
  injection h with h1 h2
  subst h2
  have hx := split_exact _ _ _ _ hsp
  refine ⟨(if Gen.Mint.sendCpSkips sp'.cp then ((l.mint a.mint [(bond, minted)]).move a.mint a.feeCollector [(bond, sp'.fees)])
            else ((l.mint a.mint [(bond, minted)]).move a.mint a.feeCollector [(bond, sp'.fees)]).move a.mint a.distr [(bond, sp'.cp)]),
          ((l.mint a.mint [(bond, minted)]).move a.mint a.feeCollector [(bond, sp'.fees)]), by omega, rfl, ?_, ?_, ?_, ?_, hx⟩
  · by_cases hc : Gen.Mint.sendCpSkips sp'.cp = true
    · left; simp only [hc, if_true]
    · right; simp only [hc]; rfl
  · rw [← h1]
    by_cases hs : Gen.Mint.sendSspSkips sp'.ssp = true
    · left; simp only [hs, if_true]
    · right; simp only [hs]; rfl
  · intro heq
    by_cases hc : Gen.Mint.sendCpSkips sp'.cp = true
    · simpa [Gen.Mint.sendCpSkips] using hc
    · simp only [hc] at heq
      have := congrArg (fun x => x.posts.length) heq
      simp [Ledger.move, Ledger.debit, Ledger.credit, Coins.neg] at this
  · intro heq
    rw [← h1] at heq
    by_cases hs : Gen.Mint.sendSspSkips sp'.ssp = true
    · simpa [Gen.Mint.sendSspSkips] using hs
    · simp only [hs] at heq
      have := congrArg (fun x => x.posts.length) heq
      simp [Ledger.move, Ledger.debit, Ledger.credit, Coins.neg] at this

/-- **C01.** The mint's BeginBlocker keeps "the balances add up to the recorded supply". -/
theorem beginBlock_inv (a : Accts) (bond : Denom) (l l' : Ledger) (minted : Int) (cp : Option Dec) (pool : Int) (sp : Split)
    (hi : l.Inv) (h : beginBlock a bond l minted cp pool = .ok (l', sp)) : l'.Inv := by
  obtain ⟨l3, l2, _, h2, h3, h4, _⟩ := beginBlock_shape a bond l l' minted cp pool sp h
  have i2 : l2.Inv := by rw [h2]; exact Ledger.inv_move _ _ _ _ (Ledger.inv_mint _ _ _ hi)
  have i3 : l3.Inv := by rcases h3 with h3 | h3 <;> rw [h3]; exact i2; exact Ledger.inv_move _ _ _ _ i2
  rcases h4 with h4 | h4 <;> rw [h4]; exact i3; exact Ledger.inv_move _ _ _ _ i3

/-- **The supply grows by exactly the provision**, in the bond denomination and in no other. -/
theorem beginBlock_supply (a : Accts) (bond : Denom) (l l' : Ledger) (minted : Int) (cp : Option Dec) (pool : Int) (sp : Split)
    (h : beginBlock a bond l minted cp pool = .ok (l', sp)) (d : Denom) :
    Coins.amountOf l'.supply d = Coins.amountOf l.supply d + (if bond == d then minted else 0) := by
  obtain ⟨l3, l2, _, h2, h3, h4, _⟩ := beginBlock_shape a bond l l' minted cp pool sp h
  have s2 : l2.supply = Coins.add l.supply [(bond, minted)] := by rw [h2]; rfl
  have s3 : l3.supply = l2.supply := by rcases h3 with h3 | h3 <;> rw [h3]; rfl
  have s4 : l'.supply = l3.supply := by rcases h4 with h4 | h4 <;> rw [h4]; rfl
  rw [s4, s3, s2]; simp

/-- **Everything minted is handed on**: the mint module account holds afterwards what it held before (given that the four module
    accounts are distinct addresses). The three recipients receive exactly their shares. -/
theorem beginBlock_deliveries (a : Accts) (bond : Denom) (l l' : Ledger) (minted : Int) (cp : Option Dec) (pool : Int) (sp : Split)
    (hd : a.mint ≠ a.feeCollector ∧ a.mint ≠ a.distr ∧ a.mint ≠ a.shield ∧ a.feeCollector ≠ a.distr ∧ a.feeCollector ≠ a.shield ∧ a.distr ≠ a.shield)
    (h : beginBlock a bond l minted cp pool = .ok (l', sp)) :
    l'.balOf a.mint bond = l.balOf a.mint bond ∧
    l'.balOf a.feeCollector bond = l.balOf a.feeCollector bond + sp.fees ∧
    l'.balOf a.distr bond = l.balOf a.distr bond + sp.cp ∧
    l'.balOf a.shield bond = l.balOf a.shield bond + sp.ssp ∧
    (∀ x d, x ≠ a.mint → x ≠ a.feeCollector → x ≠ a.distr → x ≠ a.shield → l'.balOf x d = l.balOf x d) := by
  obtain ⟨l3, l2, _, h2, h3, h4, z3, z4, hsum, _⟩ := beginBlock_shape a bond l l' minted cp pool sp h
  obtain ⟨d1, d2, d3, d4, d5, d6⟩ := hd
  have b2 : ∀ x d, l2.balOf x d = l.balOf x d + (if a.mint == x then Coins.amountOf [(bond, minted)] d else 0)
      - (if a.mint == x then Coins.amountOf [(bond, sp.fees)] d else 0) + (if a.feeCollector == x then Coins.amountOf [(bond, sp.fees)] d else 0) := by
    intro x d; rw [h2, Ledger.balOf_move]
    have : (l.mint a.mint [(bond, minted)]).balOf x d = (l.credit a.mint [(bond, minted)]).balOf x d := rfl
    rw [this, Ledger.balOf_credit]
  have b3 : ∀ x d, l3.balOf x d = l2.balOf x d - (if a.mint == x then Coins.amountOf [(bond, sp.cp)] d else 0)
      + (if a.distr == x then Coins.amountOf [(bond, sp.cp)] d else 0) := by
    intro x d
    rcases h3 with h3 | h3
    · have hz := z3 h3; rw [h3, hz]; simp
    · rw [h3, Ledger.balOf_move]
  have b4 : ∀ x d, l'.balOf x d = l3.balOf x d - (if a.mint == x then Coins.amountOf [(bond, sp.ssp)] d else 0)
      + (if a.shield == x then Coins.amountOf [(bond, sp.ssp)] d else 0) := by
    intro x d
    rcases h4 with h4 | h4
    · have hz := z4 h4; rw [h4, hz]; simp
    · rw [h4, Ledger.balOf_move]
  have ne : ∀ {x y : Addr}, x ≠ y → (x == y) = false := fun h => by simpa using h
  have e1 := ne d1; have e2 := ne d2; have e3 := ne d3; have e4 := ne d4; have e5 := ne d5; have e6 := ne d6
  have f1 := ne (Ne.symm d1); have f2 := ne (Ne.symm d2); have f3 := ne (Ne.symm d3)
  have f4 := ne (Ne.symm d4); have f5 := ne (Ne.symm d5); have f6 := ne (Ne.symm d6)
  refine ⟨?_, ?_, ?_, ?_, ?_⟩
  · rw [b4, b3, b2]; simp only [f1, f2, f3, beq_self_eq_true, if_true, Bool.false_eq_true, if_false, Coins.amountOf_cons, Coins.amountOf_nil]; omega
  · rw [b4, b3, b2]; simp only [e1, f4, f5, beq_self_eq_true, if_true, Bool.false_eq_true, if_false, Coins.amountOf_cons, Coins.amountOf_nil]; omega
  · rw [b4, b3, b2]; simp only [e2, e4, f6, beq_self_eq_true, if_true, Bool.false_eq_true, if_false, Coins.amountOf_cons, Coins.amountOf_nil]; omega
  · rw [b4, b3, b2]; simp only [e3, e5, e6, beq_self_eq_true, if_true, Bool.false_eq_true, if_false, Coins.amountOf_cons, Coins.amountOf_nil]; omega
  · intro x d hx1 hx2 hx3 hx4
    rw [b4, b3, b2]; simp only [ne (Ne.symm hx1), ne (Ne.symm hx2), ne (Ne.symm hx3), ne (Ne.symm hx4), Bool.false_eq_true, if_false]; omega

/-- the mint module account after the block holds what it held before -/
theorem beginBlock_mint_account (a : Accts) (bond : Denom) (l l' : Ledger) (minted : Int) (cp : Option Dec) (pool : Int) (sp : Split)
    (hd : a.mint ≠ a.feeCollector ∧ a.mint ≠ a.distr ∧ a.mint ≠ a.shield ∧ a.feeCollector ≠ a.distr ∧ a.feeCollector ≠ a.shield ∧ a.distr ≠ a.shield)
    (h : beginBlock a bond l minted cp pool = .ok (l', sp)) : l'.balOf a.mint bond = l.balOf a.mint bond :=
  (beginBlock_deliveries a bond l l' minted cp pool sp hd h).1

/-- the bond-denomination entry of the community pool, 18 digits (zero when there is none) -/
def cpRaw : Option Dec → Int
  | some c => c.raw
  | none => 0

/-- **The ratios add up to at most one** whenever the community pool and the stake-for-shield pool are coins inside the supply
    and at least one whole coin of the supply is held elsewhere (the bonded stake, for one). Together with
    `split_ok_of_ratios`: the mint's BeginBlocker cannot halt the chain. -/
theorem ratios_sum_le_one (supply pool : Int) (cp : Option Dec) (rc : Dec)
    (hS : 0 < supply) (hP : 0 ≤ pool) (hc : ∀ c, cp = some c → 0 ≤ c.raw)
    (hroom : cpRaw cp + pool * Dec.prec + Dec.prec ≤ supply * Dec.prec)
    (h : cpRatio cp supply = .ok rc) :
    0 ≤ rc.raw ∧ 0 ≤ (sspRatio pool supply).raw ∧ rc.raw + (sspRatio pool supply).raw ≤ Dec.prec := by
  have hp : (0 : Int) < Dec.prec := by decide
  have hb : 0 < (Dec.ofInt supply).raw := Int.mul_pos hS hp
  -- the shield ratio
  have h2 : 0 ≤ (sspRatio pool supply).raw ∧ 2 * (sspRatio pool supply).raw * (supply * Dec.prec) ≤ 2 * (pool * Dec.prec) * Dec.prec + supply * Dec.prec := by
    unfold sspRatio
    have hz : Gen.Mint.sspZeroGuard (Gen.Mint.supplyDecSsp supply) = false := by
      show Dec.isZero (Dec.ofInt supply) = false
      unfold Dec.isZero; simp; exact Int.ne_of_gt hb
    rw [hz]; simp only [Bool.false_eq_true, if_false]
    exact quo_bound (Dec.ofInt pool) (Dec.ofInt supply) (Int.mul_nonneg hP (Int.le_of_lt hp)) hb
  -- the community-pool ratio
  have h1 : 0 ≤ rc.raw ∧ 2 * rc.raw * (supply * Dec.prec) ≤ 2 * cpRaw cp * Dec.prec + supply * Dec.prec := by
    unfold cpRatio at h
    cases cp with
    | none =>
      injection h with h; subst h
      refine ⟨Int.le_refl _, ?_⟩
      show 2 * (0 : Int) * (supply * Dec.prec) ≤ 2 * cpRaw none * Dec.prec + supply * Dec.prec
      simp only [cpRaw]
      have := Int.le_of_lt hb; simp only [Dec.ofInt] at this; omega
    | some c =>
      simp only at h
      have hnz : ((Gen.Mint.supplyDecCp supply).raw == 0) = false := by
        show ((Dec.ofInt supply).raw == 0) = false
        simp; exact Int.ne_of_gt hb
      rw [hnz] at h; simp only [Bool.false_eq_true, if_false] at h
      injection h with h; subst h
      exact quo_bound c (Dec.ofInt supply) (hc c rfl) hb
  refine ⟨h1.1, h2.1, ?_⟩
  generalize (sspRatio pool supply).raw = r2 at h2
  generalize rc.raw = r1 at h1
  generalize cpRaw cp = c at h1 hroom
  -- 2 (r1 + r2) S p ≤ 2 p (c + P p + S)
  have hsum : (r1 + r2) * supply * Dec.prec ≤ (c + pool * Dec.prec + supply) * Dec.prec := by
    have a1 : 2 * r1 * (supply * Dec.prec) = 2 * (r1 * supply * Dec.prec) := by rw [Int.mul_assoc 2, Int.mul_assoc r1]
    have a2 : 2 * r2 * (supply * Dec.prec) = 2 * (r2 * supply * Dec.prec) := by rw [Int.mul_assoc 2, Int.mul_assoc r2]
    have a3 : (r1 + r2) * supply * Dec.prec = r1 * supply * Dec.prec + r2 * supply * Dec.prec := by rw [Int.add_mul, Int.add_mul]
    have a4 : (c + pool * Dec.prec + supply) * Dec.prec = c * Dec.prec + pool * Dec.prec * Dec.prec + supply * Dec.prec := by
      rw [Int.add_mul, Int.add_mul]
    have a5 : 2 * c * Dec.prec = 2 * (c * Dec.prec) := Int.mul_assoc _ _ _
    have a6 : 2 * (pool * Dec.prec) * Dec.prec = 2 * (pool * Dec.prec * Dec.prec) := Int.mul_assoc _ _ _
    rw [a3, a4]
    have h1' := h1.2; have h2' := h2.2
    rw [a1, a5] at h1'; rw [a2, a6] at h2'
    omega
  have hS' : (r1 + r2) * supply ≤ c + pool * Dec.prec + supply := Int.le_of_mul_le_mul_right hsum hp
  -- were the sum above one, (p + 1) S ≤ (r1 + r2) S ≤ S p - p + S
  by_cases hgt : r1 + r2 ≤ Dec.prec
  · exact hgt
  · exfalso
    have hge : Dec.prec + 1 ≤ r1 + r2 := by omega
    have hm : (Dec.prec + 1) * supply ≤ (r1 + r2) * supply := Int.mul_le_mul_of_nonneg_right hge (Int.le_of_lt hS)
    have e : (Dec.prec + 1) * supply = supply * Dec.prec + supply := by rw [Int.add_mul, Int.mul_comm, Int.one_mul]
    rw [e] at hm
    omega

/-- **C08 for the mint.** With a non-negative provision, pools that are coins inside the supply and one whole coin held
    elsewhere, the split of the provision succeeds. -/
theorem split_never_halts (minted supply pool : Int) (cp : Option Dec) (rc : Dec)
    (hm : 0 ≤ minted) (hS : 0 < supply) (hP : 0 ≤ pool) (hc : ∀ c, cp = some c → 0 ≤ c.raw)
    (hroom : cpRaw cp + pool * Dec.prec + Dec.prec ≤ supply * Dec.prec)
    (h : cpRatio cp supply = .ok rc) : ∃ sp, split minted rc (sspRatio pool supply) = .ok sp := by
  obtain ⟨h1, h2, h3⟩ := ratios_sum_le_one supply pool cp rc hS hP hc hroom h
  exact split_ok_of_ratios minted rc _ hm h1 h2 h3

/-- and the ratio itself is always computed when the supply is positive -/
theorem cpRatio_ok (supply : Int) (cp : Option Dec) (hS : 0 < supply) : ∃ rc, cpRatio cp supply = .ok rc := by
  unfold cpRatio
  cases cp with
  | none => exact ⟨_, rfl⟩
  | some c =>
    have hnz : ((Gen.Mint.supplyDecCp supply).raw == 0) = false := by
      show ((Dec.ofInt supply).raw == 0) = false
      have : (0 : Int) < supply * Dec.prec := Int.mul_pos hS (by decide)
      have hne : (Dec.ofInt supply).raw ≠ 0 := Int.ne_of_gt this
      simpa using hne
    simp only [hnz, Bool.false_eq_true, if_false]; exact ⟨_, rfl⟩

/-- non-vacuity: community pool 1,250,000.5 and stake-for-shield pool 3,333,333 in a supply of 9,999,000 -/
example : (1250000500000000000000000 : Int) + 3333333 * Dec.prec + Dec.prec ≤ 9999000 * Dec.prec := by decide


/-! non-vacuity: a provision of 1,000,003 with a community pool of 12.5 % and a shield pool of 1/3 of the supply -/
def exAccts : Accts := ⟨"mint", "fees", "distr", "shield"⟩
def exLedger : Ledger := { posts := [("alice", "uctk", 7999000), ("distr", "uctk", 1000000)], supply := [("uctk", 8999000)] }
example : (match beginBlock exAccts "uctk" exLedger 1000000 (some ⟨1250000000000000000000000⟩) 3333333 with
    | .ok (l, sp) => sp == ⟨541622, 125012, 333366⟩ && l.invB | .error _ => false) = true := by decide
example : ∃ sp, split 1000003 ⟨125000000000000000⟩ ⟨333333333333333333⟩ = .ok sp := ⟨_, rfl⟩
example : exLedger.invB = true := by decide
/-- ratios above one: the split panics (what a community pool larger than the supply would do) -/
example : (match split 1000 ⟨600000000000000000⟩ ⟨600000000000000000⟩ with | .error _ => true | .ok _ => false) = true := by decide

end Shentu.Props.C01m

#print axioms Shentu.Props.C01m.tie_sites
#print axioms Shentu.Props.C01m.tie_composition
#print axioms Shentu.Props.C01m.tie_order
#print axioms Shentu.Props.C01m.tie_destinations
#print axioms Shentu.Props.C01m.split_exact
#print axioms Shentu.Props.C01m.split_panics_iff
#print axioms Shentu.Props.C01m.split_ok_of_ratios
#print axioms Shentu.Props.C01m.beginBlock_inv
#print axioms Shentu.Props.C01m.beginBlock_supply
#print axioms Shentu.Props.C01m.beginBlock_deliveries
#print axioms Shentu.Props.C01m.beginBlock_mint_account
#print axioms Shentu.Props.C01m.ratios_sum_le_one
#print axioms Shentu.Props.C01m.split_never_halts
#print axioms Shentu.Props.C01m.cpRatio_ok
