import Shentu.Model.GenesisCert
import Shentu.Proofs.C20GCertLemmas
/-!
  C20 for x/cert: export the state, import it in a fresh chain, and the chain is observably the same.

  The model of the genesis functions is `Shentu/Model/GenesisCert.lean`.  `exportGenesis` copies the
  certifier list, the platform list, the certificate list and the certificate counter; the alias index is
  not exported.  `initGenesis` follows the Go `InitGenesis` in its order: every certifier by `SetCertifier`
  (an overwrite-or-append by address, and by alias when the alias is not empty), then, if there is a
  certifier, every platform by the model's own `certifyPlatform` signed by the first certifier with the
  error ignored, then every certificate by an overwrite-or-append by identifier, then the counter.
  Libraries are not in the model.

  The invariant is `WFG s := C13H.WF s ∧ PlatNodup s`.  `C13H.WF` is the invariant of C13 over histories.
  `PlatNodup` is new: the platform keys are pairwise distinct.  It holds at every `C13H.genesis` state
  and every step keeps it, so `WFG` holds after every history from a well-formed genesis.

  What is proved, for ALL states with `WFG` (no bound on sizes):

  * G1 `reimport_same`: import after export gives back the very same state, alias index included.
    `reimport_same_sharp` lists the clauses that are really used.  Each of them is needed: a kernel-checked
    counterexample is kept for each (`reimport_same_fails_*`).  The clause `below` of `WF` is not used.
  * G2 `reexport_same`: exporting the re-imported state gives the same genesis file.
    `export_of_import`: on every genesis file with distinct keys, import then export is the identity.
  * G3 `continuation_same`, `continuation_same_outcomes`: the same further operations lead both chains to
    the same states, and each operation is accepted in one iff it is accepted in the other.
    `continuation_after_history`: this holds for the state reached by any history from a well-formed genesis.
  * G4 `invariant_reimported`: the re-imported state satisfies `WFG`.
    `import_establishes_invariant`: the import of ANY genesis file with a certifier, distinct addresses,
    distinct non-empty aliases, distinct identifiers below the counter and distinct platform keys satisfies
    `WFG`; in particular the rebuilt alias index is the one the certifier list determines.
    `import_invariant_fails_duplicate_address`: without distinct addresses the imported state has a stale alias.

  What is assumed: nothing beyond the hypotheses written in each theorem.  The model keeps every store as a
  list in insertion order; the Go stores iterate in key order.  That difference is the business of the
  differential check, not of these theorems.
-/
namespace Shentu.Props.C20GCert
open Shentu Shentu.Cert Shentu.C13H Shentu.Genesis.Cert Shentu.C20GCertH

/-! ### 0. The invariant -/

/-- At a genesis state of C13 there is no platform, so the platform keys are distinct. -/
theorem platNodup_at_genesis (cs : List Certifier) (certs : List Certificate) (nextId : Nat) :
    PlatNodup (genesis cs certs nextId) := platNodup_genesis cs certs nextId

/-- Every step keeps the platform keys distinct, whether the operation is accepted or refused.
    A platform certification removes the old entry of the key before it appends the new one. -/
theorem platNodup_step (s : State) (o : Op) (hp : PlatNodup s) : PlatNodup (step s o) := step_platNodup o hp

/-- Every step keeps the whole invariant. -/
theorem wfg_step (s : State) (o : Op) (h : WFG s) : WFG (step s o) := step_wfg o h

/-- The invariant holds after every history that starts in a state where it holds. -/
theorem wfg_history (s : State) (ops : List Op) (h : WFG s) : WFG (run s ops) := run_wfg ops h

/-- A genesis with at least one certifier, distinct addresses, distinct non-empty aliases and distinct
    certificate identifiers below the counter satisfies the invariant, and so does every state reached from it. -/
theorem wfg_from_genesis (cs : List Certifier) (certs : List Certificate) (nextId : Nat)
    (h1 : cs ≠ []) (h2 : (cs.map (·.addr)).Nodup) (h3 : (aliasesOf cs).Nodup)
    (h4 : (certs.map (·.id)).Nodup) (h5 : ∀ c ∈ certs, c.id < nextId) (ops : List Op) :
    WFG (run (genesis cs certs nextId) ops) :=
  run_wfg ops ⟨genesis_wf cs certs nextId h1 h2 h3 h4 h5, platNodup_genesis cs certs nextId⟩

/-! ### G1. Import after export is the identity -/

/-- The clauses that the round trip uses.  Certifier addresses are distinct.  Non-empty aliases are distinct.
    The alias index is the one the certifier list determines.  Certificate identifiers are distinct.
    Platform keys are distinct.  If there is a platform, there is a certifier to sign its import.
    Then import after export gives back the same state.  The bound of identifiers by the counter is not used. -/
theorem reimport_same_sharp (s : State) (haddr : (s.certifiers.map (·.addr)).Nodup)
    (hal : (aliasesOf s.certifiers).Nodup) (hidx : s.aliasIdx = aliasIndexOf s.certifiers)
    (hids : (s.certs.map (·.id)).Nodup) (hpl : PlatNodup s) (hne : s.certifiers ≠ [] ∨ s.platforms = []) :
    initGenesis (exportGenesis s) = s := by
  rw [initGenesis_eq (exportGenesis s) haddr hal hids hpl hne]
  cases s
  simp only [exportGenesis] at hidx ⊢
  rw [hidx]

/-- Under the invariant, import after export gives back the very same state: the same council in the same
    order, the same alias index, the same certificates, the same counter, the same platforms. -/
theorem reimport_same (s : State) (h : WFG s) : initGenesis (exportGenesis s) = s :=
  reimport_same_sharp s h.1.addrs h.1.aliases h.1.index h.1.ids h.2 (Or.inl h.1.nonempty)


/-! ### G1, continued: every clause is needed -/

namespace Witness

/-- no certifier, one platform; every other clause holds -/
def noCouncil : State := { certifiers := [], aliasIdx := [], certs := [], nextId := 1, platforms := [("pk", "aws")] }
/-- one certifier known as "alice"; the alias index has a second, stale entry -/
def staleIndex : State :=
  { certifiers := [⟨"a", "alice", "a"⟩], aliasIdx := [("alice", "a"), ("ghost", "z")], certs := [], nextId := 1, platforms := [] }
/-- one certifier known as "alice"; the alias index misses the entry -/
def missingIndex : State :=
  { certifiers := [⟨"a", "alice", "a"⟩], aliasIdx := [], certs := [], nextId := 1, platforms := [] }
/-- the address `a` twice, under two aliases -/
def twiceAddr : State :=
  { certifiers := [⟨"a", "alice", "a"⟩, ⟨"a", "alicia", "a"⟩], aliasIdx := [("alice", "a"), ("alicia", "a")],
    certs := [], nextId := 1, platforms := [] }
/-- two certifiers share the alias "team" -/
def sharedAlias : State :=
  { certifiers := [⟨"a", "team", "a"⟩, ⟨"b", "team", "a"⟩], aliasIdx := [("team", "a"), ("team", "b")],
    certs := [], nextId := 1, platforms := [] }
/-- the certificate identifier 1 twice -/
def twiceId : State :=
  { certifiers := [⟨"a", "", "a"⟩], aliasIdx := [], certs := [⟨1, "audit", "x", "a"⟩, ⟨1, "audit", "y", "a"⟩], nextId := 2, platforms := [] }
/-- the platform key "pk" twice -/
def twiceKey : State :=
  { certifiers := [⟨"a", "", "a"⟩], aliasIdx := [], certs := [], nextId := 1, platforms := [("pk", "aws"), ("pk2", "sgx"), ("pk", "gcp")] }

end Witness

/-- WITHOUT a certifier the round trip is FALSE when there is a platform: the import drops every platform.
    All other clauses hold in the counterexample.
    The Go code behaves the same: `InitGenesis` imports the platforms only `if len(certifiers) > 0`, and
    `CertifyPlatform` would refuse the signer anyway.  No history reaches such a state: the last certifier
    cannot be removed. -/
theorem reimport_same_fails_empty_council :
    ¬ ∀ s : State, (s.certifiers.map (·.addr)).Nodup → (aliasesOf s.certifiers).Nodup → s.aliasIdx = aliasIndexOf s.certifiers →
      (s.certs.map (·.id)).Nodup → (∀ c ∈ s.certs, c.id < s.nextId) → PlatNodup s → initGenesis (exportGenesis s) = s := by
  intro h
  have e := h Witness.noCouncil (by decide) (by decide) (by decide) (by decide) (by decide) (by decide)
  exact absurd (congrArg State.platforms e) (by decide)

/-- what the import makes of the counterexample: the platform is gone -/
theorem reimport_empty_council_drops_platforms :
    (initGenesis (exportGenesis Witness.noCouncil)).platforms = [] ∧ Witness.noCouncil.platforms = [("pk", "aws")] := by decide

/-- WITHOUT the index clause the round trip is FALSE: a stale entry of the alias index is not exported, so
    the import does not bring it back.  All other clauses hold in the counterexample.
    The Go code behaves the same: `ExportGenesis` does not read the alias store, and `InitGenesis` writes
    it only through `SetCertifier`.  No history reaches such a state (C13: the index matches the council). -/
theorem reimport_same_fails_stale_alias_index :
    ¬ ∀ s : State, s.certifiers ≠ [] → (s.certifiers.map (·.addr)).Nodup → (aliasesOf s.certifiers).Nodup →
      (s.certs.map (·.id)).Nodup → (∀ c ∈ s.certs, c.id < s.nextId) → PlatNodup s → initGenesis (exportGenesis s) = s := by
  intro h
  have e := h Witness.staleIndex (by decide) (by decide) (by decide) (by decide) (by decide) (by decide)
  exact absurd (congrArg State.aliasIdx e) (by decide)

/-- The same in the other direction: an entry that the alias index misses is there after the import.
    The Go code behaves the same, for the same reason. -/
theorem reimport_same_fails_missing_alias_index :
    ¬ ∀ s : State, s.certifiers ≠ [] → (s.certifiers.map (·.addr)).Nodup → (aliasesOf s.certifiers).Nodup →
      (s.certs.map (·.id)).Nodup → (∀ c ∈ s.certs, c.id < s.nextId) → PlatNodup s → initGenesis (exportGenesis s) = s := by
  intro h
  have e := h Witness.missingIndex (by decide) (by decide) (by decide) (by decide) (by decide) (by decide)
  exact absurd (congrArg State.aliasIdx e) (by decide)

/-- what the import makes of the two counterexamples: the index of the council, no more and no less -/
theorem reimport_rebuilds_alias_index :
    (initGenesis (exportGenesis Witness.staleIndex)).aliasIdx = [("alice", "a")] ∧
    (initGenesis (exportGenesis Witness.missingIndex)).aliasIdx = [("alice", "a")] := by decide

/-- WITHOUT distinct addresses the round trip is FALSE: the second record of an address overwrites the first.
    All other clauses hold in the counterexample.
    The Go certifier store is keyed by address, so it cannot hold such a list and an export never shows one.
    A genesis file written by hand can; `SetCertifier` then overwrites by `store.Set`, as the model does. -/
theorem reimport_same_fails_duplicate_address :
    ¬ ∀ s : State, s.certifiers ≠ [] → (aliasesOf s.certifiers).Nodup → s.aliasIdx = aliasIndexOf s.certifiers →
      (s.certs.map (·.id)).Nodup → (∀ c ∈ s.certs, c.id < s.nextId) → PlatNodup s → initGenesis (exportGenesis s) = s := by
  intro h
  have e := h Witness.twiceAddr (by decide) (by decide) (by decide) (by decide) (by decide) (by decide)
  exact absurd (congrArg State.certifiers e) (by decide)

/-- WITHOUT distinct non-empty aliases the round trip is FALSE: the alias store has one entry per alias, and
    the import leaves it pointing at the last certifier of the file that carries the alias.
    All other clauses hold in the counterexample.
    The Go code behaves the same: `SetCertifier` writes the alias key by `store.Set`, an overwrite.
    No history reaches such a state: a used alias is refused ("cert:repeated-alias"). -/
theorem reimport_same_fails_shared_alias :
    ¬ ∀ s : State, s.certifiers ≠ [] → (s.certifiers.map (·.addr)).Nodup → s.aliasIdx = aliasIndexOf s.certifiers →
      (s.certs.map (·.id)).Nodup → (∀ c ∈ s.certs, c.id < s.nextId) → PlatNodup s → initGenesis (exportGenesis s) = s := by
  intro h
  have e := h Witness.sharedAlias (by decide) (by decide) (by decide) (by decide) (by decide) (by decide)
  exact absurd (congrArg State.aliasIdx e) (by decide)

/-- what the import makes of that counterexample: one entry, for the later certifier -/
theorem reimport_shared_alias_last_wins :
    (initGenesis (exportGenesis Witness.sharedAlias)).aliasIdx = [("team", "b")] := by decide

/-- WITHOUT distinct certificate identifiers the round trip is FALSE: the later certificate overwrites the earlier.
    All other clauses hold in the counterexample (the bound by the counter too).
    The Go certificate store is keyed by identifier, so an export never shows such a list; for a file written
    by hand `SetCertificate` overwrites by `store.Set`, as the model does. -/
theorem reimport_same_fails_duplicate_id :
    ¬ ∀ s : State, s.certifiers ≠ [] → (s.certifiers.map (·.addr)).Nodup → (aliasesOf s.certifiers).Nodup →
      s.aliasIdx = aliasIndexOf s.certifiers → (∀ c ∈ s.certs, c.id < s.nextId) → PlatNodup s → initGenesis (exportGenesis s) = s := by
  intro h
  have e := h Witness.twiceId (by decide) (by decide) (by decide) (by decide) (by decide) (by decide)
  exact absurd (congrArg State.certs e) (by decide)

/-- WITHOUT distinct platform keys the round trip is FALSE: the later description replaces the earlier one.
    All clauses of `C13H.WF` hold in the counterexample; only the new clause `PlatNodup` is missing.
    The Go platform store is keyed by public key, so an export never shows such a list; for a file written
    by hand `CertifyPlatform` overwrites by `store.Set`, as the model does. -/
theorem reimport_same_fails_duplicate_platform_key :
    ¬ ∀ s : State, WF s → initGenesis (exportGenesis s) = s := by
  intro h
  have e := h Witness.twiceKey ⟨by decide, by decide, by decide, by decide, by decide, by decide⟩
  exact absurd (congrArg State.platforms e) (by decide)

/-- what the import makes of that counterexample -/
theorem reimport_duplicate_platform_key_last_wins :
    (initGenesis (exportGenesis Witness.twiceKey)).platforms = [("pk2", "sgx"), ("pk", "gcp")] := by decide

/-! ### G2. Export after import -/

/-- On every genesis file with distinct addresses, distinct non-empty aliases, distinct identifiers, distinct
    platform keys, and a certifier if there is a platform, import then export gives back the file. -/
theorem export_of_import (g : Genesis) (haddr : (g.certifiers.map (·.addr)).Nodup) (hal : (aliasesOf g.certifiers).Nodup)
    (hids : (g.certificates.map (·.id)).Nodup) (hpl : (g.platforms.map (·.1)).Nodup)
    (hne : g.certifiers ≠ [] ∨ g.platforms = []) : exportGenesis (initGenesis g) = g := by
  rw [initGenesis_eq g haddr hal hids hpl hne]; rfl

/-- Under the invariant, the export of the re-imported state is the export of the state: the same file. -/
theorem reexport_same (s : State) (h : WFG s) : exportGenesis (initGenesis (exportGenesis s)) = exportGenesis s := by
  rw [reimport_same s h]

/-- The second export does not need the index clause: the alias index is not exported. -/
theorem reexport_same_sharp (s : State) (haddr : (s.certifiers.map (·.addr)).Nodup) (hal : (aliasesOf s.certifiers).Nodup)
    (hids : (s.certs.map (·.id)).Nodup) (hpl : PlatNodup s) (hne : s.certifiers ≠ [] ∨ s.platforms = []) :
    exportGenesis (initGenesis (exportGenesis s)) = exportGenesis s :=
  export_of_import (exportGenesis s) haddr hal hids hpl hne

/-! ### G3. The same further operations, the same states and outcomes -/

/-- Under the invariant, the original chain and the re-imported chain reach the same state after every list
    of further operations. -/
theorem continuation_same (s : State) (h : WFG s) (ops : List Op) :
    run (initGenesis (exportGenesis s)) ops = run s ops := by rw [reimport_same s h]

/-- Under the invariant, every further operation is accepted on the re-imported chain iff it is accepted on
    the original chain.  The ghost logs of the two runs are equal line by line. -/
theorem continuation_same_outcomes (s : State) (h : WFG s) (ops : List Op) :
    outcomes (initGenesis (exportGenesis s)) ops = outcomes s ops ∧
    glog (initGenesis (exportGenesis s)) ops = glog s ops := by rw [reimport_same s h]; exact ⟨rfl, rfl⟩

/-- `outcomes` is the accepted/refused column of the ghost log of C13. -/
theorem outcomes_are_log_results (s : State) (ops : List Op) : outcomes s ops = (glog s ops).map (·.ok) :=
  outcomes_eq_glog s ops

/-- Export and import at ANY moment.  Start from a well-formed genesis, run any history `h`, export, import in a
    fresh chain, run any further operations there.  The state is the one the original chain reaches by `h ++ ops`,
    the outcomes of the further operations are equal, and the invariant holds all along. -/
theorem continuation_after_history (cs : List Certifier) (certs : List Certificate) (nextId : Nat)
    (h1 : cs ≠ []) (h2 : (cs.map (·.addr)).Nodup) (h3 : (aliasesOf cs).Nodup)
    (h4 : (certs.map (·.id)).Nodup) (h5 : ∀ c ∈ certs, c.id < nextId) (h ops : List Op) :
    run (initGenesis (exportGenesis (run (genesis cs certs nextId) h))) ops = run (genesis cs certs nextId) (h ++ ops) ∧
    outcomes (initGenesis (exportGenesis (run (genesis cs certs nextId) h))) ops = outcomes (run (genesis cs certs nextId) h) ops ∧
    WFG (run (initGenesis (exportGenesis (run (genesis cs certs nextId) h))) ops) := by
  have hw := wfg_from_genesis cs certs nextId h1 h2 h3 h4 h5 h
  rw [reimport_same _ hw, run_append]
  exact ⟨rfl, rfl, run_wfg ops hw⟩

/-- Export and import may be repeated: after any number of histories, each followed by an export and an import,
    the chain is where the original chain is after the histories one after the other. -/
theorem continuation_many_restarts (s : State) (h : WFG s) (hs : List (List Op)) :
    hs.foldl (fun st ops => initGenesis (exportGenesis (run st ops))) s = run s hs.flatten := by
  induction hs generalizing s with
  | nil => rfl
  | cons x xs ih =>
    rw [List.foldl_cons, reimport_same _ (run_wfg x h), ih _ (run_wfg x h), List.flatten_cons, run_append]

/-! ### G4. The invariant on the imported state -/

/-- Under the invariant, the re-imported state satisfies the invariant. -/
theorem invariant_reimported (s : State) (h : WFG s) : WFG (initGenesis (exportGenesis s)) := by
  rw [reimport_same s h]; exact h

/-- The import itself establishes the invariant.  Take ANY genesis file with at least one certifier, distinct
    addresses, distinct non-empty aliases, distinct certificate identifiers below the counter and distinct
    platform keys.  The imported state satisfies `WFG`.  The alias index rebuilt entry by entry is exactly the
    index that the certifier list determines.  The state is the genesis state of C13 with the platforms of the file. -/
theorem import_establishes_invariant (g : Genesis) (hne : g.certifiers ≠ []) (haddr : (g.certifiers.map (·.addr)).Nodup)
    (hal : (aliasesOf g.certifiers).Nodup) (hids : (g.certificates.map (·.id)).Nodup)
    (hbelow : ∀ c ∈ g.certificates, c.id < g.nextCertificateId) (hpl : (g.platforms.map (·.1)).Nodup) :
    WFG (initGenesis g) ∧ (initGenesis g).aliasIdx = aliasIndexOf g.certifiers ∧
    initGenesis g = { genesis g.certifiers g.certificates g.nextCertificateId with platforms := g.platforms } := by
  rw [initGenesis_eq g haddr hal hids hpl (Or.inl hne)]
  exact ⟨⟨⟨hne, haddr, hal, rfl, hids, hbelow⟩, hpl⟩, rfl, rfl⟩

/-- The genesis state that C13 starts from is what `InitGenesis` builds from a file without platforms. -/
theorem import_is_c13_genesis (cs : List Certifier) (certs : List Certificate) (nextId : Nat)
    (h2 : (cs.map (·.addr)).Nodup) (h3 : (aliasesOf cs).Nodup) (h4 : (certs.map (·.id)).Nodup) :
    initGenesis { certifiers := cs, platforms := [], certificates := certs, nextCertificateId := nextId } = genesis cs certs nextId := by
  rw [initGenesis_eq _ h2 h3 h4 (by simp) (Or.inr rfl)]; rfl

/-- WITHOUT distinct addresses the import does NOT establish the invariant: the second record of the address
    replaces the first in the certifier list, and the alias of the first stays in the alias index, pointing at
    a certifier that no longer carries it.  All other hypotheses hold for this file.
    The Go code behaves the same on such a file: `SetCertifier` overwrites the certifier key and never deletes
    an alias key, and `ValidateGenesis` of x/cert checks nothing (`return nil`). -/
theorem import_invariant_fails_duplicate_address :
    ¬ ∀ g : Genesis, g.certifiers ≠ [] → (aliasesOf g.certifiers).Nodup → (g.certificates.map (·.id)).Nodup →
      (∀ c ∈ g.certificates, c.id < g.nextCertificateId) → (g.platforms.map (·.1)).Nodup → WFG (initGenesis g) := by
  intro h
  have e := h (exportGenesis Witness.twiceAddr) (by decide) (by decide) (by decide) (by decide) (by decide)
  exact absurd e.1.index (by decide)

/-- what the import makes of that file: one certifier, two alias entries -/
theorem import_duplicate_address_stale_alias :
    (initGenesis (exportGenesis Witness.twiceAddr)).certifiers = [⟨"a", "alicia", "a"⟩] ∧
    (initGenesis (exportGenesis Witness.twiceAddr)).aliasIdx = [("alice", "a"), ("alicia", "a")] ∧
    hasAlias (initGenesis (exportGenesis Witness.twiceAddr)) "alice" = true := by decide

/-! ### The hypotheses can be met -/

namespace Demo

/-- three certifiers, two with an alias and one without; two certificates; two platforms -/
def demo : State :=
  { certifiers := [⟨"a", "alice", "a"⟩, ⟨"b", "", "a"⟩, ⟨"c", "carol", "b"⟩]
    aliasIdx := [("alice", "a"), ("carol", "c")]
    certs := [⟨1, "audit", "0xc0de", "a"⟩, ⟨3, "proof", "0xbeef", "c"⟩]
    nextId := 4
    platforms := [("pk1", "aws"), ("pk2", "sgx")] }

theorem demo_wfg : WFG demo := ⟨⟨by decide, by decide, by decide, by decide, by decide, by decide⟩, by decide⟩

/-- the hypotheses of `reimport_same`, `reexport_same`, `continuation_same`, `invariant_reimported` are met -/
example : WFG demo := demo_wfg
example : initGenesis (exportGenesis demo) = demo := reimport_same demo demo_wfg
/-- the same by computation, field by field -/
example : (initGenesis (exportGenesis demo)).certifiers = demo.certifiers ∧
    (initGenesis (exportGenesis demo)).aliasIdx = [("alice", "a"), ("carol", "c")] ∧
    (initGenesis (exportGenesis demo)).certs = demo.certs ∧
    (initGenesis (exportGenesis demo)).nextId = 4 ∧
    (initGenesis (exportGenesis demo)).platforms = [("pk1", "aws"), ("pk2", "sgx")] := by decide
example : exportGenesis (initGenesis (exportGenesis demo)) = exportGenesis demo := by decide

/-- the hypotheses of `export_of_import` and `import_establishes_invariant` are met by the exported file -/
example : (exportGenesis demo).certifiers ≠ [] ∧ ((exportGenesis demo).certifiers.map (·.addr)).Nodup ∧
    (aliasesOf (exportGenesis demo).certifiers).Nodup ∧ ((exportGenesis demo).certificates.map (·.id)).Nodup ∧
    (∀ c ∈ (exportGenesis demo).certificates, c.id < (exportGenesis demo).nextCertificateId) ∧
    ((exportGenesis demo).platforms.map (·.1)).Nodup := by decide

/-- further operations: remove `a`; `a` tries to issue and is refused; `c` issues; `b` certifies "pk1" again;
    a stranger tries to certify a platform; adding `d` under the used alias "carol" is refused -/
def further : List Op :=
  [.govUpdate "a" "" "c" false, .issue "a" "audit" "x", .issue "c" "audit" "y", .certifyPlatform "b" "pk1" "gcp",
   .certifyPlatform "z" "pk9" "no", .govUpdate "d" "carol" "b" true]

example : outcomes (initGenesis (exportGenesis demo)) further = [true, false, true, true, false, false] := by decide
example : outcomes demo further = [true, false, true, true, false, false] := by decide
example : (run (initGenesis (exportGenesis demo)) further).platforms = [("pk2", "sgx"), ("pk1", "gcp")] := by decide
example : (run (initGenesis (exportGenesis demo)) further).aliasIdx = [("carol", "c")] := by decide

/-- a history from a one-certifier genesis that reaches a state of the same shape -/
def g0 : State := genesis [⟨"a", "alice", "a"⟩] [] 1
def history : List Op :=
  [.govUpdate "b" "" "a" true, .govUpdate "c" "carol" "b" true, .issue "a" "audit" "0xc0de", .issue "b" "audit" "0xdead",
   .revoke "c" 2, .issue "c" "proof" "0xbeef", .certifyPlatform "a" "pk1" "aws", .certifyPlatform "b" "pk2" "sgx",
   .certifyPlatform "c" "pk1" "gcp"]

/-- the hypotheses of `wfg_from_genesis` and `continuation_after_history` are met -/
example : WFG (run g0 history) := wfg_from_genesis _ _ _ (by decide) (by decide) (by decide) (by decide) (by simp) history
example : (run g0 history).platforms = [("pk2", "sgx"), ("pk1", "gcp")] := by decide
example : (run g0 history).certs = [⟨1, "audit", "0xc0de", "a"⟩, ⟨3, "proof", "0xbeef", "c"⟩] := by decide
example : (initGenesis (exportGenesis (run g0 history))).aliasIdx = [("alice", "a"), ("carol", "c")] := by decide
example : (run (initGenesis (exportGenesis (run g0 history))) further).certs =
    [⟨1, "audit", "0xc0de", "a"⟩, ⟨3, "proof", "0xbeef", "c"⟩, ⟨4, "audit", "y", "c"⟩] := by decide

/-- two restarts in a row -/
example : (([history, further].foldl (fun st ops => initGenesis (exportGenesis (run st ops))) g0)).certifiers =
    [⟨"b", "", "a"⟩, ⟨"c", "carol", "b"⟩] := by decide

end Demo

end Shentu.Props.C20GCert

#print axioms Shentu.Props.C20GCert.platNodup_at_genesis
#print axioms Shentu.Props.C20GCert.platNodup_step
#print axioms Shentu.Props.C20GCert.wfg_step
#print axioms Shentu.Props.C20GCert.wfg_history
#print axioms Shentu.Props.C20GCert.wfg_from_genesis
#print axioms Shentu.Props.C20GCert.reimport_same_sharp
#print axioms Shentu.Props.C20GCert.reimport_same
#print axioms Shentu.Props.C20GCert.reimport_same_fails_empty_council
#print axioms Shentu.Props.C20GCert.reimport_empty_council_drops_platforms
#print axioms Shentu.Props.C20GCert.reimport_same_fails_stale_alias_index
#print axioms Shentu.Props.C20GCert.reimport_same_fails_missing_alias_index
#print axioms Shentu.Props.C20GCert.reimport_rebuilds_alias_index
#print axioms Shentu.Props.C20GCert.reimport_same_fails_duplicate_address
#print axioms Shentu.Props.C20GCert.reimport_same_fails_shared_alias
#print axioms Shentu.Props.C20GCert.reimport_shared_alias_last_wins
#print axioms Shentu.Props.C20GCert.reimport_same_fails_duplicate_id
#print axioms Shentu.Props.C20GCert.reimport_same_fails_duplicate_platform_key
#print axioms Shentu.Props.C20GCert.reimport_duplicate_platform_key_last_wins
#print axioms Shentu.Props.C20GCert.export_of_import
#print axioms Shentu.Props.C20GCert.reexport_same
#print axioms Shentu.Props.C20GCert.reexport_same_sharp
#print axioms Shentu.Props.C20GCert.continuation_same
#print axioms Shentu.Props.C20GCert.continuation_same_outcomes
#print axioms Shentu.Props.C20GCert.outcomes_are_log_results
#print axioms Shentu.Props.C20GCert.continuation_after_history
#print axioms Shentu.Props.C20GCert.continuation_many_restarts
#print axioms Shentu.Props.C20GCert.invariant_reimported
#print axioms Shentu.Props.C20GCert.import_establishes_invariant
#print axioms Shentu.Props.C20GCert.import_is_c13_genesis
#print axioms Shentu.Props.C20GCert.import_invariant_fails_duplicate_address
#print axioms Shentu.Props.C20GCert.import_duplicate_address_stale_alias
#print axioms Shentu.Props.C20GCert.Demo.demo_wfg
