import Shentu.Model.Gov
import Shentu.Gen.Determinism
/-
  C10 — Execution is deterministic and independent of node restarts.

  What a proof can carry here (the rest — Go's runtime, the databases — is exhibited by the differential part of the check, which
  runs a second instance and a restarted goleveldb instance on the same blocks and compares application hashes and results):
  * `no_unreviewed_sites`: the inventory, regenerated from the current source on every run, of every construct through which
    two executions of the same Go code can differ (iteration over a map, wall clock, random numbers, goroutines, select,
    floating point) in the consensus code of the repository contains no site without a recorded justification;
  * `tally_order_independent`: the one map iteration that feeds consensus state (governance's tally over the validators) computes
    the same result for every order of iteration;
  * `restart_invisible`: a node whose in-memory state is a function of its committed state answers every block sequence in the
    same way whether or not it is stopped and restarted between blocks (the hypothesis is the thing the restart runs validate).
-/
namespace Shentu.Props.C10
open Shentu

theorem no_unreviewed_sites : Gen.Determinism.unreviewed = [] ∧ Gen.Determinism.allFound = true := by decide
theorem scanned_something : Gen.Determinism.filesScanned > 50 ∧ Gen.Determinism.sites.length ≥ 1 := by decide

/-! ### the tally does not depend on the order in which Go walks the validator map -/

open Gov in
theorem addTo_comm (r : Results) (o1 o2 : Nat) (p1 p2 : Dec) :
    (r.addTo o1 p1).addTo o2 p2 = (r.addTo o2 p2).addTo o1 p1 := by
  have hadd : ∀ a b c : Dec, Dec.add (Dec.add a b) c = Dec.add (Dec.add a c) b := by
    intro a b c; simp only [Dec.add]; congr 1; omega
  unfold Results.addTo
  rcases o1 with _ | _ | _ | _ | _ | o1 <;> rcases o2 with _ | _ | _ | _ | _ | o2 <;> simp [hadd]

/-- the per-validator step of `stakeTally` (tally.go: "iterate over the validators again to tally their voting power") -/
def valStep (r : Gov.Results) (vi : Gov.ValInfo) : Gov.Results :=
  if vi.vote == 0 then r
  else r.addTo vi.vote (Dec.mulInt (Dec.quo (Dec.sub vi.shares vi.deductions) vi.shares) vi.tokens)

theorem valStep_comm (r : Gov.Results) (a b : Gov.ValInfo) : valStep (valStep r a) b = valStep (valStep r b) a := by
  unfold valStep
  by_cases ha : (a.vote == 0) = true <;> by_cases hb : (b.vote == 0) = true <;> simp [ha, hb, addTo_comm]

theorem foldl_perm {α β} (f : β → α → β) (hf : ∀ b x y, f (f b x) y = f (f b y) x) {l₁ l₂ : List α} (p : l₁.Perm l₂) (b : β) :
    l₁.foldl f b = l₂.foldl f b := by
  induction p generalizing b with
  | nil => rfl
  | cons x _ ih => exact ih _
  | swap x y l => simp only [List.foldl_cons]; rw [hf]
  | trans _ _ ih1 ih2 => exact (ih1 b).trans (ih2 b)

/-- whatever order the map iteration produces, the tally is the same -/
theorem tally_order_independent (vals vals' : List Gov.ValInfo) (p : vals.Perm vals') (r : Gov.Results) :
    vals.foldl valStep r = vals'.foldl valStep r := foldl_perm valStep valStep_comm p r

/-- `valStep` is literally the function folded by the model's `stakeTally` -/
theorem valStep_is_model_step (r : Gov.Results) (vi : Gov.ValInfo) :
    valStep r vi = (if vi.vote == 0 then r else r.addTo vi.vote (Dec.mulInt (Dec.quo (Dec.sub vi.shares vi.deductions) vi.shares) vi.tokens)) := rfl

/-! ### restarts -/

/-- a node: committed state `S` (the database), in-memory state `C`, blocks `B`, answers `O` (hash and results) -/
structure Node (S C B O : Type) where
  load : S → C                     -- what a starting process builds from the database
  exec : S → C → B → S × C × O     -- one block

/-- the in-memory state is always what a fresh process would build from the committed state -/
def Coherent {S C B O} (n : Node S C B O) : Prop := ∀ s b, (n.exec s (n.load s) b).2.1 = n.load (n.exec s (n.load s) b).1

/-- run a block sequence; `true` in the second component = the node is stopped and restarted before that block -/
def runNode {S C B O} (n : Node S C B O) : S → C → List (B × Bool) → List O
  | _, _, [] => []
  | s, c, (b, restart) :: rest =>
    let c0 := if restart then n.load s else c
    let r := n.exec s c0 b
    r.2.2 :: runNode n r.1 r.2.1 rest

/-- **Stopping a node after any committed block and restarting it from its database yields exactly the same answers from then on** -/
theorem restart_invisible {S C B O} (n : Node S C B O) (h : Coherent n) (s : S) (blocks : List (B × Bool)) :
    runNode n s (n.load s) blocks = runNode n s (n.load s) (blocks.map (fun x => (x.1, false))) := by
  induction blocks generalizing s with
  | nil => rfl
  | cons x rest ih =>
    obtain ⟨b, restart⟩ := x
    simp only [runNode, List.map_cons]
    have hc : (if restart = true then n.load s else n.load s) = n.load s := by split <;> rfl
    simp only [hc, Bool.false_eq_true, if_false]
    congr 1
    rw [h s b]
    exact ih _

/-! non-vacuity: a node with a cache of the last value is coherent, one that counts restarts is not -/
example : Coherent ({ load := fun s => s, exec := fun s _ b => (s + b, s + b, s + b) } : Node Nat Nat Nat Nat) := by
  intro s b; rfl
example : ¬ Coherent ({ load := fun _ => 0, exec := fun s c b => (s + b, c + 1, s + b) } : Node Nat Nat Nat Nat) := by
  intro h; have := h 0 0; simp at this

end Shentu.Props.C10
