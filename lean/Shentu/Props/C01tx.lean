import Shentu.Proofs.C01txExamples
import Shentu.Props.C19
import Shentu.Props.C18vm
/-
  C01 / C18 / C19 at chain level for EVERY program: the CVM message path (`CvmTx.tx`, the model of x/cvm `Keeper.Tx`) runs the
  interpreter model itself (`EVM.execTop`: any code, input, gas, call tree, CREATE, SELFDESTRUCT, failing frames) between a load of
  the bank's bond balances into the interpreter's cache and a write-back of the cache into the bank.

  What is proved, for every message, every code in the store and every well-formed chain state:
   * the bank's bond balance of every address IS its balance in the interpreter's cache, before (`bank_is_cache_before`) and
     after (`tx_bank_is_cache`) — the bridge through which the interpreter-level theorems reach the ledger;
   * balances still add up to the recorded supply (`tx_keeps_inv`), the recorded supply is not touched (`tx_supply_unchanged`),
     no other denomination of anybody changes (`tx_other_denoms_untouched`), an address that is neither an account before nor in
     the final cache keeps everything (`tx_moves_only_value_and_internal_transfers`);
   * a failed transaction — spendable check, interpreter error at any depth, Go panic, write-back refusal — changes neither the
     ledger nor the store (`tx_failure_changes_nothing`, `tx_vm_failure_fails`);
   * a value the caller may not spend stops the transaction before anything runs, and an accepted value leaves the locked amount
     in the caller's pre-state balance (`tx_respects_lock`); for a callee without code the caller ends exactly `value` lower
     (`tx_plain_transfer`), hence not below its lock (`tx_respects_lock_plain`); this case is also a proved refinement of
     the library model's kind "none" (`plain_transfer_agrees_with_library`).  For a callee WITH code the bound "the caller
     ends at least at balance − value" is reduced to the same bound on the interpreter's cache (`tx_respects_lock_partial`);
     that interpreter-level bound is FALSE for a caller with code (`tx_caller_keeps_balance_minus_value_fails`: its own code
     may run and send more) and, for a caller without code, is NOT proved over the interpreter here;
   * a blocked (module) address never ends with more than it had (`tx_blocked_recipient`), because a write-back that would
     raise it fails the transaction (`tx_blocked_recipient_fails`);
   * well-formedness (`WF`) holds of the empty state (`wf_initial`) and is kept by every successful transaction
     (`tx_keeps_wf`; a failed one changes nothing).

  What is assumed: `WF` (one store entry per address, no negative bond balance, the accounts hold fewer than 2^64 bond coins
  in total, an address without account holds no bond coins) and that the rendering of VM addresses as bank addresses is
  injective (`Cfg.Inj`).  Gas fees are not part of the model (they go to the SDK gas meter).  Property theorems only; the
  work is in `Shentu/Proofs/C01tx*.lean`, on top of `execTop_conserves` (`Props/C01run.lean`).
-/
namespace Shentu.Props.C01tx
open Shentu Shentu.EVM Shentu.CvmTx Shentu.CvmTxH

variable {c : Cfg} {l l' : Ledger} {vs : Vesting.Accounts} {st st' : Store} {m : Msg}

/-- the empty chain state is well-formed -/
theorem wf_initial (c : Cfg) : WF c { posts := [], supply := [] } [] := wf_empty c

/-- the final cache of a successful transaction: the interpreter's, with the deployed code installed -/
def finalCache (c : Cfg) (l : Ledger) (st : Store) (m : Msg) : World := (installCode m (vmRun c l st m)).getD []

/-- what a successful transaction is made of (every later theorem starts here) -/
theorem tx_ok_shape (h : tx c l vs st m = .ok (l', st')) :
    spendCheck c l vs m = .ok () ∧ (m.deploy = true → World.get st m.callee = none) ∧
    (vmRun c l st m).status = 0 ∧ (vmRun c l st m).err = none ∧
    installCode m (vmRun c l st m) = some (finalCache c l st m) ∧
    blockedRaise c l (preStore st m) (finalCache c l st m) = false ∧
    l' = writeBack c l (preStore st m) (finalCache c l st m) ∧ st' = storeAfter (preStore st m) (finalCache c l st m) := by
  obtain ⟨w, h1, h2, _, h4, h5, h6, h7, h8, h9⟩ := tx_ok_parts h
  have : finalCache c l st m = w := by unfold finalCache; rw [h6]; rfl
  rw [this]
  exact ⟨h1, h2, h4, h5, h6, h7, h8, h9⟩

/-- the final cache is keyed and holds exactly the coins the accounts held in the bank before: `execTop_conserves` -/
theorem finalCache_conserves (hwf : WF c l st) (h : tx c l vs st m = .ok (l', st')) :
    SafeW (total (loadWorld c l (preStore st m))) (finalCache c l st m) := by
  obtain ⟨_, h2, _, _, h5, _⟩ := tx_ok_shape h
  exact safe_installCode (safe_vmRun m (wf_preStore m hwf h2)) h5

/-- **bridge, before**: in a well-formed state the bank's bond balance of every address is what the interpreter is given -/
theorem bank_is_cache_before (hwf : WF c l st) (x : Nat) :
    l.balOf (c.nm x) c.bond = (cacheBal (loadWorld c l st) x : Int) := (loaded_bal hwf x).symm

/-- **bridge, after**: after a successful transaction the bank's bond balance of every address is its balance in the final
    cache of the interpreter (zero if it is not there) -/
theorem tx_bank_is_cache (hinj : c.Inj) (hwf : WF c l st) (h : tx c l vs st m = .ok (l', st')) (x : Nat) :
    l'.balOf (c.nm x) c.bond = (cacheBal (finalCache c l st m) x : Int) := by
  have hs := finalCache_conserves hwf h
  obtain ⟨_, h2, _, _, _, _, h7, _⟩ := tx_ok_shape h
  rw [h7]
  exact writeBack_balOf_all hinj (wf_preStore m hwf h2) hs.1 x

/-- **C01 for every program**: a successful transaction keeps "balances add up to the recorded supply" -/
theorem tx_keeps_inv (hinj : c.Inj) (hwf : WF c l st) (hi : l.Inv) (h : tx c l vs st m = .ok (l', st')) : l'.Inv := by
  have hs := finalCache_conserves hwf h
  obtain ⟨_, h2, _, _, _, _, h7, _⟩ := tx_ok_shape h
  rw [h7]
  exact CvmTxH.writeBack_inv hinj (wf_preStore m hwf h2) hs hi

/-- a successful transaction keeps well-formedness (a failed one changes nothing: `tx_failure_changes_nothing`) -/
theorem tx_keeps_wf (hinj : c.Inj) (hwf : WF c l st) (h : tx c l vs st m = .ok (l', st')) : WF c l' st' := by
  have hs := finalCache_conserves hwf h
  obtain ⟨_, h2, _, _, _, _, h7, h8⟩ := tx_ok_shape h
  rw [h7, h8]
  exact wf_writeBack hinj (wf_preStore m hwf h2) hs

/-- … hence as the chain applies transactions, whatever their outcome -/
theorem deliver_keeps_wf_inv (hinj : c.Inj) (hwf : WF c l st) (hi : l.Inv) :
    WF c (deliver c l vs st m).1.1 (deliver c l vs st m).1.2 ∧ (deliver c l vs st m).1.1.Inv := by
  unfold deliver
  cases h : tx c l vs st m with
  | error e => exact ⟨hwf, hi⟩
  | ok r => obtain ⟨l', st'⟩ := r; exact ⟨tx_keeps_wf hinj hwf h, tx_keeps_inv hinj hwf hi h⟩

/-- … and over any sequence of transactions -/
theorem run_keeps_wf_inv (hinj : c.Inj) : ∀ (ms : List Msg) (l : Ledger) (st : Store), WF c l st → l.Inv →
    WF c (ms.foldl (fun s m => (deliver c s.1 vs s.2 m).1) (l, st)).1 (ms.foldl (fun s m => (deliver c s.1 vs s.2 m).1) (l, st)).2 ∧
    (ms.foldl (fun s m => (deliver c s.1 vs s.2 m).1) (l, st)).1.Inv := by
  intro ms
  induction ms with
  | nil => intro l st hwf hi; exact ⟨hwf, hi⟩
  | cons m ms ih =>
    intro l st hwf hi
    have := deliver_keeps_wf_inv (vs := vs) (m := m) hinj hwf hi
    exact ih _ _ this.1 this.2

/-- the recorded supply is not touched -/
theorem tx_supply_unchanged (h : tx c l vs st m = .ok (l', st')) : l'.supply = l.supply := by
  obtain ⟨_, _, _, _, _, _, h7, _⟩ := tx_ok_shape h
  rw [h7]; exact setBalances_supply _ _ _

/-- no balance in another denomination changes, for anybody -/
theorem tx_other_denoms_untouched (h : tx c l vs st m = .ok (l', st')) (a : Addr) (d : Denom) (hd : d ≠ c.bond) :
    l'.balOf a d = l.balOf a d := by
  obtain ⟨_, _, _, _, _, _, h7, _⟩ := tx_ok_shape h
  rw [h7]; exact setBalances_other_denoms _ _ _ _ _ hd

/-- only accounts of the pre-state and accounts of the final cache are written: any other address keeps every balance.
    (An account of the pre-state that is not in the final cache was destroyed and ends with zero; an account of the final
    cache ends with its cache balance: `tx_bank_is_cache`.) -/
theorem tx_moves_only_value_and_internal_transfers (h : tx c l vs st m = .ok (l', st')) (a : Addr)
    (ha : ∀ x, (World.get (preStore st m) x ≠ none ∨ World.get (finalCache c l st m) x ≠ none) → c.nm x ≠ a) (d : Denom) :
    l'.balOf a d = l.balOf a d := by
  obtain ⟨_, _, _, _, _, _, h7, _⟩ := tx_ok_shape h
  rw [h7]
  exact writeBack_balOf_untouched a d (fun x hx => ha x (mem_touched.mp hx))

/-- an account whose balance in the final cache is its balance in the loaded cache has the bank balance it had -/
theorem tx_unchanged_in_cache_unchanged_in_bank (hinj : c.Inj) (hwf : WF c l st) (h : tx c l vs st m = .ok (l', st')) (x : Nat)
    (hx : cacheBal (finalCache c l st m) x = cacheBal (loadWorld c l st) x) : l'.balOf (c.nm x) c.bond = l.balOf (c.nm x) c.bond := by
  rw [tx_bank_is_cache hinj hwf h x, bank_is_cache_before hwf x, hx]

/-! ## C18: failure changes nothing -/

/-- **C18 for every program**: whatever the reason of the failure, the ledger and the store are exactly what they were -/
theorem tx_failure_changes_nothing (c : Cfg) (l : Ledger) (vs : Vesting.Accounts) (st : Store) (m : Msg)
    (hf : (deliver c l vs st m).2.isSome = true) : (deliver c l vs st m).1 = (l, st) := by
  unfold deliver at hf ⊢
  cases h : tx c l vs st m with
  | error e => rfl
  | ok r => rw [h] at hf; simp at hf

/-- an error of the interpreter at the outermost frame, a Go panic or a construct outside the interpreter model fails the
    transaction — whatever inner frames had committed into the cache by then (transfers, storage, created accounts) -/
theorem tx_vm_failure_fails (c : Cfg) (l : Ledger) (vs : Vesting.Accounts) (st : Store) (m : Msg)
    (hf : (vmRun c l st m).err.isSome = true ∨ (vmRun c l st m).status ≠ 0) : ∃ e, tx c l vs st m = .error e := by
  cases h : tx c l vs st m with
  | error e => exact ⟨e, rfl⟩
  | ok r =>
    obtain ⟨l', st'⟩ := r
    obtain ⟨_, _, h3, h4, _⟩ := tx_ok_shape h
    rcases hf with hf | hf
    · rw [h4] at hf; simp at hf
    · exact absurd h3 hf

/-- … and the interpreter itself has then put its cache back (`C18vm.execTop_failure_restores`) -/
theorem tx_vm_failure_cache_restored (c : Cfg) (l : Ledger) (st : Store) (m : Msg)
    (hf : (vmRun c l st m).err.isSome = true ∨ (vmRun c l st m).status ≠ 0) :
    (vmRun c l st m).world = loadWorld c l (preStore st m) :=
  Props.C18vm.execTop_failure_restores _ _ _ _ hf

/-! ## C19: the lock -/

/-- a value the caller may not spend stops the transaction at once: nothing runs, nothing changes -/
theorem tx_respects_lock_refusal (c : Cfg) (l : Ledger) (vs : Vesting.Accounts) (st : Store) (m : Msg) (e : Shentu.Err)
    (hr : spendCheck c l vs m = .error e) : tx c l vs st m = .error e ∧ (deliver c l vs st m).1 = (l, st) := by
  have : tx c l vs st m = .error e := by unfold tx; rw [hr]
  refine ⟨this, ?_⟩
  unfold deliver; rw [this]

/-- an accepted value leaves the locked amount in the caller's balance: balance before − value ≥ locked -/
theorem tx_respects_lock (hv : 0 < m.value) (h : tx c l vs st m = .ok (l', st')) :
    l.balOf (c.nm m.caller) c.bond - (m.value : Int) ≥ Vesting.lockedOf vs (c.nm m.caller) c.bond := by
  obtain ⟨h1, _⟩ := tx_ok_shape h
  unfold spendCheck at h1
  rw [if_pos hv] at h1
  have := Props.C19.canSpend_leaves_locked l vs (c.nm m.caller) [(c.bond, (m.value : Int))] h1 c.bond (Props.C19.denoms_single _ _)
  simpa using this

/-- **partial** (what is missing: the interpreter-level bound itself; without it the statement is false for a caller with
    code, `tx_caller_keeps_balance_minus_value_fails`).  If, in the interpreter's cache, the caller ends with
    at least its balance minus the value — which is what an account WITHOUT code can lose, since only the outermost frame's
    transfer debits it; this is not proved over the interpreter here — then in the bank the caller ends with at least its
    locked amount. -/
theorem tx_respects_lock_partial (hinj : c.Inj) (hwf : WF c l st) (hv : 0 < m.value) (h : tx c l vs st m = .ok (l', st'))
    (hvm : cacheBal (loadWorld c l st) m.caller ≤ cacheBal (finalCache c l st m) m.caller + m.value) :
    l'.balOf (c.nm m.caller) c.bond ≥ Vesting.lockedOf vs (c.nm m.caller) c.bond := by
  have h1 := tx_respects_lock hv h
  rw [tx_bank_is_cache hinj hwf h]
  rw [bank_is_cache_before hwf] at h1
  omega

/-- **a call to an account without code is the value transfer and nothing else**: the caller ends exactly `value` lower, the
    callee `value` higher, every other address keeps its bond balance -/
theorem tx_plain_transfer (hinj : c.Inj) (hwf : WF c l st) (hd : m.deploy = false) (hcode : (codeOf st m).size = 0)
    (hne : m.caller ≠ m.callee) (h : tx c l vs st m = .ok (l', st')) :
    l'.balOf (c.nm m.caller) c.bond = l.balOf (c.nm m.caller) c.bond - (m.value : Int) ∧
    l'.balOf (c.nm m.callee) c.bond = l.balOf (c.nm m.callee) c.bond + (m.value : Int) ∧
    ∀ x, x ≠ m.caller → x ≠ m.callee → l'.balOf (c.nm x) c.bond = l.balOf (c.nm x) c.bond := by
  have hb := tx_bank_is_cache hinj hwf h
  obtain ⟨_, _, _, h4, h5, _⟩ := tx_ok_shape h
  have hpre : preStore st m = st := by unfold preStore; simp [hd]
  have hfin : finalCache c l st m = (vmRun c l st m).world := by
    unfold finalCache installCode; simp [hd]
  obtain ⟨_, hok, herr⟩ := execTop_nocode (envOf st m) m.gas (loadWorld c l (preStore st m)) m.depth hcode rfl
  cases ht : transfer (loadWorld c l (preStore st m)) (envOf st m).caller (envOf st m).callee (envOf st m).value with
  | error e =>
    have := herr e ht
    unfold vmRun at h4
    rw [h4] at this; cases this
  | ok w' =>
    have hw : (vmRun c l st m).world = w' := (hok w' ht).2
    rw [hpre] at ht
    obtain ⟨t1, t2, t3⟩ := transfer_bal (show (envOf st m).caller ≠ (envOf st m).callee from hne) ht
    rw [hfin, hw] at hb
    refine ⟨?_, ?_, ?_⟩
    · rw [hb, bank_is_cache_before hwf]
      have : balOf w' m.caller + m.value = balOf (loadWorld c l st) m.caller := t1
      simp only [cacheBal_eq]; omega
    · rw [hb, bank_is_cache_before hwf]
      have : balOf w' m.callee = balOf (loadWorld c l st) m.callee + m.value := t2
      simp only [cacheBal_eq]; omega
    · intro x hx1 hx2
      rw [hb, bank_is_cache_before hwf]
      have : balOf w' x = balOf (loadWorld c l st) x := t3 x hx1 hx2
      simp only [cacheBal_eq]; omega

/-- **C19 for a transfer through the VM** (callee without code): the caller does not end below its locked amount -/
theorem tx_respects_lock_plain (hinj : c.Inj) (hwf : WF c l st) (hd : m.deploy = false) (hcode : (codeOf st m).size = 0)
    (hne : m.caller ≠ m.callee) (hv : 0 < m.value) (h : tx c l vs st m = .ok (l', st')) :
    l'.balOf (c.nm m.caller) c.bond ≥ Vesting.lockedOf vs (c.nm m.caller) c.bond := by
  rw [(tx_plain_transfer hinj hwf hd hcode hne h).1]
  exact tx_respects_lock hv h

/-- **the library model's kind "none" IS the interpreter-backed call to an account without code** (a proved refinement, for
    every state; the other kinds are compared by evaluation in `Props/C01txLib.lean`): when both models accept the call,
    the library model's ledger and the interpreter-backed model's ledger give every VM address the same balance in every
    denomination, and the library's contract state is unchanged -/
theorem plain_transfer_agrees_with_library (hinj : c.Inj) (hwf : WF c l st) (hd : m.deploy = false)
    (hcode : (codeOf st m).size = 0) (hne : m.caller ≠ m.callee) (s s'' : Cvm.State) (l'' : Ledger)
    (hk : Cvm.kindAt s (c.nm m.callee) = "none") (d0 : String) (z : Bool) (t : Addr)
    (h : tx c l vs st m = .ok (l', st'))
    (hl : Cvm.call c.bond l vs s (c.nm m.caller) (c.nm m.callee) (m.value : Int) d0 z t false = .ok (l'', s'')) :
    s'' = s ∧ ∀ x d, l'.balOf (c.nm x) d = l''.balOf (c.nm x) d := by
  unfold Cvm.call at hl
  split at hl; · cases hl
  dsimp only at hl
  rw [hk] at hl
  simp only [Bool.and_false, Bool.false_eq_true, if_false] at hl
  unfold Cvm.runKind at hl
  simp only at hl
  injection hl with hl
  injection hl with hl1 hl2
  refine ⟨hl2.symm, ?_⟩
  intro x d
  subst hl1
  rw [Ledger.balOf_move]
  obtain ⟨p1, p2, p3⟩ := tx_plain_transfer hinj hwf hd hcode hne h
  have hnn : c.nm m.caller ≠ c.nm m.callee := fun e => hne (hinj _ _ e)
  by_cases hdb : d = c.bond
  · subst hdb
    simp only [Coins.amountOf_cons, Coins.amountOf_nil, beq_self_eq_true, if_true]
    by_cases h1 : x = m.caller
    · subst h1
      have e2 : (c.nm m.callee == c.nm m.caller) = false := by simpa using Ne.symm hnn
      rw [p1]; simp [e2]
    · by_cases h2 : x = m.callee
      · subst h2
        have e1 : (c.nm m.caller == c.nm m.callee) = false := by simpa using hnn
        rw [p2]; simp [e1]
      · have e1 : (c.nm m.caller == c.nm x) = false := by
          simpa using (fun e => h1 (hinj _ _ e).symm)
        have e2 : (c.nm m.callee == c.nm x) = false := by
          simpa using (fun e => h2 (hinj _ _ e).symm)
        rw [p3 x h1 h2]; simp [e1, e2]
  · rw [tx_other_denoms_untouched h _ d hdb]
    have : (c.bond == d) = false := by simpa using Ne.symm hdb
    simp [this]

/-! ## blocked (module) addresses -/

/-- a write-back that would raise the bond balance of a blocked address fails the whole transaction -/
theorem tx_blocked_recipient_fails (c : Cfg) (l : Ledger) (vs : Vesting.Accounts) (st : Store) (m : Msg) (x : Nat)
    (hx : World.get (preStore st m) x ≠ none ∨ World.get (finalCache c l st m) x ≠ none)
    (hb : c.blocked (c.nm x) = true) (hraise : (cacheBal (finalCache c l st m) x : Int) > l.balOf (c.nm x) c.bond) :
    ∃ e, tx c l vs st m = .error e := by
  cases h : tx c l vs st m with
  | error e => exact ⟨e, rfl⟩
  | ok r =>
    obtain ⟨l', st'⟩ := r
    obtain ⟨_, _, _, _, _, h6, _⟩ := tx_ok_shape h
    exfalso
    have : blockedRaise c l (preStore st m) (finalCache c l st m) = true := by
      unfold blockedRaise
      rw [List.any_eq_true]
      exact ⟨x, mem_touched.mpr hx, by simp [hb, hraise]⟩
    rw [this] at h6; cases h6

/-- **module accounts never gain through the VM**: after a successful transaction a blocked address holds, in every
    denomination, at most what it held -/
theorem tx_blocked_recipient (hinj : c.Inj) (hwf : WF c l st) (h : tx c l vs st m = .ok (l', st')) (a : Addr) (hb : c.blocked a = true) (d : Denom) :
    l'.balOf a d ≤ l.balOf a d := by
  by_cases hd : d = c.bond
  · subst hd
    obtain ⟨_, _, _, _, _, h6, h7, _⟩ := tx_ok_shape h
    by_cases hex : ∃ x ∈ touched (preStore st m) (finalCache c l st m), c.nm x = a
    · obtain ⟨x, hx, e⟩ := hex
      subst e
      -- the check passed for x
      have hchk : ¬ ((cacheBal (finalCache c l st m) x : Int) > l.balOf (c.nm x) c.bond) := by
        intro hgt
        have : blockedRaise c l (preStore st m) (finalCache c l st m) = true := by
          unfold blockedRaise
          rw [List.any_eq_true]
          exact ⟨x, hx, by simp [hb, hgt]⟩
        rw [this] at h6; cases h6
      rw [tx_bank_is_cache hinj hwf h x]
      omega
    · rw [h7]
      apply Int.le_of_eq
      apply writeBack_balOf_untouched
      intro x hx e
      exact hex ⟨x, hx, e⟩
  · rw [tx_other_denoms_untouched h a d hd]; exact Int.le_refl _

/-! ## concrete executions (non-vacuity)

One chain state (`Ex.l0`, `Ex.st0`): a user with 100 uctk and 5 foo, a forwarding contract with 7, a third user with 1, a
self-destructing contract with 9 uctk and 2 foo, a creating contract with 7, a module account with 50, a reverting and an
aborting contract.  The hypotheses of the theorems above hold of it, and every kind of execution is exhibited on it;
everything is evaluated by the kernel. -/
section examples
open Shentu.CvmTxH.Ex

/-- the hypotheses are satisfiable: the example configuration is injective, the example state well-formed and balanced -/
example : c0.Inj ∧ WF c0 l0 st0 ∧ l0.invB = true := ⟨c0_inj, wf0, inv0⟩

def mTransfer : Msg := { caller := A, callee := T, value := 3, gas := 100000 }
def mForward : Msg := { caller := A, callee := FWD, value := 3, data := word T, gas := 100000 }
def mSuicide : Msg := { caller := A, callee := SD, value := 0, data := word T, gas := 100000 }
def mCreate : Msg := { caller := A, callee := CR, value := 0, gas := 100000, fresh := fun _ _ => NEW }
def mInnerFail : Msg := { caller := A, callee := FWD, value := 3, data := word REV, gas := 100000 }
def mAbort : Msg := { caller := A, callee := BAD, value := 3, gas := 100000 }
def mSuicideToModule : Msg := { caller := A, callee := SD, value := 0, data := word MOD, gas := 100000 }
def mPayModule : Msg := { caller := A, callee := MOD, value := 1, gas := 100000 }
def mDeploy : Msg := { caller := A, callee := NEW, value := 2, data := initStop, deploy := true, gas := 100000 }

/-- a value transfer to an account without code: 3 coins move, the invariant holds (hypotheses of `tx_plain_transfer`) -/
theorem ex_transfer : bondAfter (tx c0 l0 [] st0 mTransfer) A = 97 ∧ bondAfter (tx c0 l0 [] st0 mTransfer) T = 4 ∧
    invAfter (tx c0 l0 [] st0 mTransfer) = true ∧ (codeOf st0 mTransfer).size = 0 := by decide +kernel

/-- a contract forwarding the value to a third account: the contract keeps its 7, the third account gets the 3 -/
theorem ex_forward : bondAfter (tx c0 l0 [] st0 mForward) A = 97 ∧ bondAfter (tx c0 l0 [] st0 mForward) FWD = 7 ∧
    bondAfter (tx c0 l0 [] st0 mForward) T = 4 ∧ invAfter (tx c0 l0 [] st0 mForward) = true := by decide +kernel

/-- SELFDESTRUCT: the 9 coins reach the beneficiary, the destroyed contract ends with 0 uctk, keeps its 2 foo, and loses its code -/
theorem ex_selfdestruct : bondAfter (tx c0 l0 [] st0 mSuicide) T = 10 ∧ bondAfter (tx c0 l0 [] st0 mSuicide) SD = 0 ∧
    fooAfter (tx c0 l0 [] st0 mSuicide) SD = 2 ∧ codeAfter (tx c0 l0 [] st0 mSuicide) SD = some 0 ∧
    invAfter (tx c0 l0 [] st0 mSuicide) = true := by decide +kernel

/-- CREATE with an endowment: a new account appears in the store and in the bank with 3 coins, the creator keeps 4 -/
theorem ex_create : bondAfter (tx c0 l0 [] st0 mCreate) NEW = 3 ∧ bondAfter (tx c0 l0 [] st0 mCreate) CR = 4 ∧
    (codeAfter (tx c0 l0 [] st0 mCreate) NEW).isSome = true ∧ (World.get st0 NEW).isNone = true ∧
    invAfter (tx c0 l0 [] st0 mCreate) = true := by decide +kernel

/-- a failing inner call: the forwarded value comes back to the forwarding contract, the transaction succeeds -/
theorem ex_inner_failure : bondAfter (tx c0 l0 [] st0 mInnerFail) A = 97 ∧ bondAfter (tx c0 l0 [] st0 mInnerFail) FWD = 10 ∧
    bondAfter (tx c0 l0 [] st0 mInnerFail) REV = 0 ∧ invAfter (tx c0 l0 [] st0 mInnerFail) = true := by decide +kernel

/-- a failing outermost frame (hypothesis of `tx_failure_changes_nothing` / `tx_vm_failure_fails`): the value transfer that
    opened the frame is gone with it -/
theorem ex_abort : errOf (tx c0 l0 [] st0 mAbort) = "cvm:ExecutionAborted" ∧ ((vmRun c0 l0 st0 mAbort).err.isSome = true) ∧
    ((deliver c0 l0 [] st0 mAbort).2.isSome = true) := by decide +kernel

/-- a deployment with an endowment: the new account holds 2 coins and the returned one-byte code -/
theorem ex_deploy : bondAfter (tx c0 l0 [] st0 mDeploy) A = 98 ∧ bondAfter (tx c0 l0 [] st0 mDeploy) NEW = 2 ∧
    codeAfter (tx c0 l0 [] st0 mDeploy) NEW = some 1 ∧ invAfter (tx c0 l0 [] st0 mDeploy) = true := by decide +kernel

/-- a module account as beneficiary of a SELFDESTRUCT, or as the callee of a call carrying value: the transaction fails
    (hypotheses of `tx_blocked_recipient_fails`) -/
theorem ex_blocked : errOf (tx c0 l0 [] st0 mSuicideToModule) = "cvm:blocked-recipient" ∧
    errOf (tx c0 l0 [] st0 mPayModule) = "cvm:blocked-recipient" ∧ c0.blocked (c0.nm MOD) = true ∧
    (cacheBal (finalCache c0 l0 st0 mSuicideToModule) MOD : Int) > l0.balOf (c0.nm MOD) c0.bond := by decide +kernel

/-- the lock: with 99 of the user's 100 coins locked a value of 3 is refused before anything runs, a value of 1 passes and
    leaves the user at the locked amount (hypotheses of `tx_respects_lock_refusal`, `tx_respects_lock`, `tx_respects_lock_plain`) -/
theorem ex_lock : errOf (tx c0 l0 vsLocked st0 mTransfer) = "bank:insufficient-funds" ∧
    Vesting.lockedOf vsLocked "4096" "uctk" = 99 ∧
    bondAfter (tx c0 l0 vsLocked st0 { mTransfer with value := 1 }) A = 99 := by decide +kernel

/-- two transactions in a row (hypothesis of `run_keeps_wf_inv`): forward, then destroy -/
theorem ex_run : ([mForward, mSuicide].foldl (fun s m => (deliver c0 s.1 [] s.2 m).1) (l0, st0)).1.invB = true ∧
    ([mForward, mSuicide].foldl (fun s m => (deliver c0 s.1 [] s.2 m).1) (l0, st0)).1.balOf "12288" "uctk" = 13 := by decide +kernel

/-- **the bound "the caller ends at least at balance − value" is FALSE for a caller with code** (so `tx_respects_lock_partial`
    cannot drop its interpreter-level hypothesis in general): the contract `X` holds 20 coins and sends 5 to a third user
    whenever it is entered; as the caller of the forwarding contract with a value of 3 and its own address as the target it
    gets the 3 back, its code runs, and it ends at 15 < 20 − 3.  The state is well-formed and balanced. -/
theorem tx_caller_keeps_balance_minus_value_fails :
    ¬ (∀ (l : Ledger) (st : Store) (m : Msg), WF c0 l st → l.invB = true →
        bondAfter (tx c0 l [] st m) m.caller ≥ l.balOf (c0.nm m.caller) c0.bond - (m.value : Int)) := by
  intro hall
  have h := hall l1 st1 { caller := X, callee := FWD, value := 3, data := word X, gas := 100000 } wf1 (by decide)
  revert h
  decide +kernel

/-- what happens there -/
theorem ex_caller_with_code : bondAfter (tx c0 l1 [] st1 { caller := X, callee := FWD, value := 3, data := word X, gas := 100000 }) X = 15 ∧
    bondAfter (tx c0 l1 [] st1 { caller := X, callee := FWD, value := 3, data := word X, gas := 100000 }) T = 6 ∧
    invAfter (tx c0 l1 [] st1 { caller := X, callee := FWD, value := 3, data := word X, gas := 100000 }) = true := by decide +kernel

end examples

end Shentu.Props.C01tx

#print axioms Shentu.Props.C01tx.wf_initial
#print axioms Shentu.Props.C01tx.tx_ok_shape
#print axioms Shentu.Props.C01tx.finalCache_conserves
#print axioms Shentu.Props.C01tx.bank_is_cache_before
#print axioms Shentu.Props.C01tx.tx_bank_is_cache
#print axioms Shentu.Props.C01tx.tx_keeps_inv
#print axioms Shentu.Props.C01tx.tx_keeps_wf
#print axioms Shentu.Props.C01tx.deliver_keeps_wf_inv
#print axioms Shentu.Props.C01tx.run_keeps_wf_inv
#print axioms Shentu.Props.C01tx.tx_supply_unchanged
#print axioms Shentu.Props.C01tx.tx_other_denoms_untouched
#print axioms Shentu.Props.C01tx.tx_moves_only_value_and_internal_transfers
#print axioms Shentu.Props.C01tx.tx_unchanged_in_cache_unchanged_in_bank
#print axioms Shentu.Props.C01tx.tx_failure_changes_nothing
#print axioms Shentu.Props.C01tx.tx_vm_failure_fails
#print axioms Shentu.Props.C01tx.tx_vm_failure_cache_restored
#print axioms Shentu.Props.C01tx.tx_respects_lock_refusal
#print axioms Shentu.Props.C01tx.tx_respects_lock
#print axioms Shentu.Props.C01tx.tx_respects_lock_partial
#print axioms Shentu.Props.C01tx.tx_plain_transfer
#print axioms Shentu.Props.C01tx.tx_respects_lock_plain
#print axioms Shentu.Props.C01tx.plain_transfer_agrees_with_library
#print axioms Shentu.Props.C01tx.tx_blocked_recipient_fails
#print axioms Shentu.Props.C01tx.tx_blocked_recipient
#print axioms Shentu.Props.C01tx.ex_transfer
#print axioms Shentu.Props.C01tx.ex_forward
#print axioms Shentu.Props.C01tx.ex_selfdestruct
#print axioms Shentu.Props.C01tx.ex_create
#print axioms Shentu.Props.C01tx.ex_inner_failure
#print axioms Shentu.Props.C01tx.ex_abort
#print axioms Shentu.Props.C01tx.ex_deploy
#print axioms Shentu.Props.C01tx.ex_blocked
#print axioms Shentu.Props.C01tx.ex_lock
#print axioms Shentu.Props.C01tx.ex_run
#print axioms Shentu.Props.C01tx.tx_caller_keeps_balance_minus_value_fails
#print axioms Shentu.Props.C01tx.ex_caller_with_code
