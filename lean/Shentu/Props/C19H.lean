import Shentu.Proofs.C19HHistory
/-
  C19 over whole histories — "Locked coins stay locked until the designated unlocker releases them."

  `Props/C19.lean` proves the rules one operation at a time.  This file proves them for every history: any list of
  operations, of any length, in any order, signed by anybody, applied from any well-formed world.

  The operations (`C19H.Op`, defined in `Proofs/C19HDefs.lean`) are: plain send (to an account or to a contract), multi-send,
  fee payment, locked send (creating the vesting account or topping it up), unlock (by anybody), contract call and contract
  deployment carrying value, delegation.  `step` applies the model's own function and keeps the world when it reports an
  error.  `run` folds `step` over the history.  The models have no undelegation, so neither has `Op`.

  What is proved, for every history:
   (a) the unlocked total of every vesting account is between 0 and what was locked, in every denomination;
   (b) the unlocker of a vesting account never changes, and a vesting account stays one;
   (c) the still-locked coins of every vesting account are in its balance or among the coins the model records as delegated
       while locked (`dv`), in every denomination; hence also balance + everything delegated (`dv + df`) covers them, and the
       balance alone covers `LockedCoins` (what the bank refuses to spend);
   (d) the still-locked amount goes down only in an unlock signed by the account's unlocker and goes up only in a locked send to
       the account; over a history it changes by exactly the logged locked sends minus the logged unlocks (and separately: the
       locked total by the logged locked sends, the unlocked total by the logged unlocks), and every logged unlock was signed
       by the unlocker the account still has at the end.

  What is assumed: the start world is well-formed (`C19H.WF`).  That means: no negative balance; one record per vesting
  address; every record satisfies (a), has non-negative delegated amounts, and satisfies (c); no vesting account holds contract
  code.  The empty world, and every world without vesting accounts and without negative balances, is well-formed
  (`wf_empty`, `wf_without_vesting`), and every step keeps well-formedness (`step_keeps_wf`).  (b) and (d) need no assumption.

  The model tracks delegation by the two counters of the vesting account (`dv`, `df`), not by a staking store; (c) is stated
  with these counters.
-/
namespace Shentu.Props.C19H
open Shentu Shentu.Vesting Shentu.C19H

/-! ### Well-formedness: where histories may start, and that steps keep it -/

/-- The empty world is well-formed. -/
theorem wf_empty : WF World.empty := by
  refine ⟨?_, ?_, ?_, ?_⟩
  · intro a d; exact Int.le_refl 0
  · exact List.nodup_nil
  · intro a m h; cases h
  · intro a m h; cases h

/-- Every world without vesting accounts and without negative balances is well-formed.
    Contracts, known addresses and balances may be anything. -/
theorem wf_without_vesting (w : World) (hv : w.vs = []) (hn : ∀ a d, 0 ≤ w.l.balOf a d) : WF w := by
  refine ⟨hn, by rw [hv]; exact List.nodup_nil, ?_, ?_⟩
  · intro a m h; rw [hv] at h; cases h
  · intro a m h; rw [hv] at h; cases h

/-- One step keeps a well-formed world well-formed, whatever the operation and whoever signs it. -/
theorem step_keeps_wf (c : Cfg) (w : World) (op : Op) (hw : WF w) : WF (step c w op) := step_wf c w op hw

/-- Every history keeps a well-formed world well-formed. -/
theorem run_keeps_wf (c : Cfg) (w : World) (ops : List Op) (hw : WF w) : WF (run c w ops) := run_wf c ops w hw

/-! ### (a) The unlocked total never exceeds what was locked -/

/-- After any history from a well-formed world, every vesting account has `0 ≤ unlocked ≤ locked` in every denomination. -/
theorem unlocked_within_original (c : Cfg) (w : World) (ops : List Op) (hw : WF w) :
    ∀ m ∈ (run c w ops).vs, ∀ d, 0 ≤ Coins.amountOf m.vested d ∧ Coins.amountOf m.vested d ≤ Coins.amountOf m.ov d := by
  intro m hm d
  have hr := run_wf c ops w hw
  have ho := hr.acc m.addr m (find_of_mem_nodup _ hr.nodup m hm)
  exact ⟨ho.vested_nonneg d, ho.vested_le d⟩

/-! ### (b) The unlocker never changes -/

/-- An address that is a vesting account stays one through any history, with the same unlocker.
    No assumption on the start world. -/
theorem unlocker_never_changes (c : Cfg) (w : World) (ops : List Op) (a : Addr) (m : MVA) (h : find w.vs a = some m) :
    ∃ m', find (run c w ops).vs a = some m' ∧ m'.unlocker = m.unlocker :=
  (run_effect c ops w).keep a m h

/-- The same between any two points of a history: what holds after `ops1` still holds after `ops1 ++ ops2`. -/
theorem unlocker_never_changes_later (c : Cfg) (w : World) (ops1 ops2 : List Op) (a : Addr) (m : MVA)
    (h : find (run c w ops1).vs a = some m) :
    ∃ m', find (run c w (ops1 ++ ops2)).vs a = some m' ∧ m'.unlocker = m.unlocker := by
  rw [run_append]; exact unlocker_never_changes c _ ops2 a m h

/-- The same for the records themselves: from a well-formed world, every record of the start has a record with the same
    address and the same unlocker at the end. -/
theorem unlocker_never_changes_mem (c : Cfg) (w : World) (ops : List Op) (hw : WF w) :
    ∀ m ∈ w.vs, ∃ m' ∈ (run c w ops).vs, m'.addr = m.addr ∧ m'.unlocker = m.unlocker := by
  intro m hm
  obtain ⟨m', hf, hu⟩ := unlocker_never_changes c w ops m.addr m (find_of_mem_nodup _ hw.nodup m hm)
  exact ⟨m', find_mem _ _ _ hf, find_addr _ _ _ hf, hu⟩

/-- An unlock signed by anybody but the recorded unlocker changes nothing. -/
theorem unlock_by_stranger_changes_nothing (c : Cfg) (w : World) (issuer a : Addr) (amt : Coins) (m : MVA)
    (hm : find w.vs a = some m) (hne : issuer ≠ m.unlocker) : step c w (.unlock issuer a amt) = w := by
  obtain ⟨x, hx⟩ := Props.C19.unlock_refused_for_others w.vs (hasAccount w) issuer a amt m hm hne
  apply step_of_error c w _ x
  simp only [stepE, hx]

/-- A locked send that names an unlocker for an account that already is a vesting account changes nothing. -/
theorem lockedSend_naming_unlocker_changes_nothing (c : Cfg) (w : World) (src dst u : Addr) (amt : Coins) (m : MVA)
    (hm : find w.vs dst = some m) (hu : u ≠ "") : step c w (.lockedSend src dst u amt) = w := by
  cases h : stepE c w (.lockedSend src dst u amt) with
  | error x => exact step_of_error c w _ x h
  | ok w' =>
    exfalso
    simp only [stepE] at h
    split at h; · cases h
    rename_i l vs hs
    exact hu (Props.C19.lockedSend_keeps_unlocker _ _ _ _ _ _ _ _ _ m hm hs).1

/-! ### (c) The still-locked coins are in the account or delegated -/

/-- After any history from a well-formed world, for every vesting account and every denomination:
    locked − unlocked ≤ balance + delegated-while-locked. -/
theorem locked_coins_present (c : Cfg) (w : World) (ops : List Op) (hw : WF w) :
    ∀ m ∈ (run c w ops).vs, ∀ d,
      Coins.amountOf m.ov d - Coins.amountOf m.vested d ≤ (run c w ops).l.balOf m.addr d + Coins.amountOf m.dv d := by
  intro m hm d
  have hr := run_wf c ops w hw
  exact (hr.acc m.addr m (find_of_mem_nodup _ hr.nodup m hm)).present d

/-- Hence balance + everything the account has delegated (`dv + df`) covers the still-locked amount. -/
theorem locked_coins_present_or_delegated (c : Cfg) (w : World) (ops : List Op) (hw : WF w) :
    ∀ m ∈ (run c w ops).vs, ∀ d,
      Coins.amountOf m.ov d - Coins.amountOf m.vested d ≤
        (run c w ops).l.balOf m.addr d + (Coins.amountOf m.dv d + Coins.amountOf m.df d) := by
  intro m hm d
  have hr := run_wf c ops w hw
  have ho := hr.acc m.addr m (find_of_mem_nodup _ hr.nodup m hm)
  have := ho.present d
  have := ho.df_nonneg d
  unfold vestingAmt at *
  omega

/-- Hence the model's `LockInv` holds after every history: the balance alone covers `LockedCoins`, the amount the bank
    refuses to let out (still-locked minus what of it is delegated, never below zero). -/
theorem lockInv_always (c : Cfg) (w : World) (ops : List Op) (hw : WF w) : LockInv (run c w ops).l (run c w ops).vs := by
  intro m hm d
  have hr := run_wf c ops w hw
  have ho := hr.acc m.addr m (find_of_mem_nodup _ hr.nodup m hm)
  have := ho.present d
  have := hr.nonneg m.addr d
  unfold lockedAmt
  omega

/-! ### (d) Only the unlocker lowers the still-locked amount, only a locked send raises it -/

/-- If a step lowers the still-locked amount of `a`, the step is an unlock of `a` signed by the unlocker recorded for `a`. -/
theorem stillLocked_decreases_only_by_unlocker (c : Cfg) (w : World) (op : Op) (a : Addr) (d : Denom)
    (h : stillLocked (step c w op) a d < stillLocked w a d) :
    ∃ issuer amt m, op = .unlock issuer a amt ∧ find w.vs a = some m ∧ issuer = m.unlocker := by
  have he := step_effect c w op
  have hacct := he.acct a d
  rcases changeOf_cases c w op with h0 | ⟨src, dst, u, amt, _, h1⟩ | ⟨issuer, account, amt, m, hop, h1, hm, hiss⟩
  · rw [h0] at hacct; simp at hacct; omega
  · have hp := he.pos (.locked dst amt) (by rw [h1]; simp) d
    rw [h1, lockedIn_locked, unlockedOut_locked] at hacct
    simp only [Change.amt] at hp
    split at hacct <;> omega
  · rw [h1, lockedIn_unlocked, unlockedOut_unlocked] at hacct
    by_cases e : account = a
    · subst e; exact ⟨issuer, amt, m, hop, hm, hiss⟩
    · simp only [e, if_false] at hacct; omega

/-- If a step raises the still-locked amount of `a`, the step is a locked send to `a`. -/
theorem stillLocked_increases_only_by_lockedSend (c : Cfg) (w : World) (op : Op) (a : Addr) (d : Denom)
    (h : stillLocked w a d < stillLocked (step c w op) a d) :
    ∃ src u amt, op = .lockedSend src a u amt := by
  have he := step_effect c w op
  have hacct := he.acct a d
  rcases changeOf_cases c w op with h0 | ⟨src, dst, u, amt, hop, h1⟩ | ⟨issuer, account, amt, m, _, h1, _, _⟩
  · rw [h0] at hacct; simp at hacct; omega
  · rw [h1, lockedIn_locked, unlockedOut_locked] at hacct
    by_cases e : dst = a
    · subst e; exact ⟨src, u, amt, hop⟩
    · simp only [e, if_false] at hacct; omega
  · have hp := he.pos (.unlocked account issuer amt) (by rw [h1]; simp) d
    rw [h1, lockedIn_unlocked, unlockedOut_unlocked] at hacct
    simp only [Change.amt] at hp
    split at hacct <;> omega

/-- Over any history, from any world: the still-locked amount of `a` at the end is its value at the start, plus the logged
    locked sends to `a`, minus the logged unlocks of `a`.  (`stillLocked` is 0 for an address that is not a vesting account,
    so for an account created during the history the start value is 0.) -/
theorem stillLocked_accounting (c : Cfg) (w : World) (ops : List Op) (a : Addr) (d : Denom) :
    stillLocked (run c w ops) a d =
      stillLocked w a d + lockedIn (changes c w ops) a d - unlockedOut (changes c w ops) a d :=
  (run_effect c ops w).acct a d

/-- The two halves separately: what the account has received by locked sends is the start value plus the logged locked sends;
    what has been unlocked is the start value plus the logged unlocks.  Nothing else changes either of them. -/
theorem original_and_unlocked_accounting (c : Cfg) (w : World) (ops : List Op) (a : Addr) (d : Denom) :
    originalOf (run c w ops) a d = originalOf w a d + lockedIn (changes c w ops) a d ∧
    unlockedOf (run c w ops) a d = unlockedOf w a d + unlockedOut (changes c w ops) a d :=
  (run_effect c ops w).acct2 a d

/-- Every unlock in the log of a history was signed by the unlocker that the account has at the end of the history
    (which by (b) is the one it had when it was created). -/
theorem logged_unlocks_signed_by_unlocker (c : Cfg) (w : World) (ops : List Op) (a i : Addr) (amt : Coins)
    (h : Change.unlocked a i amt ∈ changes c w ops) :
    ∃ m, find (run c w ops).vs a = some m ∧ m.unlocker = i :=
  (run_effect c ops w).signer a i amt h

/-- Every logged amount is non-negative in every denomination: the two sums of the accounting have no cancelling terms. -/
theorem logged_amounts_nonneg (c : Cfg) (w : World) (ops : List Op) :
    ∀ e ∈ changes c w ops, ∀ d, 0 ≤ Coins.amountOf e.amt d :=
  (run_effect c ops w).pos

/-! ### Non-vacuity: a concrete history -/

namespace Demo

def cfg : Cfg := { bond := "uctk", feeCollector := "fees" }

/-- alice holds 1000, bob exists, there is one contract (of the kind that destroys itself and pays its caller) holding 5 -/
def w0 : World :=
  { l := { posts := [("alice", "uctk", 1000), ("c", "uctk", 5)], supply := [("uctk", 1005)] }
    vs := []
    cvm := { contracts := [{ addr := "c", code := "33FF", storage := [] }] }
    accts := ["alice", "bob", "c"] }

def uctk (x : Int) : Coins := [("uctk", x)]

/-- 1. alice locks 100 for `m`, unlocker `u`.  2. alice sends `m` 50 more, freely spendable. -/
def h2 : List Op := [.lockedSend "alice" "m" "u" (uctk 100), .send "alice" "m" (uctk 50)]
/-- 3. a stranger tries to unlock 30: refused.  4. the unlocker unlocks 30. -/
def h4 : List Op := h2 ++ [.unlock "x" "m" (uctk 30), .unlock "u" "m" (uctk 30)]
/-- 5. `m` tries to send 81 (80 are free): refused.  6. `m` sends the free 80. -/
def h6 : List Op := h4 ++ [.send "m" "bob" (uctk 81), .send "m" "bob" (uctk 80)]
/-- 7. `m` tries to call a contract with value 1, to deploy with value 1, to pay a fee of 1, and alice tries to name a new
    unlocker: all refused.  8. `m` delegates the locked 70: allowed. -/
def h8 : List Op := h6 ++ [.call "m" "c" 1 Cvm.slot0 true "" false, .deploy "m" "n" "00" 1, .fee "m" (uctk 1),
  .lockedSend "alice" "m" "v" (uctk 1), .delegate "m" "pool" "uctk" 70]

/-- did the operation go through in this world? -/
def accepted (w : World) (op : Op) : Bool := match stepE cfg w op with | .ok _ => true | .error _ => false
def refusedWith (w : World) (op : Op) (kind : String) : Bool :=
  match stepE cfg w op with | .ok _ => false | .error e => e.kind == kind

/-- the start world is well-formed (hypothesis of (a), (c), `run_keeps_wf`): it has balances and a contract -/
theorem w0_wf : WF w0 := wf_without_vesting w0 rfl (balOf_nonneg_of_posts w0.l (by decide))

/-- a well-formed world WITH a vesting account holding locked, unlocked and free coins: `WF` is not only about empty lists -/
example : WF (run cfg w0 h6) ∧ (run cfg w0 h6).vs.length = 1 := ⟨run_keeps_wf cfg w0 h6 w0_wf, by decide⟩

-- 1–2: the locked send creates the account; 100 are locked, 150 are held
example : accepted w0 (.lockedSend "alice" "m" "u" (uctk 100)) = true := by decide
example : (find (run cfg w0 h2).vs "m").map (·.unlocker) = some "u" := by decide
example : (run cfg w0 h2).l.balOf "m" "uctk" = 150 ∧ stillLocked (run cfg w0 h2) "m" "uctk" = 100 := by decide
-- 3: the stranger is refused (hypotheses of `unlock_by_stranger_changes_nothing`: the account exists, "x" is not its unlocker)
example : refusedWith (run cfg w0 h2) (.unlock "x" "m" (uctk 30)) "auth:not-the-unlocker" = true := by decide
-- 4: the unlocker unlocks a part (hypothesis of `stillLocked_decreases_only_by_unlocker`)
example : stillLocked (step cfg (run cfg w0 h2) (.unlock "u" "m" (uctk 30))) "m" "uctk" < stillLocked (run cfg w0 h2) "m" "uctk" := by
  decide
example : stillLocked (run cfg w0 h4) "m" "uctk" = 70 := by decide
-- … but not more than what is locked
example : refusedWith (run cfg w0 h4) (.unlock "u" "m" (uctk 71)) "auth:unlock-exceeds-original" = true := by decide
-- hypothesis of `stillLocked_increases_only_by_lockedSend`
example : stillLocked w0 "m" "uctk" < stillLocked (step cfg w0 (.lockedSend "alice" "m" "u" (uctk 100))) "m" "uctk" := by decide
-- 5–6: the over-spend is refused, the free part goes out
example : refusedWith (run cfg w0 h4) (.send "m" "bob" (uctk 81)) "bank:insufficient-funds" = true := by decide
example : accepted (run cfg w0 h4) (.send "m" "bob" (uctk 80)) = true := by decide
example : (run cfg w0 h6).l.balOf "m" "uctk" = 70 ∧ (run cfg w0 h6).l.balOf "bob" "uctk" = 80 := by decide
-- 7: with only locked coins left, every way out is refused: call with value, deployment with value, fee, multi-send, send to a contract
example : refusedWith (run cfg w0 h6) (.call "m" "c" 1 Cvm.slot0 true "" false) "bank:insufficient-funds" = true := by decide
example : refusedWith (run cfg w0 h6) (.deploy "m" "n" "00" 1) "bank:insufficient-funds" = true := by decide
example : refusedWith (run cfg w0 h6) (.fee "m" (uctk 1)) "bank:insufficient-funds" = true := by decide
example : refusedWith (run cfg w0 h6) (.multiSend "m" [("bob", uctk 1)]) "bank:insufficient-funds" = true := by decide
example : refusedWith (run cfg w0 h6) (.send "m" "c" (uctk 1)) "bank:insufficient-funds" = true := by decide
-- … and a new unlocker cannot be named (hypotheses of `lockedSend_naming_unlocker_changes_nothing`)
example : refusedWith (run cfg w0 h6) (.lockedSend "alice" "m" "v" (uctk 1)) "bank:cannot-change-unlocker" = true := by decide
-- the same call without value is accepted: the contract destroys itself and pays `m`, which only adds to the account
example : accepted (run cfg w0 h6) (.call "m" "c" 0 Cvm.slot0 true "" false) = true := by decide
example : (step cfg (run cfg w0 h6) (.call "m" "c" 0 Cvm.slot0 true "" false)).l.balOf "m" "uctk" = 75 := by decide
-- 8: the locked coins can be delegated; they are then counted in `dv`
example : (run cfg w0 h8).l.balOf "m" "uctk" = 0 ∧ stillLocked (run cfg w0 h8) "m" "uctk" = 70 ∧
    (find (run cfg w0 h8).vs "m").map (fun m => Coins.amountOf m.dv "uctk") = some 70 := by decide
-- the log of the whole history (hypothesis of `logged_unlocks_signed_by_unlocker`) and its sums
example : Change.unlocked "m" "u" (uctk 30) ∈ changes cfg w0 h8 := by decide
example : changes cfg w0 h8 = [.locked "m" (uctk 100), .unlocked "m" "u" (uctk 30)] := by decide
example : lockedIn (changes cfg w0 h8) "m" "uctk" = 100 ∧ unlockedOut (changes cfg w0 h8) "m" "uctk" = 30 := by decide

/-! Why `WF` asks that no vesting account holds code, and why the value of a call is a `Nat`.
    Both are facts about the model functions taken alone; on the chain a vesting address cannot hold code (a deployment address is
    fresh, and a locked send to an account with code is refused) and the value is a `uint64`. -/

/-- a world where the vesting address `m` (100 locked, nothing unlocked) also holds self-destructing code -/
def wCode : World :=
  { l := { posts := [("m", "uctk", 100)], supply := [("uctk", 100)] }
    vs := [{ addr := "m", ov := uctk 100, vested := [], dv := [], df := [], unlocker := "u" }]
    cvm := { contracts := [{ addr := "m", code := "33FF", storage := [] }] }
    accts := ["m", "bob"] }
/-- anybody's call without value empties it: (c) is false for worlds outside `WF` -/
example : stillLocked wCode "m" "uctk" = 100 ∧ (step cfg wCode (.call "bob" "m" 0 Cvm.slot0 true "" false)).l.balOf "m" "uctk" = 0 := by
  decide
/-- the model's `Cvm.call` with a negative value takes the coins from the callee unchecked; `Op.call` cannot express it -/
example : (match Cvm.call "uctk" (run cfg w0 h2).l (run cfg w0 h2).vs (run cfg w0 h2).cvm "bob" "m" (-150) Cvm.slot0 true "" false with
    | .ok (l, _) => l.balOf "m" "uctk"
    | .error _ => -1) = 0 := by decide

end Demo

end Shentu.Props.C19H

#print axioms Shentu.Props.C19H.wf_empty
#print axioms Shentu.Props.C19H.wf_without_vesting
#print axioms Shentu.Props.C19H.step_keeps_wf
#print axioms Shentu.Props.C19H.run_keeps_wf
#print axioms Shentu.Props.C19H.unlocked_within_original
#print axioms Shentu.Props.C19H.unlocker_never_changes
#print axioms Shentu.Props.C19H.unlocker_never_changes_later
#print axioms Shentu.Props.C19H.unlocker_never_changes_mem
#print axioms Shentu.Props.C19H.unlock_by_stranger_changes_nothing
#print axioms Shentu.Props.C19H.lockedSend_naming_unlocker_changes_nothing
#print axioms Shentu.Props.C19H.locked_coins_present
#print axioms Shentu.Props.C19H.locked_coins_present_or_delegated
#print axioms Shentu.Props.C19H.lockInv_always
#print axioms Shentu.Props.C19H.stillLocked_decreases_only_by_unlocker
#print axioms Shentu.Props.C19H.stillLocked_increases_only_by_lockedSend
#print axioms Shentu.Props.C19H.stillLocked_accounting
#print axioms Shentu.Props.C19H.original_and_unlocked_accounting
#print axioms Shentu.Props.C19H.logged_unlocks_signed_by_unlocker
#print axioms Shentu.Props.C19H.logged_amounts_nonneg
#print axioms Shentu.Props.C19H.Demo.w0_wf
