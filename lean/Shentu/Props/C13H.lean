import Shentu.Props.C13
import Shentu.Proofs.C13HLemmas
import Shentu.Proofs.C13HGov
/-!
  C13 at the level of whole histories, and its link to governance.

  `Props/C13.lean` speaks about one operation at a time.  Here the cert module is driven by an
  arbitrary list of operations (`Op`): certificate issue, certificate revocation and platform
  certification, each signed by an arbitrary address, and `govUpdate`, a passed certifier-update
  proposal (the model's `handleUpdate`).  A refused operation leaves the state unchanged (`step`).

  What is proved.

  1. The invariant `WF` holds at a genesis with at least one certifier, distinct addresses and distinct
     non-empty aliases, and every step keeps it.  `WF` says: the council is not empty; certifier addresses
     are pairwise distinct; non-empty aliases are pairwise distinct; the alias index is, as a list, exactly
     the non-empty aliases of the current certifiers with their addresses; certificate identifiers are
     pairwise distinct and below the counter.
  2. The certifier list after a history is the certifier list before it, transformed by exactly the
     accepted `govUpdate` operations in order.  Under `WF` the same list is a function of the certifier
     list and the operations alone (`councilStep`).
  3. With a ghost log of every step: every certificate present was issued by a step signed by a
     then-certifier; every certificate removed was removed by a revocation signed by a then-certifier;
     a certificate issued and not revoked is found by identifier, certifier and content at the end;
     identifiers are handed out in strictly increasing order, so none is used twice.
  4. In the governance model, `submit`, `addDeposit` and `vote` leave the `Cert.State` of the world
     unchanged.  `endBlock` changes it only by a sequence of `handleUpdate` calls, one for each
     proposal of kind "certifierUpdate" whose tally passed in that very block and which was stored as
     passed (`Path`: the actual execution, hop by hop).  The one-proposal-per-step wording is false
     (two proposals can pass in one block); the counterexample is kept.  Cert messages and governance
     steps interleaved in any order (`wrun`) move the council only by such finalised proposals.

  What is assumed: nothing beyond `WF` of the starting state where a theorem says so.  The genesis
  state is the one defined here (`genesis`): the alias store is written from the same list as the
  certifier store.
-/
namespace Shentu.Props.C13H
open Shentu Shentu.Cert Shentu.C13H

/-! ### 1. The invariant -/

/-- Every step keeps the invariant, whether the operation is accepted or refused. -/
theorem wf_step (s : State) (o : Op) (hw : WF s) : WF (step s o) := step_wf o hw

/-- The invariant holds after every history that starts in a state where it holds. -/
theorem wf_history (s : State) (ops : List Op) (hw : WF s) : WF (run s ops) := run_wf ops hw

/-- A genesis with at least one certifier, distinct addresses, distinct non-empty aliases and
    distinct certificate identifiers below the counter satisfies the invariant. -/
theorem wf_genesis (cs : List Certifier) (certs : List Certificate) (nextId : Nat)
    (h1 : cs ≠ []) (h2 : (cs.map (·.addr)).Nodup) (h3 : (aliasesOf cs).Nodup)
    (h4 : (certs.map (·.id)).Nodup) (h5 : ∀ c ∈ certs, c.id < nextId) : WF (genesis cs certs nextId) :=
  genesis_wf cs certs nextId h1 h2 h3 h4 h5

/-- The invariant implies the three per-operation invariants of `Props/C13.lean`.
    In particular the alias index has no stale entry and misses none, and no two certifiers share a non-empty alias. -/
theorem wf_implies_c13_invariants (s : State) (hw : WF s) :
    s.certifiers ≠ [] ∧ C13.AddrInv s ∧ C13.AliasInv s ∧ C13.IdInv s := by
  refine ⟨hw.nonempty, hw.addrs, ⟨?_, ?_⟩, ⟨hw.below, hw.ids⟩⟩
  · intro al ad; rw [hw.index]; exact mem_aliasIndexOf s.certifiers al ad
  · intro c1 h1 c2 h2 hne heq
    rw [eq_of_alias_eq hw.aliases h1 h2 hne heq]

/-- After every history from a well-formed state the council is not empty, addresses are distinct,
    no non-empty alias is shared, and the alias index matches the council. -/
theorem council_always_sound (s : State) (ops : List Op) (hw : WF s) :
    (run s ops).certifiers ≠ [] ∧ C13.AddrInv (run s ops) ∧ C13.AliasInv (run s ops) ∧ C13.IdInv (run s ops) :=
  wf_implies_c13_invariants _ (run_wf ops hw)

/-! ### 2. The council changes only by governance -/

/-- The certifier list after a history is the list before it, transformed by exactly the accepted
    governance updates of the history, in order.  An accepted addition appends; an accepted removal filters. -/
theorem council_changes_only_by_governance (s : State) (ops : List Op) :
    (run s ops).certifiers = (passedUpdates s ops).foldl applyOp s.certifiers := run_certifiers s ops

/-- The accepted governance updates are `govUpdate` operations of the history. -/
theorem passed_updates_are_governance (s : State) (ops : List Op) :
    ∀ o ∈ passedUpdates s ops, o ∈ ops ∧ ∃ a al p add, o = .govUpdate a al p add := by
  intro o ho
  obtain ⟨h1, h2⟩ := mem_passedUpdates ho
  refine ⟨h1, ?_⟩
  cases o with
  | govUpdate a al p add => exact ⟨a, al, p, add, rfl⟩
  | issue => cases h2
  | revoke => cases h2
  | certifyPlatform => cases h2

/-- A history without a governance update leaves the council and the alias index as they were. -/
theorem no_governance_no_change (s : State) (ops : List Op) (h : ∀ o ∈ ops, o.isGov = false) :
    (run s ops).certifiers = s.certifiers ∧ (run s ops).aliasIdx = s.aliasIdx := by
  refine ⟨?_, run_aliasIdx_no_gov s ops h⟩
  rw [run_certifiers, passedUpdates_nil_of_no_gov s ops h]; rfl

/-- From a well-formed state the council after a history is a function of the certifier list and the
    operations alone.  Certificates, the counter, platforms and signers have no influence on it. -/
theorem council_closed_form (s : State) (ops : List Op) (hw : WF s) :
    (run s ops).certifiers = ops.foldl councilStep s.certifiers := run_councilStep hw ops

/-! ### 3. Certificates, with a ghost log -/

/-- The ghost log is faithful.  Carrying it along changes nothing in the state.
    Its lines are the operations of the history in order.
    Each line records the state reached by the operations before it. -/
theorem log_faithful (s : State) (ops : List Op) :
    (grun { s := s, log := [] } ops).s = run s ops ∧
    (grun { s := s, log := [] } ops).log = glog s ops ∧
    (glog s ops).map (·.op) = ops ∧
    ∀ e, e ∈ glog s ops ↔ ∃ before after, ops = before ++ e.op :: after ∧ e.pre = run s before := by
  refine ⟨?_, ?_, glog_ops s ops, mem_glog_iff s ops⟩
  · rw [grun_eq]
  · rw [grun_eq]; rfl

/-- Every certificate present after a history was there at the start, or was created by an `issue`
    step of the history whose signer was a certifier in the state at that step.
    The certificate carries that signer, the kind and content of the message, and the counter value of that moment. -/
theorem present_was_issued (s : State) (ops : List Op) (c : Certificate) (hc : c ∈ (run s ops).certs) :
    c ∈ s.certs ∨ ∃ e ∈ glog s ops, ∃ a k ct, e.op = .issue a k ct ∧ isCertifier e.pre a = true ∧
      c = { id := e.pre.nextId, kind := k, content := ct, certifier := a } := run_certs_mem hc

/-- Every certificate that is gone after a history was removed by an accepted `revoke` step for its
    identifier, signed by an address that was a certifier at that step; the certificate was present just before. -/
theorem removed_was_revoked (s : State) (ops : List Op) (c : Certificate) (hc : c ∈ s.certs) (hg : c ∉ (run s ops).certs) :
    ∃ e ∈ glog s ops, ∃ r, e.op = .revoke r c.id ∧ isCertifier e.pre r = true ∧ e.ok = true ∧ c ∈ e.pre.certs :=
  run_certs_gone hc hg

/-- Every platform certification present after a history was there at the start, or was written by a
    `certifyPlatform` step of the history whose signer was a certifier in the state at that step. -/
theorem platform_was_certified (s : State) (ops : List Op) (x : String × String) (hx : x ∈ (run s ops).platforms) :
    x ∈ s.platforms ∨ ∃ e ∈ glog s ops, ∃ a pk d, e.op = .certifyPlatform a pk d ∧ isCertifier e.pre a = true ∧ x = (pk, d) :=
  run_platforms_mem hx

/-- Messages are accepted exactly from certifiers: an issue or a platform certification succeeds iff the
    signer is a certifier in the state it is applied to, a revocation iff moreover the certificate exists. -/
theorem accepted_iff_signed_by_certifier (s : State) (a : Addr) (k ct pk d : String) (id : Nat) :
    succeeds s (.issue a k ct) = isCertifier s a ∧
    succeeds s (.certifyPlatform a pk d) = isCertifier s a ∧
    succeeds s (.revoke a id) = (s.certs.any (·.id == id) && isCertifier s a) :=
  ⟨succeeds_issue s a k ct, succeeds_platform s a pk d, succeeds_revoke s a id⟩

/-- Retrievability.  Start well-formed, run `before`, let a then-certifier issue a certificate, run `after`.
    If no accepted revocation of its identifier occurs in `after`, the certificate is found by its identifier,
    unchanged, at the end.  It is also among the certificates of its certifier and among those with its content. -/
theorem issued_stays_retrievable (s0 : State) (hw : WF s0) (before after : List Op) (a : Addr) (k ct : String)
    (hcert : isCertifier (run s0 before) a = true)
    (hno : ∀ e ∈ glog (run s0 (before ++ [.issue a k ct])) after, ∀ r,
      e.op = .revoke r (run s0 before).nextId → e.ok = false) :
    (run s0 (before ++ .issue a k ct :: after)).certs.find? (·.id == (run s0 before).nextId) =
        some { id := (run s0 before).nextId, kind := k, content := ct, certifier := a } ∧
    ({ id := (run s0 before).nextId, kind := k, content := ct, certifier := a } : Certificate) ∈
        (run s0 (before ++ .issue a k ct :: after)).certs.filter (·.certifier == a) ∧
    ({ id := (run s0 before).nextId, kind := k, content := ct, certifier := a } : Certificate) ∈
        (run s0 (before ++ .issue a k ct :: after)).certs.filter (·.content == ct) := by
  have hstep : step (run s0 before) (.issue a k ct) = _ := step_of_ok (exec_issue_of_certifier k ct hcert)
  have hrun1 : run s0 (before ++ [.issue a k ct]) = step (run s0 before) (.issue a k ct) := by
    rw [run_append]; rfl
  have hrun : run s0 (before ++ .issue a k ct :: after) = run (step (run s0 before) (.issue a k ct)) after := by
    rw [run_append]; rfl
  have hmem : ({ id := (run s0 before).nextId, kind := k, content := ct, certifier := a } : Certificate) ∈
      (run s0 (before ++ .issue a k ct :: after)).certs := by
    rw [hrun]
    apply run_certs_stay
    · rw [hstep]; simp
    · rw [← hrun1]; exact hno
  have hwf : WF (run s0 (before ++ .issue a k ct :: after)) := run_wf _ hw
  refine ⟨find_of_mem hwf.ids hmem, ?_, ?_⟩
  · exact List.mem_filter.mpr ⟨hmem, by simp⟩
  · exact List.mem_filter.mpr ⟨hmem, by simp⟩

/-- Identifiers are never reused.  The identifiers handed out over a history are strictly increasing in
    the order of issue, hence pairwise different, also after revocations.
    Each lies at or above the counter at the start and below the counter at the end. -/
theorem ids_never_reused (s : State) (ops : List Op) :
    (issuedIds s ops).Pairwise (· < ·) ∧ (issuedIds s ops).Nodup ∧
    ∀ i ∈ issuedIds s ops, s.nextId ≤ i ∧ i < (run s ops).nextId := by
  refine ⟨issuedIds_increasing s ops, ?_, issuedIds_bounds s ops⟩
  exact (issuedIds_increasing s ops).imp (fun h => Nat.ne_of_lt h)

/-- From a well-formed state, no identifier handed out during the history equals the identifier of a
    certificate that existed at the start; and every certificate present at the end is an initial one or
    carries one of the identifiers handed out. -/
theorem new_ids_are_fresh (s : State) (ops : List Op) (hw : WF s) :
    (∀ i ∈ issuedIds s ops, ∀ c ∈ s.certs, c.id ≠ i) ∧
    (∀ c ∈ (run s ops).certs, c ∈ s.certs ∨ c.id ∈ issuedIds s ops) := by
  constructor
  · intro i hi c hc
    have h1 := (issuedIds_bounds s ops i hi).1
    have h2 := hw.below c hc
    omega
  · intro c hc
    rcases run_certs_mem hc with h | ⟨e, he, a, k, ct, ho, hcert, rfl⟩
    · exact Or.inl h
    · exact Or.inr (mem_issuedIds he ho hcert)

/-! ### 4. The link to governance -/

open Shentu.Gov in
/-- Submitting a proposal, depositing and voting leave the council (the whole `Cert.State`) unchanged.
    `submit` runs the handler only as a dry run: the model discards the handler's result. -/
theorem gov_messages_leave_council (e : Env) (w w' : World) (a : Addr) (p0 : Proposal) (d : Coins) (pid o : Nat) :
    (submit e w a p0 d = .ok w' ∨ addDeposit e w pid a d = .ok w' ∨ vote w pid a o = .ok w') → w'.c = w.c := by
  rintro (h | h | h)
  · exact submit_c h
  · exact addDeposit_c h
  · exact vote_c h

open Shentu.Gov in
/-- the one-proposal wording of the link: the council after a governance step is the council before, or
    the result of `handleUpdate` for one certifier-update proposal -/
def SingleUpdate (w w' : World) : Prop :=
  w'.c = w.c ∨ ∃ p : Proposal, p.kind = "certifierUpdate" ∧ exec w.c (opOf p) = .ok w'.c

namespace Witness
open Shentu.Gov

def tp : TallyParams := ⟨Dec.zero, Dec.zero, Dec.zero⟩
/-- a certifier-update proposal in the certifier round whose voting period ends at time 5 -/
def prop (id : Nat) (a : Addr) (al : String) : Proposal :=
  { id := id, kind := "certifierUpdate", cuCertifier := a, cuAlias := al, cuAdd := true, cuProposer := "a", status := 2,
    isCouncil := true, proposer := "a", totalDeposit := [], submitTime := 0, depositEnd := 0, votingStart := 0,
    votingEnd := 5, tally := ⟨0, 0, 0, 0⟩ }
/-- two such proposals, both approved by the only certifier -/
def gov0 : Gov.State :=
  { proposals := [prop 1 "b" "bob", prop 2 "c" ""], deposits := [], votes := [⟨1, "a", 1⟩, ⟨2, "a", 1⟩], nextId := 3,
    params := Params.mk [] [] 10 10 tp tp tp }
def cert0 : Cert.State := genesis [⟨"a", "alice", "a"⟩] [] 1
def w0 : World := ⟨default, gov0, cert0⟩
def e0 : Env := { t := 10, bond := "uctk", modAddr := "gov", stake := { vals := [], dels := [], totalBonded := 0 } }
def councilAfter (r : Except Err World) : List Addr :=
  match r with
  | .ok w => w.c.certifiers.map Certifier.addr
  | .error x => [x.kind]

/-- in this block both proposals pass and both certifiers are added -/
theorem two_pass_in_one_block : councilAfter (endBlock e0 w0) = ["a", "b", "c"] := by decide

end Witness

open Shentu.Gov in
/-- The one-proposal wording is FALSE for `endBlock`: when two certifier-update proposals reach the end of
    their voting period in the same block and both pass, the council changes by two updates in one step. -/
theorem gov_step_single_update_fails : ¬ ∀ (e : Env) (w w' : World), endBlock e w = .ok w' → SingleUpdate w w' := by
  intro hall
  have h2 := Witness.two_pass_in_one_block
  cases hr : endBlock Witness.e0 Witness.w0 with
  | error x =>
    rw [hr] at h2
    simp only [Witness.councilAfter] at h2
    exact absurd (congrArg List.length h2) (by simp)
  | ok w' =>
    rw [hr] at h2
    simp only [Witness.councilAfter] at h2
    have hlen : w'.c.certifiers.length = 3 := by
      have := congrArg List.length h2
      simpa using this
    rcases hall _ _ _ hr with h | ⟨p, _, hex⟩
    · rw [h] at hlen; simp [Witness.w0, Witness.cert0, genesis] at hlen
    · have := exec_certifiers hex
      rw [this] at hlen
      simp only [Witness.w0, Witness.cert0, genesis, opOf, applyOp] at hlen
      cases hadd : p.cuAdd
      · rw [hadd] at hlen; simp only at hlen
        have := List.length_filter_le (fun x : Certifier => !(x.addr == p.cuCertifier)) [⟨"a", "alice", "a"⟩]
        simp only [List.length_cons, List.length_nil] at this
        omega
      · rw [hadd] at hlen; simp at hlen

open Shentu.Gov in
/-- The true form of the link for the end of a block, on the actual execution.
    The end blocker is a path of worlds; every hop is one real call of one of its three loop bodies on a stored proposal.
    A hop keeps the `Cert.State`, or it finalises its proposal as passed (`FinalisedAt`): the kind is
    "certifierUpdate", the tally of the proposal's round computed on the world of that hop passed,
    `handleUpdate` applied to the council of that world accepted and gave the council of the next world,
    and the proposal is stored there with status 4.
    The council at the end is the council at the start after exactly those updates, in order, all accepted.
    What is missing with respect to the one-proposal wording: the list can be longer than one. -/
theorem end_block_council_partial (e : Env) (w w' : World) (h : endBlock e w = .ok w') :
    ∃ ps : List Proposal, Path e w ps w' ∧ (∀ p ∈ ps, p.kind = "certifierUpdate") ∧
      w'.c = run w.c (ps.map opOf) ∧ AllAccepted w.c (ps.map opOf) := by
  obtain ⟨ps, hp⟩ := endBlock_path h
  exact ⟨ps, hp, hp.chain.kinds, hp.chain.accepted.2, hp.chain.accepted.1⟩

open Shentu.Gov in
/-- The true form of the link, for every governance step (submit, deposit, vote, end of block).
    The `Cert.State` after the step is reached from the one before by a chain of `handleUpdate` calls.
    Each link of the chain belongs to a stored proposal of kind "certifierUpdate" whose tally (certifier
    round or stake round) passed at that moment, whose handler accepted, and which was stored with
    status 4 (passed).  For the three messages the chain is empty.
    What is missing with respect to the one-proposal wording: the chain can be longer than one. -/
theorem gov_step_council_partial (e : Env) (w w' : World) (o : GovOp) (h : govExec e w o = .ok w') :
    ∃ ps : List Proposal, Chain e w.c ps w'.c ∧ (o.isEndBlock = false → ps = []) ∧
      (∀ p ∈ ps, p.kind = "certifierUpdate" ∧ ∃ c1 c2, Finalised e c1 c2 p) ∧
      w'.c = run w.c (ps.map opOf) ∧ AllAccepted w.c (ps.map opOf) := by
  obtain ⟨ps, hch, hnil⟩ := govExec_chain h
  exact ⟨ps, hch, hnil, fun p hp => ⟨hch.kinds p hp, hch.finalised p hp⟩, hch.accepted.2, hch.accepted.1⟩

open Shentu.Gov in
/-- Over a whole governance history (any messages and blocks, any environments), the `Cert.State` of the
    world moves only by accepted `govUpdate` operations.  So parts 1 and 2 apply to it: the council
    stays well-formed, and it is the old council transformed by those updates in order. -/
theorem gov_history_council (w : World) (h : List (Env × GovOp)) :
    ∃ ups : List Op, AllAccepted w.c ups ∧ (govRun w h).c = run w.c ups ∧
      (govRun w h).c.certifiers = ups.foldl applyOp w.c.certifiers ∧
      (govRun w h).c.certs = w.c.certs ∧
      (WF w.c → WF (govRun w h).c) := by
  obtain ⟨ups, hacc, hrun⟩ := govRun_updates w h
  refine ⟨ups, hacc, hrun, ?_, ?_, ?_⟩
  · rw [hrun, run_certifiers, hacc.2]
  · rw [hrun]
    have hgov := hacc.1
    clear hacc hrun
    generalize w.c = c at *
    induction ups generalizing c with
    | nil => rfl
    | cons o os ih =>
      rw [run_cons, ih (fun x hx => hgov x (List.mem_cons_of_mem _ hx))]
      have := hgov o List.mem_cons_self
      rcases step_cases c o with ⟨s', he, hs, _⟩ | ⟨hs, _⟩
      · rw [hs]
        cases o with
        | govUpdate a al p add =>
          cases add with
          | true => obtain ⟨_, _, rfl⟩ := add_ok he; rfl
          | false => obtain ⟨_, _, _, rfl⟩ := remove_ok he; rfl
        | issue => cases this
        | revoke => cases this
        | certifyPlatform => cases this
      · rw [hs]
  · intro hw; rw [hrun]; exact run_wf ups hw

open Shentu.Gov in
/-- The whole chain: cert messages (signed by anyone) and governance steps (in any environments) interleaved
    in any order.  The `Cert.State` of the world after the history is the run of a list of cert operations.
    Every `govUpdate` in that list was accepted, and each one is the update of a proposal of kind
    "certifierUpdate" that an end-of-block step of this history finalised as passed.
    Hence the council after the history is the council before, transformed by those updates in order,
    and a well-formed council stays well-formed (never empty, no shared alias, exact alias index). -/
theorem world_history_council (w : World) (h : List WOp) :
    ∃ ops : List Op, (wrun w h).c = run w.c ops ∧ passedUpdates w.c ops = ops.filter Op.isGov ∧
      (∀ o ∈ ops, o.isGov = true → ∃ e p c1 c2, WOp.gov e .endBlock ∈ h ∧ o = opOf p ∧ Finalised e c1 c2 p) ∧
      (wrun w h).c.certifiers = (ops.filter Op.isGov).foldl applyOp w.c.certifiers ∧
      (WF w.c → WF (wrun w h).c) := by
  obtain ⟨ops, h1, h2, h3⟩ := wrun_ops w h
  refine ⟨ops, h1, h2, h3, ?_, ?_⟩
  · rw [h1, run_certifiers, h2]
  · intro hw; rw [h1]; exact run_wf ops hw

open Shentu.Gov in
/-- A history in which no block ends leaves the council and the alias index exactly as they were, whatever
    cert messages, proposals, deposits and votes it contains. -/
theorem no_block_end_no_council_change (w : World) (h : List WOp) (hno : ∀ e, WOp.gov e .endBlock ∉ h) :
    (wrun w h).c.certifiers = w.c.certifiers ∧ (wrun w h).c.aliasIdx = w.c.aliasIdx := by
  obtain ⟨ops, h1, _, h3⟩ := wrun_ops w h
  have hng : ∀ o ∈ ops, o.isGov = false := by
    intro o ho
    cases hg : o.isGov with
    | false => rfl
    | true =>
      obtain ⟨e, _, _, _, hm, _⟩ := h3 o ho hg
      exact absurd hm (hno e)
  rw [h1]
  exact no_governance_no_change w.c ops hng

/-! ### 5. The hypotheses can be met, and the model refuses what it should -/

namespace Demo

/-- a council of one: `a`, known as "alice" -/
def g0 : State := genesis [⟨"a", "alice", "a"⟩] [] 1

/-- add `b` as "bob"; `b` issues a certificate; remove `a`; try to remove `b`, the last one; try to add `c`
    under the used alias "bob"; a stranger tries to issue; `b` revokes its certificate; `b` issues another one -/
def history : List Op :=
  [.govUpdate "b" "bob" "a" true, .issue "b" "audit" "0xc0de", .govUpdate "a" "" "b" false,
   .govUpdate "b" "" "b" false, .govUpdate "c" "bob" "b" true, .issue "z" "audit" "x", .revoke "b" 1,
   .issue "b" "audit" "0xbeef"]

example : WF g0 :=
  wf_genesis _ _ _ (by decide) (by decide) (by decide) (by decide) (by simp)

/-- the new certifier is in, the old one is out -/
example : (run g0 history).certifiers = [⟨"b", "bob", "a"⟩] := by decide
/-- the alias index follows: the entry of the removed certifier is gone -/
example : (run g0 history).aliasIdx = [("bob", "b")] := by decide
/-- the removal of the last certifier, the duplicate alias and the stranger are refused; the rest is accepted -/
example : (glog g0 history).map (·.ok) = [true, true, true, false, false, false, true, true] := by decide
/-- exactly two governance updates took effect -/
example : passedUpdates g0 history = [.govUpdate "b" "bob" "a" true, .govUpdate "a" "" "b" false] := by decide
/-- the identifier of the revoked certificate is not handed out again -/
example : issuedIds g0 history = [1, 2] := by decide
example : (run g0 history).certs = [⟨2, "audit", "0xbeef", "b"⟩] := by decide
/-- the closed form gives the same council -/
example : history.foldl councilStep g0.certifiers = [⟨"b", "bob", "a"⟩] := by decide

/-- the hypotheses of `issued_stays_retrievable` are met: `b` is a certifier after the first operation, and the
    three operations after its issue contain no accepted revocation of identifier 1 -/
example : isCertifier (run g0 (history.take 1)) "b" = true ∧
    (∀ e ∈ glog (run g0 (history.take 1 ++ [.issue "b" "audit" "0xc0de"])) ((history.drop 2).take 3), ∀ r,
      e.op = .revoke r (run g0 (history.take 1)).nextId → e.ok = false) := by
  refine ⟨by decide, ?_⟩
  intro e he r hr
  simp only [history, List.take, List.drop, glog, List.mem_cons, List.not_mem_nil, or_false] at he
  rcases he with rfl | rfl | rfl <;> cases hr

/-- the hypotheses of `removed_was_revoked` are met: certificate 1 is present after two operations and gone at the end -/
example : (⟨1, "audit", "0xc0de", "b"⟩ : Certificate) ∈ (run g0 (history.take 2)).certs ∧
    (⟨1, "audit", "0xc0de", "b"⟩ : Certificate) ∉ (run (run g0 (history.take 2)) (history.drop 2)).certs := by decide

/-- a governance step that meets the hypothesis of `gov_step_council_partial` and changes the council -/
example : ∃ w', Gov.endBlock Witness.e0 Witness.w0 = .ok w' := by
  cases h : Gov.endBlock Witness.e0 Witness.w0 with
  | ok w' => exact ⟨w', rfl⟩
  | error x =>
    have := Witness.two_pass_in_one_block
    rw [h] at this
    simp only [Witness.councilAfter] at this
    exact absurd (congrArg List.length this) (by simp)

/-- a chain history: the block ends and two proposals pass, the new certifier `b` issues a certificate, a stranger
    is refused, a vote is cast; the council is the two updates applied to the old one -/
example : (wrun Witness.w0 [.gov Witness.e0 .endBlock, .cert (.issue "b" "audit" "0xc0de"), .cert (.issue "z" "audit" "x"),
      .gov Witness.e0 (.vote 1 "a" 1)]).c.certifiers.map Certifier.addr = ["a", "b", "c"] := by decide
example : (wrun Witness.w0 [.gov Witness.e0 .endBlock, .cert (.issue "b" "audit" "0xc0de"), .cert (.issue "z" "audit" "x"),
      .gov Witness.e0 (.vote 1 "a" 1)]).c.certs = [⟨1, "audit", "0xc0de", "b"⟩] := by decide

/-- the path of that block is not trivial: at least one hop finalises a proposal -/
example : ∃ w' ps, Path Witness.e0 Witness.w0 ps w' ∧ ps ≠ [] := by
  cases h : Gov.endBlock Witness.e0 Witness.w0 with
  | error x =>
    have := Witness.two_pass_in_one_block
    rw [h] at this
    simp only [Witness.councilAfter] at this
    exact absurd (congrArg List.length this) (by simp)
  | ok w' =>
    obtain ⟨ps, hp, _, hrun, _⟩ := end_block_council_partial _ _ _ h
    refine ⟨w', ps, hp, ?_⟩
    rintro rfl
    have h2 := Witness.two_pass_in_one_block
    rw [h] at h2
    simp only [Witness.councilAfter] at h2
    rw [hrun] at h2
    exact absurd (congrArg List.length h2) (by simp [Witness.w0, Witness.cert0, genesis])

/-- the hypothesis of `no_governance_no_change` is met by a history of messages -/
example : ∀ o ∈ [Op.issue "a" "audit" "x", .revoke "a" 1, .certifyPlatform "a" "pk" "d"], o.isGov = false := by decide

/-- the hypothesis of `platform_was_certified` is met -/
example : (run g0 [.certifyPlatform "z" "pk0" "no", .certifyPlatform "a" "pk" "d"]).platforms = [("pk", "d")] := by decide

/-- the hypothesis of `gov_messages_leave_council` is met: the certifier's vote is accepted -/
example : (match Gov.vote Witness.w0 1 "a" 1 with | .ok _ => true | .error _ => false) = true := by decide

/-- the hypothesis of `no_block_end_no_council_change` is met by a history of messages and votes -/
example : ∀ e, WOp.gov e .endBlock ∉ [WOp.cert (.issue "a" "audit" "x"), .gov Witness.e0 (.vote 1 "a" 1)] := by
  intro e h
  simp at h

/-- the starting council of the governance witness is well-formed -/
example : WF Witness.w0.c := wf_genesis _ _ _ (by decide) (by decide) (by decide) (by decide) (by simp)

end Demo

end Shentu.Props.C13H

#print axioms Shentu.Props.C13H.wf_step
#print axioms Shentu.Props.C13H.wf_history
#print axioms Shentu.Props.C13H.wf_genesis
#print axioms Shentu.Props.C13H.wf_implies_c13_invariants
#print axioms Shentu.Props.C13H.council_always_sound
#print axioms Shentu.Props.C13H.council_changes_only_by_governance
#print axioms Shentu.Props.C13H.passed_updates_are_governance
#print axioms Shentu.Props.C13H.no_governance_no_change
#print axioms Shentu.Props.C13H.council_closed_form
#print axioms Shentu.Props.C13H.log_faithful
#print axioms Shentu.Props.C13H.present_was_issued
#print axioms Shentu.Props.C13H.removed_was_revoked
#print axioms Shentu.Props.C13H.platform_was_certified
#print axioms Shentu.Props.C13H.accepted_iff_signed_by_certifier
#print axioms Shentu.Props.C13H.issued_stays_retrievable
#print axioms Shentu.Props.C13H.ids_never_reused
#print axioms Shentu.Props.C13H.new_ids_are_fresh
#print axioms Shentu.Props.C13H.gov_messages_leave_council
#print axioms Shentu.Props.C13H.Witness.two_pass_in_one_block
#print axioms Shentu.Props.C13H.gov_step_single_update_fails
#print axioms Shentu.Props.C13H.end_block_council_partial
#print axioms Shentu.Props.C13H.gov_step_council_partial
#print axioms Shentu.Props.C13H.gov_history_council
#print axioms Shentu.Props.C13H.world_history_council
#print axioms Shentu.Props.C13H.no_block_end_no_council_change
