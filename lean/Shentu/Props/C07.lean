import Shentu.Proofs.ShieldCollSteps
/-
  C07 — Collateral leaves the pool only after the full withdrawal period.

  Vocabulary (Shentu/Proofs/ShieldColl*.lean): `collOf s a` is the collateral recorded for `a`, `qsum s a` the total
  `a` has queued, `dueBy a T q` the part of it that matures by `T`; `Op`, `step`, `run` are the histories of C03a;
  `Req` is a logged request (who, how much, when), `logSum P log a T` the amount `a` requested at or before `T − P`.
-/
namespace Shentu.Props.C07
open Shentu Shentu.Shield Shentu.Shield.Coll Shentu.Props.C03a

/-! ## "a request can never exceed the provider's collateral not already being withdrawn" -/

/-- `WithdrawCollateral` with a non-zero amount succeeds exactly when the address is a provider and the amount is
    within its collateral not already being withdrawn -/
theorem request_bounded (e : Env) (s : State) (a : Addr) (amount : Int) (h0 : amount ≠ 0) :
    (∃ s', withdrawCollateral e s a amount = .ok s') ↔
      ∃ p, findProvider s a = some p ∧ amount ≤ p.collateral - p.withdrawing :=
  withdrawCollateral_ok_iff e s a amount h0

/-- the same for the message `MsgWithdrawCollateral`: it succeeds exactly when the coins are valid (all positive, only
    the bond denomination — then the amount is positive) and the amount is within the provider's free collateral -/
theorem request_bounded_msg (e : Env) (s : State) (a : Addr) (coins : Coins) :
    (∃ s', withdraw e s a coins = .ok s') ↔
      (Coins.isAllPositive coins = true ∧ (Coins.denoms coins).any (· != e.bond) = false ∧ 0 < Coins.amountOf coins e.bond ∧
       ∃ p, findProvider s a = some p ∧ Coins.amountOf coins e.bond ≤ p.collateral - p.withdrawing) := by
  constructor
  · intro ⟨s', h⟩
    have hs := withdraw_spec e s s' a coins h
    unfold withdraw at h
    split at h
    · cases h
    · rename_i h1
      split at h
      · cases h
      · rename_i h2
        refine ⟨by simpa using h1, by simpa using h2, hs.1, ?_⟩
        exact (request_bounded e s a _ (by omega)).mp ⟨s', hs.2⟩
  · intro ⟨h1, h2, h3, h4⟩
    unfold withdraw
    simp only [h1, h2, Bool.not_true, Bool.false_eq_true, if_false]
    exact (request_bounded e s a _ (by omega)).mpr h4

/-- the withdrawal forced by the staking hooks is exactly the collateral not being withdrawn that exceeds the new
    stake, so it is within the collateral not already being withdrawn as well -/
theorem forced_request_bounded (e : Env) (s s' : State) (a : Addr) (staked : Int) (h : stakingHook e s a staked = .ok s') :
    ∀ r ∈ hookLog e s a staked, ∃ p, findProvider s a = some p ∧ r.addr = a ∧ r.time = e.t ∧
      r.amount = p.collateral - p.withdrawing - staked ∧ 0 < r.amount ∧ r.amount ≤ p.collateral - p.withdrawing := by
  intro r hr
  rcases stakingHook_spec e s s' a staked h with ⟨hf, _⟩ | ⟨p, hf, ⟨hw, _⟩ | ⟨hw, hst, _⟩⟩
  · simp [hookLog, hf] at hr
  · have : ¬ (p.collateral - p.withdrawing - staked > 0) := by omega
    simp only [hookLog, hf, this, if_false] at hr
    cases hr
  · have : p.collateral - p.withdrawing - staked > 0 := by omega
    simp only [hookLog, hf, this, if_true, List.mem_singleton] at hr
    subst hr
    exact ⟨p, hf, rfl, rfl, rfl, hw, by simp only; omega⟩

/-- a successful request raises the provider's withdrawing amount by exactly the amount and leaves its collateral alone -/
theorem request_books (e : Env) (s s' : State) (a : Addr) (amount : Int) (h : withdrawCollateral e s a amount = .ok s') :
    wdgOf s' a = wdgOf s a + amount ∧ ∀ b, collOf s' b = collOf s b := by
  rcases withdrawCollateral_spec e s s' a amount h with ⟨h0, h1⟩ | ⟨h0, p, hf, hle, h1⟩
  · rw [h1, h0]; exact ⟨by omega, fun _ => rfl⟩
  · subst h1
    refine ⟨?_, requested_collOf hf⟩
    rw [wdgOf_update hf (p' := { p with withdrawing := p.withdrawing + amount }) (findProvider_some hf).2 rfl, wdgOf_found hf]
    simp

/-! ## "a withdrawal request that has waited at least the configured withdraw period" -/

/-- a successful request adds exactly one entry — the requested amount, completing a full withdraw period after the
    block time — and changes no other entry: the new queue is the old one with the entry put in (as a multiset, and
    as a list: between two untouched parts of the old queue) -/
theorem request_enqueued_at_full_period (e : Env) (s s' : State) (a : Addr) (amount : Int) (h0 : amount ≠ 0)
    (h : withdrawCollateral e s a amount = .ok s') :
    s'.withdraws.Perm ({ addr := a, amount := amount, time := e.t + s.params.withdrawPeriod } :: s.withdraws) ∧
    ∃ l1 l2, s.withdraws = l1 ++ l2 ∧
      s'.withdraws = l1 ++ { addr := a, amount := amount, time := e.t + s.params.withdrawPeriod } :: l2 := by
  rcases withdrawCollateral_spec e s s' a amount h with ⟨h1, _⟩ | ⟨_, p, hf, hle, h1⟩
  · exact absurd h1 h0
  · subst h1
    refine ⟨insertWithdraw_perm _ _, ?_⟩
    obtain ⟨l1, l2, g1, g2, _, _⟩ := insertWithdraw_split { addr := a, amount := amount, time := e.t + s.params.withdrawPeriod } s.withdraws
    exact ⟨l1, l2, g1, g2⟩

/-- the same for the message -/
theorem request_enqueued_msg (e : Env) (s s' : State) (a : Addr) (coins : Coins) (h : withdraw e s a coins = .ok s') :
    s'.withdraws.Perm ({ addr := a, amount := Coins.amountOf coins e.bond, time := e.t + s.params.withdrawPeriod } :: s.withdraws) := by
  have hs := withdraw_spec e s s' a coins h
  exact (request_enqueued_at_full_period e s s' a _ (by omega) hs.2).1

/-- the same for the withdrawal forced by the staking hooks: the queue grows by exactly the logged requests, each
    completing a full period after the block time -/
theorem forced_enqueued_at_full_period (e : Env) (s s' : State) (a : Addr) (staked : Int) (h : stakingHook e s a staked = .ok s') :
    s'.withdraws.Perm ((hookLog e s a staked).map (fun r => { addr := r.addr, amount := r.amount, time := r.time + s.params.withdrawPeriod })
      ++ s.withdraws) := by
  rcases stakingHook_spec e s s' a staked h with ⟨hf, h1⟩ | ⟨p, hf, ⟨hw, h1⟩ | ⟨hw, hst, h1⟩⟩
  · rw [h1]; simp [hookLog, hf]
  · subst h1
    have : ¬ (p.collateral - p.withdrawing - staked > 0) := by omega
    simp only [hookLog, hf, this, if_false, List.map_nil, List.nil_append]
    exact List.Perm.refl _
  · subst h1
    have : p.collateral - p.withdrawing - staked > 0 := by omega
    simp only [hookLog, hf, this, if_true, List.map_cons, List.map_nil, List.cons_append, List.nil_append]
    exact insertWithdraw_perm _ _

/-! ## "Delays imposed for open claims only postpone releases, never advance, duplicate or drop them" -/

/-- `DelayWithdraws` for provider `a` up to time `t`: as multisets, the new queue is the old one with some entries of `a`
    that matured by `t` moved to `t` (nothing duplicated, nothing dropped, nothing advanced); consequently, for every
    provider and every time `T` the amount maturing by `T` does not increase and the pending total is unchanged; the
    entries of the other providers are untouched, in their order. -/
theorem delay_only_postpones (s s' : State) (a : Addr) (amount t : Int) (hpos : ∀ w ∈ s.withdraws, 0 < w.amount)
    (h : delayWithdraws s a amount t = .ok s') :
    (∃ moved rest, s.withdraws.Perm (moved ++ rest) ∧ s'.withdraws.Perm (moved.map (retime t) ++ rest) ∧
        ∀ w ∈ moved, w.addr = a ∧ w.time ≤ t) ∧
    (∀ b T, dueBy b T s'.withdraws ≤ dueBy b T s.withdraws) ∧
    (∀ b, qsum s' b = qsum s b) ∧
    s'.withdraws.filter (fun w => w.addr != a) = s.withdraws.filter (fun w => w.addr != a) ∧
    s'.providers = s.providers := by
  obtain ⟨q', h1, h2, h3⟩ := delayWithdraws_spec s s' a amount t h
  subst h1
  have hp := h2.postponed
  refine ⟨h2, hp.early hpos, fun b => hp.total _ (fun _ _ => rfl), ?_, rfl⟩
  exact h3 _ (by intro w hw; simp [hw])

/-- what the three layers above `DelayWithdraws` guarantee about the queue (`Postponed`): sums over classes of entries that do
    not look at the time are unchanged, nothing matures earlier, every new entry is an old one (same owner, same
    amount) at the same or a later time and conversely, same number of entries; nothing else in the books changes -/
theorem secureFromProvider_only_postpones (e : Env) (s s' : State) (p : Provider) (amount duration : Int)
    (h : secureFromProvider e s p amount duration = .ok s') :
    Postponed s.withdraws s'.withdraws ∧ s'.providers = s.providers ∧
      s'.withdraws.filter (fun w => w.addr != p.addr) = s.withdraws.filter (fun w => w.addr != p.addr) := by
  have hd := secureFromProvider_delayLike e s s' p amount duration h
  refine ⟨hd.queue, hd.provs, ?_⟩
  rcases secureFromProvider_cases e s s' p amount duration h with h1 | ⟨amt, h1⟩
  · rw [h1]
  · obtain ⟨q', g1, _, g3⟩ := delayWithdraws_spec _ _ _ _ _ h1
    subst g1
    exact g3 _ (by intro w hw; simp [hw])

theorem secureLoop_only_postpones (e : Env) (ratio : Dec) (duration : Int) (ps : List Provider) (rem : Int) (s s' : State)
    (h : secureLoop e ratio duration ps rem s = .ok s') : Postponed s.withdraws s'.withdraws ∧ s'.providers = s.providers := by
  have hd := secureLoop_delayLike e ratio duration ps rem s s' h
  exact ⟨hd.queue, hd.provs⟩

/-- `SecureCollaterals` (claim submission): for every provider and every time, the amount maturing by that time does not
    increase and the pending total is unchanged; no provider's collateral or withdrawing amount changes -/
theorem secureCollaterals_only_postpones (e : Env) (s s' : State) (poolID : Nat) (purchaser : Addr) (purchaseID : Nat)
    (loss duration : Int) (hpos : ∀ w ∈ s.withdraws, 0 < w.amount)
    (h : secureCollaterals e s poolID purchaser purchaseID loss duration = .ok s') :
    Postponed s.withdraws s'.withdraws ∧ (∀ b T, dueBy b T s'.withdraws ≤ dueBy b T s.withdraws) ∧
      (∀ b, qsum s' b = qsum s b) ∧ s'.providers = s.providers := by
  have hd := secureCollaterals_delayLike e s s' poolID purchaser purchaseID loss duration h
  exact ⟨hd.queue, hd.queue.early hpos, fun b => hd.queue.total _ (fun _ _ => rfl), hd.provs⟩

/-! ## releases -/

/-- `DequeueCompletedWithdrawQueue` at block time `e.t` removes exactly the entries with `time ≤ e.t` — no entry with
    `time > e.t` is touched, the rest of the queue keeps its order — and lowers each provider's collateral (and its
    withdrawing amount) by exactly the sum of its removed entries -/
theorem release_only_matured (e : Env) (s s' : State) (hi : CollInv s) (h : completeWithdrawals e s = .ok s') :
    s'.withdraws = s.withdraws.filter (fun w => !(decide (w.time ≤ e.t))) ∧
    (∀ b, collOf s' b = collOf s b - dueBy b e.t s.withdraws) ∧
    (∀ b, wdgOf s' b = wdgOf s b - dueBy b e.t s.withdraws) ∧
    s'.totalCollateral = s.totalCollateral - sumI (·.amount) (s.withdraws.filter (fun w => decide (w.time ≤ e.t))) := by
  have := completeWithdrawals_spec e s s' hi h
  refine ⟨this.2.1, this.2.2.2.1, this.2.2.2.2, ?_⟩
  -- the total: Σ over providers of the per-provider statement would do; directly from the loop:
  have hloop : ∀ (ws : List Withdraw) (s s' : State), completeLoop ws s = .ok s' →
      s'.totalCollateral = s.totalCollateral - sumI (·.amount) ws := by
    intro ws
    induction ws with
    | nil => intro s s' h; unfold completeLoop at h; injection h with h; subst h; simp
    | cons w ws ih =>
      intro s s' h
      unfold completeLoop at h
      split at h
      · cases h
      · rw [ih _ _ h]; simp only [sumI_cons, setProvider_tc]; omega
  unfold completeWithdrawals at h
  exact hloop _ { s with withdraws := s.withdraws.filter (fun w => !(decide (w.time ≤ e.t))) } _ h

/-- the same for the whole `EndBlocker` -/
theorem endBlock_releases_only_matured (e : Env) (s s' : State) (hi : CollInv s) (h : endBlock e s = .ok s') :
    s'.withdraws = s.withdraws.filter (fun w => !(decide (w.time ≤ e.t))) ∧
    (∀ b, collOf s' b = collOf s b - dueBy b e.t s.withdraws) := by
  have := endBlock_spec e s s' hi h
  exact ⟨this.2.1, this.2.2.2.1⟩

/-- the transaction-level operations: everything except the end-blocker / `DequeueCompletedWithdrawQueue` and claim
    payouts (`CreateReimbursement`, a claim that ends `paid`) -/
def isTx (op : Op) : Prop := opCompletes op = none ∧ opPays op = false

/-- no transaction-level operation lowers any provider's collateral (collateral stops counting only through the
    end-blocker's release of matured withdrawals, or through a claim payout) -/
theorem tx_never_releases (op : Op) (w : World) (hi : CollInv w.2) (hadm : op.admissible w.2) (htx : isTx op) :
    ∀ b, collOf w.2 b ≤ collOf (step op w).2 b := by
  intro b
  unfold step
  split
  · rename_i w' h
    exact (apply_facts op w w' hi hadm h).keep htx.1 htx.2 b
  · exact Int.le_refl _

/-! ## the ghost history -/

/-- ghost state: the log of requests, the amount released to each provider so far, the latest block time -/
structure Ghost where
  log : List Req
  released : Addr → Int
  now : Int

/-- one step with its ghost bookkeeping: a successful step logs its requests (`opRequests`: the explicit request of
    `MsgWithdrawCollateral`, the withdrawals forced by the staking hooks, also inside a payout) and, when it is the
    end-blocker, counts as released whatever each provider's collateral went down by; time advances in any case -/
def gstep (op : Op) (x : World × Ghost) : World × Ghost :=
  let now' := (opTime op).getD x.2.now
  match op.apply x.1 with
  | .error _ => (x.1, { x.2 with now := now' })
  | .ok w' =>
    (w', { log := x.2.log ++ opRequests op x.1,
           released := fun b => x.2.released b + (if (opCompletes op).isSome then collOf x.1.2 b - collOf w'.2 b else 0),
           now := now' })

def grun (ops : List Op) (x : World × Ghost) : World × Ghost := ops.foldl (fun x op => gstep op x) x

/-- the ghost does not influence the run -/
theorem grun_fst (ops : List Op) (x : World × Ghost) : (grun ops x).1 = run ops x.1 := by
  induction ops generalizing x with
  | nil => rfl
  | cons op ops ih =>
    show (grun ops (gstep op x)).1 = run ops (step op x.1)
    rw [ih]
    congr 1
    unfold gstep step
    cases op.apply x.1 <;> rfl

/-- block times are non-decreasing along the history (steps without a block time are unconstrained) -/
def Timed : List Op → Int → Prop
  | [], _ => True
  | op :: ops, now => (∀ t, opTime op = some t → now ≤ t) ∧ Timed ops ((opTime op).getD now)

/-- the invariant behind `dominance`: for every provider and every time `T` from now on, what has been released plus
    what is queued to mature by `T` is covered by the requests made at or before `T − P` -/
def GhostInv (P : Int) (g : Ghost) (s : State) : Prop :=
  ∀ a T, g.now ≤ T → g.released a + dueBy a T s.withdraws ≤ logSum P g.log a T

theorem gstep_inv (P : Int) (op : Op) (w : World) (g : Ghost) (hi : CollInv w.2) (hP : w.2.params.withdrawPeriod = P)
    (hadm : op.admissible w.2) (ht : ∀ t, opTime op = some t → g.now ≤ t) (hg : GhostInv P g w.2) :
    CollInv (gstep op (w, g)).1.2 ∧ (gstep op (w, g)).1.2.params.withdrawPeriod = P ∧
      GhostInv P (gstep op (w, g)).2 (gstep op (w, g)).1.2 := by
  have hnow : g.now ≤ (opTime op).getD g.now := by
    cases h : opTime op with
    | none => exact Int.le_refl _
    | some t => exact ht t h
  unfold gstep
  cases h : op.apply w with
  | error x =>
    refine ⟨hi, hP, ?_⟩
    intro a T hT
    exact hg a T (Int.le_trans hnow hT)
  | ok w' =>
    have hf := apply_facts op w w' hi hadm h
    have hi' := apply_collInv op w w' hi hadm h
    refine ⟨hi', by rw [hf.params]; exact hP, ?_⟩
    intro a T hT
    dsimp only at hT ⊢
    have h0 := hg a T (Int.le_trans hnow hT)
    cases hc : opCompletes op with
    | none =>
      have := hf.grow hc a T
      rw [hP] at this
      simp only [Option.isSome_none, Bool.false_eq_true, if_false, logSum_append]
      omega
    | some t =>
      obtain ⟨hq, hcoll⟩ := hf.rel t hc
      have hreq : opRequests op w = [] := by
        cases op <;> simp only [opCompletes] at hc <;> first | rfl | cases hc
      have htime : opTime op = some t := by
        cases op <;> simp only [opCompletes] at hc <;> first | (cases hc; rfl) | cases hc
      have htT : t ≤ T := by rw [htime] at hT; exact hT
      simp only [Option.isSome_some, if_true, hreq, List.append_nil]
      rw [hq, dueBy_filter_not_due a t T _ htT, hcoll a]
      omega

/-- C07, over histories ("by any time T, the collateral released to a provider never exceeds the amounts they requested
    at or before T minus the period"): run any history — messages, staking hooks forcing withdrawals, claim submissions
    delaying them, payouts consuming them, end-blockers with arbitrary non-decreasing block times — from a state and a
    ghost that satisfy the invariant (e.g. an empty queue, see `dominance_from_empty_queue`); then for every provider
    `a`, the amount released to `a` is at most the sum of the amounts `a` requested (explicitly or forced) at least a
    full withdraw period before the current block time.  As `ops` is arbitrary this holds at every point of every history. -/
theorem dominance (P : Int) (ops : List Op) (w : World) (g : Ghost) (hi : CollInv w.2)
    (hP : w.2.params.withdrawPeriod = P) (hadm : Admissible ops w) (htime : Timed ops g.now) (hg : GhostInv P g w.2) :
    ∀ a, (grun ops (w, g)).2.released a ≤ logSum P (grun ops (w, g)).2.log a (grun ops (w, g)).2.now := by
  suffices hmain : CollInv (grun ops (w, g)).1.2 ∧ GhostInv P (grun ops (w, g)).2 (grun ops (w, g)).1.2 by
    intro a
    have h1 := hmain.2 a _ (Int.le_refl _)
    have h2 := dueBy_nonneg a (grun ops (w, g)).2.now _ hmain.1.wdrPos
    omega
  induction ops generalizing w g with
  | nil => exact ⟨hi, hg⟩
  | cons op ops ih =>
    have hs := gstep_inv P op w g hi hP hadm.1 htime.1 hg
    have hw : (gstep op (w, g)).1 = step op w := by
      unfold gstep step; cases op.apply w <;> rfl
    have hn : (gstep op (w, g)).2.now = (opTime op).getD g.now := by
      unfold gstep; cases op.apply w <;> rfl
    exact ih (gstep op (w, g)).1 (gstep op (w, g)).2 hs.1 hs.2.1 (by rw [hw]; exact hadm.2) (by rw [hn]; exact htime.2) hs.2.2

/-- `dominance` started from a state with an empty withdrawal queue (e.g. genesis), nothing logged, nothing released -/
theorem dominance_from_empty_queue (ops : List Op) (w : World) (t0 : Int) (hi : CollInv w.2) (hq : w.2.withdraws = [])
    (hadm : Admissible ops w) (htime : Timed ops t0) :
    ∀ a, (grun ops (w, ⟨[], fun _ => 0, t0⟩)).2.released a ≤
      logSum w.2.params.withdrawPeriod (grun ops (w, ⟨[], fun _ => 0, t0⟩)).2.log a (grun ops (w, ⟨[], fun _ => 0, t0⟩)).2.now := by
  apply dominance _ ops w _ hi rfl hadm htime
  intro a T _
  rw [hq]; simp [dueBy]

/-! ## non-vacuity -/

namespace Ex
open Shentu.Props.C03a.Ex

/-- `request_bounded`: in `s0` provider "a" has 100 of collateral, 30 of it being withdrawn: 70 can be requested, 71 cannot;
    "zz" is no provider -/
example : isOk (withdrawCollateral e60 s0 "a" 70) = true ∧ isOk (withdrawCollateral e60 s0 "a" 71) = false ∧
    isOk (withdrawCollateral e60 s0 "zz" 1) = false ∧ isOk (withdraw e60 s0 "a" [("uctk", 70)]) = true ∧
    isOk (withdraw e60 s0 "a" [("uctk", 71)]) = false := by decide

/-- `request_enqueued_at_full_period`: block time 60, period 50 — the entry completes at 110 -/
example : (get (withdrawCollateral e60 s0 "a" 70)).withdraws.map (fun w => (w.addr, w.amount, w.time)) =
    [("a", 10, 40), ("a", 20, 70), ("a", 70, 110)] := by decide

/-- `delay_only_postpones`: its hypotheses hold for `s0` and a delay that moves something -/
example : (∀ w ∈ s0.withdraws, 0 < w.amount) ∧ isOk (delayWithdraws s0 "a" 25 90) = true ∧
    (get (delayWithdraws s0 "a" 25 90)).withdraws.map (fun w => (w.addr, w.amount, w.time)) = [("a", 20, 90), ("a", 10, 90)] ∧
    dueBy "a" 80 s0.withdraws = 30 ∧ dueBy "a" 80 (get (delayWithdraws s0 "a" 25 90)).withdraws = 0 ∧
    dueBy "a" 90 (get (delayWithdraws s0 "a" 25 90)).withdraws = 30 := by decide

/-- `release_only_matured`: at block time 60 only the entry completing at 40 is released -/
example : CollInv s0 ∧ isOk (completeWithdrawals e60 s0) = true ∧
    (get (completeWithdrawals e60 s0)).withdraws.map (fun w => (w.addr, w.amount, w.time)) = [("a", 20, 70)] ∧
    collOf s0 "a" = 100 ∧ collOf (get (completeWithdrawals e60 s0)) "a" = 90 ∧ dueBy "a" 60 s0.withdraws = 10 := by
  refine ⟨by constructor <;> decide, ?_⟩; decide

/-- `tx_never_releases` applies to the messages and hooks, e.g. a withdrawal request and a staking change -/
example : isTx (.withdraw e60 "a" [("uctk", 70)]) ∧ isTx (.stakingChanged e60 "a") ∧ isTx (.deposit e60 "c" [("uctk", 7)]) ∧
    isTx (.secureCollaterals e60 1 "x" 1 5 100) ∧ ¬ isTx (.endBlock e60) ∧ ¬ isTx (.claimEnds e60 7 1 "x" "x" 1 90 .paid) := by
  refine ⟨⟨rfl, rfl⟩, ⟨rfl, rfl⟩, ⟨rfl, rfl⟩, ⟨rfl, rfl⟩, ?_, ?_⟩
  · intro h; cases h.1
  · intro h; cases h.2

/-- a state with an empty queue -/
def s1 : State :=
  { s0 with
      withdraws := [], totalWithdrawing := 0,
      providers := [{ addr := "a", collateral := 100, withdrawing := 0, bonded := 100, rewards := Dec.zero },
                    { addr := "b", collateral := 50, withdrawing := 0, bonded := 80, rewards := Dec.zero }] }

def env (t : Int) : Env :=
  { t := t, bond := "uctk", modAddr := "mod", bondedAfter := fun x => if x == "a" then some 40 else none }

/-- "a" requests 30 at time 10, is forced to withdraw 30 more at time 20 (stake drops to 40), a claim delays the later
    entry to 90, then end-blockers at 65, 80 and 100 (and a request that fails) -/
def hist : List Op :=
  [.withdraw (env 10) "a" [("uctk", 30)], .stakingChanged (env 20) "a", .delayWithdraws "a" 5 90, .endBlock (env 65),
   .withdraw (env 70) "a" [("uctk", 999)], .endBlock (env 80), .endBlock (env 100)]

def g0 : Ghost := ⟨[], fun _ => 0, 0⟩

/-- the hypotheses of `dominance_from_empty_queue` hold for this history -/
example : CollInv s1 ∧ s1.withdraws = [] ∧ Admissible hist (l0, s1) ∧ Timed hist 0 := by
  refine ⟨by constructor <;> decide, rfl, ⟨trivial, trivial, trivial, trivial, trivial, trivial, trivial, trivial⟩, ?_⟩
  refine ⟨?_, ?_, ?_, ?_, ?_, ?_, ?_, trivial⟩ <;> intro t ht <;> cases ht <;> decide

/-- and the history is not trivial: two requests are logged (the explicit one and the forced one); at time 80 one of them
    has been released (30 ≤ 60: the other was delayed by the claim), at time 100 both (60 ≤ 60) -/
example : (grun hist ((l0, s1), g0)).2.log = [⟨"a", 30, 10⟩, ⟨"a", 30, 20⟩] ∧
    (grun (hist.take 6) ((l0, s1), g0)).2.released "a" = 30 ∧ logSum 50 (grun (hist.take 6) ((l0, s1), g0)).2.log "a" 80 = 60 ∧
    (grun hist ((l0, s1), g0)).2.released "a" = 60 ∧ logSum 50 (grun hist ((l0, s1), g0)).2.log "a" 100 = 60 ∧
    (grun (hist.take 3) ((l0, s1), g0)).2.released "a" = 0 ∧ logSum 50 (grun (hist.take 3) ((l0, s1), g0)).2.log "a" 20 = 0 := by
  decide

end Ex

end Shentu.Props.C07
