import Shentu.Proofs.C01txExamples
/-
  The library model of the CVM message path (`Model/Cvm.lean`: a fixed set of programs known by kind) against the
  interpreter-backed model (`Model/CvmTx.lean`: the same bytecode run through `EVM.execTop`).

  On the example state of `Proofs/C01txExamples.lean` the two are evaluated side by side by the kernel.  For the kinds
  "forward", "suicideTo", "none" (no code), "revert" and "invalid", four values (0, 3, the caller's whole balance, more than
  the balance) and six targets named in the calldata (two users, an address without account, contracts that stop, revert,
  abort) both models fail, or both succeed with the same balances in both denominations at every address of the state and the
  same addresses holding code.  This is a refinement by evaluation on a family of 120 calls, not a general theorem; the
  general statement proved about the interpreter-backed model is in `Props/C01tx.lean`.  The two places where the models are
  known to differ are kept as theorems.  Nothing is assumed.
-/
namespace Shentu.Props.C01txLib
open Shentu Shentu.EVM Shentu.CvmTx Shentu.CvmTxH Shentu.CvmTxH.Ex

/-- the kinds are what `Cvm.kindAt` says of the library state, and the codes are the same bytes -/
theorem kinds : Cvm.kindAt lib0 "8192" = "forward" ∧ Cvm.kindAt lib0 "20480" = "suicideTo" ∧ Cvm.kindAt lib0 "12288" = "none" ∧
    Cvm.kindAt lib0 "32768" = "revert" ∧ Cvm.kindAt lib0 "36864" = "invalid" := by decide

/-- kind "forward": CALL with the call's value to the address in the calldata -/
theorem forward_agrees : ∀ v ∈ [0, 3, 100, 101], ∀ t ∈ [A, T, NEW, CR, REV, BAD], agree FWD v t = true := by decide +kernel

/-- kind "suicideTo": SELFDESTRUCT to the address in the calldata -/
theorem suicideTo_agrees : ∀ v ∈ [0, 3, 100, 101], ∀ t ∈ [A, T, NEW, CR, REV, BAD], agree SD v t = true := by decide +kernel

/-- kind "none": a callee without code (the calldata must then be empty in both models: both refuse these calls, and both
    accept the plain transfer, which is `ex_transfer` of `Props/C01tx.lean`) -/
theorem none_agrees : ∀ v ∈ [0, 3, 100, 101], ∀ t ∈ [A, T, NEW, CR, REV, BAD], agree T v t = true := by decide +kernel

/-- kind "revert" -/
theorem revert_agrees : ∀ v ∈ [0, 3, 100, 101], ∀ t ∈ [A, T, NEW, CR, REV, BAD], agree REV v t = true := by decide +kernel

/-- kind "invalid" -/
theorem invalid_agrees : ∀ v ∈ [0, 3, 100, 101], ∀ t ∈ [A, T, NEW, CR, REV, BAD], agree BAD v t = true := by decide +kernel

/-- all of them -/
theorem library_agrees_with_interpreter :
    ∀ callee ∈ [FWD, SD, T, REV, BAD], ∀ v ∈ [0, 3, 100, 101], ∀ t ∈ [A, T, NEW, CR, REV, BAD], agree callee v t = true := by
  intro callee hc
  simp only [List.mem_cons, List.not_mem_nil, or_false] at hc
  rcases hc with h | h | h | h | h <;> subst h
  · exact forward_agrees
  · exact suicideTo_agrees
  · exact none_agrees
  · exact revert_agrees
  · exact invalid_agrees

/-- the family is not trivial: some of its calls succeed and move coins, some fail -/
example : errOf (vmCall FWD 3 T) = "" ∧ bondAfter (vmCall FWD 3 T) T = 4 ∧ errOf (vmCall FWD 101 T) ≠ "" ∧
    bondAfter (vmCall SD 3 A) A = 109 := by decide +kernel

/-- where the two differ (1): the library model does not know the blocked-address rule of the write-back — a SELFDESTRUCT
    naming the module account succeeds there and credits it, while the interpreter-backed model fails the transaction -/
theorem library_lacks_blocked_rule :
    (match libCall SD 0 MOD with | .ok (l, _) => l.balOf "28672" "uctk" | .error _ => -1) = 59 ∧
    errOf (vmCall SD 0 MOD) = "cvm:blocked-recipient" := by decide +kernel

/-- where the two differ (2): the interpreter model treats the addresses up to 0xff as native contracts outside its scope.  A
    forward to the forwarding contract itself (whose inner frame, entered with empty calldata, calls address 0) is "outside
    the model" there, while the library model sends the value on to the address named by the empty word and succeeds -/
theorem interpreter_excludes_native_range :
    errOf (vmCall FWD 1 FWD) = "cvm:vm-status" ∧ (match libCall FWD 1 FWD with | .ok _ => true | .error _ => false) = true := by
  decide +kernel

end Shentu.Props.C01txLib

#print axioms Shentu.Props.C01txLib.kinds
#print axioms Shentu.Props.C01txLib.forward_agrees
#print axioms Shentu.Props.C01txLib.suicideTo_agrees
#print axioms Shentu.Props.C01txLib.none_agrees
#print axioms Shentu.Props.C01txLib.revert_agrees
#print axioms Shentu.Props.C01txLib.invalid_agrees
#print axioms Shentu.Props.C01txLib.library_agrees_with_interpreter
#print axioms Shentu.Props.C01txLib.library_lacks_blocked_rule
#print axioms Shentu.Props.C01txLib.interpreter_excludes_native_range
