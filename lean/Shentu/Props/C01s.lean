import Shentu.Model.Shield
import Shentu.Proofs.BankLemmas
import Shentu.Proofs.ShieldFundClaim
import Shentu.Proofs.Tactics
import Shentu.Proofs.ShieldLimitLemmas
/-
  C01 for the shield engine: every operation of the shield model that touches the bank ledger does so by transfers only, so the
  sum of all balances keeps equal to the recorded supply (coins paid as fees, stakes, rewards, reimbursements and claim payouts
  are moved, never created or destroyed).  The other engines' steps are in Shentu/Props/C01.lean.
-/
namespace Shentu.Props.C01s
open Shentu Shentu.Shield Shentu.Ledger Shentu.Shield.Fund

theorem purchaseCore_pays (e : Env) (l l' : Ledger) (s s' : State) (poolID : Nat) (shield : Coins) (purchaser : Addr) (fees staking : Coins)
    (h : purchaseCore e l s poolID shield purchaser fees staking = .ok (l', s')) :
    l.send purchaser e.modAddr fees = .ok l' ∨ l.send purchaser e.modAddr [(e.bond, Coins.amountOf staking e.bond)] = .ok l' := by
  obtain ⟨_, _, _, _, _, _, _, hp, _⟩ := Shentu.Shield.Limit.purchaseCore_ok e l l' s s' poolID shield purchaser fees staking h
  split at hp
  · exact Or.inl hp
  · exact Or.inr hp

theorem purchaseCore_ledger_inv (e : Env) (l l' : Ledger) (s s' : State) (poolID : Nat) (shield : Coins) (purchaser : Addr) (fees staking : Coins)
    (hi : l.Inv) (h : purchaseCore e l s poolID shield purchaser fees staking = .ok (l', s')) : l'.Inv := by
  rcases purchaseCore_pays _ _ _ _ _ _ _ _ _ _ h with hs | hs <;> exact inv_send _ _ _ _ _ hi hs

theorem purchase_ledger_inv (e : Env) (l l' : Ledger) (s s' : State) (poolID : Nat) (shield : Coins) (purchaser : Addr) (staking : Bool)
    (hi : l.Inv) (h : purchase e l s poolID shield purchaser staking = .ok (l', s')) : l'.Inv := by
  unfold purchase at h
  ok_cases h
  all_goals exact purchaseCore_ledger_inv _ _ _ _ _ _ _ _ _ _ hi h

theorem createPool_ledger_inv (e : Env) (l l' : Ledger) (s s' : State) (creator : Addr) (shield fees : Coins) (sponsor : String) (sa : Addr) (limit : Int)
    (hi : l.Inv) (h : createPool e l s creator shield fees sponsor sa limit = .ok (l', s')) : l'.Inv := by
  unfold createPool at h
  ok_cases h
  all_goals exact purchaseCore_ledger_inv _ _ _ _ _ _ _ _ _ _ hi h

theorem updatePool_ledger_inv (e : Env) (l l' : Ledger) (s s' : State) (updater : Addr) (poolID : Nat) (shield fees : Coins) (limit : Int)
    (hi : l.Inv) (h : updatePool e l s updater poolID shield fees limit = .ok (l', s')) : l'.Inv := by
  unfold updatePool at h
  ok_cases h
  all_goals first
    | exact purchaseCore_ledger_inv _ _ _ _ _ _ _ _ _ _ hi h
    | (simp only [Except.ok.injEq, Prod.mk.injEq] at h; obtain ⟨rfl, _⟩ := h; first | exact hi | exact inv_send _ _ _ _ _ hi (by assumption))

theorem withdrawRewards_ledger_inv (e : Env) (l l' : Ledger) (s s' : State) (a : Addr)
    (hi : l.Inv) (h : withdrawRewards e l s a = .ok (l', s')) : l'.Inv := by
  unfold withdrawRewards at h
  ok_cases h
  all_goals (simp only [Except.ok.injEq, Prod.mk.injEq] at h; obtain ⟨rfl, _⟩ := h; first | exact hi | exact inv_send _ _ _ _ _ hi (by assumption))

theorem withdrawReimbursement_ledger_inv (e : Env) (l l' : Ledger) (s s' : State) (pid : Nat) (a : Addr)
    (hi : l.Inv) (h : withdrawReimbursement e l s pid a = .ok (l', s')) : l'.Inv := by
  unfold withdrawReimbursement at h
  ok_cases h
  all_goals (simp only [Except.ok.injEq, Prod.mk.injEq] at h; obtain ⟨rfl, _⟩ := h; first | exact hi | exact inv_send _ _ _ _ _ hi (by assumption))

theorem fundBlockRewards_ledger_inv (e : Env) (l : Ledger) (s : State) (sender : Addr) (amount : Int) (hi : l.Inv) :
    (fundBlockRewards e l s sender amount).1.Inv := inv_move _ _ _ _ hi

/-- the claim payout: coins move from the staking pool to the module account, provider by provider -/
theorem reimburseLoop_ledger_inv (e : Env) (pr yr : Dec) (ps : List Provider) :
    ∀ (tp ty : Int) (l : Ledger) (s : State) (left : Int) (l' : Ledger) (s' : State),
      l.Inv → reimburseLoop e pr yr ps tp ty l s = .ok (left, l', s') → l'.Inv := by
  induction ps with
  | nil =>
    intro tp ty l s left l' s' hi h
    unfold reimburseLoop at h
    injection h with h; injection h with h1 h; injection h with h2 h3
    rw [← h2]; exact hi
  | cons p ps ih =>
    intro tp ty l s left l' s' hi h
    rw [reimburseLoop_cons] at h
    split at h
    · injection h with h; injection h with h1 h; injection h with h2 h3
      rw [← h2]; exact hi
    · split at h
      · cases h
      · split at h
        · cases h
        · exact ih _ _ _ _ _ _ _ (inv_move _ _ _ _ hi) h

theorem createReimbursement_ledger_inv (e : Env) (l l' : Ledger) (s s' : State) (pid : Nat) (amount : Int) (b : Addr)
    (hi : l.Inv) (h : createReimbursement e l s pid amount b = .ok (l', s')) : l'.Inv := by
  unfold createReimbursement at h
  ok_cases h
  all_goals (simp only [Except.ok.injEq, Prod.mk.injEq] at h; obtain ⟨rfl, _⟩ := h)
  all_goals exact reimburseLoop_ledger_inv _ _ _ _ _ _ _ _ _ _ _ hi (by assumption)

theorem claimEnds_ledger_inv (e : Env) (l l' : Ledger) (s s' : State) (pid poolID : Nat) (r b : Addr) (purchaseID : Nat) (loss : Int) (o : ClaimOutcome)
    (hi : l.Inv) (h : claimEnds e l s pid poolID r b purchaseID loss o = .ok (l', s')) : l'.Inv := by
  cases o <;> simp only [claimEnds] at h
  · exact createReimbursement_ledger_inv _ _ _ _ _ _ _ _ hi h
  all_goals (injection h with h; injection h with h1 h2; rw [← h1]; exact hi)

end Shentu.Props.C01s
