import Shentu.Proofs.ShieldFundPay
import Shentu.Proofs.ShieldFundPayout
/-
  C04 — An approved claim is paid exactly once, in full, out of providers' stake.

  "When a shield claim proposal passes, a reimbursement for exactly the approved loss is recorded for the
   proposer, total collateral and the providers' collateral drop by exactly that amount in total (each
   provider by at most its own collateral, taken from its bonded or unbonding stake), and the coins arrive
   in the shield module account.  The beneficiary - and nobody else - can withdraw it once, only after the
   payout period, receiving exactly that amount; a claim that does not pass pays nothing."

  Property theorems only; the work is in `Shentu/Proofs/ShieldFund*.lean`.
-/
namespace Shentu.Props.C04
open Shentu Shentu.Shield Shentu.Shield.Fund

/-- the record `CreateReimbursement` writes -/
def record (e : Env) (s : State) (pid : Nat) (amount : Int) (b : Addr) : Reimb :=
  { pid := pid, amount := amount, beneficiary := b, payoutTime := e.t + s.params.payoutPeriod }

/-! ## the payout of an approved claim -/

/-- Sentence 1, "a reimbursement for exactly the approved loss is recorded for the proposer": on success the record
    `{pid, amount, beneficiary, payoutTime := now + payoutPeriod}` is in the store, it is the only one under that
    proposal id, and every record under another id is unchanged. -/
theorem createReimbursement_records (e : Env) (l l' : Ledger) (s s' : State) (pid : Nat) (amount : Int) (b : Addr)
    (h : createReimbursement e l s pid amount b = .ok (l', s')) :
    s'.reimbs = s.reimbs.filter (·.pid != pid) ++ [record e s pid amount b] ∧
    record e s pid amount b ∈ s'.reimbs ∧
    (∀ r' ∈ s'.reimbs, r'.pid = pid → r' = record e s pid amount b) ∧
    (∀ r', r'.pid ≠ pid → (r' ∈ s'.reimbs ↔ r' ∈ s.reimbs)) := by
  obtain ⟨left, s1, _, hl, _, hs'⟩ := createReimbursement_ok e l l' s s' pid amount b h
  have hsame := reimburseLoop_same e _ _ _ _ _ _ _ _ _ _ hl
  have hre : s'.reimbs = s.reimbs.filter (·.pid != pid) ++ [record e s pid amount b] := by
    rw [hs', ← hsame.reimbs]; rfl
  refine ⟨hre, ?_, ?_, ?_⟩
  · rw [hre]; simp
  · intro r' hr' hp
    rw [hre] at hr'
    rcases List.mem_append.mp hr' with h1 | h1
    · have := (List.mem_filter.mp h1).2
      simp [hp] at this
    · simpa using h1
  · intro r' hp
    rw [hre]
    constructor
    · intro hr'
      rcases List.mem_append.mp hr' with h1 | h1
      · exact (List.mem_filter.mp h1).1
      · have : r' = record e s pid amount b := by simpa using h1
        rw [this] at hp; exact absurd rfl hp
    · intro hr'
      exact List.mem_append_left _ (List.mem_filter.mpr ⟨hr', by simpa using hp⟩)

/-- Sentence 1, "total collateral … drop[s] by exactly that amount": the two totals. -/
theorem createReimbursement_totals (e : Env) (l l' : Ledger) (s s' : State) (pid : Nat) (amount : Int) (b : Addr)
    (h : createReimbursement e l s pid amount b = .ok (l', s')) :
    s'.totalCollateral = s.totalCollateral - amount ∧ s'.totalClaimed = s.totalClaimed - amount := by
  obtain ⟨left, s1, _, hl, _, hs'⟩ := createReimbursement_ok e l l' s s' pid amount b h
  have ht := reimburseLoop_tot e _ _ _ _ _ _ _ _ _ _ hl
  subst hs'
  exact ⟨rfl, by show s1.totalClaimed - amount = _; rw [ht.claimed]⟩

/-- Sentence 1, "total collateral and the providers' collateral drop by exactly that amount in total": the totals drop by
    `amount`, and there is a list of payments, one per provider in store order and none negative, that adds up to exactly
    `amount`; each provider's collateral drops by its own payment (addresses and order unchanged), so the sum of the
    providers' collateral drops by exactly `amount`.
    Hypotheses: provider addresses unique (a KV store), the loss and the collaterals not negative. -/
theorem createReimbursement_collateral_exact (e : Env) (l l' : Ledger) (s s' : State) (pid : Nat) (amount : Int) (b : Addr)
    (h : createReimbursement e l s pid amount b = .ok (l', s'))
    (hn : (s.providers.map (·.addr)).Nodup) (hamt : 0 ≤ amount) (hT : 0 ≤ s.totalCollateral)
    (hc : ∀ p ∈ s.providers, 0 ≤ p.collateral) :
    s'.totalCollateral = s.totalCollateral - amount ∧ s'.totalClaimed = s.totalClaimed - amount ∧
    ∃ pays : List Int, pays.length = s.providers.length ∧ pays.sum = amount ∧ (∀ x ∈ pays, 0 ≤ x) ∧
      collView s'.providers = paidView s.providers pays ∧
      sumI (·.collateral) s'.providers = sumI (·.collateral) s.providers - amount := by
  obtain ⟨ht1, ht2⟩ := createReimbursement_totals e l l' s s' pid amount b h
  refine ⟨ht1, ht2, ?_⟩
  obtain ⟨left, s1, hT0, hl, hleft, hs'⟩ := createReimbursement_ok e l l' s s' pid amount b h
  have hTpos : 0 < s.totalCollateral := by omega
  obtain ⟨hview, hsum⟩ := reimburseLoop_coll e _ _ _ _ _ _ _ _ _ _ [] s.providers hl (by simp) hn rfl
  have hyr := Dec.quo_ofInt_nonneg amount s.totalCollateral hamt hTpos
  have hnn := payList_nonneg (Dec.quo (Dec.ofInt s.totalShield) (Dec.ofInt s.totalCollateral)) _ hyr s.providers hc
    s.totalShield amount
  have hl0 := reimburseLoop_left_nonneg e _ _ _ _ _ _ _ _ _ _ hl hamt
  have hlen := payList_length (Dec.quo (Dec.ofInt s.totalShield) (Dec.ofInt s.totalCollateral))
    (Dec.quo (Dec.ofInt amount) (Dec.ofInt s.totalCollateral)) s.providers s.totalShield amount
  have hprov : s'.providers = s1.providers := by rw [hs']
  have hv : collView s'.providers = paidView s.providers (payList (Dec.quo (Dec.ofInt s.totalShield) (Dec.ofInt s.totalCollateral))
      (Dec.quo (Dec.ofInt amount) (Dec.ofInt s.totalCollateral)) s.providers s.totalShield amount) := by
    rw [hprov, hview]; simp [collView]
  refine ⟨_, hlen, by omega, hnn, hv, ?_⟩
  rw [sumI_collView, hv, sum_paidView _ _ hlen]
  omega

/-- Sentence 1, "(each provider by at most its own collateral …)": when the loss does not exceed the total collateral,
    every provider's payment lies between nothing and its own collateral (so no collateral goes negative).
    Hypotheses as above plus `0 ≤ totalShield`. -/
theorem createReimbursement_each_bounded (e : Env) (l l' : Ledger) (s s' : State) (pid : Nat) (amount : Int) (b : Addr)
    (h : createReimbursement e l s pid amount b = .ok (l', s'))
    (hn : (s.providers.map (·.addr)).Nodup) (hamt : 0 ≤ amount) (hle : amount ≤ s.totalCollateral)
    (hsh : 0 ≤ s.totalShield) (hc : ∀ p ∈ s.providers, 0 ≤ p.collateral) :
    ∃ pays : List Int, pays.length = s.providers.length ∧
      collView s'.providers = paidView s.providers pays ∧
      (∀ x ∈ List.zip s.providers pays, 0 ≤ x.2 ∧ x.2 ≤ x.1.collateral) ∧
      (∀ q ∈ s'.providers, 0 ≤ q.collateral) := by
  obtain ⟨left, s1, hT0, hl, hleft, hs'⟩ := createReimbursement_ok e l l' s s' pid amount b h
  have hTpos : 0 < s.totalCollateral := by omega
  obtain ⟨hview, _⟩ := reimburseLoop_coll e _ _ _ _ _ _ _ _ _ _ [] s.providers hl (by simp) hn rfl
  have hpr := Dec.quo_ofInt_nonneg s.totalShield s.totalCollateral hsh hTpos
  have hyr := Dec.quo_ofInt_nonneg amount s.totalCollateral hamt hTpos
  have hyr1 := Dec.quo_ofInt_le_one amount s.totalCollateral hamt hTpos hle
  have hb := payList_bounded _ _ hpr hyr hyr1 s.providers hc s.totalShield amount hsh
  have hprov : s'.providers = s1.providers := by rw [hs']
  have hv : collView s'.providers = paidView s.providers (payList (Dec.quo (Dec.ofInt s.totalShield) (Dec.ofInt s.totalCollateral))
      (Dec.quo (Dec.ofInt amount) (Dec.ofInt s.totalCollateral)) s.providers s.totalShield amount) := by
    rw [hprov, hview]; simp [collView]
  refine ⟨_, payList_length _ _ _ _ _, hv, hb, ?_⟩
  intro q hq
  have hq' : (q.addr, q.collateral) ∈ collView s'.providers := List.mem_map_of_mem (f := fun q : Provider => (q.addr, q.collateral)) hq
  rw [hv] at hq'
  obtain ⟨x, hx, hxe⟩ := mem_paidView _ _ _ hq'
  have := hb x hx
  simp only [Prod.mk.injEq] at hxe
  omega

/-- Sentence 1, "and the coins arrive in the shield module account": the module balance grows by exactly the loss;
    the coins come out of the bonded pool, nobody else's balance moves. -/
theorem createReimbursement_coins_arrive (e : Env) (l l' : Ledger) (s s' : State) (pid : Nat) (amount : Int) (b : Addr)
    (h : createReimbursement e l s pid amount b = .ok (l', s'))
    (hbp : e.bondedPool ≠ e.modAddr) (hamt : 0 ≤ amount) :
    l'.balOf e.modAddr e.bond = l.balOf e.modAddr e.bond + amount ∧
    (∀ a d, a ≠ e.bondedPool → a ≠ e.modAddr → l'.balOf a d = l.balOf a d) := by
  obtain ⟨left, s1, _, hl, hleft, _⟩ := createReimbursement_ok e l l' s s' pid amount b h
  obtain ⟨_, hbal, hnn⟩ := reimburseLoop_spec e _ _ hbp _ _ _ _ _ _ _ _ hl
  have := hnn hamt
  exact ⟨by rw [hbal]; omega, reimburseLoop_ledger e _ _ _ _ _ _ _ _ _ _ hl⟩

/-! ## the withdrawal -/

/-- Sentence 2, "the beneficiary - and nobody else - can withdraw it …, only after the payout period": the withdrawal
    succeeds iff a record under the proposal id exists, the caller is its beneficiary, the payout time has come and the
    module account can pay (the amount is not negative and is covered). -/
theorem withdrawReimbursement_ok_iff (e : Env) (l : Ledger) (s : State) (pid : Nat) (a : Addr) :
    (∃ l' s', withdrawReimbursement e l s pid a = .ok (l', s')) ↔
      ∃ r, s.reimbs.find? (·.pid == pid) = some r ∧ r.beneficiary = a ∧ r.payoutTime ≤ e.t ∧
        0 ≤ r.amount ∧ r.amount ≤ l.balOf e.modAddr e.bond := by
  unfold withdrawReimbursement
  cases hf : s.reimbs.find? (·.pid == pid) with
  | none => simp [err]
  | some r =>
    simp only [Option.some.injEq, exists_eq_left']
    by_cases hb : r.beneficiary = a
    · have h1 : (r.beneficiary != a) = false := by simp [hb]
      by_cases ht : r.payoutTime ≤ e.t
      · have h2 : ¬ r.payoutTime > e.t := by omega
        simp only [h2, if_false, hb, ht, true_and, bne_self_eq_false, Bool.false_eq_true]
        rw [← send_one_iff l e.modAddr a e.bond r.amount]
        cases hs : l.send e.modAddr a [(e.bond, r.amount)] with
        | error x => simp [err]
        | ok l2 => simp
      · have h2 : r.payoutTime > e.t := by omega
        simp [h1, h2, ht, err]
    · have h1 : (r.beneficiary != a) = true := by simp [hb]
      simp [h1, hb, err]

/-- Sentence 2, "… receiving exactly that amount": on success the coins are one move of the recorded amount from the
    module account to the caller (whose balance grows by exactly that amount), the record is gone and every record under
    another id is unchanged. -/
theorem withdrawReimbursement_pays (e : Env) (l l' : Ledger) (s s' : State) (pid : Nat) (a : Addr)
    (h : withdrawReimbursement e l s pid a = .ok (l', s')) :
    ∃ r, s.reimbs.find? (·.pid == pid) = some r ∧ r.beneficiary = a ∧ r.payoutTime ≤ e.t ∧
      l' = l.move e.modAddr a [(e.bond, r.amount)] ∧
      (a ≠ e.modAddr → l'.balOf a e.bond = l.balOf a e.bond + r.amount) ∧
      s'.reimbs = s.reimbs.filter (·.pid != pid) ∧
      (∀ r' ∈ s'.reimbs, r'.pid ≠ pid) ∧
      (∀ r', r'.pid ≠ pid → (r' ∈ s'.reimbs ↔ r' ∈ s.reimbs)) := by
  unfold withdrawReimbursement at h
  ok_cases h
  rename_i r hr hb ht _ l2 hs
  injection h with h; injection h with h1 h2; subst h1 h2
  have hmove := Ledger.send_ok _ _ _ _ _ hs
  refine ⟨r, hr, by simpa using hb, by omega, hmove, ?_, rfl, ?_, ?_⟩
  · intro hne
    rw [hmove, move_out_dst _ _ _ _ _ hne, amountOf_one]
  · intro r' hr'
    have := (List.mem_filter.mp hr').2
    simpa using this
  · intro r' hp
    constructor
    · intro hr'; exact (List.mem_filter.mp hr').1
    · intro hr'; exact List.mem_filter.mpr ⟨hr', by simpa using hp⟩

/-- Sentence 2, "… can withdraw it once": after a successful withdrawal, any further withdrawal under the same proposal id —
    by anybody, at any time, from any ledger — fails: the record is gone. -/
theorem withdraw_twice_fails (e : Env) (l l' : Ledger) (s s' : State) (pid : Nat) (a : Addr)
    (h : withdrawReimbursement e l s pid a = .ok (l', s')) (e2 : Env) (l2 : Ledger) (a2 : Addr) :
    withdrawReimbursement e2 l2 s' pid a2 = err "shield:reimbursement-not-found" := by
  obtain ⟨_, _, _, _, _, _, _, hgone, _⟩ := withdrawReimbursement_pays e l l' s s' pid a h
  unfold withdrawReimbursement
  have : s'.reimbs.find? (·.pid == pid) = none := by
    apply List.find?_eq_none.mpr
    intro x hx
    simpa using hgone x hx
  rw [this]

/-! ## a claim that does not pass -/

/-- Sentence 3, "a claim that does not pass pays nothing": when a claim proposal is vetoed, rejected or fails, no
    reimbursement is recorded or changed and no coin moves. -/
theorem unpaid_claim_pays_nothing (e : Env) (l l' : Ledger) (s s' : State) (pid poolID : Nat) (restoreTo beneficiary : Addr)
    (purchaseID : Nat) (loss : Int) (o : ClaimOutcome) (ho : o ≠ .paid)
    (h : claimEnds e l s pid poolID restoreTo beneficiary purchaseID loss o = .ok (l', s')) :
    l' = l ∧ s'.reimbs = s.reimbs := by
  cases o with
  | paid => exact absurd rfl ho
  | vetoed =>
    simp only [claimEnds] at h
    injection h with h; injection h with h1 h2; subst h1 h2
    exact ⟨rfl, rfl⟩
  | rejected =>
    simp only [claimEnds] at h
    injection h with h; injection h with h1 h2; subst h1 h2
    exact ⟨rfl, ((restoreShield_frame s poolID restoreTo purchaseID loss).trans (claimEnd_frame _ loss)).reimbs⟩
  | failed =>
    simp only [claimEnds] at h
    injection h with h; injection h with h1 h2; subst h1 h2
    exact ⟨rfl, rfl⟩

/-! ## non-vacuity: two providers (one with a queued withdrawal), a purchase, a secured claim of 77 that passes -/

section Example

def exParams : Params :=
  { protection := 1000, withdrawPeriod := 100, feesRate := ⟨10000000000000000⟩, poolLimit := ⟨500000000000000000⟩,
    minPurchase := 1, stakingRate := ⟨2000000000000000000⟩, payoutPeriod := 50 }

def exState0 : State :=
  { admin := "admin", pools := [{ id := 1, shield := 0, limit := 1000, active := true, sponsor := "sp", sponsorAddr := "spa" }],
    lists := [], providers := [], withdraws := [], stakes := [], origStakings := [], reimbs := [],
    totalCollateral := 0, totalWithdrawing := 0, totalShield := 0, totalClaimed := 0, serviceFees := Dec.zero,
    remaining := Dec.zero, blockFees := Dec.zero, stakingPool := 0, lastUpdate := zeroTime, nextPool := 2, nextPurchase := 1,
    params := exParams }

def exLedger0 : Ledger :=
  { posts := [("alice", "uctk", 1000), ("admin", "uctk", 1000), ("bob", "uctk", 1000), ("bonded", "uctk", 5000)],
    supply := [("uctk", 8000)] }

def exEnv (t : Int) : Env :=
  { t := t, bond := "uctk", modAddr := "shield", bondedPool := "bonded",
    bondedAfter := fun a => if a == "alice" then some 500 else some 300 }

def okL (c : Ledger × State) (r : Except Err (Ledger × State)) : Ledger × State := r.toOption.getD c
def okS (c : Ledger × State) (r : Except Err State) : Ledger × State := (c.1, r.toOption.getD c.2)

/-- alice deposits 500, bob 300; the admin buys 200 of shield; bob queues a withdrawal of 290; a claim of 77 is secured -/
def exBefore : Ledger × State :=
  let c1 := okS (exLedger0, exState0) (deposit (exEnv 1000) exState0 "alice" [("uctk", 500)])
  let c2 := okS c1 (deposit (exEnv 1000) c1.2 "bob" [("uctk", 300)])
  let c3 := okL c2 (purchase (exEnv 1000) c2.1 c2.2 1 [("uctk", 200)] "admin" false)
  let c4 := okS c3 (withdrawCollateral (exEnv 1000) c3.2 "bob" 290)
  okS c4 (secureCollaterals (exEnv 1100) c4.2 1 "admin" 1 77 100)

/-- the claim passes at time 1200 -/
def exAfter : Ledger × State :=
  okL exBefore (createReimbursement (exEnv 1200) exBefore.1 exBefore.2 7 77 "admin")

/-- the state before the payout meets every hypothesis of the payout theorems, and the payout succeeds -/
example : (createReimbursement (exEnv 1200) exBefore.1 exBefore.2 7 77 "admin").toOption.isSome = true ∧
    (exBefore.2.providers.map (·.addr)).Nodup ∧ (0 : Int) ≤ 77 ∧ 77 ≤ exBefore.2.totalCollateral ∧
    0 ≤ exBefore.2.totalShield ∧ (∀ p ∈ exBefore.2.providers, 0 ≤ p.collateral) ∧
    (exEnv 1200).bondedPool ≠ (exEnv 1200).modAddr := by decide

/-- what the theorems say about it, checked by evaluation: the totals (800 → 723, claimed 77 → 0), the providers'
    collateral (500, 300 → 451, 272: payments 49 + 28 = 77, bob's partly out of his queued withdrawal),
    the coins (2 of fees → 79), the record -/
example : exBefore.2.totalCollateral = 800 ∧ exBefore.2.totalClaimed = 77 ∧
    collView exBefore.2.providers = [("alice", 500), ("bob", 300)] ∧ exBefore.1.balOf "shield" "uctk" = 2 ∧
    exAfter.2.totalCollateral = 723 ∧ exAfter.2.totalClaimed = 0 ∧
    collView exAfter.2.providers = [("alice", 451), ("bob", 272)] ∧ exAfter.1.balOf "shield" "uctk" = 79 ∧
    exAfter.1.balOf "bonded" "uctk" = 4923 ∧
    exAfter.2.reimbs = [{ pid := 7, amount := 77, beneficiary := "admin", payoutTime := 1250 }] ∧
    exAfter.2.withdraws.map (·.amount) = [262] := by decide

/-- the withdrawal: too early it fails, somebody else fails, the beneficiary succeeds after the payout period and
    receives 77, a second attempt fails -/
example :
    (withdrawReimbursement (exEnv 1249) exAfter.1 exAfter.2 7 "admin").toOption.isSome = false ∧
    (withdrawReimbursement (exEnv 1250) exAfter.1 exAfter.2 7 "bob").toOption.isSome = false ∧
    (withdrawReimbursement (exEnv 1250) exAfter.1 exAfter.2 7 "admin").toOption.isSome = true ∧
    (okL exAfter (withdrawReimbursement (exEnv 1250) exAfter.1 exAfter.2 7 "admin")).1.balOf "admin" "uctk" =
      exAfter.1.balOf "admin" "uctk" + 77 ∧
    (withdrawReimbursement (exEnv 1300) (okL exAfter (withdrawReimbursement (exEnv 1250) exAfter.1 exAfter.2 7 "admin")).1
      (okL exAfter (withdrawReimbursement (exEnv 1250) exAfter.1 exAfter.2 7 "admin")).2 7 "admin").toOption.isSome = false := by
  decide

/-- a claim that is rejected: the shield is restored, nothing is recorded, no coin moves -/
example : (claimEnds (exEnv 1200) exBefore.1 exBefore.2 7 1 "admin" "admin" 1 77 .rejected).toOption.map
    (fun c => (c.1.balOf "shield" "uctk", c.2.reimbs, c.2.totalClaimed, c.2.totalShield)) = some (2, [], 0, 200) := by decide

end Example

end Shentu.Props.C04
