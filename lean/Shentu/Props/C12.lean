import Shentu.Model.Gov
import Shentu.Proofs.Tactics
import Shentu.Proofs.GovLemmas
/-
  C12 — Proposals pass only by the stated voting rules, in the stated rounds.
  The comparisons are the ones regenerated from x/gov/keeper/tally.go, vote.go, proposal.go.
-/
namespace Shentu.Props.C12
open Shentu Shentu.Gov

theorem tie_sites : Gen.Gov.allFound = true := by decide

/-- software upgrades, certifier updates and shield claims — and only they — have the certifier round -/
theorem tie_security_kinds : Gen.Gov.securityVotingKinds = ["upgrade", "certifierUpdate", "claim"] := by decide
/-- certifier updates are tallied with their own stake-round parameters, everything else with the default -/
theorem tie_cert_stake_tally : Gen.Gov.certStakeTallyKinds = ["certifierUpdate"] := by decide

/-- the certifier round skips every stored vote whose voter is not a certifier when the round is tallied -/
theorem tie_security_tally_counts_certifiers_only : Gen.Gov.secTallySkipsUnless = "err != nil || !k.IsCertifier(ctx, voter)" := by decide

/-- **Only certifiers' votes count in the certifier round**: the outcome of `securityTally` is the same whether or not the votes of
    addresses outside the council are in the store (a certifier removed from the council after voting no longer has a vote). -/
theorem security_tally_ignores_non_certifiers (g : State) (c : Cert.State) (p : Proposal) :
    securityTally g c p = securityTally { g with votes := g.votes.filter (fun v => Cert.isCertifier c v.voter) } c p := by
  have hf : ({ g with votes := g.votes.filter (fun v => Cert.isCertifier c v.voter) } : State).votes.filter
        (fun v => v.pid == p.id && v.option != 0 && Cert.isCertifier c v.voter) =
      g.votes.filter (fun v => v.pid == p.id && v.option != 0 && Cert.isCertifier c v.voter) := by
    show (g.votes.filter (fun v => Cert.isCertifier c v.voter)).filter _ = _
    rw [List.filter_filter]
    apply List.filter_congr
    intro v _
    cases Cert.isCertifier c v.voter <;> simp
  unfold securityTally
  simp only [hf]

theorem routing (kind : String) :
    hasSecurityVoting kind = true ↔ kind = "upgrade" ∨ kind = "certifierUpdate" ∨ kind = "claim" := by
  simp [hasSecurityVoting, tie_security_kinds]

/-- **Stake round.** A proposal passes exactly when there is bonded stake, turnout reaches the quorum, not
    everybody abstained, veto votes do not exceed the veto threshold and yes votes exceed the threshold share of
    the non-abstaining power. (`Dec` comparisons exactly as the chain computes them.) -/
theorem stake_round_pass_iff (bonded : Int) (r : Results) (tp : TallyParams) :
    (stakePassVeto bonded r tp).1 = true ↔
      bonded ≠ 0 ∧ Dec.lt (Dec.quo r.total (Dec.ofInt bonded)) tp.quorum = false ∧
      Dec.beq (Dec.sub r.total r.abstain) Dec.zero = false ∧
      Dec.lt tp.veto (Dec.quo r.veto r.total) = false ∧
      Dec.lt tp.threshold (Dec.quo r.yes (Dec.sub r.total r.abstain)) = true := by
  unfold stakePassVeto Gen.Gov.stakeNoBonded Gen.Gov.stakeBelowQuorum Gen.Gov.stakePercent Gen.Gov.stakeAllAbstain
    Gen.Gov.stakeVetoed Gen.Gov.stakePasses
  by_cases h1 : bonded = 0 <;> simp [h1]
  cases h2 : Dec.lt (Dec.quo r.total (Dec.ofInt bonded)) tp.quorum <;> simp
  cases h3 : Dec.beq (Dec.sub r.total r.abstain) Dec.zero <;> simp
  cases h4 : Dec.lt tp.veto (Dec.quo r.veto r.total) <;> simp
  cases h5 : Dec.lt tp.threshold (Dec.quo r.yes (Dec.sub r.total r.abstain)) <;> simp

/-- a proposal is vetoed exactly when the quorum is met, not everybody abstained and veto votes exceed the veto threshold;
    a vetoed proposal never passes -/
theorem stake_round_veto_iff (bonded : Int) (r : Results) (tp : TallyParams) :
    (stakePassVeto bonded r tp).2 = true ↔
      bonded ≠ 0 ∧ Dec.lt (Dec.quo r.total (Dec.ofInt bonded)) tp.quorum = false ∧
      Dec.beq (Dec.sub r.total r.abstain) Dec.zero = false ∧ Dec.lt tp.veto (Dec.quo r.veto r.total) = true := by
  unfold stakePassVeto Gen.Gov.stakeNoBonded Gen.Gov.stakeBelowQuorum Gen.Gov.stakePercent Gen.Gov.stakeAllAbstain
    Gen.Gov.stakeVetoed Gen.Gov.stakePasses
  by_cases h1 : bonded = 0 <;> simp [h1]
  cases h2 : Dec.lt (Dec.quo r.total (Dec.ofInt bonded)) tp.quorum <;> simp
  cases h3 : Dec.beq (Dec.sub r.total r.abstain) Dec.zero <;> simp
  cases h4 : Dec.lt tp.veto (Dec.quo r.veto r.total) <;> simp
  cases h5 : Dec.lt tp.threshold (Dec.quo r.yes (Dec.sub r.total r.abstain)) <;> simp

theorem veto_excludes_pass (bonded : Int) (r : Results) (tp : TallyParams) :
    (stakePassVeto bonded r tp).2 = true → (stakePassVeto bonded r tp).1 = false := by
  intro h
  have hv := (stake_round_veto_iff bonded r tp).mp h
  cases hp : (stakePassVeto bonded r tp).1 with
  | false => rfl
  | true => have := (stake_round_pass_iff bonded r tp).mp hp; simp_all

/-- the shield-claim variant applies the same rule over the stake of certified identities -/
theorem claim_round_same_rule (bonded : Int) (r : Results) (tp : TallyParams) :
    claimPassVeto bonded r tp = stakePassVeto bonded r tp := rfl

/-- **Certifier round**: one certifier one vote — quorum of head count, then yes share above the threshold -/
theorem certifier_round_end_rule (pass isCert : Bool) :
    Gen.Gov.endVoting pass isCert = ((pass && isCert) || (!pass && !isCert)) := rfl

/-- in the certifier round a certifier update that is approved ends (passes) at once, a rejected one goes on to the
    stake round; any other kind goes on when approved and ends (rejected) otherwise -/
theorem certifier_round_outcomes (pass : Bool) :
    Gen.Gov.endVoting pass true = pass ∧ Gen.Gov.endVoting pass false = !pass := by
  cases pass <;> decide

/-- **Eligibility.** A vote is recorded exactly when the proposal is in a voting period, the option is one of the four,
    in the certifier round the option is yes/no and the voter is a certifier, and for a shield claim in the stake round the
    voter is a certified identity. -/
theorem vote_iff (w : World) (pid : Nat) (voter : Addr) (o : Nat) :
    (∃ w', vote w pid voter o = .ok w') ↔
      (o = 1 ∨ o = 2 ∨ o = 3 ∨ o = 4) ∧ ∃ p, findP w.g pid = some p ∧ (p.status = 2 ∨ p.status = 3) ∧
        (p.status = 2 → (o = 1 ∨ o = 3) ∧ Cert.isCertifier w.c voter = true) ∧
        (p.kind = "claim" → p.status = 3 → isCertifiedIdentity w.c voter = true) := by
  have hvo : Gen.Gov.validOption o = true ↔ (o = 1 ∨ o = 2 ∨ o = 3 ∨ o = 4) := by
    simp only [Gen.Gov.validOption, Bool.or_eq_true, beq_iff_eq]
    constructor <;> intro h <;> omega
  have hco : Gen.Gov.certifierRoundOption o = true ↔ (o = 1 ∨ o = 3) := by
    unfold Gen.Gov.certifierRoundOption Gen.Gov.certifierRoundBadOption
    bool_norm
    omega
  have hin : ∀ st : Nat, Gen.Gov.voteInactive st = false ↔ (st = 2 ∨ st = 3) := by
    intro st; unfold Gen.Gov.voteInactive
    by_cases h2 : st = 2
    · subst h2; simp
    · by_cases h3 : st = 3
      · subst h3; simp
      · have a2 : (↑st : Int) ≠ 2 := by omega
        have a3 : (↑st : Int) ≠ 3 := by omega
        simp [h2, h3, a2, a3]
  unfold vote
  constructor
  · intro ⟨w', h⟩
    split at h; · cases h
    rename_i hv
    split at h; · cases h
    rename_i p hp
    split at h; · cases h
    rename_i hst
    split at h; · cases h
    rename_i hc1
    split at h; · cases h
    rename_i hc2
    split at h; · cases h
    rename_i hc3
    refine ⟨hvo.mp (by simpa using hv), p, hp, (hin p.status).mp (by simpa using hst), ?_, ?_⟩
    · intro h2
      constructor
      · apply hco.mp; simp only [h2] at hc1; simpa using hc1
      · simp only [h2] at hc2; simpa using hc2
    · intro hk h3
      simp only [hk, h3] at hc3; simpa using hc3
  · intro ⟨hv, p, hp, hst, hcert, hclaim⟩
    have h1 := hvo.mpr hv
    have h2 := (hin p.status).mpr hst
    simp only [h1, hp, h2]
    rcases hst with hs | hs
    · obtain ⟨ho, hc⟩ := hcert hs
      simp [hs, hco.mpr ho, hc]
    · by_cases hk : p.kind = "claim"
      · simp [hs, hk, hclaim hk hs]
      · simp [hs, hk]

/-! ### Status only moves forward -/
def rank (s : Nat) : Nat := match s with | 1 => 1 | 2 => 2 | 3 => 3 | _ => 4

/-- entering or changing the voting period: deposit → certifier/validator voting, certifier → validator voting -/
theorem activated_id (e : Env) (g : State) (p : Proposal) : (activated e g p).id = p.id := by
  unfold activated; dsimp only; split <;> (try split) <;> rfl

theorem activate_status (e : Env) (g : State) (p : Proposal) (hst : p.status = 1 ∨ p.status = 2) :
    findP (activateVotingPeriod e g p) p.id = some (activated e g p) ∧
    rank p.status < rank (activated e g p).status ∧ (activated e g p).status ≤ 3 ∧
      (p.status = 1 → ((activated e g p).status = 2 ↔ hasSecurityVoting p.kind = true)) := by
  refine ⟨by unfold activateVotingPeriod; rw [findP_setP, activated_id]; simp, ?_⟩
  unfold activated Gen.Gov.entersCertifierRound
  dsimp only
  rcases hst with h1 | h2
  · cases hs : hasSecurityVoting p.kind <;> simp [h1, rank]
  · simp [h2, rank]

/-- finalisation writes passed, rejected or failed — and passed only when the votes said so -/
theorem finish_status (w : World) (p : Proposal) (pass : Bool) (t : Tally) :
    ∃ st : Nat, (st = 4 ∨ st = 5 ∨ st = 6) ∧ (st = 4 → pass = true) ∧ (pass = false → st = 5) ∧
      findP (finish w p pass t).g p.id = some { p with status := st, tally := t } := by
  unfold finish
  cases pass
  · refine ⟨5, by simp, by simp, by simp, ?_⟩
    simp only [Bool.false_eq_true, if_false]; rw [findP_setP]; simp
  · simp only [if_true]
    cases hh : runHandler w p with
    | ok w' => refine ⟨4, by simp, by simp, by simp, ?_⟩; simp only []; rw [findP_setP]; simp
    | error x => refine ⟨6, by simp, by simp, by simp, ?_⟩; simp only []; rw [findP_setP]; simp

end Shentu.Props.C12

#print axioms Shentu.Props.C12.stake_round_pass_iff
#print axioms Shentu.Props.C12.vote_iff
#print axioms Shentu.Props.C12.activate_status
#print axioms Shentu.Props.C12.finish_status
