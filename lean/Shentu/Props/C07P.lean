import Shentu.Proofs.C07PLemmas
/-!
  C07P — "collateral leaves only after the full withdrawal period", with the period changing in mid-history.

  `Shentu/Props/C07.lean` proves `dominance` for histories in which the withdraw period is one constant `P`.
  On the chain a passed parameter-change proposal can replace the period at any block.
  The code queues a request with completion = request time + the period in force AT THE REQUEST.
  A later change does not touch queued entries.

  What is proved here (definitions: `Shentu/Proofs/C07PLemmas.lean`).
  * Histories are lists of `POp`: an operation of C03a (`op o`), or `setPeriod p`.
  * `op o` runs the step of C07 (`C07.gstep`); its requests are logged together with the period of the state it ran in.
  * `setPeriod p` replaces `params.withdrawPeriod` and nothing else; it logs nothing and releases nothing.
  * `logSumP log a T` sums the amounts `a` requested whose own due time (request time + own period) is at most `T`.
  * `dominance_with_period_changes`: at every point of every history, for every provider, the amount released is at
    most `logSumP log a now`.  The number, direction and size of the period changes are arbitrary.
  * The theorem of C07 is the special case without `setPeriod` steps (`dominance_is_special_case`).
  * A statement with ONE period for the whole history is false once the period changes, in both directions
    (`single_period_dominance_fails_when_shortened`, `single_period_dominance_fails_when_lengthened`).

  What is assumed: `CollInv` of the initial state (preserved by every step, `pstep_inv`); the invariant `PInv` of the
  initial state and ghost (it holds for an empty queue with an empty log, `pinv_empty`; preserved by every step);
  every step admissible (`POp.admissible`: the conditions of C03a, and `0 < p` for `setPeriod p`); block times
  non-decreasing (`PTimed`).  The proofs never use `0 < p`: the theorems hold for every integer period.
-/
namespace Shentu.Props.C07P
open Shentu Shentu.Shield Shentu.Shield.Coll Shentu.Props.C03a Shentu.Props.C07

/-! ## the history theorem -/

/-- C07 with period changes.  Run any history of operations and period changes from a state and ghost that satisfy
    the invariant.  Then for every provider `a`, the amount released to `a` so far is at most the sum of the amounts `a`
    requested (explicitly or forced by a staking hook) whose own due time has passed.  The own due time of a request
    is its request time plus the period that was in force when it was made.  As `ops` is arbitrary, this holds at
    every point of every history, with any number of period changes, longer or shorter. -/
theorem dominance_with_period_changes (ops : List POp) (w : World) (g : PGhost) (hi : CollInv w.2)
    (hadm : PAdmissible ops (w, g)) (htime : PTimed ops g.now) (hg : PInv g w.2) :
    ∀ a, (prun ops (w, g)).2.released a ≤ logSumP (prun ops (w, g)).2.log a (prun ops (w, g)).2.now := by
  have hmain := prun_inv ops w g hi hadm htime hg
  intro a
  have h1 := hmain.2 a _ (Int.le_refl _)
  have h2 := dueBy_nonneg a (prun ops (w, g)).2.now _ hmain.1.wdrPos
  omega

/-- The same from a state with an empty withdrawal queue (e.g. genesis), nothing logged, nothing released. -/
theorem dominance_with_period_changes_from_empty_queue (ops : List POp) (w : World) (t0 : Int) (hi : CollInv w.2)
    (hq : w.2.withdraws = []) (hadm : PAdmissible ops (w, ⟨[], fun _ => 0, t0⟩)) (htime : PTimed ops t0) :
    ∀ a, (prun ops (w, ⟨[], fun _ => 0, t0⟩)).2.released a ≤
      logSumP (prun ops (w, ⟨[], fun _ => 0, t0⟩)).2.log a (prun ops (w, ⟨[], fun _ => 0, t0⟩)).2.now :=
  dominance_with_period_changes ops w _ hi hadm htime (pinv_empty w.2 t0 hq)

/-- The invariant is inductive: every admissible step at a non-decreasing block time preserves `CollInv` and `PInv`.
    (The initial case is `pinv_empty`.) -/
theorem invariant_preserved (op : POp) (w : World) (g : PGhost) (hi : CollInv w.2) (hadm : op.admissible w.2)
    (ht : ∀ t, popTime op = some t → g.now ≤ t) (hg : PInv g w.2) :
    CollInv (pstep op (w, g)).1.2 ∧ PInv (pstep op (w, g)).2 (pstep op (w, g)).1.2 :=
  pstep_inv op w g hi hadm ht hg

/-! ## what a period change does, and does not do -/

/-- A `setPeriod` step leaves the bank ledger, the withdrawal queue, the provider records (so every provider's
    collateral and withdrawing amount) and the whole ghost unchanged.  The new period is the one that was set.
    The other parameters are unchanged. -/
theorem period_change_does_not_touch_the_queue (p : Int) (w : World) (g : PGhost) :
    (pstep (.setPeriod p) (w, g)).1.1 = w.1 ∧
    (pstep (.setPeriod p) (w, g)).1.2.withdraws = w.2.withdraws ∧
    (pstep (.setPeriod p) (w, g)).1.2.providers = w.2.providers ∧
    (∀ b, collOf (pstep (.setPeriod p) (w, g)).1.2 b = collOf w.2 b) ∧
    (∀ b, wdgOf (pstep (.setPeriod p) (w, g)).1.2 b = wdgOf w.2 b) ∧
    (∀ b T, dueBy b T (pstep (.setPeriod p) (w, g)).1.2.withdraws = dueBy b T w.2.withdraws) ∧
    (pstep (.setPeriod p) (w, g)).2 = g ∧
    (pstep (.setPeriod p) (w, g)).1.2.params.withdrawPeriod = p ∧
    (pstep (.setPeriod p) (w, g)).1.2.params = { w.2.params with withdrawPeriod := p } ∧
    (pstep (.setPeriod p) (w, g)).1.2 = { w.2 with params := (pstep (.setPeriod p) (w, g)).1.2.params } :=
  ⟨rfl, rfl, rfl, fun _ => rfl, fun _ => rfl, fun _ _ => rfl, rfl, rfl, rfl, rfl⟩

/-- A successful explicit request made right after `setPeriod p` is queued with completion = request time + `p`.
    The queue is the old queue with exactly that entry put in. -/
theorem requests_after_change_wait_the_new_period (e : Env) (s s' : State) (a : Addr) (amount p : Int) (h0 : amount ≠ 0)
    (h : withdrawCollateral e (setPeriodState p s) a amount = .ok s') :
    s'.withdraws.Perm ({ addr := a, amount := amount, time := e.t + p } :: s.withdraws) ∧
    ∃ l1 l2, s.withdraws = l1 ++ l2 ∧ s'.withdraws = l1 ++ { addr := a, amount := amount, time := e.t + p } :: l2 :=
  request_enqueued_at_full_period e (setPeriodState p s) s' a amount h0 h

/-- The same inside a history.  After `setPeriod p`, a successful request step logs the request with the period `p`. -/
theorem requests_after_change_are_logged_with_the_new_period (e : Env) (w : World) (g : PGhost) (s' : State) (a : Addr)
    (amount p : Int) (h0 : amount ≠ 0) (h : withdrawCollateral e (setPeriodState p w.2) a amount = .ok s') :
    (pstep (.op (.withdrawCollateral e a amount)) (pstep (.setPeriod p) (w, g))).2.log = g.log ++ [(⟨a, amount, e.t⟩, p)] ∧
    (pstep (.op (.withdrawCollateral e a amount)) (pstep (.setPeriod p) (w, g))).1.2 = s' := by
  have happ : Op.apply (.withdrawCollateral e a amount) (w.1, setPeriodState p w.2) = .ok (w.1, s') := by
    simp only [Op.apply, h]; rfl
  have hst : pstep (.setPeriod p) (w, g) = ((w.1, setPeriodState p w.2), g) := rfl
  rw [hst, pstep_op_ok _ _ _ g happ]
  refine ⟨?_, rfl⟩
  simp only [opRequests, requestLog, h0, if_false, tag, List.map_cons, List.map_nil]
  rfl

/-! ## the theorem of C07 is the special case without period changes -/

/-- A history without `setPeriod` steps, run with the ghost of this file, is the history of C07: same world, same
    released amounts, same time, and the log is the log of C07 with every request tagged with the constant period. -/
theorem no_period_change_is_C07 (P : Int) (ops : List Op) (w : World) (g : Ghost) (hi : CollInv w.2)
    (hP : w.2.params.withdrawPeriod = P) (hadm : Admissible ops w) :
    prun (ops.map .op) (w, liftGhost P g) = ((grun ops (w, g)).1, liftGhost P (grun ops (w, g)).2) :=
  prun_ops P ops w g hi hP hadm

/-- `C07.dominance`, word for word, derived from `dominance_with_period_changes` applied to the history `ops.map .op`. -/
theorem dominance_is_special_case (P : Int) (ops : List Op) (w : World) (g : Ghost) (hi : CollInv w.2)
    (hP : w.2.params.withdrawPeriod = P) (hadm : Admissible ops w) (htime : Timed ops g.now) (hg : GhostInv P g w.2) :
    ∀ a, (grun ops (w, g)).2.released a ≤ logSum P (grun ops (w, g)).2.log a (grun ops (w, g)).2.now := by
  intro a
  have h := dominance_with_period_changes (ops.map .op) w (liftGhost P g) hi (padmissible_ops ops w _ hadm)
    (ptimed_ops ops g.now htime) ((pinv_lift P g w.2).mpr hg) a
  rw [prun_ops P ops w g hi hP hadm] at h
  simpa only [liftGhost, logSumP_tag] using h

/-! ## examples; one period for the whole history is the wrong statement -/

namespace Ex
open Shentu.Props.C03a.Ex Shentu.Props.C07.Ex

def g0 : PGhost := ⟨[], fun _ => 0, 0⟩

/-- Period 50.  "a" requests 30 at time 10 (due 60).  The period is shortened to 20.  "b" requests 10 at time 30
    (due 50).  The end-blocker at 55 releases the second request before the first; the one at 65 releases the first. -/
def hist : List POp :=
  [.op (.withdraw (env 10) "a" [("uctk", 30)]), .setPeriod 20, .op (.withdraw (env 30) "b" [("uctk", 10)]),
   .op (.endBlock (env 55)), .op (.endBlock (env 65))]

/-- Period 50.  "a" requests 30 at time 10 (due 60).  The period is lengthened to 100.  The end-blocker at 65 releases
    the request, 45 before "request time + the new period". -/
def histLong : List POp :=
  [.op (.withdraw (env 10) "a" [("uctk", 30)]), .setPeriod 100, .op (.endBlock (env 65))]

theorem hist_hyps : CollInv s1 ∧ s1.withdraws = [] ∧ PAdmissible hist ((l0, s1), g0) ∧ PTimed hist 0 := by
  refine ⟨by constructor <;> decide, rfl, ⟨trivial, (show (0 : Int) < 20 by decide), trivial, trivial, trivial, trivial⟩, ?_⟩
  refine ⟨?_, ?_, ?_, ?_, ?_, trivial⟩ <;> intro t ht <;> cases ht <;> decide

theorem histLong_hyps : CollInv s1 ∧ s1.withdraws = [] ∧ PAdmissible histLong ((l0, s1), g0) ∧ PTimed histLong 0 := by
  refine ⟨by constructor <;> decide, rfl, ⟨trivial, (show (0 : Int) < 100 by decide), trivial, trivial⟩, ?_⟩
  refine ⟨?_, ?_, ?_, trivial⟩ <;> intro t ht <;> cases ht <;> decide

/-- Non-vacuity of `dominance_with_period_changes` (and of the corollary): the hypotheses hold for `hist`. -/
example : CollInv s1 ∧ s1.withdraws = [] ∧ PAdmissible hist ((l0, s1), g0) ∧ PTimed hist 0 ∧ PInv g0 s1 :=
  ⟨hist_hyps.1, hist_hyps.2.1, hist_hyps.2.2.1, hist_hyps.2.2.2, pinv_empty s1 0 rfl⟩

/-- And the history is not trivial.  Both requests are logged, each with its own period.  After the end-blocker at 55
    the later request of "b" has been released (10 ≤ 10) and the earlier one of "a" has not (0 ≤ 0).  After the one at
    65 both have (30 ≤ 30).  The queue entries carry the two different completion times. -/
example : (prun hist ((l0, s1), g0)).2.log = [(⟨"a", 30, 10⟩, 50), (⟨"b", 10, 30⟩, 20)] ∧
    (prun (hist.take 3) ((l0, s1), g0)).1.2.withdraws.map (fun w => (w.addr, w.amount, w.time)) = [("b", 10, 50), ("a", 30, 60)] ∧
    (prun (hist.take 4) ((l0, s1), g0)).2.released "b" = 10 ∧ logSumP (prun (hist.take 4) ((l0, s1), g0)).2.log "b" 55 = 10 ∧
    (prun (hist.take 4) ((l0, s1), g0)).2.released "a" = 0 ∧ logSumP (prun (hist.take 4) ((l0, s1), g0)).2.log "a" 55 = 0 ∧
    (prun hist ((l0, s1), g0)).2.released "a" = 30 ∧ logSumP (prun hist ((l0, s1), g0)).2.log "a" 65 = 30 ∧
    (prun hist ((l0, s1), g0)).2.now = 65 ∧ (prun hist ((l0, s1), g0)).1.2.params.withdrawPeriod = 20 := by
  decide

/-- `period_change_does_not_touch_the_queue` / `requests_after_change_wait_the_new_period` on concrete data: in `s0`
    (period 50, two entries queued) the period is set to 20; a request of 70 at time 60 is then queued for 80, between
    the old entries, which keep their times 40 and 70. -/
example : isOk (withdrawCollateral e60 (setPeriodState 20 s0) "a" 70) = true ∧
    (get (withdrawCollateral e60 (setPeriodState 20 s0) "a" 70)).withdraws.map (fun w => (w.addr, w.amount, w.time)) =
      [("a", 10, 40), ("a", 20, 70), ("a", 70, 80)] ∧
    (setPeriodState 20 s0).withdraws = s0.withdraws ∧ (setPeriodState 20 s0).params.withdrawPeriod = 20 := by decide

/-- `dominance_is_special_case`: its hypotheses are those of `C07.dominance`; they hold for the history of C07's
    own example (see the end of `Shentu/Props/C07.lean`), whose lifted run logs both requests with the period 50. -/
example : (prun (C07.Ex.hist.map .op) ((l0, s1), liftGhost 50 C07.Ex.g0)).2.log = [(⟨"a", 30, 10⟩, 50), (⟨"a", 30, 20⟩, 50)] ∧
    (prun (C07.Ex.hist.map .op) ((l0, s1), liftGhost 50 C07.Ex.g0)).2.released "a" = 60 := by decide

/-- The statement of C07 with the INITIAL period for all requests is false once the period is shortened.  In `hist`
    the period drops from 50 to 20; "b" requests 10 at time 30 and has them released at 55, before 30 + 50. -/
theorem single_period_dominance_fails_when_shortened :
    ¬ ∀ (ops : List POp) (w : World) (t0 : Int), CollInv w.2 → w.2.withdraws = [] →
        PAdmissible ops (w, ⟨[], fun _ => 0, t0⟩) → PTimed ops t0 →
        ∀ a, (prun ops (w, ⟨[], fun _ => 0, t0⟩)).2.released a ≤
          logSum w.2.params.withdrawPeriod ((prun ops (w, ⟨[], fun _ => 0, t0⟩)).2.log.map (·.1)) a
            (prun ops (w, ⟨[], fun _ => 0, t0⟩)).2.now := by
  intro h
  have h1 := h (hist.take 4) (l0, s1) 0 hist_hyps.1 rfl
    ⟨trivial, (show (0 : Int) < 20 by decide), trivial, trivial, trivial⟩
    (by refine ⟨?_, ?_, ?_, ?_, trivial⟩ <;> intro t ht <;> cases ht <;> decide) "b"
  revert h1
  decide

/-- The statement with the CURRENT period for all requests is false once the period is lengthened.  In `histLong`
    the period rises from 50 to 100; "a" requested 30 at time 10 and has them released at 65, before 10 + 100. -/
theorem single_period_dominance_fails_when_lengthened :
    ¬ ∀ (ops : List POp) (w : World) (t0 : Int), CollInv w.2 → w.2.withdraws = [] →
        PAdmissible ops (w, ⟨[], fun _ => 0, t0⟩) → PTimed ops t0 →
        ∀ a, (prun ops (w, ⟨[], fun _ => 0, t0⟩)).2.released a ≤
          logSum (prun ops (w, ⟨[], fun _ => 0, t0⟩)).1.2.params.withdrawPeriod
            ((prun ops (w, ⟨[], fun _ => 0, t0⟩)).2.log.map (·.1)) a (prun ops (w, ⟨[], fun _ => 0, t0⟩)).2.now := by
  intro h
  have h1 := h histLong (l0, s1) 0 histLong_hyps.1 rfl histLong_hyps.2.2.1 histLong_hyps.2.2.2 "a"
  revert h1
  decide

/-- The numbers behind the two failures.  In `hist`, 10 have been released to "b" at 55, and nothing was requested by
    "b" 50 (the old period) before 55.  In `histLong`, 30 have been released to "a" at 65, and nothing was requested by
    "a" 100 (the new period) before 65, while the per-request sum covers the release (30 ≤ 30).
    (Only the smallest period of the history would give a true single-period statement, and a weaker one.) -/
example : (prun (hist.take 4) ((l0, s1), g0)).2.released "b" = 10 ∧
    logSum 50 ((prun (hist.take 4) ((l0, s1), g0)).2.log.map (·.1)) "b" 55 = 0 ∧
    (prun histLong ((l0, s1), g0)).2.released "a" = 30 ∧
    logSum 100 ((prun histLong ((l0, s1), g0)).2.log.map (·.1)) "a" 65 = 0 ∧
    logSumP (prun histLong ((l0, s1), g0)).2.log "a" 65 = 30 := by decide

end Ex

end Shentu.Props.C07P

#print axioms Shentu.Props.C07P.dominance_with_period_changes
#print axioms Shentu.Props.C07P.dominance_with_period_changes_from_empty_queue
#print axioms Shentu.Props.C07P.invariant_preserved
#print axioms Shentu.Props.C07P.period_change_does_not_touch_the_queue
#print axioms Shentu.Props.C07P.requests_after_change_wait_the_new_period
#print axioms Shentu.Props.C07P.requests_after_change_are_logged_with_the_new_period
#print axioms Shentu.Props.C07P.no_period_change_is_C07
#print axioms Shentu.Props.C07P.dominance_is_special_case
#print axioms Shentu.Props.C07P.Ex.single_period_dominance_fails_when_shortened
#print axioms Shentu.Props.C07P.Ex.single_period_dominance_fails_when_lengthened
