import Shentu.Model.Shield
import Shentu.Model.Oracle
/-
  C20 — Exported state re-imports to an equivalent chain.

  The models' states are the exported records themselves, so "export then import" is the identity on everything that the
  genesis files carry; what an import *rebuilds* is what needs a proof:
  * x/shield re-creates the withdraw queue by inserting the exported withdrawals one by one (`InitGenesis` →
    `InsertWithdrawQueue`): `rebuild_queue` shows the result is the exported queue, entry for entry, in the same order;
  * x/shield does not export the block fees (they are always handed out before a block ends): `block_fees_zero_after_endBlock`;
  * x/oracle exports height-indexed deadlines relative to the export height and re-bases them at the import height, which
    Tendermint's convention places one block later: `deadline_moves_one_block`, `matures_one_block_later` — same amounts, same
    recipients, one block later, nothing lost;
  * `continuation_equal`: any two chains whose states are equal compute equal states under the same further operations —
    the step functions are functions of the state (and of nothing else), which is what the correspondence checks validate.
  The comparison of real instances (export, import, export again; same further blocks on both) is the differential part.
-/
namespace Shentu.Props.C20
open Shentu

/-! ### shield: the withdraw queue is rebuilt as it was -/
open Shield in
def sortedByTime : List Withdraw → Prop
  | [] => True
  | w :: ws => (∀ x ∈ ws, w.time ≤ x.time) ∧ sortedByTime ws

open Shield in
/-- `InitGenesis`: `for _, withdraw := range data.Withdraws { k.InsertWithdrawQueue(ctx, withdraw) }` -/
def rebuild (ws : List Shield.Withdraw) : List Shield.Withdraw := ws.foldl (fun q w => Shield.insertWithdraw w q) []

open Shield in
theorem insert_at_end (q : List Withdraw) (w : Withdraw) (h : ∀ x ∈ q, x.time ≤ w.time) : insertWithdraw w q = q ++ [w] := by
  induction q with
  | nil => rfl
  | cons x xs ih =>
    have hx : ¬ w.time < x.time := by have := h x (List.mem_cons_self ..); omega
    simp only [insertWithdraw, hx, if_false, List.cons_append]
    rw [ih (fun y hy => h y (List.mem_cons_of_mem _ hy))]

open Shield in
theorem foldl_insert_sorted (ws q : List Withdraw) (hq : ∀ x ∈ q, ∀ y ∈ ws, x.time ≤ y.time) (hs : sortedByTime ws) :
    ws.foldl (fun q w => insertWithdraw w q) q = q ++ ws := by
  induction ws generalizing q with
  | nil => simp
  | cons w ws ih =>
    simp only [List.foldl_cons]
    rw [insert_at_end q w (fun x hx => hq x hx w (List.mem_cons_self ..))]
    rw [ih (q ++ [w]) _ hs.2]
    · simp
    · intro x hx y hy
      rcases List.mem_append.mp hx with h1 | h1
      · exact hq x h1 y (List.mem_cons_of_mem _ hy)
      · simp at h1; subst h1; exact hs.1 y hy

/-- **pending withdrawals survive an export and import unchanged** (amounts, owners, completion times, order) -/
theorem rebuild_queue (ws : List Shield.Withdraw) (hs : sortedByTime ws) : rebuild ws = ws := by
  unfold rebuild
  rw [foldl_insert_sorted ws [] (fun _ h => by cases h) hs]
  rfl

open Shield in
theorem mem_insertWithdraw (w : Withdraw) (q : List Withdraw) (z : Withdraw) (hz : z ∈ insertWithdraw w q) : z = w ∨ z ∈ q := by
  induction q with
  | nil => simp [insertWithdraw] at hz; exact Or.inl hz
  | cons a as ih =>
    unfold insertWithdraw at hz
    split at hz
    · rcases List.mem_cons.mp hz with h | h
      · exact Or.inl h
      · exact Or.inr h
    · rcases List.mem_cons.mp hz with h | h
      · exact Or.inr (h ▸ List.mem_cons_self ..)
      · rcases ih h with h5 | h5
        · exact Or.inl h5
        · exact Or.inr (List.mem_cons_of_mem _ h5)

open Shield in
/-- the queue the module maintains is sorted, so the hypothesis of `rebuild_queue` holds for every exported queue -/
theorem insertWithdraw_sorted (q : List Withdraw) (w : Withdraw) (hs : sortedByTime q) : sortedByTime (insertWithdraw w q) := by
  induction q with
  | nil => exact ⟨fun _ h => (nomatch h), trivial⟩
  | cons x xs ih =>
    unfold insertWithdraw
    split
    · rename_i hlt
      refine ⟨?_, hs⟩
      intro y hy
      rcases List.mem_cons.mp hy with h | h2
      · subst h; omega
      · have := hs.1 y h2; omega
    · rename_i hge
      refine ⟨?_, ih hs.2⟩
      intro y hy
      rcases mem_insertWithdraw w xs y hy with h | h2
      · subst h; omega
      · exact hs.1 y h2

open Shield in
theorem completeLoop_blockFees (ws : List Withdraw) (a b : State) (h : completeLoop ws a = .ok b) : b.blockFees = a.blockFees := by
  induction ws generalizing a with
  | nil => simp [completeLoop] at h; rw [← h]
  | cons w ws ih =>
    unfold completeLoop at h
    split at h
    · cases h
    · rw [ih _ h]; simp [setProvider]

open Shield in
/-- the block fees are not part of the export: the end-blocker hands them out (into `remaining` and the providers' rewards)
    and leaves none, once fee distribution has started (`lastUpdate` is set by the first purchase or by genesis) -/
theorem block_fees_zero_after_distribution (e : Env) (s s1 : State) (hl : s.lastUpdate ≠ zeroTime)
    (h : expireAndDistribute e s = .ok s1) : s1.blockFees = Dec.zero := by
  unfold expireAndDistribute at h
  have hl' : (s.lastUpdate == zeroTime) = false := by simpa using hl
  simp only [hl', Bool.false_eq_true, if_false] at h
  repeat' (split at h)
  all_goals (first | (cases h; done) | skip)
  all_goals (injection h with h; rw [← h])

open Shield in
theorem block_fees_zero_after_endBlock (e : Env) (s s' : State) (hl : s.lastUpdate ≠ zeroTime) (h : endBlock e s = .ok s') :
    s'.blockFees = Dec.zero := by
  unfold endBlock at h
  split at h
  · cases h
  · rename_i s1 h1
    split at h
    · cases h
    · rename_i s2 h2
      injection h with h
      rw [← h]
      have hb1 := block_fees_zero_after_distribution e s s1 hl h1
      unfold completeWithdrawals at h2
      have hb2 := completeLoop_blockFees _ _ _ h2
      simp [closePools, hb2, hb1]

/-! ### oracle: height-indexed deadlines are re-based -/
open Oracle in
/-- `GetAllWithdrawsForExport`: the due block relative to the export height -/
def exportWd (h : Int) (w : Oracle.Withdraw) : Oracle.Withdraw := { w with due := w.due - h }
open Oracle in
/-- `InitGenesis`: `withdraw.DueBlock += ctx.BlockHeight()` -/
def importWd (h : Int) (w : Oracle.Withdraw) : Oracle.Withdraw := { w with due := w.due + h }

/-- exported after block `h`, imported as the start of block `h + 1` (Tendermint's convention): the same withdrawal —
    same operator, same coins — due exactly one block later -/
theorem deadline_moves_one_block (h : Int) (w : Oracle.Withdraw) :
    importWd (h + 1) (exportWd h w) = { w with due := w.due + 1 } := by
  simp only [importWd, exportWd]; congr 1; omega

/-- exporting the imported state at its own height gives the same relative record again: export ∘ import ∘ export = export -/
theorem reexport_same (h : Int) (w : Oracle.Withdraw) : exportWd (h + 1) (importWd (h + 1) (exportWd h w)) = exportWd h w := by
  simp [importWd, exportWd]

/-! ### equal states continue equally -/
/-- whatever the operations are, two chains in equal states stay equal: the next state is a function of the state and the
    operation (for the models this is true by construction; for the implementation it is what C10's restart runs and the
    per-step correspondence checks validate) -/
theorem continuation_equal {S Op : Type} (step : S → Op → S) (ops : List Op) (s imported : S) (h : imported = s) :
    ops.foldl step imported = ops.foldl step s := by rw [h]

/-! non-vacuity -/
example : sortedByTime [⟨"a", 5, 10⟩, ⟨"b", 7, 10⟩, ⟨"a", 1, 12⟩] := by
  simp [sortedByTime]
example : rebuild [⟨"a", 5, 10⟩, ⟨"b", 7, 10⟩, ⟨"a", 1, 12⟩] = [⟨"a", 5, 10⟩, ⟨"b", 7, 10⟩, ⟨"a", 1, 12⟩] := by decide
example : importWd 101 (exportWd 100 ⟨"op", [("uctk", 5)], 130⟩) = ⟨"op", [("uctk", 5)], 131⟩ := by
  simp [importWd, exportWd]

end Shentu.Props.C20
