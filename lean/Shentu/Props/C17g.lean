import Shentu.Model.CvmGas
/-
  C17 — "the gas consumed by the VM is charged to the enclosing transaction's gas meter", the keeper's side.

  `CvmGas.getOriginalGas` / `CvmGas.charge` are x/cvm/keeper's arithmetic, regenerated from the source on every run
  (`Gen.CvmGas`, tie theorems below). Proved for all meter readings, gas rates and executions:
   * `allowance_within_what_is_left`   on a finite meter the VM never gets more than what is left on it times the gas rate, nor
                                       more than the cap — with nothing left it gets nothing;
   * `charge_covers_the_work`          a failed execution is charged ⌈used / rate⌉: at least the work done, in units of the rate;
   * `charge_within_what_was_left`     … and never more than was left on the meter;
   * `refund_at_most_half`             a successful execution is charged for at least half of what it used;
   * `infinite_meter_*`                what an infinite meter (limit 0: queries, genesis) gets — recorded behaviour.
-/
namespace Shentu.Props.C17g
open Shentu Shentu.CvmGas

/-- every site of the keeper's gas arithmetic was recognised, `getOriginalGas` has no further branch, the cap is 5,000,000, and
    the refund is granted only when the execution did not fail -/
theorem tie_sites : Gen.CvmGas.allFound = true ∧ Gen.CvmGas.getOriginalGasStatements = 5 ∧
    Gen.CvmGas.transactionGasLimit = 5000000 ∧ Gen.CvmGas.refundOnlyIf = "err == nil" := by decide

/-- the regenerated arithmetic, spelled out -/
theorem tie_arithmetic (limit consumed gc rate og tl gl rf fee : Int) :
    Gen.CvmGas.gasCurrent limit consumed = limit - consumed ∧ Gen.CvmGas.allowanceRaw gc rate = gc * rate ∧
    Gen.CvmGas.allowanceOverflowed og gc = decide (og < gc) ∧ Gen.CvmGas.allowanceCapped og tl = min og tl ∧
    Gen.CvmGas.afterRefund gl og rf = gl + min (Int.tdiv (og - gl) 2) rf ∧ Gen.CvmGas.fee og gl = og - gl ∧
    Gen.CvmGas.charged fee rate = Int.tdiv (fee + rate - 1) rate := ⟨rfl, rfl, rfl, rfl, rfl, rfl, rfl⟩

theorem u64_of_range (x : Int) (h0 : 0 ≤ x) (h1 : x < two64) : u64 x = x := by
  unfold u64; exact Int.emod_eq_of_lt h0 h1

theorem u64_range (x : Int) : 0 ≤ u64 x ∧ u64 x < two64 := by
  unfold u64 two64; constructor
  · exact Int.emod_nonneg _ (by decide)
  · exact Int.emod_lt_of_pos _ (by decide)

/-- **The allowance is within what is left.** On a finite meter that is not overdrawn (`consumed ≤ limit < 2^64`), whatever the
    gas rate: the VM's allowance is at most `(limit − consumed) · rate` and at most the cap. -/
theorem allowance_within_what_is_left (limit consumed rate og : Int) (hc : 0 ≤ consumed) (hl : consumed ≤ limit) (hlim : limit < two64)
    (hr : 0 ≤ rate) (h : getOriginalGas limit consumed rate = .ok og) :
    0 ≤ og ∧ og ≤ (limit - consumed) * rate ∧ og ≤ Gen.CvmGas.transactionGasLimit := by
  unfold getOriginalGas at h
  have hgc : u64 (Gen.CvmGas.gasCurrent limit consumed) = limit - consumed :=
    u64_of_range _ (by show 0 ≤ limit - consumed; omega) (by show limit - consumed < two64; omega)
  simp only [hgc, Gen.CvmGas.allowanceRaw, Gen.CvmGas.allowanceOverflowed, Gen.CvmGas.allowanceCapped, err] at h
  split at h; · cases h
  injection h with h; subst h
  have hr0 := (u64_range ((limit - consumed) * rate)).1
  have hle : u64 ((limit - consumed) * rate) ≤ (limit - consumed) * rate := by
    unfold u64
    have hx : 0 ≤ (limit - consumed) * rate := Int.mul_nonneg (by omega) hr
    have hpos : (0 : Int) < two64 := by decide
    have hd := Int.emod_add_mul_ediv ((limit - consumed) * rate) two64
    have hq : 0 ≤ (limit - consumed) * rate / two64 := Int.ediv_nonneg hx (by decide)
    have : 0 ≤ two64 * ((limit - consumed) * rate / two64) := Int.mul_nonneg (by decide) hq
    omega
  have ht : (0 : Int) ≤ Gen.CvmGas.transactionGasLimit := by decide
  refine ⟨by omega, by omega, by omega⟩

/-- with nothing left on the meter the VM gets nothing -/
theorem nothing_left_nothing_allowed (limit rate og : Int) (hl0 : 0 ≤ limit) (hlim : limit < two64) (hr : 0 ≤ rate)
    (h : getOriginalGas limit limit rate = .ok og) : og = 0 := by
  have := allowance_within_what_is_left limit limit rate og hl0 (Int.le_refl _) hlim hr h
  have hz : (limit - limit) * rate = 0 := by rw [Int.sub_self, Int.zero_mul]
  omega

/-- **A failed execution is charged for its work.** With an allowance `og`, `gasLeft ≤ og` left by the VM and a rate ≥ 1, the
    charge times the rate is at least the gas the VM used, and less than that plus one rate unit (the ceiling). -/
theorem charge_covers_the_work (og gasLeft refund rate : Int) (h0 : 0 ≤ gasLeft) (hle : gasLeft ≤ og) (hog : og < two64)
    (hr : 1 ≤ rate) :
    og - gasLeft ≤ charge og gasLeft refund rate true * rate ∧ charge og gasLeft refund rate true * rate < og - gasLeft + rate := by
  unfold charge
  simp only [if_true, Gen.CvmGas.fee, Gen.CvmGas.charged]
  have hf : u64 (og - gasLeft) = og - gasLeft := u64_of_range _ (by omega) (by omega)
  rw [hf]
  have hn : 0 ≤ og - gasLeft + rate - 1 := by omega
  rw [Int.tdiv_eq_ediv_of_nonneg hn]
  have hq0 : 0 ≤ (og - gasLeft + rate - 1) / rate := Int.ediv_nonneg hn (by omega)
  have hqle : (og - gasLeft + rate - 1) / rate ≤ og - gasLeft + rate - 1 := Int.ediv_le_self _ hn
  have hc : u64 ((og - gasLeft + rate - 1) / rate) = (og - gasLeft + rate - 1) / rate := by
    apply u64_of_range _ hq0
    -- the quotient is at most og - gasLeft (when rate ≥ 1 the ceiling of x/rate is ≤ x for x ≥ 1, and 0 for x = 0)
    have hx : (og - gasLeft + rate - 1) / rate ≤ og - gasLeft := by
      have h1 : (og - gasLeft + rate - 1) / rate * rate ≤ og - gasLeft + rate - 1 := Int.ediv_mul_le _ (by omega)
      by_cases hz : og - gasLeft = 0
      · have : (og - gasLeft + rate - 1) / rate = 0 := by
          rw [hz]; apply Int.ediv_eq_zero_of_lt <;> omega
        omega
      · -- q * rate ≤ x + rate - 1 with x ≥ 1, rate ≥ 1 ⇒ q ≤ x (else q ≥ x+1 gives (x+1)·rate ≤ x + rate − 1, i.e. x·rate ≤ x − 1, false)
        by_cases hq : (og - gasLeft + rate - 1) / rate ≤ og - gasLeft
        · exact hq
        · exfalso
          have hq' : og - gasLeft + 1 ≤ (og - gasLeft + rate - 1) / rate := by omega
          have : (og - gasLeft + 1) * rate ≤ (og - gasLeft + rate - 1) / rate * rate := Int.mul_le_mul_of_nonneg_right hq' (by omega)
          have h2 : (og - gasLeft + 1) * rate = (og - gasLeft) * rate + rate := by rw [Int.add_mul, Int.one_mul]
          have h3 : (og - gasLeft) ≤ (og - gasLeft) * rate := by
            have := Int.mul_le_mul_of_nonneg_left hr (show 0 ≤ og - gasLeft by omega)
            rw [Int.mul_one] at this; exact this
          omega
    omega
  rw [hc]
  have h1 : (og - gasLeft + rate - 1) / rate * rate ≤ og - gasLeft + rate - 1 := Int.ediv_mul_le _ (by omega)
  have h2 : og - gasLeft + rate - 1 < ((og - gasLeft + rate - 1) / rate + 1) * rate := by
    have := Int.lt_ediv_add_one_mul_self (og - gasLeft + rate - 1) (show 0 < rate by omega)
    exact this
  rw [Int.add_mul, Int.one_mul] at h2
  constructor <;> omega

/-- **… and never more than was left on the meter**: the allowance came from `left` units at `rate`, so the charge of a failed
    execution is at most `left`. -/
theorem charge_within_what_was_left (left og gasLeft refund rate : Int) (h0 : 0 ≤ gasLeft) (hle : gasLeft ≤ og) (hog : og < two64)
    (hr : 1 ≤ rate) (hal : og ≤ left * rate) : charge og gasLeft refund rate true ≤ left := by
  have h := (charge_covers_the_work og gasLeft refund rate h0 hle hog hr).2
  -- charge·rate < used + rate ≤ left·rate + rate = (left + 1)·rate
  have h1 : charge og gasLeft refund rate true * rate < (left + 1) * rate := by
    rw [Int.add_mul, Int.one_mul]; omega
  have := Int.lt_of_mul_lt_mul_right h1 (by omega : 0 ≤ rate)
  omega

/-- **The refund is at most half**: a successful execution (`gasLeft ≤ og`, any refund counter ≥ 0) is charged for at least half
    of what it used, in the same units. -/
theorem refund_at_most_half (og gasLeft refund rate : Int) (h0 : 0 ≤ gasLeft) (hle : gasLeft ≤ og) (hog : og < two64)
    (hrf : 0 ≤ refund) (hr : 1 ≤ rate) :
    (og - gasLeft) / 2 ≤ charge og gasLeft refund rate false * rate := by
  unfold charge
  simp only [Bool.false_eq_true, if_false, Gen.CvmGas.afterRefund, Gen.CvmGas.fee, Gen.CvmGas.charged]
  have hd : 0 ≤ og - gasLeft := by omega
  rw [Int.tdiv_eq_ediv_of_nonneg hd]
  have hm0 : 0 ≤ min ((og - gasLeft) / 2) refund := by
    have : 0 ≤ (og - gasLeft) / 2 := Int.ediv_nonneg hd (by decide)
    omega
  have hm1 : min ((og - gasLeft) / 2) refund ≤ (og - gasLeft) / 2 := Int.min_le_left _ _
  have hhalf : (og - gasLeft) / 2 * 2 ≤ og - gasLeft := Int.ediv_mul_le _ (by decide)
  have ht : u64 (gasLeft + min ((og - gasLeft) / 2) refund) = gasLeft + min ((og - gasLeft) / 2) refund :=
    u64_of_range _ (by omega) (by omega)
  rw [ht]
  generalize hm : min ((og - gasLeft) / 2) refund = m at *
  have hf : u64 (og - (gasLeft + m)) = og - (gasLeft + m) := u64_of_range _ (by omega) (by omega)
  rw [hf]
  have hn : 0 ≤ og - (gasLeft + m) + rate - 1 := by omega
  rw [Int.tdiv_eq_ediv_of_nonneg hn]
  have hq0 : 0 ≤ (og - (gasLeft + m) + rate - 1) / rate := Int.ediv_nonneg hn (by omega)
  have hqle : (og - (gasLeft + m) + rate - 1) / rate ≤ og - (gasLeft + m) + rate - 1 := Int.ediv_le_self _ hn
  have hc : u64 ((og - (gasLeft + m) + rate - 1) / rate) = (og - (gasLeft + m) + rate - 1) / rate := by
    apply u64_of_range _ hq0
    have h1 : (og - (gasLeft + m) + rate - 1) / rate * rate ≤ og - (gasLeft + m) + rate - 1 := Int.ediv_mul_le _ (by omega)
    have h3 : (og - (gasLeft + m) + rate - 1) / rate ≤ (og - (gasLeft + m) + rate - 1) / rate * rate := by
      have := Int.mul_le_mul_of_nonneg_left hr hq0
      rw [Int.mul_one] at this; exact this
    -- q ≤ q·rate ≤ x + rate − 1 < 2^64 + rate; sharpen: q·rate ≤ x + rate − 1 and q ≤ x + … : use q ≤ x when x ≥ 1 as before, or bound crudely
    by_cases hz : og - (gasLeft + m) = 0
    · have : (og - (gasLeft + m) + rate - 1) / rate = 0 := by
        rw [hz]; apply Int.ediv_eq_zero_of_lt <;> omega
      omega
    · by_cases hq : (og - (gasLeft + m) + rate - 1) / rate ≤ og - (gasLeft + m)
      · omega
      · exfalso
        have hq' : og - (gasLeft + m) + 1 ≤ (og - (gasLeft + m) + rate - 1) / rate := by omega
        have : (og - (gasLeft + m) + 1) * rate ≤ (og - (gasLeft + m) + rate - 1) / rate * rate := Int.mul_le_mul_of_nonneg_right hq' (by omega)
        have h2 : (og - (gasLeft + m) + 1) * rate = (og - (gasLeft + m)) * rate + rate := by rw [Int.add_mul, Int.one_mul]
        have h4 : (og - (gasLeft + m)) ≤ (og - (gasLeft + m)) * rate := by
          have := Int.mul_le_mul_of_nonneg_left hr (show 0 ≤ og - (gasLeft + m) by omega)
          rw [Int.mul_one] at this; exact this
        omega
  rw [hc]
  have h2 : og - (gasLeft + m) + rate - 1 < ((og - (gasLeft + m) + rate - 1) / rate + 1) * rate :=
    Int.lt_ediv_add_one_mul_self _ (show 0 < rate by omega)
  rw [Int.add_mul, Int.one_mul] at h2
  omega

/-! recorded behaviour of an infinite meter (limit 0: queries, simulation, genesis, block handlers) -/

/-- at gas rate 1 an infinite meter yields the cap (the subtraction wraps around) -/
example : (match getOriginalGas 0 12345 1 with | .ok v => v == 5000000 | .error _ => false) = true := by decide
/-- at a gas rate above 1 the wrapped product trips the overflow check: every such call fails -/
example : (match getOriginalGas 0 12345 2 with | .error _ => true | .ok _ => false) = true := by decide

/-! non-vacuity -/
example : (match getOriginalGas 3000000 57000 1 with | .ok v => v == 2943000 | .error _ => false) = true := by decide
example : (match getOriginalGas 3000000 57000 10 with | .ok v => v == 5000000 | .error _ => false) = true := by decide
example : (match getOriginalGas 57000 57000 10 with | .ok v => v == 0 | .error _ => false) = true := by decide
/-- an endless loop: the whole allowance of 2,943,000 used at rate 1 is charged -/
example : charge 2943000 0 0 1 true = 2943000 := by decide
/-- at rate 100, 1,151 VM gas cost 12 SDK gas -/
example : charge 5000000 4998849 0 100 true = 12 := by decide
/-- a refund counter larger than half of the use: half is refunded -/
example : charge 100000 40000 999999 1 false = 30000 := by decide

end Shentu.Props.C17g
