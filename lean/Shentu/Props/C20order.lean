import Shentu.Proofs.OracleOrder
/-
  C20 / C10, the oracle's end-blocker: the tasks that close in one block can be handled in any order.

  A running node keeps the list of tasks closing at a height in the order of their creation; a node started from an exported
  genesis rebuilds the list in store order (x/oracle InitGenesis → UpdateAndSetTask).  `EndBlocker` walks the list; each task is
  aggregated on its own and its bounty is added to the responders' accumulated rewards.  `endFold_perm`: for any two orders of
  the same tasks (distinct store keys) the end-blocker either halts in both or ends in states that agree on everything and hold
  the same reward amounts for every operator and denomination (rewards are kept as unsorted coin lists, so the lists themselves
  may be permuted).  Property theorems only; helper lemmas are in `Shentu/Proofs/OracleOrder.lean`.
-/
namespace Shentu.Props.C20order
open Shentu Shentu.Oracle

/-- the same operator, holding the same reward amounts -/
def OpEq (a b : Operator) : Prop :=
  a.addr = b.addr ∧ a.proposer = b.proposer ∧ a.coll = b.coll ∧ ∀ d, Coins.amountOf a.rew d = Coins.amountOf b.rew d

/-- the same operators in the same order -/
def OpsEq : List Operator → List Operator → Prop
  | [], [] => True
  | a :: as, b :: bs => OpEq a b ∧ OpsEq as bs
  | _, _ => False

/-- the same oracle state up to the representation of the operators' rewards -/
def StateEq (a b : State) : Prop :=
  OpsEq a.ops b.ops ∧ a.wds = b.wds ∧ a.total = b.total ∧ a.tasks = b.tasks ∧ a.closing = b.closing ∧ a.params = b.params

/-- the relations of `Proofs/OracleOrder.lean` are the ones above -/
theorem opsEq_of : ∀ {l l' : List Operator}, OpsR l l' → OpsEq l l'
  | [], [], _ => by simp [OpsEq]
  | [], _ :: _, h => by simp at h
  | _ :: _, [], h => by simp at h
  | _ :: _, _ :: _, h => by
    simp only [OpsR_cons_cons] at h
    exact ⟨h.1, opsEq_of h.2⟩

theorem of_resR {x y : Except Err State} :
    ResR x y →
    match x, y with
    | .ok a, .ok b => StateEq a b
    | .error _, .error _ => True
    | _, _ => False := by
  intro h
  cases x with
  | error e => cases y with
    | error e' => trivial
    | ok b => exact h.elim
  | ok a => cases y with
    | error e' => exact h.elim
    | ok b => exact ⟨opsEq_of h.1, h.2⟩

/-- two closing tasks with different store keys commute -/
theorem endOne_comm (bond : Denom) (s : State) (id1 id2 : String × String) (hne : id1.1 ++ id1.2 ≠ id2.1 ++ id2.2) :
    match (endOne bond s id1).bind (fun s1 => endOne bond s1 id2), (endOne bond s id2).bind (fun s2 => endOne bond s2 id1) with
    | .ok a, .ok b => StateEq a b
    | .error _, .error _ => True
    | _, _ => False :=
  of_resR (endOne_comm' bond s id1 id2 hne)

/-- **the order in which the closing tasks of a block are handled changes nothing** -/
theorem endFold_perm (bond : Denom) (ids ids' : List (String × String)) (hp : ids.Perm ids')
    (hnd : (ids.map (fun i => i.1 ++ i.2)).Nodup) (s : State) :
    match endFold bond ids s, endFold bond ids' s with
    | .ok a, .ok b => StateEq a b
    | .error _, .error _ => True
    | _, _ => False :=
  of_resR (endFold_perm' bond hp hnd s)

end Shentu.Props.C20order
