import Shentu.Proofs.C19vmTx
import Shentu.Props.C01tx
/-
  C19 at the level of the VM model and of the chain-level transaction over it: **an account that does not execute code can
  only gain coins while the interpreter runs**, apart from the value of the outermost call, which is taken from the
  outermost caller.  Hence coins that are locked in an ordinary account (a ManualVestingAccount never holds code: the real
  code refuses a locked send to a contract and a deployment onto an existing account) cannot leave it through any
  execution the account starts: whatever the callee does — re-entrancy, CALL / CALLCODE / DELEGATECALL / STATICCALL,
  CREATE / CREATE2, SELFDESTRUCT, failing frames — the account ends with at least its balance minus the value, and the
  value was checked to be spendable.

  What is proved, for every program, input, gas, call tree (any nesting depth of the model), derivation oracle `Env.fresh`,
  every setting of the deviation switches `Quirks`, and every pre-state — no hypothesis on the cache (it need not be keyed
  nor bounded) and none on the instructions executed:
   * `passive_accounts_only_gain`: an address whose account, if it has one, has no code, and in whose name the outermost
     frame does not execute (it is not the outermost callee, or the outermost code is empty), holds after `execTop` at
     least what it held before, minus the outermost value if it is the outermost caller of a CALL-type frame;
     `bystanders_only_gain` is the case of an address that is not the caller; `passive_accounts_stay` says that such an
     account is still there afterwards and still has no code (in particular it cannot be created over);
   * the same as an invariant of the interpreter loop and of the frames (`step_passive`, `run_passive`,
     `runFrame_passive`, `runDepth_passive`): every place that debits an account debits the account in whose name the
     frame executes (`env.callee`: the value of CALL / CALLCODE / CREATE is taken from it in the child's `openFrame`,
     SELFDESTRUCT moves its balance), a DELEGATECALL / CALLCODE callee executes in the CURRENT account's name, and a CALL to an
     account without code executes nothing;
   * `tx_codeless_caller_keeps_balance_minus_value` and `tx_respects_lock_for_codeless_caller`: in the bank, after a
     successful `CvmTx.tx` whose caller has no code — ANY callee, call or deployment — the caller's bond balance is at least
     its balance before minus the value, hence at least its locked amount.  This closes the statement that
     `C01tx.tx_respects_lock_partial` left open (and which is false for a caller with code:
     `C01tx.tx_caller_keeps_balance_minus_value_fails`).

  The invariant is "`Passive a b` of the frame's accounts UNLESS the frame has an error in its sink", not `Passive a b` alone:
  a CREATE whose derived address has an account puts DuplicateAddress into the creator's sink and still runs the
  constructor, in the existing account's name (`create_collision_aborts_creator`).  Inside that doomed frame a codeless account
  IS debited (`doomed_frame_debits_codeless_account`: the unconditional invariant is false); the frame ends with the
  error, its cache is dropped, and `execTop` hands back the pre-state.  The other recorded deviations do not touch the
  property: `call_creates_empty_account` creates an account at an address that had none, an unpayable CALL runs the callee
  and then fails the frame, SELFDESTRUCT to self does nothing.

  What is assumed for the chain-level corollaries: `WF` and `Cfg.Inj` as in `Props/C01tx.lean`, and that the caller's store
  entry, if there is one, has no code.  Property theorems only; the work is in `Shentu/Proofs/C19vm{Keeps,Run,Tx}.lean`.
-/
namespace Shentu.Props.C19vm
open Shentu Shentu.EVM Shentu.CvmTx Shentu.CvmTxH Shentu.LockVmH

/-- what a callee frame is trusted with.  The frame does not execute in `a`'s name, or has no code to execute.  Its value is
    not taken from `a`.  Started on a cache in which `a` has a codeless account with at least `b` coins, it hands back —
    when it reports success — a cache in which `a` has a codeless account with at least `b` coins. -/
def ChildOK (a b : Nat) (child : ChildFn) : Prop :=
  ∀ (env : Env) (g : Nat) (w : World) (rm : List Nat), (env.callee ≠ a ∨ env.code.size = 0) → (env.callType ≤ 1 → env.caller ≠ a) →
    Passive a b w → (child env g w rm).status = 0 → (child env g w rm).err = none → Passive a b (child env g w rm).world

/-- One iteration of the interpreter loop of a frame that does not execute in `a`'s name, given callees that keep the promise.
    If the frame has no error in its sink before, then afterwards it has an error in its sink, or `a` still has a codeless
    account with at least `b` coins. -/
theorem step_passive (a b : Nat) (child : ChildFn) (hc : ChildOK a b child) (env : Env) (hcal : env.callee ≠ a) (s : Frame)
    (hw : s.err.isSome = true ∨ Passive a b s.world) :
    (step child env s).val.2.err.isSome = true ∨ Passive a b (step child env s).val.2.world :=
  pk_step hc env hcal s hw

/-- The whole loop, for any fuel.  Moreover a loop that ends the frame without error leaves no error in the sink, so then
    `a` has its codeless account with at least `b` coins. -/
theorem run_passive (a b : Nat) (child : ChildFn) (hc : ChildOK a b child) (env : Env) (hcal : env.callee ≠ a) (fuel : Nat)
    (s : Frame) (hw : Passive a b s.world) (ret : ByteArray) (hdone : (run child env fuel s).1 = .done ret none) :
    Passive a b (run child env fuel s).2.world := by
  obtain ⟨h1, h2⟩ := LockVmH.run_passive hc env hcal fuel s (.inr hw)
  have h3 := h2 ret hdone
  rcases h1 with h1 | h1
  · rw [h3] at h1; cases h1
  · exact h1

/-- A frame (value transfer, then the code) keeps the promise, given callees that do. -/
theorem runFrame_passive (a b : Nat) (child : ChildFn) (hc : ChildOK a b child) : ChildOK a b (runFrame child) :=
  runFrame_childOK hc

/-- … at every nesting depth. -/
theorem runDepth_passive (a b : Nat) : ∀ d : Nat, ChildOK a b (runDepth d) :=
  runDepth_childOK

/-- **Accounts that do not execute only gain.**  Take any execution and any address `a`.  Assume that `a`'s account, if it has
    one, has no code.  Assume that the outermost frame does not execute in `a`'s name: `a` is not the outermost callee, or
    the outermost code is empty.  Then `a` holds afterwards at least what it held before, minus the outermost value if `a` is
    the outermost caller and the outermost frame transfers value (call types CALL and CALLCODE). -/
theorem passive_accounts_only_gain (env : Env) (gas : Nat) (pre : World) (depth : Nat) (a : Nat)
    (hcode : ∀ acc, pre.get a = some acc → acc.code.size = 0) (hcallee : env.callee ≠ a ∨ env.code.size = 0) :
    balOf pre a ≤ balOf (execTop env gas pre depth).world a + (if env.caller = a ∧ env.callType ≤ 1 then env.value else 0) :=
  execTop_only_gain env gas pre depth a hcode hcallee

/-- A codeless address that is neither the outermost caller nor the outermost callee never loses. -/
theorem bystanders_only_gain (env : Env) (gas : Nat) (pre : World) (depth : Nat) (a : Nat)
    (hcode : ∀ acc, pre.get a = some acc → acc.code.size = 0) (hcallee : env.callee ≠ a) (hcaller : env.caller ≠ a) :
    balOf pre a ≤ balOf (execTop env gas pre depth).world a := by
  have := execTop_only_gain env gas pre depth a hcode (.inl hcallee)
  have hn : ¬ (env.caller = a ∧ env.callType ≤ 1) := fun h => hcaller h.1
  rw [if_neg hn] at this
  exact this

/-- A codeless account in whose name the outermost frame does not execute is still there afterwards and still has no code.
    In particular no CREATE / CREATE2 of the execution installs code at its address. -/
theorem passive_accounts_stay (env : Env) (gas : Nat) (pre : World) (depth : Nat) (a : Nat) (acc : Account)
    (hacc : pre.get a = some acc) (hcode : acc.code.size = 0) (hcallee : env.callee ≠ a ∨ env.code.size = 0) :
    ∃ acc', (execTop env gas pre depth).world.get a = some acc' ∧ acc'.code.size = 0 := by
  obtain ⟨acc', h1, h2, _⟩ := execTop_passive (b := 0) env gas pre depth hcallee ⟨acc, hacc, hcode, Nat.zero_le _⟩
  exact ⟨acc', h1, h2⟩

/-! ## the chain-level transaction -/

variable {c : Cfg} {l l' : Ledger} {vs : Vesting.Accounts} {st st' : Store} {m : Msg}

/-- **A caller without code loses at most the value.**  After a successful transaction — a call of any contract or a
    deployment, whatever the code does — the bank's bond balance of a caller whose account has no code is at least its
    balance before minus the value of the message. -/
theorem tx_codeless_caller_keeps_balance_minus_value (hinj : c.Inj) (hwf : WF c l st)
    (hcode : ∀ acc, World.get st m.caller = some acc → acc.code.size = 0) (h : tx c l vs st m = .ok (l', st')) :
    l'.balOf (c.nm m.caller) c.bond ≥ l.balOf (c.nm m.caller) c.bond - (m.value : Int) := by
  obtain ⟨_, h2, _, _, h5, _⟩ := Props.C01tx.tx_ok_shape h
  have hvm := codeless_caller_cache_bound h2 hcode h5
  rw [Props.C01tx.tx_bank_is_cache hinj hwf h, Props.C01tx.bank_is_cache_before hwf]
  omega

/-- **C19 for every program, for a caller without code**: after a successful transaction that carries value the caller's
    bond balance is at least its locked amount.  The spendable check of `tx` leaves the locked amount in the balance before
    the execution; the execution takes at most the value. -/
theorem tx_respects_lock_for_codeless_caller (hinj : c.Inj) (hwf : WF c l st) (hv : 0 < m.value)
    (hcode : ∀ acc, World.get st m.caller = some acc → acc.code.size = 0) (h : tx c l vs st m = .ok (l', st')) :
    l'.balOf (c.nm m.caller) c.bond ≥ Vesting.lockedOf vs (c.nm m.caller) c.bond := by
  obtain ⟨_, h2, _, _, h5, _⟩ := Props.C01tx.tx_ok_shape h
  exact Props.C01tx.tx_respects_lock_partial hinj hwf hv h (codeless_caller_cache_bound h2 hcode h5)

/-- A transaction without value takes nothing from a caller without code. -/
theorem tx_without_value_codeless_caller_only_gains (hinj : c.Inj) (hwf : WF c l st) (hv : m.value = 0)
    (hcode : ∀ acc, World.get st m.caller = some acc → acc.code.size = 0) (h : tx c l vs st m = .ok (l', st')) :
    l'.balOf (c.nm m.caller) c.bond ≥ l.balOf (c.nm m.caller) c.bond := by
  have := tx_codeless_caller_keeps_balance_minus_value hinj hwf hcode h
  rw [hv] at this
  simpa using this

/-! ## concrete executions (non-vacuity) -/
section examples
open Shentu.CvmTxH.Ex Shentu.LockVmH.Ex

/-- the hypotheses of the chain-level theorems hold of the example state: injective rendering, well-formed, balanced, and the
    caller `A` (like the bystander `T`) has a store entry without code -/
example : c0.Inj ∧ WF c0 l2 st2 ∧ l2.invB = true ∧
    (∀ acc, World.get st2 mK.caller = some acc → acc.code.size = 0) ∧ (∀ acc, World.get st2 T = some acc → acc.code.size = 0) :=
  ⟨c0_inj, wf2, by decide, by decide, by decide⟩

/-- the hypotheses of `passive_accounts_only_gain` hold of the loaded cache of that state, for the caller and for the bystander -/
example : (∀ acc, World.get (loadWorld c0 l2 st2) A = some acc → acc.code.size = 0) ∧ (envOf st2 mK).callee ≠ A ∧
    (∀ acc, World.get (loadWorld c0 l2 st2) T = some acc → acc.code.size = 0) ∧ (envOf st2 mK).callee ≠ T ∧ (envOf st2 mK).caller ≠ T := by
  decide

/-- the hypotheses of the frame-level theorems (`step_passive`, `run_passive`, `runFrame_passive`) are satisfiable: the callees of
    the model keep the promise (at any depth, here 8), the contract's frame does not execute in the user's name, and in the
    loaded cache — also as the accounts of a fresh frame — the user has a codeless account with 100 coins -/
example : ChildOK A 100 (runDepth 8) ∧ (envOf st2 mK).callee ≠ A ∧ Passive A 100 (loadWorld c0 l2 st2) ∧
    Passive A 100 ({ gas := 100000, world := loadWorld c0 l2 st2 } : Frame).world :=
  ⟨runDepth_passive A 100 8, by decide, ⟨{ addr := A, balance := 100 }, rfl, by decide, by decide⟩,
   ⟨{ addr := A, balance := 100 }, rfl, by decide, by decide⟩⟩

/-- **a contract that re-enters, forwards and self-destructs, between a codeless caller and a codeless bystander.**  The user
    `A` (100 coins) calls `K` (7 coins) with 3 coins; `K` calls itself with the 3 coins; the inner frame sends 2 coins to the
    bystander `T` (1 coin) and self-destructs in favour of `A`.  The transaction succeeds, SELFDESTRUCT was executed, `K` ends
    with nothing and without code, `T` with 3, `A` with 100 − 3 + 8 = 105 ≥ 100 − 3; balances add up to the supply. -/
theorem ex_reenter_forward_selfdestruct :
    errOf (tx c0 l2 [] st2 mK) = "" ∧ (vmRun c0 l2 st2 mK).seen &&& (1 <<< 0xff) ≠ 0 ∧
    bondAfter (tx c0 l2 [] st2 mK) A = 105 ∧ bondAfter (tx c0 l2 [] st2 mK) T = 3 ∧ bondAfter (tx c0 l2 [] st2 mK) K = 0 ∧
    codeAfter (tx c0 l2 [] st2 mK) K = some 0 ∧ invAfter (tx c0 l2 [] st2 mK) = true := by decide +kernel

/-- the same at the level of the interpreter's cache: the balances `passive_accounts_only_gain` and `bystanders_only_gain` speak about -/
theorem ex_reenter_cache :
    balOf (loadWorld c0 l2 st2) A = 100 ∧ balOf (vmRun c0 l2 st2 mK).world A = 105 ∧
    balOf (loadWorld c0 l2 st2) T = 1 ∧ balOf (vmRun c0 l2 st2 mK).world T = 3 := by decide +kernel

/-- the lock: with 99 of the user's 100 coins locked the same call with a value of 3 is refused before anything runs; with a
    value of 1 it passes (hypotheses of `tx_respects_lock_for_codeless_caller`) and the user ends above the locked amount -/
theorem ex_lock_contract_call : errOf (tx c0 l2 vsLocked st2 mK) = "bank:insufficient-funds" ∧
    Vesting.lockedOf vsLocked (c0.nm A) "uctk" = 99 ∧ errOf (tx c0 l2 vsLocked st2 { mK with value := 1 }) = "" ∧
    bondAfter (tx c0 l2 vsLocked st2 { mK with value := 1 }) A = 105 := by decide +kernel

/-- **inside a doomed frame a codeless account IS debited** (so the invariant must be conditional on the error sink).  The
    contract `K` executes CREATE; the derivation oracle answers the address of the user `A`, who has an account (100 coins,
    no code).  DuplicateAddress goes into the creator's sink and the constructor still runs, in `A`'s name: it sends 5 of
    `A`'s coins to `T`.  The creator's frame ends with the error and with a cache in which `A` holds 95; `execTop` drops
    that cache, so after the execution `A` holds its 100. -/
theorem doomed_frame_debits_codeless_account :
    (runFrame (runDepth 8) envCol 100000 wCol []).err = some .duplicateAddress ∧
    balOf wCol A = 100 ∧ balOf (runFrame (runDepth 8) envCol 100000 wCol []).world A = 95 ∧
    balOf (runFrame (runDepth 8) envCol 100000 wCol []).world T = 6 ∧
    balOf (execTop envCol 100000 wCol).world A = 100 := by decide +kernel

/-- … hence "a codeless account in whose name the frame does not execute keeps its balance in the frame's cache, whatever the
    frame reports" is false of the model; `runFrame_passive` has the condition "reports success" for this reason -/
theorem runFrame_passive_unconditional_fails :
    ¬ (∀ (a b : Nat) (env : Env) (g : Nat) (w : World), env.callee ≠ a → env.caller ≠ a → Passive a b w →
        Passive a b (runFrame (runDepth 8) env g w []).world) := by
  intro hall
  have h := hall A 100 envCol 100000 wCol (by decide) (by decide) ⟨{ addr := A, balance := 100 }, rfl, by decide, by decide⟩
  have h2 := passive_balOf h
  revert h2
  decide +kernel

end examples

end Shentu.Props.C19vm

#print axioms Shentu.Props.C19vm.step_passive
#print axioms Shentu.Props.C19vm.run_passive
#print axioms Shentu.Props.C19vm.runFrame_passive
#print axioms Shentu.Props.C19vm.runDepth_passive
#print axioms Shentu.Props.C19vm.passive_accounts_only_gain
#print axioms Shentu.Props.C19vm.bystanders_only_gain
#print axioms Shentu.Props.C19vm.passive_accounts_stay
#print axioms Shentu.Props.C19vm.tx_codeless_caller_keeps_balance_minus_value
#print axioms Shentu.Props.C19vm.tx_respects_lock_for_codeless_caller
#print axioms Shentu.Props.C19vm.tx_without_value_codeless_caller_only_gains
#print axioms Shentu.Props.C19vm.ex_reenter_forward_selfdestruct
#print axioms Shentu.Props.C19vm.ex_reenter_cache
#print axioms Shentu.Props.C19vm.ex_lock_contract_call
#print axioms Shentu.Props.C19vm.doomed_frame_debits_codeless_account
#print axioms Shentu.Props.C19vm.runFrame_passive_unconditional_fails
