import Shentu.Proofs.ShieldLimitLemmas
/-
  C06 — Protection is never oversold and collateral is backed by stake.

  Property theorems only (helper lemmas: `Shentu/Proofs/ShieldLimitLemmas.lean`).
  The specification predicates below are written from the property text, not from the model's code.
-/
namespace Shentu.Props.C06
open Shentu Shentu.Shield Shentu.Shield.Limit

/-! ## specification vocabulary -/

/-- an operation "succeeds" -/
def Succeeds {α : Type} (x : Except Err α) : Prop := ∃ r, x = .ok r

/-- total collateral minus collateral being withdrawn minus collateral locked for claims -/
def free (s : State) : Int := s.totalCollateral - s.totalWithdrawing - s.totalClaimed

/-- the configured fraction of the free collateral (truncated to a whole amount) -/
def fraction (s : State) : Int := Dec.truncateInt (Dec.mul (Dec.ofInt (free s)) s.params.poolLimit)

/-- the state is within the purchase limits for pool `poolID` -/
def WithinLimits (s' : State) (poolID : Nat) : Prop :=
  s'.totalShield ≤ free s' ∧
  ∃ pool, findPool s' poolID = some pool ∧ pool.shield ≤ pool.limit ∧ pool.shield ≤ fraction s'

/-- total shield does not exceed the free collateral -/
def NotOversold (s : State) : Prop := s.totalShield ≤ free s

/-- the provider's collateral that is not being withdrawn is within the bonded stake -/
def Backed (s : State) (a : Addr) : Prop :=
  ∀ p, findProvider s a = some p → p.collateral - p.withdrawing ≤ p.bonded

/-- how a purchase is paid: the fees if there are any, otherwise the staked deposit -/
def payment (e : Env) (l : Ledger) (purchaser : Addr) (fees staking : Coins) : Except Err Ledger :=
  if Coins.isZero fees = false then l.send purchaser e.modAddr fees
  else l.send purchaser e.modAddr [(e.bond, Coins.amountOf staking e.bond)]

/-- the configured fraction is computed without rounding error: ⌊free · poolLimit⌋ (toward zero) -/
theorem fraction_eq (s : State) : fraction s = Int.tdiv (free s * s.params.poolLimit.raw) Dec.prec :=
  trunc_mul_ofInt _ _

/-! ## the common purchase path (paid, staked, admin) -/

/-- "A purchase … succeeds only if [limits], the pool is active …; conversely, a funded purchase that meets all of
    these conditions is accepted": the exact acceptance condition of the common purchase path.
    The limits are stated on the pre-state here; `purchaseCore_within_limits` restates them on the post-state. -/
theorem purchaseCore_ok_iff (e : Env) (l : Ledger) (s : State) (poolID : Nat) (shield : Coins) (purchaser : Addr)
    (fees staking : Coins) :
    Succeeds (purchaseCore e l s poolID shield purchaser fees staking) ↔
      ∃ pool, findPool s poolID = some pool ∧ pool.active = true ∧ Coins.isZero shield = false ∧
        ¬ (Coins.isZero fees = true ∧ Coins.isZero staking = true) ∧
        s.totalShield + Coins.amountOf shield e.bond ≤ free s ∧
        Coins.amountOf shield e.bond + pool.shield ≤ min pool.limit (fraction s) ∧
        Succeeds (payment e l purchaser fees staking) := by
  constructor
  · rintro ⟨⟨l', s'⟩, h⟩
    obtain ⟨pool, hp, ha, hz, hfs, h1, h2, hpay, _⟩ := purchaseCore_ok _ _ _ _ _ _ _ _ _ _ h
    refine ⟨pool, hp, ha, hz, ?_, h1, h2, ⟨l', hpay⟩⟩
    intro ⟨a, b⟩; simp [a, b] at hfs
  · rintro ⟨pool, hp, ha, hz, hfs, h1, h2, ⟨l', hpay⟩⟩
    have hfs' : (Coins.isZero fees && Coins.isZero staking) = false := by
      cases hf : Coins.isZero fees <;> cases hs : Coins.isZero staking <;> simp_all
    obtain ⟨s', h⟩ := purchaseCore_accept e l l' s poolID shield purchaser fees staking pool hp ha hz hfs' h1 h2 hpay
    exact ⟨(l', s'), h⟩

/-- what a successful purchase books: the pool's shield and the total shield grow by exactly the purchased amount;
    collateral, withdrawals, claims, providers and parameters are untouched -/
theorem purchaseCore_effect (e : Env) (l l' : Ledger) (s s' : State) (poolID : Nat) (shield : Coins) (purchaser : Addr)
    (fees staking : Coins) (h : purchaseCore e l s poolID shield purchaser fees staking = .ok (l', s')) :
    ∃ pool, findPool s poolID = some pool ∧
      findPool s' poolID = some { pool with shield := pool.shield + Coins.amountOf shield e.bond } ∧
      (∀ id, id ≠ poolID → findPool s' id = findPool s id) ∧
      s'.totalShield = s.totalShield + Coins.amountOf shield e.bond ∧
      free s' = free s ∧ fraction s' = fraction s ∧ s'.providers = s.providers ∧ s'.withdraws = s.withdraws := by
  obtain ⟨pool, hp, _, _, _, _, _, _, hb⟩ := purchaseCore_ok _ _ _ _ _ _ _ _ _ _ h
  have hid := findPool_id s poolID pool hp
  refine ⟨pool, hp, hb.findPool_self hp, ?_, hb.totalShield, ?_, ?_, hb.providers, hb.withdraws⟩
  · intro id hne; exact hb.findPool_other (by rw [hid]; exact hne)
  · simp only [free, hb.totalCollateral, hb.totalWithdrawing, hb.totalClaimed]
  · simp only [fraction, free, hb.totalCollateral, hb.totalWithdrawing, hb.totalClaimed, hb.params]

/-- "A purchase … succeeds only if afterwards total shield does not exceed total collateral minus collateral being
    withdrawn minus collateral locked for claims, the pool's shield does not exceed its limit nor the configured
    fraction of that free collateral": the limits hold in the state after every successful purchase,
    whatever the state before. -/
theorem purchaseCore_within_limits (e : Env) (l l' : Ledger) (s s' : State) (poolID : Nat) (shield : Coins)
    (purchaser : Addr) (fees staking : Coins)
    (h : purchaseCore e l s poolID shield purchaser fees staking = .ok (l', s')) : WithinLimits s' poolID := by
  obtain ⟨pool, hp, _, _, _, h1, h2, _, hb⟩ := purchaseCore_ok _ _ _ _ _ _ _ _ _ _ h
  have hfree : free s' = free s := by simp only [free, hb.totalCollateral, hb.totalWithdrawing, hb.totalClaimed]
  have hfrac : fraction s' = fraction s := by simp only [fraction, hfree, hb.params]
  refine ⟨?_, _, hb.findPool_self hp, ?_, ?_⟩
  · rw [hfree, hb.totalShield]; exact h1
  · show pool.shield + _ ≤ pool.limit
    have : Coins.amountOf shield e.bond + pool.shield ≤ min pool.limit (fraction s) := h2
    omega
  · show pool.shield + _ ≤ fraction s'
    have : Coins.amountOf shield e.bond + pool.shield ≤ min pool.limit (fraction s) := h2
    rw [hfrac]; omega

/-! ## purchases by users (`MsgPurchaseShield`, `MsgStakeForShield`) -/

/-- the fee of a paid purchase at the standard rate: trunc(amount × feesRate) -/
def feeOf (s : State) (amt : Int) : Int := Dec.truncateInt (Dec.mul (Dec.ofInt amt) s.params.feesRate)
/-- the deposit of a staked purchase at the standard rate: trunc(stakingRate × amount) -/
def stakeOf (s : State) (amt : Int) : Int := Dec.truncateInt (Dec.mulInt s.params.stakingRate amt)

/-- the fee is computed without rounding error (one factor is integral): `⌊amount · feesRate⌋` toward zero -/
theorem feeOf_eq (s : State) (amt : Int) : feeOf s amt = Int.tdiv (amt * s.params.feesRate.raw) Dec.prec := trunc_mul_ofInt _ _
/-- the deposit is `⌊stakingRate · amount⌋` (toward zero); `Dec.mulInt` is exact -/
theorem stakeOf_eq (s : State) (amt : Int) : stakeOf s amt = Int.tdiv (s.params.stakingRate.raw * amt) Dec.prec := rfl

/-- the exact acceptance condition of a paid user purchase: valid message, amount at least the minimum, a non-zero
    fee `trunc(amount × feesRate)`, active pool, both limits, and the purchaser can pay the fee.
    ("succeeds only if … the pool is active and (for purchases by users) the amount is at least the minimum";
    "conversely, a funded purchase … that meets all of these conditions is accepted" — with the extra condition that
    the fee does not truncate to zero, see `purchase_paid_accepted`.) -/
theorem purchase_paid_ok_iff (e : Env) (l : Ledger) (s : State) (poolID : Nat) (shield : Coins) (purchaser : Addr) :
    Succeeds (purchase e l s poolID shield purchaser false) ↔
      poolID ≠ 0 ∧ Coins.isAllPositive shield = true ∧
      s.params.minPurchase ≤ Coins.amountOf shield e.bond ∧
      feeOf s (Coins.amountOf shield e.bond) ≠ 0 ∧
      ∃ pool, findPool s poolID = some pool ∧ pool.active = true ∧
        s.totalShield + Coins.amountOf shield e.bond ≤ free s ∧
        Coins.amountOf shield e.bond + pool.shield ≤ min pool.limit (fraction s) ∧
        Succeeds (l.send purchaser e.modAddr [(e.bond, feeOf s (Coins.amountOf shield e.bond))]) := by
  rw [purchase_paid_eq]
  generalize hamt : Coins.amountOf shield e.bond = amt
  have hfee : Dec.truncateInt (Dec.mul (Dec.ofInt amt) s.params.feesRate) = feeOf s amt := rfl
  rw [hfee]
  have hpayeq : feeOf s amt ≠ 0 → payment e l purchaser [(e.bond, feeOf s amt)] [] =
      l.send purchaser e.modAddr [(e.bond, feeOf s amt)] := by
    intro hne
    have : Coins.isZero [(e.bond, feeOf s amt)] = false := by rw [isZero_single]; simpa using hne
    simp only [payment, this, if_true]
  constructor
  · intro h
    split at h
    · obtain ⟨_, h⟩ := h; cases h
    rename_i g1
    split at h
    · obtain ⟨_, h⟩ := h; cases h
    rename_i g2
    rw [purchaseCore_ok_iff] at h
    obtain ⟨pool, hp, ha, hz, hfs, h1, h2, hpay⟩ := h
    rw [hamt] at h1 h2
    have hfee0 : feeOf s amt ≠ 0 := by
      intro h0; apply hfs; rw [isZero_single, h0]; exact ⟨rfl, rfl⟩
    have hamt0 : amt ≠ 0 := by
      intro h0; apply hfee0; rw [h0]; exact trunc_mul_ofInt_zero _
    simp only [hz] at g2
    bool_norm at g1 g2
    refine ⟨g1.1, g1.2, ?_, hfee0, pool, hp, ha, h1, h2, ?_⟩
    · apply Int.not_lt.mp
      intro hlt
      exact hamt0 (g2 ⟨trivial, hlt⟩)
    · rw [← hpayeq hfee0]; exact hpay
  · rintro ⟨hid, hpos, hmin, hfee0, pool, hp, ha, h1, h2, hpay⟩
    have hz := isAllPositive_not_isZero shield hpos
    have g1 : (poolID == 0 || !Coins.isAllPositive shield) = false := by simp [hid, hpos]
    have g2 : (!Coins.isZero shield && decide (s.params.minPurchase > amt) && amt != 0) = false := by
      have : ¬ s.params.minPurchase > amt := by omega
      simp [this]
    simp only [g1, g2, Bool.false_eq_true, if_false]
    rw [purchaseCore_ok_iff]
    refine ⟨pool, hp, ha, hz, ?_, by rw [hamt]; exact h1, by rw [hamt]; exact h2, by rw [hpayeq hfee0]; exact hpay⟩
    intro ⟨hc, _⟩
    rw [isZero_single] at hc
    exact hfee0 (by simpa using hc)

/-- the exact acceptance condition of a staked user purchase: some shield, amount at least the minimum, a non-zero
    deposit `trunc(stakingRate × amount)`, active pool, both limits, and the purchaser can put up the deposit. -/
theorem purchase_staked_ok_iff (e : Env) (l : Ledger) (s : State) (poolID : Nat) (shield : Coins) (purchaser : Addr) :
    Succeeds (purchase e l s poolID shield purchaser true) ↔
      Coins.isZero shield = false ∧
      s.params.minPurchase ≤ Coins.amountOf shield e.bond ∧
      stakeOf s (Coins.amountOf shield e.bond) ≠ 0 ∧
      ∃ pool, findPool s poolID = some pool ∧ pool.active = true ∧
        s.totalShield + Coins.amountOf shield e.bond ≤ free s ∧
        Coins.amountOf shield e.bond + pool.shield ≤ min pool.limit (fraction s) ∧
        Succeeds (l.send purchaser e.modAddr [(e.bond, stakeOf s (Coins.amountOf shield e.bond))]) := by
  rw [purchase_staked_eq]
  generalize hamt : Coins.amountOf shield e.bond = amt
  have hst : Dec.truncateInt (Dec.mulInt s.params.stakingRate amt) = stakeOf s amt := rfl
  rw [hst]
  have hpayeq : payment e l purchaser [] [(e.bond, stakeOf s amt)] =
      l.send purchaser e.modAddr [(e.bond, stakeOf s amt)] := by
    simp only [payment, isZero_nil, Bool.true_eq_false, if_false, amountOf_single']
  constructor
  · intro h
    split at h
    · obtain ⟨_, h⟩ := h; cases h
    rename_i g2
    rw [purchaseCore_ok_iff] at h
    obtain ⟨pool, hp, ha, hz, hfs, h1, h2, hpay⟩ := h
    rw [hamt] at h1 h2
    have hst0 : stakeOf s amt ≠ 0 := by
      intro h0; apply hfs; rw [isZero_single, h0]; exact ⟨rfl, rfl⟩
    have hamt0 : amt ≠ 0 := by
      intro h0; apply hst0; rw [h0]; exact trunc_mulInt_zero _
    simp only [hz] at g2
    bool_norm at g2
    refine ⟨hz, ?_, hst0, pool, hp, ha, h1, h2, ?_⟩
    · apply Int.not_lt.mp
      intro hlt
      exact hamt0 (g2 ⟨trivial, hlt⟩)
    · rw [← hpayeq]; exact hpay
  · rintro ⟨hz, hmin, hst0, pool, hp, ha, h1, h2, hpay⟩
    have g2 : (!Coins.isZero shield && decide (s.params.minPurchase > amt) && amt != 0) = false := by
      have : ¬ s.params.minPurchase > amt := by omega
      simp [this]
    simp only [g2, Bool.false_eq_true, if_false]
    rw [purchaseCore_ok_iff]
    refine ⟨pool, hp, ha, hz, ?_, by rw [hamt]; exact h1, by rw [hamt]; exact h2, by rw [hpayeq]; exact hpay⟩
    intro ⟨_, hc⟩
    rw [isZero_single] at hc
    exact hst0 (by simpa using hc)

/-- what a user purchase costs: the fee, or for a staked purchase the deposit -/
def costOf (s : State) (staking : Bool) (amt : Int) : Int := if staking then stakeOf s amt else feeOf s amt

/-- both kinds of user purchase in one statement (`purchase_paid_ok_iff`, `purchase_staked_ok_iff`): a user purchase
    succeeds iff the message is valid, the amount is at least the minimum, its cost is non-zero and covered, the pool
    is active and both limits are met. -/
theorem purchase_ok_iff (e : Env) (l : Ledger) (s : State) (poolID : Nat) (shield : Coins) (purchaser : Addr) (staking : Bool) :
    Succeeds (purchase e l s poolID shield purchaser staking) ↔
      (staking = false → poolID ≠ 0 ∧ Coins.isAllPositive shield = true) ∧
      Coins.isZero shield = false ∧
      s.params.minPurchase ≤ Coins.amountOf shield e.bond ∧
      costOf s staking (Coins.amountOf shield e.bond) ≠ 0 ∧
      ∃ pool, findPool s poolID = some pool ∧ pool.active = true ∧
        s.totalShield + Coins.amountOf shield e.bond ≤ free s ∧
        Coins.amountOf shield e.bond + pool.shield ≤ min pool.limit (fraction s) ∧
        Succeeds (l.send purchaser e.modAddr [(e.bond, costOf s staking (Coins.amountOf shield e.bond))]) := by
  cases staking with
  | false =>
    rw [purchase_paid_ok_iff]
    simp only [costOf, Bool.false_eq_true, if_false, true_implies]
    constructor
    · rintro ⟨h1, h2, h3, h4, h5⟩
      exact ⟨⟨h1, h2⟩, isAllPositive_not_isZero shield h2, h3, h4, h5⟩
    · rintro ⟨⟨h1, h2⟩, _, h3, h4, h5⟩
      exact ⟨h1, h2, h3, h4, h5⟩
  | true =>
    rw [purchase_staked_ok_iff]
    simp only [costOf, if_true, Bool.true_eq_false, false_implies, true_and]

/-- "(for purchases by users) the amount is at least the minimum": every accepted user purchase, paid or staked,
    is for a non-zero amount of at least `minPurchase` — no assumption on the rates or on the state is needed. -/
theorem purchase_minimum (e : Env) (l : Ledger) (s : State) (poolID : Nat) (shield : Coins) (purchaser : Addr)
    (staking : Bool) (h : Succeeds (purchase e l s poolID shield purchaser staking)) :
    s.params.minPurchase ≤ Coins.amountOf shield e.bond ∧ Coins.amountOf shield e.bond ≠ 0 := by
  cases staking with
  | false =>
    obtain ⟨_, _, hmin, hfee, _⟩ := (purchase_paid_ok_iff ..).mp h
    refine ⟨hmin, fun h0 => hfee ?_⟩
    rw [h0]; exact trunc_mul_ofInt_zero _
  | true =>
    obtain ⟨_, hmin, hst, _⟩ := (purchase_staked_ok_iff ..).mp h
    refine ⟨hmin, fun h0 => hst ?_⟩
    rw [h0]; exact trunc_mulInt_zero _

/-- a user purchase goes through the common path: the limits hold in the state after it -/
theorem purchase_within_limits (e : Env) (l l' : Ledger) (s s' : State) (poolID : Nat) (shield : Coins) (purchaser : Addr)
    (staking : Bool) (h : purchase e l s poolID shield purchaser staking = .ok (l', s')) : WithinLimits s' poolID := by
  cases staking with
  | false =>
    rw [purchase_paid_eq] at h
    split at h; · cases h
    split at h; · cases h
    exact purchaseCore_within_limits _ _ _ _ _ _ _ _ _ _ h
  | true =>
    rw [purchase_staked_eq] at h
    split at h; · cases h
    exact purchaseCore_within_limits _ _ _ _ _ _ _ _ _ _ h

/-- the fee does not truncate to zero when amount × feesRate is at least one unit -/
theorem feeOf_ne_zero (s : State) (amt : Int) (h : Dec.prec ≤ amt * s.params.feesRate.raw) : feeOf s amt ≠ 0 := by
  rw [feeOf_eq, Int.tdiv_eq_ediv_of_nonneg (by simp only [Dec.prec] at h ⊢; omega)]
  simp only [Dec.prec] at h ⊢; omega

/-- the deposit does not truncate to zero when stakingRate × amount is at least one unit -/
theorem stakeOf_ne_zero (s : State) (amt : Int) (h : Dec.prec ≤ s.params.stakingRate.raw * amt) : stakeOf s amt ≠ 0 := by
  rw [stakeOf_eq, Int.tdiv_eq_ediv_of_nonneg (by simp only [Dec.prec] at h ⊢; omega)]
  simp only [Dec.prec] at h ⊢; omega

/-- "Conversely, a funded purchase … that meets all of these conditions is accepted" (paid): a valid message for at
    least the minimum, whose fee is at least one unit and covered by the purchaser, in an active pool, within both limits. -/
theorem purchase_paid_accepted (e : Env) (l : Ledger) (s : State) (poolID : Nat) (shield : Coins) (purchaser : Addr) (pool : Pool)
    (hid : poolID ≠ 0) (hpos : Coins.isAllPositive shield = true)
    (hmin : s.params.minPurchase ≤ Coins.amountOf shield e.bond)
    (hrate : Dec.prec ≤ Coins.amountOf shield e.bond * s.params.feesRate.raw)
    (hp : findPool s poolID = some pool) (ha : pool.active = true)
    (h1 : s.totalShield + Coins.amountOf shield e.bond ≤ free s)
    (h2 : Coins.amountOf shield e.bond + pool.shield ≤ pool.limit)
    (h3 : Coins.amountOf shield e.bond + pool.shield ≤ fraction s)
    (hfund : Succeeds (l.send purchaser e.modAddr [(e.bond, feeOf s (Coins.amountOf shield e.bond))])) :
    Succeeds (purchase e l s poolID shield purchaser false) :=
  (purchase_paid_ok_iff ..).mpr ⟨hid, hpos, hmin, feeOf_ne_zero _ _ hrate, pool, hp, ha, h1, by omega, hfund⟩

/-- the same for a staked purchase -/
theorem purchase_staked_accepted (e : Env) (l : Ledger) (s : State) (poolID : Nat) (shield : Coins) (purchaser : Addr) (pool : Pool)
    (hz : Coins.isZero shield = false)
    (hmin : s.params.minPurchase ≤ Coins.amountOf shield e.bond)
    (hrate : Dec.prec ≤ s.params.stakingRate.raw * Coins.amountOf shield e.bond)
    (hp : findPool s poolID = some pool) (ha : pool.active = true)
    (h1 : s.totalShield + Coins.amountOf shield e.bond ≤ free s)
    (h2 : Coins.amountOf shield e.bond + pool.shield ≤ pool.limit)
    (h3 : Coins.amountOf shield e.bond + pool.shield ≤ fraction s)
    (hfund : Succeeds (l.send purchaser e.modAddr [(e.bond, stakeOf s (Coins.amountOf shield e.bond))])) :
    Succeeds (purchase e l s poolID shield purchaser true) :=
  (purchase_staked_ok_iff ..).mpr ⟨hz, hmin, stakeOf_ne_zero _ _ hrate, pool, hp, ha, h1, by omega, hfund⟩

/-! ## purchases by the admin for a pool (`MsgCreatePool`, `MsgUpdatePool`) -/

/-- "(… or made by the admin for a pool)": the purchase made when a pool is created obeys the same limits -/
theorem createPool_within_limits (e : Env) (l l' : Ledger) (s s' : State) (creator : Addr) (shield fees : Coins)
    (sponsor : String) (sponsorAddr : Addr) (limit : Int)
    (h : createPool e l s creator shield fees sponsor sponsorAddr limit = .ok (l', s')) : WithinLimits s' s.nextPool := by
  rw [createPool_eq] at h
  split at h; · cases h
  split at h; · cases h
  exact purchaseCore_within_limits _ _ _ _ _ _ _ _ _ _ h

/-- the exact acceptance condition of `createPool` (for a fresh pool id): valid message from the admin, fees present and
    covered, and the initial shield within the free collateral, the new pool's limit and the configured fraction -/
theorem createPool_ok_iff (e : Env) (l : Ledger) (s : State) (creator : Addr) (shield fees : Coins)
    (sponsor : String) (sponsorAddr : Addr) (limit : Int) (hfresh : findPool s s.nextPool = none) :
    Succeeds (createPool e l s creator shield fees sponsor sponsorAddr limit) ↔
      sponsor.trimAscii.toString ≠ "" ∧ Coins.isAllPositive shield = true ∧ creator = s.admin ∧
      Coins.isZero fees = false ∧
      s.totalShield + Coins.amountOf shield e.bond ≤ free s ∧
      Coins.amountOf shield e.bond ≤ min limit (fraction s) ∧
      Succeeds (l.send creator e.modAddr fees) := by
  rw [createPool_eq]
  have hfind := findPool_withNewPool s sponsor sponsorAddr limit hfresh
  have hfree : free (withNewPool s sponsor sponsorAddr limit) = free s := rfl
  have hfrac : fraction (withNewPool s sponsor sponsorAddr limit) = fraction s := rfl
  have hts : (withNewPool s sponsor sponsorAddr limit).totalShield = s.totalShield := rfl
  constructor
  · intro h
    split at h
    · obtain ⟨_, h⟩ := h; cases h
    rename_i g1
    split at h
    · obtain ⟨_, h⟩ := h; cases h
    rename_i g2
    rw [purchaseCore_ok_iff] at h
    obtain ⟨pool, hp, _, _, hfs, h1, h2, hpay⟩ := h
    rw [hfind] at hp; injection hp with hp; subst hp
    rw [hfree, hts] at h1
    rw [hfrac] at h2
    bool_norm at g1 g2
    have hz : Coins.isZero fees = false := by
      cases hc : Coins.isZero fees with
      | false => rfl
      | true => exact absurd ⟨hc, isZero_nil⟩ hfs
    simp only [payment, hz, if_true] at hpay
    exact ⟨g1.1, g1.2, g2, hz, h1, by simpa using h2, hpay⟩
  · rintro ⟨hsp, hpos, hadm, hz, h1, h2, hpay⟩
    have g1 : (sponsor.trimAscii.toString == "" || !Coins.isAllPositive shield) = false :=
      Bool.or_eq_false_iff.mpr ⟨beq_eq_false_iff_ne.mpr hsp, by rw [hpos]; rfl⟩
    have g2 : (creator != s.admin) = false := by simp [hadm]
    simp only [g1, g2, Bool.false_eq_true, if_false]
    rw [purchaseCore_ok_iff]
    refine ⟨_, hfind, rfl, isAllPositive_not_isZero shield hpos, ?_, by rw [hfree, hts]; exact h1,
      by rw [hfrac]; simpa using h2, by simp only [payment, hz, if_true]; exact hpay⟩
    intro ⟨hc, _⟩; rw [hz] at hc; cases hc

/-- "(… or made by the admin for a pool)": a purchase made through `updatePool` obeys the same limits
    (the pool's limit being the new one when the message changes it) -/
theorem updatePool_within_limits (e : Env) (l l' : Ledger) (s s' : State) (updater : Addr) (poolID : Nat)
    (shield fees : Coins) (limit : Int) (hz : Coins.isZero shield = false)
    (h : updatePool e l s updater poolID shield fees limit = .ok (l', s')) : WithinLimits s' poolID := by
  rw [updatePool_eq] at h
  split at h; · cases h
  split at h; · cases h
  split at h; · cases h
  simp only [hz, Bool.not_false, if_true] at h
  exact purchaseCore_within_limits _ _ _ _ _ _ _ _ _ _ h

/-- `updatePool` without shield sells nothing: the total shield, every pool's shield and the free collateral stay as
    they were (only the limit, and the fee pot, may change) -/
theorem updatePool_no_shield (e : Env) (l l' : Ledger) (s s' : State) (updater : Addr) (poolID : Nat)
    (shield fees : Coins) (limit : Int) (hz : Coins.isZero shield = true)
    (h : updatePool e l s updater poolID shield fees limit = .ok (l', s')) :
    s'.totalShield = s.totalShield ∧ free s' = free s ∧
    ∀ id, (findPool s' id).map (·.shield) = (findPool s id).map (·.shield) := by
  rw [updatePool_eq] at h
  split at h; · cases h
  split at h; · cases h
  split at h; · cases h
  rename_i pool hp
  have hid := findPool_id s poolID pool hp
  have hshield : ∀ id, (findPool (setPool s (relimit pool limit)) id).map (·.shield) = (findPool s id).map (·.shield) := by
    apply findPool_setPool_shield s (relimit pool limit) pool
    · rw [relimit_id, hid]; exact hp
    · exact relimit_shield pool limit
  simp only [hz, Bool.not_true, Bool.false_eq_true, if_false] at h
  split at h
  · split at h
    · cases h
    · injection h with h; injection h with _ h; subst h
      exact ⟨rfl, rfl, hshield⟩
  · injection h with h; injection h with _ h; subst h
    exact ⟨rfl, rfl, hshield⟩

/-- the exact acceptance condition of an `updatePool` that buys shield: valid message from the admin, active pool,
    fees present and covered, and the limits (against the pool's new limit if the message sets one) -/
theorem updatePool_ok_iff (e : Env) (l : Ledger) (s : State) (updater : Addr) (poolID : Nat)
    (shield fees : Coins) (limit : Int) (hz : Coins.isZero shield = false) :
    Succeeds (updatePool e l s updater poolID shield fees limit) ↔
      poolID ≠ 0 ∧ Coins.isAnyNegative shield = false ∧ updater = s.admin ∧
      ∃ pool, findPool s poolID = some pool ∧ pool.active = true ∧ Coins.isZero fees = false ∧
        s.totalShield + Coins.amountOf shield e.bond ≤ free s ∧
        Coins.amountOf shield e.bond + pool.shield ≤ min (if limit = 0 then pool.limit else limit) (fraction s) ∧
        Succeeds (l.send updater e.modAddr fees) := by
  rw [updatePool_eq]
  have hcore : ∀ pool, findPool s poolID = some pool →
      (Succeeds (purchaseCore e l (setPool s (relimit pool limit)) poolID shield updater fees []) ↔
        pool.active = true ∧ Coins.isZero fees = false ∧
        s.totalShield + Coins.amountOf shield e.bond ≤ free s ∧
        Coins.amountOf shield e.bond + pool.shield ≤ min (if limit = 0 then pool.limit else limit) (fraction s) ∧
        Succeeds (l.send updater e.modAddr fees)) := by
    intro pool hp
    have hid := findPool_id s poolID pool hp
    have hfind : findPool (setPool s (relimit pool limit)) poolID = some (relimit pool limit) := by
      have := findPool_setPool_self s (relimit pool limit) pool (by rw [relimit_id, hid]; exact hp)
      rwa [relimit_id, hid] at this
    rw [purchaseCore_ok_iff]
    have hfree : free (setPool s (relimit pool limit)) = free s := rfl
    have hfrac : fraction (setPool s (relimit pool limit)) = fraction s := rfl
    have hts : (setPool s (relimit pool limit)).totalShield = s.totalShield := rfl
    rw [hfree, hfrac, hts]
    constructor
    · rintro ⟨p', hp', ha, _, hfs, h1, h2, hpay⟩
      rw [hfind] at hp'; injection hp' with hp'; subst hp'
      rw [relimit_active] at ha
      rw [relimit_shield, relimit_limit] at h2
      have hzf : Coins.isZero fees = false := by
        cases hc : Coins.isZero fees with
        | false => rfl
        | true => exact absurd ⟨hc, isZero_nil⟩ hfs
      simp only [payment, hzf, if_true] at hpay
      exact ⟨ha, hzf, h1, h2, hpay⟩
    · rintro ⟨ha, hzf, h1, h2, hpay⟩
      refine ⟨_, hfind, by rw [relimit_active]; exact ha, hz, ?_, h1, by rw [relimit_shield, relimit_limit]; exact h2,
        by simp only [payment, hzf, if_true]; exact hpay⟩
      intro ⟨hc, _⟩; rw [hzf] at hc; cases hc
  constructor
  · intro h
    split at h
    · obtain ⟨_, h⟩ := h; cases h
    rename_i g1
    split at h
    · obtain ⟨_, h⟩ := h; cases h
    rename_i g2
    split at h
    · obtain ⟨_, h⟩ := h; cases h
    rename_i pool hp
    simp only [hz, Bool.not_false, if_true] at h
    bool_norm at g1 g2
    exact ⟨g1.1, g1.2, g2, pool, hp, (hcore pool hp).mp h⟩
  · rintro ⟨hid, hneg, hadm, pool, hp, hrest⟩
    have g1 : (poolID == 0 || Coins.isAnyNegative shield) = false := by simp [hid, hneg]
    have g2 : (updater != s.admin) = false := by simp [hadm]
    simp only [g1, g2, Bool.false_eq_true, if_false, hp, hz, Bool.not_false, if_true]
    exact (hcore pool hp).mpr hrest

/- Renewed purchases: the model has no separate renewal path.  The Go renewal code (`ProcessStakeForShieldExpiration`,
   the re-purchase of an expiring staked purchase in the end-blocker) only runs for a purchase that has BOTH a staked
   deposit and positive service fees; `purchaseShield` books either fees or a deposit, never both, so it is unreachable.
   The model reports `unmodelled:stake-expiry` from `expireAndDistribute` if a history ever made it reachable, so a
   renewal would surface as a driver error rather than escape these theorems.  Were it reachable it would go through
   `purchaseShield`, i.e. `purchaseCore`, and be covered by `purchaseCore_ok_iff` / `purchaseCore_within_limits`. -/

/-! ## never oversold -/

/-- every successful purchase-type operation ESTABLISHES `NotOversold` in its post-state, whatever the state before.
    (`NotOversold` is not an invariant of the module: withdrawal requests and claim payouts may lower the free
    collateral below the shield already sold; what the property demands is that no purchase is accepted then.) -/
theorem purchases_keep_NotOversold (e : Env) (l l' : Ledger) (s s' : State) :
    (∀ poolID shield purchaser fees staking,
      purchaseCore e l s poolID shield purchaser fees staking = .ok (l', s') → NotOversold s') ∧
    (∀ poolID shield purchaser staking,
      purchase e l s poolID shield purchaser staking = .ok (l', s') → NotOversold s') ∧
    (∀ creator shield fees sponsor sponsorAddr limit,
      createPool e l s creator shield fees sponsor sponsorAddr limit = .ok (l', s') → NotOversold s') ∧
    (∀ updater poolID shield fees limit, Coins.isZero shield = false →
      updatePool e l s updater poolID shield fees limit = .ok (l', s') → NotOversold s') :=
  ⟨fun _ _ _ _ _ h => (purchaseCore_within_limits _ _ _ _ _ _ _ _ _ _ h).1,
   fun _ _ _ _ h => (purchase_within_limits _ _ _ _ _ _ _ _ _ h).1,
   fun _ _ _ _ _ _ h => (createPool_within_limits _ _ _ _ _ _ _ _ _ _ _ h).1,
   fun _ _ _ _ _ hz h => (updatePool_within_limits _ _ _ _ _ _ _ _ _ _ hz h).1⟩

/-- while the module is oversold (free collateral below the shield sold, e.g. after withdrawal requests), every
    purchase of a non-negative amount is refused -/
theorem oversold_refuses (e : Env) (l : Ledger) (s : State) (poolID : Nat) (shield : Coins) (purchaser : Addr)
    (fees staking : Coins) (hover : free s < s.totalShield) (hamt : 0 ≤ Coins.amountOf shield e.bond) :
    ¬ Succeeds (purchaseCore e l s poolID shield purchaser fees staking) := by
  rw [purchaseCore_ok_iff]
  rintro ⟨_, _, _, _, _, h1, _⟩
  omega

/-! ## deposits (`MsgDepositCollateral`) -/

/-- the provider's record as a deposit sees it: the stored one, or for a first deposit an empty one whose bonded
    stake is what the staking module reports for the address (nothing if it has no delegation) -/
def recordOf (e : Env) (s : State) (a : Addr) : Provider :=
  (findProvider s a).getD
    { addr := a, collateral := 0, withdrawing := 0, bonded := (e.bondedAfter a).getD 0, rewards := Dec.zero }

/-- "A deposit succeeds only if the provider's collateral not being withdrawn stays within their bonded stake.
    … Conversely, a … deposit that meets all of these conditions is accepted": the exact acceptance condition. -/
theorem deposit_ok_iff (e : Env) (s : State) (a : Addr) (coins : Coins) :
    Succeeds (deposit e s a coins) ↔
      Coins.isAllPositive coins = true ∧ (∀ d ∈ Coins.denoms coins, d = e.bond) ∧
      (recordOf e s a).collateral + Coins.amountOf coins e.bond - (recordOf e s a).withdrawing ≤ (recordOf e s a).bonded := by
  have hden : (∀ d ∈ Coins.denoms coins, d = e.bond) ↔ (Coins.denoms coins).any (· != e.bond) = false := by
    rw [List.any_eq_false]
    constructor
    · intro h d hd; simp [h d hd]
    · intro h d hd; simpa using h d hd
  rw [hden]
  have key : ∀ p : Provider, recordOf e s a = p →
      (Succeeds (if !Coins.isAllPositive coins then (err "basic:shield:invalid-coins" : Except Err State)
        else if (Coins.denoms coins).any (· != e.bond) then err "shield:bad-denom"
        else if p.bonded < p.collateral + Coins.amountOf coins e.bond - p.withdrawing then err "shield:insufficient-staking"
        else .ok { setProvider (if (findProvider s a).isSome then s else { s with providers := insertProvider p s.providers })
                    { p with collateral := p.collateral + Coins.amountOf coins e.bond } with
                   totalCollateral := s.totalCollateral + Coins.amountOf coins e.bond }) ↔
      Coins.isAllPositive coins = true ∧ (Coins.denoms coins).any (· != e.bond) = false ∧
      p.collateral + Coins.amountOf coins e.bond - p.withdrawing ≤ p.bonded) := by
    intro p _
    constructor
    · intro h
      split at h
      · obtain ⟨_, h⟩ := h; cases h
      rename_i g1
      split at h
      · obtain ⟨_, h⟩ := h; cases h
      rename_i g2
      split at h
      · obtain ⟨_, h⟩ := h; cases h
      rename_i g3
      exact ⟨by simpa using g1, by simpa using g2, by omega⟩
    · rintro ⟨h1, h2, h3⟩
      have g3 : ¬ p.bonded < p.collateral + Coins.amountOf coins e.bond - p.withdrawing := by omega
      simp only [h1, h2, Bool.not_true, Bool.false_eq_true, if_false, if_neg g3]
      exact ⟨_, rfl⟩
  cases hf : findProvider s a with
  | some p =>
    have hr : recordOf e s a = p := by simp only [recordOf, hf, Option.getD_some]
    rw [deposit_existing e s a coins p hf, hr]
    have := key p hr
    simp only [hf, Option.isSome_some, if_true] at this
    exact this
  | none =>
    have hr : recordOf e s a = newProvider e a := by simp only [recordOf, hf, Option.getD_none]; rfl
    rw [deposit_new e s a coins hf, hr]
    have := key (newProvider e a) hr
    simp only [hf, Option.isSome_none, Bool.false_eq_true, if_false] at this
    exact this

/-- what a successful deposit does: the deposited amount is positive; the provider's collateral grows by exactly that
    amount and nothing else of the record changes; total collateral grows by the amount; every other provider, the
    withdrawal queue, the pools and the other totals are untouched. -/
theorem deposit_effect (e : Env) (s s' : State) (a : Addr) (coins : Coins) (h : deposit e s a coins = .ok s') :
    0 < Coins.amountOf coins e.bond ∧
    findProvider s' a = some { recordOf e s a with collateral := (recordOf e s a).collateral + Coins.amountOf coins e.bond } ∧
    (∀ b, b ≠ a → findProvider s' b = findProvider s b) ∧
    s'.totalCollateral = s.totalCollateral + Coins.amountOf coins e.bond ∧
    s'.totalWithdrawing = s.totalWithdrawing ∧ s'.totalShield = s.totalShield ∧ s'.totalClaimed = s.totalClaimed ∧
    s'.withdraws = s.withdraws ∧ s'.pools = s.pools := by
  have hok := (deposit_ok_iff e s a coins).mp ⟨s', h⟩
  have hposamt : 0 < Coins.amountOf coins e.bond := by
    apply isAllPositive_amount_pos coins e.bond hok.1
    rw [List.any_eq_false]; intro d hd; simp [hok.2.1 d hd]
  refine ⟨hposamt, ?_⟩
  cases hf : findProvider s a with
  | some p =>
    have hr : recordOf e s a = p := by simp only [recordOf, hf, Option.getD_some]
    have hpa := findProvider_addr s a p hf
    rw [deposit_existing e s a coins p hf] at h
    split at h; · cases h
    split at h; · cases h
    split at h; · cases h
    injection h with h; subst h
    rw [hr]
    refine ⟨?_, ?_, rfl, rfl, rfl, rfl, rfl, rfl⟩
    · show findProvider (setProvider s _) a = _
      rw [findProvider_setProvider, if_pos hpa.symm, hf]; rfl
    · intro b hb
      show findProvider (setProvider s _) b = _
      rw [findProvider_setProvider, if_neg (by rw [hpa]; exact hb)]
  | none =>
    have hr : recordOf e s a = newProvider e a := by simp only [recordOf, hf, Option.getD_none]; rfl
    rw [deposit_new e s a coins hf] at h
    split at h; · cases h
    split at h; · cases h
    split at h; · cases h
    injection h with h; subst h
    rw [hr]
    refine ⟨?_, ?_, rfl, rfl, rfl, rfl, rfl, rfl⟩
    · show findProvider (setProvider _ _) a = _
      have hpa : a = ({ newProvider e a with collateral := (newProvider e a).collateral + Coins.amountOf coins e.bond } : Provider).addr := rfl
      rw [findProvider_setProvider, if_pos hpa]
      have : findProvider { s with providers := insertProvider (newProvider e a) s.providers } a = some (newProvider e a) :=
        find_insertProvider_self (newProvider e a) s.providers hf
      rw [this]; rfl
    · intro b hb
      show findProvider (setProvider _ _) b = _
      have hpa : ({ newProvider e a with collateral := (newProvider e a).collateral + Coins.amountOf coins e.bond } : Provider).addr = a := rfl
      rw [findProvider_setProvider, if_neg (by rw [hpa]; exact hb)]
      exact find_insertProvider_ne (newProvider e a) s.providers b hb

/-- "A deposit succeeds only if the provider's collateral not being withdrawn stays within their bonded stake":
    after every successful deposit the depositor is backed, whatever the state before. -/
theorem deposit_backed (e : Env) (s s' : State) (a : Addr) (coins : Coins) (h : deposit e s a coins = .ok s') :
    Backed s' a := by
  have hok := (deposit_ok_iff e s a coins).mp ⟨s', h⟩
  obtain ⟨_, hfind, _⟩ := deposit_effect e s s' a coins h
  intro p hp
  rw [hfind] at hp; injection hp with hp; subst hp
  exact hok.2.2

/-! ## the provider's own staking actions (delegate / undelegate / redelegate hooks) -/

/-- the hook fails (a panic, i.e. the staking transaction is rolled back) exactly when it would have to force a
    withdrawal while the recomputed stake is negative; a staking module never reports a negative stake -/
theorem stakingHook_ok_iff (e : Env) (s : State) (a : Addr) (staked : Int) :
    Succeeds (stakingHook e s a staked) ↔
      ∀ p, findProvider s a = some p → p.collateral - p.withdrawing - staked > 0 → 0 ≤ staked := by
  cases hf : findProvider s a with
  | none =>
    rw [stakingHook_none e s a staked hf]
    exact ⟨fun _ p hp => (by cases hp), fun _ => ⟨s, rfl⟩⟩
  | some p =>
    rw [stakingHook_some e s a staked p hf]
    constructor
    · intro h q hq hw
      injection hq with hq; subst hq
      rw [if_pos hw] at h
      split at h
      · obtain ⟨_, h⟩ := h; cases h
      · omega
    · intro h
      split
      · rename_i hw
        have := h p rfl hw
        rw [if_neg (by omega)]
        exact ⟨_, rfl⟩
      · exact ⟨_, rfl⟩

/-- the forced withdrawal can never exceed what is withdrawable: with a non-negative recomputed stake the hook never fails -/
theorem stakingHook_never_fails (e : Env) (s : State) (a : Addr) (staked : Int) (h : 0 ≤ staked) :
    Succeeds (stakingHook e s a staked) :=
  (stakingHook_ok_iff e s a staked).mpr (fun _ _ _ => h)

/-- an address that is not a provider is not affected by its staking actions -/
theorem stakingHook_not_provider (e : Env) (s : State) (a : Addr) (staked : Int) (h : findProvider s a = none) :
    stakingHook e s a staked = .ok s := stakingHook_none e s a staked h

/-- "whenever a provider's own staking action drops their stake below that, the shortfall is put into withdrawal at
    once": if the recomputed stake is below the collateral not being withdrawn, the shortfall
    `collateral − withdrawing − staked` — exactly — is added to the provider's `withdrawing` and to the total, and one
    queue entry of exactly that amount, completing at `now + withdrawPeriod`, is inserted into the queue (after the
    entries due no later, before those due later); the collateral itself, every other provider, the pools and the
    other totals are untouched. -/
theorem stakingHook_shortfall (e : Env) (s s' : State) (a : Addr) (staked : Int) (p : Provider)
    (hp : findProvider s a = some p) (hshort : staked < p.collateral - p.withdrawing)
    (h : stakingHook e s a staked = .ok s') :
    let w : Withdraw := { addr := a, amount := p.collateral - p.withdrawing - staked, time := e.t + s.params.withdrawPeriod }
    findProvider s' a = some { p with bonded := staked, withdrawing := p.withdrawing + w.amount } ∧
    (∀ b, b ≠ a → findProvider s' b = findProvider s b) ∧
    s'.totalWithdrawing = s.totalWithdrawing + w.amount ∧
    (∃ pre post, s.withdraws = pre ++ post ∧ s'.withdraws = pre ++ w :: post ∧
      (∀ x ∈ pre, x.time ≤ w.time) ∧ (∀ x, post.head? = some x → w.time < x.time)) ∧
    s'.totalCollateral = s.totalCollateral ∧ s'.totalShield = s.totalShield ∧ s'.totalClaimed = s.totalClaimed ∧
    s'.pools = s.pools := by
  intro w
  rw [stakingHook_some e s a staked p hp, if_pos (by omega)] at h
  split at h; · cases h
  injection h with h; subst h
  refine ⟨?_, ?_, rfl, insertWithdraw_split w s.withdraws, rfl, rfl, rfl, rfl⟩
  · rw [findProvider_forcedState e s a p staked hp, if_pos rfl]
  · intro b hb
    rw [findProvider_forcedState e s a p staked hp, if_neg hb]

/-- otherwise (the stake still covers the collateral not being withdrawn) only the recorded stake changes -/
theorem stakingHook_covered (e : Env) (s s' : State) (a : Addr) (staked : Int) (p : Provider)
    (hp : findProvider s a = some p) (hcov : p.collateral - p.withdrawing ≤ staked)
    (h : stakingHook e s a staked = .ok s') :
    findProvider s' a = some { p with bonded := staked } ∧
    (∀ b, b ≠ a → findProvider s' b = findProvider s b) ∧
    s'.withdraws = s.withdraws ∧ s'.totalWithdrawing = s.totalWithdrawing ∧
    s'.totalCollateral = s.totalCollateral ∧ s'.totalShield = s.totalShield ∧ s'.totalClaimed = s.totalClaimed ∧
    s'.pools = s.pools := by
  have hpa := findProvider_addr s a p hp
  rw [stakingHook_some e s a staked p hp, if_neg (by omega)] at h
  injection h with h; subst h
  refine ⟨?_, ?_, rfl, rfl, rfl, rfl, rfl, rfl⟩
  · rw [findProvider_setProvider, if_pos hpa.symm, hp]; rfl
  · intro b hb
    rw [findProvider_setProvider, if_neg (by show ¬ b = p.addr; rw [hpa]; exact hb)]

/-- after every successful staking hook the provider is backed again, whatever the state before
    (in the shortfall case with equality: collateral − withdrawing = stake) -/
theorem stakingHook_backed (e : Env) (s s' : State) (a : Addr) (staked : Int)
    (h : stakingHook e s a staked = .ok s') : Backed s' a := by
  intro q hq
  cases hf : findProvider s a with
  | none =>
    rw [stakingHook_none e s a staked hf] at h
    injection h with h; subst h
    rw [hf] at hq; cases hq
  | some p =>
    by_cases hc : p.collateral - p.withdrawing ≤ staked
    · obtain ⟨h1, _⟩ := stakingHook_covered e s s' a staked p hf hc h
      rw [h1] at hq; injection hq with hq; subst hq
      exact hc
    · obtain ⟨h1, _⟩ := stakingHook_shortfall e s s' a staked p hf (by omega) h
      rw [h1] at hq; injection hq with hq; subst hq
      show p.collateral - (p.withdrawing + (p.collateral - p.withdrawing - staked)) ≤ staked
      omega

/-- the hooks as they fire in a step (`stakingChanged`): the stake reported by the staking module is used -/
theorem stakingChanged_backed (e : Env) (s s' : State) (a : Addr) (b : Int) (hb : e.bondedAfter a = some b)
    (h : stakingChanged e s a = .ok s') : Backed s' a := by
  simp only [stakingChanged, hb] at h
  exact stakingHook_backed e s s' a b h

/-! ## the deposit message: the recorded stake is refreshed first -/

/-- **The deposit message in terms of the model's operations.** `Keeper.DepositCollateral` (after the repair: a slash changes
    what the delegations are worth without any staking hook, so the recorded stake of an existing provider may be stale) is, for
    an existing provider, the staking hook with the stake recomputed from the delegations followed by the deposit proper; for a
    new provider it is the deposit proper. Every history theorem below quantifies over arbitrary sequences of exactly these
    operations. -/
theorem depositMsg_ops (e : Env) (s s' : State) (a : Addr) (coins : Coins) (h : depositMsg e s a coins = .ok s') :
    (findProvider s a = none ∧ deposit e s a coins = .ok s') ∨
    (∃ p s1, findProvider s a = some p ∧ stakingChanged e s a = .ok s1 ∧ deposit e s1 a coins = .ok s') := by
  unfold depositMsg at h
  split at h; · cases h
  split at h
  · rename_i hf; exact Or.inl ⟨hf, h⟩
  · rename_i p hf
    split at h; · cases h
    rename_i s1 h1
    exact Or.inr ⟨p, s1, hf, h1, h⟩

/-- **"A deposit succeeds only if the provider's collateral not being withdrawn stays within their bonded stake"** — the bonded
    stake as the staking module reports it at the time of the deposit (`e.bondedAfter a`, what the delegations are worth now),
    not a figure recorded at the provider's last staking action. -/
theorem depositMsg_within_current_stake (e : Env) (s s' : State) (a : Addr) (coins : Coins) (b : Int) (q : Provider)
    (hq : findProvider s a = some q) (hb : e.bondedAfter a = some b) (h : depositMsg e s a coins = .ok s') :
    ∃ p', findProvider s' a = some p' ∧ p'.bonded = b ∧ p'.collateral - p'.withdrawing ≤ b := by
  rcases depositMsg_ops e s s' a coins h with ⟨hn, _⟩ | ⟨p, s1, _, h1, h2⟩
  · rw [hq] at hn; cases hn
  · -- after the hook the record holds the current stake
    have hrec : ∃ p1, findProvider s1 a = some p1 ∧ p1.bonded = b := by
      simp only [stakingChanged, hb] at h1
      by_cases hc : q.collateral - q.withdrawing ≤ b
      · exact ⟨_, (stakingHook_covered e s s1 a b q hq hc h1).1, rfl⟩
      · exact ⟨_, (stakingHook_shortfall e s s1 a b q hq (by omega) h1).1, rfl⟩
    obtain ⟨p1, hp1, hb1⟩ := hrec
    obtain ⟨_, hfind, _⟩ := deposit_effect e s1 s' a coins h2
    have hback := deposit_backed e s1 s' a coins h2
    have hro : recordOf e s1 a = p1 := by simp [recordOf, hp1]
    rw [hro] at hfind
    refine ⟨_, hfind, hb1, ?_⟩
    have := hback _ hfind
    simpa [hb1] using this

/-- the deposit message keeps every provider backed -/
theorem depositMsg_backed (e : Env) (s s' : State) (a : Addr) (coins : Coins) (h : depositMsg e s a coins = .ok s') :
    Backed s' a := by
  rcases depositMsg_ops e s s' a coins h with ⟨_, h2⟩ | ⟨_, s1, _, _, h2⟩
  · exact deposit_backed e s s' a coins h2
  · exact deposit_backed e s1 s' a coins h2

/-! ## "funded" -/

/-- what "funded" means for a user purchase: the single amount to pay is non-negative and within the payer's balance -/
theorem funded_iff (l : Ledger) (src dst : Addr) (d : Denom) (x : Int) :
    Succeeds (l.send src dst [(d, x)]) ↔ 0 ≤ x ∧ x ≤ l.balOf src d :=
  send_single_ok_iff l src dst d x

/-! ## histories: all sequences of deposits, withdrawal requests and staking actions by providers -/

/-- every provider is backed -/
def AllBacked (s : State) : Prop := ∀ a, Backed s a

/-- a provider's action: a deposit, a withdrawal request, or a staking action after which the staking module
    reports `staked` as the provider's bonded stake (delegate, undelegate, redelegate) -/
inductive ProvOp where
  | deposit (a : Addr) (coins : Coins)
  | withdraw (a : Addr) (coins : Coins)
  | staking (a : Addr) (staked : Int)

/-- the model operation behind each provider action -/
def applyOp (e : Env) (s : State) : ProvOp → Except Err State
  | .deposit a coins => Shield.deposit e s a coins
  | .withdraw a coins => Shield.withdraw e s a coins
  | .staking a staked => stakingHook e s a staked

/-- a history of provider actions, each in its own environment (block time, staking view); failed actions are
    rolled back, i.e. leave the state as it was -/
def run : List (Env × ProvOp) → State → State
  | [], s => s
  | (e, op) :: rest, s =>
    match applyOp e s op with
    | .ok s' => run rest s'
    | .error _ => run rest s

/-- one successful provider action keeps every provider backed: the acting provider by `deposit_backed` /
    `stakingHook_backed` (a withdrawal request only lowers the collateral not being withdrawn), the others because
    their records are untouched -/
theorem applyOp_allBacked (e : Env) (s s' : State) (op : ProvOp) (hs : AllBacked s) (h : applyOp e s op = .ok s') :
    AllBacked s' := by
  intro b
  cases op with
  | deposit a coins =>
    by_cases hb : b = a
    · subst hb; exact deposit_backed e s s' b coins h
    · obtain ⟨_, _, hoth, _⟩ := deposit_effect e s s' a coins h
      intro q hq; rw [hoth b hb] at hq; exact hs b q hq
  | withdraw a coins =>
    simp only [applyOp, Shield.withdraw] at h
    split at h; · cases h
    rename_i g1
    split at h; · cases h
    rename_i g2
    have hpos : 0 < Coins.amountOf coins e.bond :=
      isAllPositive_amount_pos coins e.bond (by simpa using g1) (by simpa using g2)
    rcases withdrawCollateral_ok e s s' a _ h with ⟨_, h2⟩ | ⟨_, p, hp, _, hfa, hoth, _⟩
    · subst h2; exact hs b
    · by_cases hb : b = a
      · subst hb
        intro q hq; rw [hfa] at hq; injection hq with hq; subst hq
        have := hs b p hp
        show p.collateral - (p.withdrawing + _) ≤ p.bonded
        omega
      · intro q hq; rw [hoth b hb] at hq; exact hs b q hq
  | staking a staked =>
    by_cases hb : b = a
    · subst hb; exact stakingHook_backed e s s' b staked h
    · intro q hq
      cases hf : findProvider s a with
      | none =>
        rw [show applyOp e s (.staking a staked) = stakingHook e s a staked from rfl, stakingHook_none e s a staked hf] at h
        injection h with h; subst h; exact hs b q hq
      | some p =>
        by_cases hc : p.collateral - p.withdrawing ≤ staked
        · obtain ⟨_, hoth, _⟩ := stakingHook_covered e s s' a staked p hf hc h
          rw [hoth b hb] at hq; exact hs b q hq
        · obtain ⟨_, hoth, _⟩ := stakingHook_shortfall e s s' a staked p hf (by omega) h
          rw [hoth b hb] at hq; exact hs b q hq

/-- Quantifier "all delegate / undelegate / redelegate sequences by providers": along every history of deposits,
    withdrawal requests and staking actions, in any order and by any providers, every provider's collateral not being
    withdrawn stays within the bonded stake recorded for them. -/
theorem run_allBacked (ops : List (Env × ProvOp)) (s : State) (hs : AllBacked s) : AllBacked (run ops s) := by
  induction ops generalizing s with
  | nil => exact hs
  | cons x rest ih =>
    obtain ⟨e, op⟩ := x
    unfold run
    split
    · rename_i s' h; exact ih s' (applyOp_allBacked e s s' op hs h)
    · exact ih s hs

/-- purchases do not touch the providers, so they keep every provider backed too -/
theorem purchaseCore_allBacked (e : Env) (l l' : Ledger) (s s' : State) (poolID : Nat) (shield : Coins) (purchaser : Addr)
    (fees staking : Coins) (hs : AllBacked s)
    (h : purchaseCore e l s poolID shield purchaser fees staking = .ok (l', s')) : AllBacked s' := by
  obtain ⟨_, _, _, _, _, _, _, hprov, _⟩ := purchaseCore_effect e l l' s s' poolID shield purchaser fees staking h
  intro a q hq
  simp only [findProvider, hprov] at hq
  exact hs a q hq

/-- evaluation helpers for the examples below -/
theorem succeeds_of_isOk {α : Type} {x : Except Err α} (h : x.isOk = true) : Succeeds x := by
  cases x with
  | ok r => exact ⟨r, rfl⟩
  | error _ => cases h

theorem not_succeeds_of_isOk {α : Type} {x : Except Err α} (h : x.isOk = false) : ¬ Succeeds x := by
  rintro ⟨r, hr⟩; subst hr; cases h

/-! ## non-vacuity: a concrete state, purchases and deposits exactly at the limits and one unit beyond -/
namespace Ex

def params : Params :=
  { protection := 1000, withdrawPeriod := 500, feesRate := ⟨100000000000000000⟩, poolLimit := ⟨500000000000000000⟩,
    minPurchase := 50, stakingRate := ⟨2000000000000000000⟩, payoutPeriod := 100 }

/-- one provider (collateral 1000, 100 of it being withdrawn, stake 950), pool 1 (shield 300, limit 600) and
    pool 2 (shield 200, limit 280), both active; free collateral 900, the configured fraction (1/2) of it 450 -/
def st : State :=
  { admin := "ad",
    pools := [{ id := 1, shield := 300, limit := 600, active := true, sponsor := "sp", sponsorAddr := "sa" },
              { id := 2, shield := 200, limit := 280, active := true, sponsor := "sq", sponsorAddr := "sb" }],
    lists := [{ pool := 1, purchaser := "bob", entries := [{ id := 1, endTime := 5000, delTime := 5000, shield := 300, fees := ⟨0⟩ }] },
              { pool := 2, purchaser := "bob", entries := [{ id := 2, endTime := 5000, delTime := 5000, shield := 200, fees := ⟨0⟩ }] }],
    providers := [{ addr := "prov", collateral := 1000, withdrawing := 100, bonded := 950, rewards := Dec.zero }],
    withdraws := [{ addr := "prov", amount := 100, time := 700 }],
    stakes := [], origStakings := [], reimbs := [],
    totalCollateral := 1000, totalWithdrawing := 100, totalShield := 500, totalClaimed := 0,
    serviceFees := Dec.zero, remaining := Dec.zero, blockFees := Dec.zero, stakingPool := 0,
    lastUpdate := 10, nextPool := 3, nextPurchase := 3, params := params }

def env : Env := { t := 100, bond := "uctk", modAddr := "mod", bondedAfter := fun a => if a == "carol" then some 70 else none }
def ledger : Ledger := { posts := [("alice", "uctk", 10000), ("ad", "uctk", 10000)], supply := [("uctk", 20000)] }

example : free st = 900 ∧ fraction st = 450 := by decide

/-- the repaired defect as an evaluation: "prov" holds collateral 1000 with 100 being withdrawn against a RECORDED stake of
    950; a slash has left its delegations worth 920. A deposit of 50 fits the record (the deposit proper accepts it) but not
    the stake: the message refuses it, and a deposit of 20 — which the stake does cover — is accepted. -/
def envSlashed : Env := { env with bondedAfter := fun a => if a == "prov" then some 920 else none }
example : Succeeds (deposit envSlashed st "prov" [("uctk", 50)]) := succeeds_of_isOk (by decide)
example : ¬ Succeeds (depositMsg envSlashed st "prov" [("uctk", 50)]) := not_succeeds_of_isOk (by decide)
example : Succeeds (depositMsg envSlashed st "prov" [("uctk", 20)]) := succeeds_of_isOk (by decide)
example : findProvider st "prov" = some { addr := "prov", collateral := 1000, withdrawing := 100, bonded := 950, rewards := Dec.zero } ∧
    envSlashed.bondedAfter "prov" = some 920 := by decide

/-- paid purchase in pool 1: 150 reaches the configured fraction (300 + 150 = 450) and is accepted, 151 is refused -/
example : Succeeds (purchase env ledger st 1 [("uctk", 150)] "alice" false) := succeeds_of_isOk (by decide)
example : ¬ Succeeds (purchase env ledger st 1 [("uctk", 151)] "alice" false) := not_succeeds_of_isOk (by decide)
/-- … and the post-state is exactly at the limit -/
example : (match purchase env ledger st 1 [("uctk", 150)] "alice" false with
    | .ok (_, s') => (s'.totalShield, (findPool s' 1).map (·.shield), free s', fraction s')
    | .error _ => (0, none, 0, 0)) = (650, some 450, 900, 450) := by decide

/-- staked purchase in pool 2: 80 reaches the pool's own limit (200 + 80 = 280), 81 is refused -/
example : Succeeds (purchase env ledger st 2 [("uctk", 80)] "alice" true) := succeeds_of_isOk (by decide)
example : ¬ Succeeds (purchase env ledger st 2 [("uctk", 81)] "alice" true) := not_succeeds_of_isOk (by decide)

/-- the minimum: 50 is accepted, 49 is refused; an unfunded purchaser is refused -/
example : Succeeds (purchase env ledger st 1 [("uctk", 50)] "alice" false) := succeeds_of_isOk (by decide)
example : ¬ Succeeds (purchase env ledger st 1 [("uctk", 49)] "alice" false) := not_succeeds_of_isOk (by decide)
example : ¬ Succeeds (purchase env ledger st 1 [("uctk", 50)] "nobody" false) := not_succeeds_of_isOk (by decide)

/-- the total: with 850 of the 900 free units sold, 50 more are accepted and 51 refused (pool 1's own limits allow 150) -/
example : Succeeds (purchase env ledger { st with totalShield := 850 } 1 [("uctk", 50)] "alice" false) := succeeds_of_isOk (by decide)
example : ¬ Succeeds (purchase env ledger { st with totalShield := 850 } 1 [("uctk", 51)] "alice" false) := not_succeeds_of_isOk (by decide)

/-- a paused pool sells nothing -/
example : ¬ Succeeds (purchase env ledger (setPool st { id := 1, shield := 300, limit := 600, active := false, sponsor := "sp", sponsorAddr := "sa" })
    1 [("uctk", 50)] "alice" false) := not_succeeds_of_isOk (by decide)

/-- the admin: a new pool may start with up to min(limit, fraction, free − sold) = min(1000, 450, 400)
    (`String.trimAscii` does not reduce in the kernel, so the sponsor check is a hypothesis here and the purchase that
    `createPool` makes — `createPool_eq` — is evaluated directly below) -/
example (hsp : "new".trimAscii.toString ≠ "") :
    Succeeds (createPool env ledger st "ad" [("uctk", 400)] [("uctk", 7)] "new" "sc" 1000) :=
  (createPool_ok_iff env ledger st "ad" [("uctk", 400)] [("uctk", 7)] "new" "sc" 1000 (by decide)).mpr
    ⟨hsp, by decide, rfl, by decide, by decide, by decide, succeeds_of_isOk (by decide)⟩
example : ¬ Succeeds (createPool env ledger st "ad" [("uctk", 401)] [("uctk", 7)] "new" "sc" 1000) := by
  rw [createPool_ok_iff env ledger st "ad" [("uctk", 401)] [("uctk", 7)] "new" "sc" 1000 (by decide)]
  rintro ⟨_, _, _, _, h, _, _⟩
  revert h; decide
example : Succeeds (purchaseCore env ledger (withNewPool st "new" "sc" 1000) st.nextPool [("uctk", 400)] "ad" [("uctk", 7)] []) :=
  succeeds_of_isOk (by decide)
example : ¬ Succeeds (purchaseCore env ledger (withNewPool st "new" "sc" 1000) st.nextPool [("uctk", 401)] "ad" [("uctk", 7)] []) :=
  not_succeeds_of_isOk (by decide)
/-- `updatePool` with shield: raising pool 2's limit to 1000 lets it grow to the fraction (200 + 250 = 450), not further -/
example : Succeeds (updatePool env ledger st "ad" 2 [("uctk", 250)] [("uctk", 7)] 1000) := succeeds_of_isOk (by decide)
example : ¬ Succeeds (updatePool env ledger st "ad" 2 [("uctk", 251)] [("uctk", 7)] 1000) := not_succeeds_of_isOk (by decide)
example : Succeeds (updatePool env ledger st "ad" 2 [] [] 250) := succeeds_of_isOk (by decide)
/-- not a purchase, so not constrained by C06: the admin may lower a pool's limit below the shield already sold
    (pool 2: shield 200, new limit 150); `pool.shield ≤ pool.limit` is a guarantee at purchase time, not a state invariant -/
example : (match updatePool env ledger st "ad" 2 [] [] 150 with
    | .ok (_, s') => (findPool s' 2).map (fun p => (p.shield, p.limit))
    | .error _ => none) = some (200, 150) := by decide

/-- the extra condition in the converse: at a fees rate of 0.00769 a purchase of 100 (≥ the minimum 50, within every
    limit, purchaser funded) costs ⌊0.769⌋ = 0 and is refused ("no shield"); at 131 the fee is 1 and it is accepted -/
example : ¬ Succeeds (purchase env ledger { st with params := { params with feesRate := ⟨7690000000000000⟩ } } 1 [("uctk", 100)] "alice" false) :=
  not_succeeds_of_isOk (by decide)
example : Succeeds (purchase env ledger { st with params := { params with feesRate := ⟨7690000000000000⟩ } } 1 [("uctk", 131)] "alice" false) :=
  succeeds_of_isOk (by decide)

/-- deposits: the provider (collateral 1000, withdrawing 100, stake 950) may add 50, not 51; a newcomer whose
    delegations are worth 70 may deposit 70, not 71 -/
example : Succeeds (deposit env st "prov" [("uctk", 50)]) := succeeds_of_isOk (by decide)
example : ¬ Succeeds (deposit env st "prov" [("uctk", 51)]) := not_succeeds_of_isOk (by decide)
example : Succeeds (deposit env st "carol" [("uctk", 70)]) := succeeds_of_isOk (by decide)
example : ¬ Succeeds (deposit env st "carol" [("uctk", 71)]) := not_succeeds_of_isOk (by decide)
theorem st_allBacked : AllBacked st := by
  intro a p hp
  have hprov : st.providers = [{ addr := "prov", collateral := 1000, withdrawing := 100, bonded := 950, rewards := Dec.zero }] := rfl
  simp only [findProvider, hprov, List.find?_cons, List.find?_nil] at hp
  split at hp
  · injection hp with hp; subst hp; decide
  · cases hp

/-- staking actions: dropping the stake to 800 forces the shortfall 1000 − 100 − 800 = 100 into withdrawal, due at
    100 + 500 = 600, i.e. before the entry due at 700; a stake of 900 changes nothing but the record -/
example : (match stakingHook env st "prov" 800 with
    | .ok s' => ((findProvider s' "prov").map (fun p => (p.collateral, p.withdrawing, p.bonded)), s'.totalWithdrawing,
                 s'.withdraws.map (fun w => (w.addr, w.amount, w.time)))
    | .error _ => (none, 0, [])) = (some (1000, 200, 800), 200, [("prov", 100, 600), ("prov", 100, 700)]) := by decide
example : (match stakingHook env st "prov" 900 with
    | .ok s' => ((findProvider s' "prov").map (fun p => (p.collateral, p.withdrawing, p.bonded)), s'.totalWithdrawing,
                 s'.withdraws.map (fun w => (w.addr, w.amount, w.time)))
    | .error _ => (none, 0, [])) = (some (1000, 100, 900), 100, [("prov", 100, 700)]) := by decide
example : ¬ Succeeds (stakingHook env st "prov" (-1)) := not_succeeds_of_isOk (by decide)

/-- a history: the provider undelegates down to 800 (100 forced into withdrawal, leaving no room for deposits),
    delegates back up to 900, deposits the 100 this allows; a further deposit of 1 is refused and leaves the state
    as it was; everyone stays backed -/
example : AllBacked (run [(env, .staking "prov" 800), (env, .staking "prov" 900), (env, .deposit "prov" [("uctk", 100)]), (env, .deposit "prov" [("uctk", 1)])] st) :=
  run_allBacked _ st st_allBacked
example : (findProvider (run [(env, .staking "prov" 800), (env, .staking "prov" 900), (env, .deposit "prov" [("uctk", 100)]), (env, .deposit "prov" [("uctk", 1)])] st) "prov").map
    (fun p => (p.collateral, p.withdrawing, p.bonded)) = some (1100, 200, 900) := by decide

end Ex
end Shentu.Props.C06
