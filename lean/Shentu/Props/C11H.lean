import Shentu.Proofs.C11HEnded
/-
  C11 at the level of histories — governance deposits are held in escrow and returned or burned exactly once.

  What is proved.  A history is an arbitrary list of operations applied to an initial world: proposal submissions (with
  initial deposit), deposits, votes, end blockers and bank transfers between accounts other than the governance
  module account.  Every operation brings its own surroundings (block time, bond denomination, staking view); only the
  address `m` of the module account is fixed.  There is no bound on the length of a history or on any size.

   * `reachable_escrow`: after every history the escrow invariant holds.  The module account holds exactly the sum of
     the deposit records in every denomination.  Every record belongs to a proposal that exists and is in its deposit
     period or one of its two voting periods (status 1, 2, 3).  No record has a negative amount.
   * `endBlock_never_halts`: after every history the end blocker succeeds, so "a halting end blocker" never occurs.
   * `never_overpaid`, `paid_exactly_once_ended`, `no_record_after_end`: two ghost logs record the accepted deposits
     and the payments out of the escrow (refunds and burns).  For every proposal and depositor the total paid never
     exceeds the total deposited.  The two are equal as soon as the proposal is not in a deposit or voting period.  At
     that point no record of the proposal is left.
   * `ended_stays_ended`, `frozen_after_end`: a proposal that has ended never becomes live again, and from then on
     nothing more is deposited, refunded or burned for it.
   * `endBlock_pays_as_logged`: the payment log is not arbitrary.  In every end blocker each account receives exactly
     the refunds logged for it, and the supply drops by exactly the logged burns.
   * `history_supply`: over a whole history the supply drops by exactly the logged burns.
   * `veto_burns`, `no_veto_refunds`, `certifier_round_end_refunds`, `dropped_refunds`, `early_pass_refunds`: what the
     end blocker does to one proposal, in terms of the outcome it computed.

  What is assumed.  The module account signs no transaction and receives no bank transfer (`stepW` treats such
  operations as failed transactions).  Both guards are needed: `self_deposit_breaks_escrow` and
  `inbound_transfer_breaks_escrow` are the counterexamples.  The initial world has no proposal, no record and an empty
  module account (`Init`); everything else in it is arbitrary.
-/
namespace Shentu.Props.C11H
open Shentu Shentu.Gov Shentu.C11H
open Shentu.Halt.Gv (depSum)
open Shentu.Props.C11 (recOf recAll)

/-! ## the escrow invariant holds along every history -/

/-- The invariant holds in every initial world. -/
theorem init_escrow (m : Addr) (w : World) (h : Init m w) : EscrowInv m w := EscrowInv.init h

/-- Every step keeps the invariant.  This covers failed transactions, which change nothing. -/
theorem step_escrow (m : Addr) (w : World) (op : Op) (h : EscrowInv m w) : EscrowInv m (stepW m w op) :=
  stepW_inv m w op h

/-- **The escrow invariant holds after every history.**  The module account holds exactly the recorded deposits.
    Every record belongs to a live proposal.  No record is negative. -/
theorem reachable_escrow (m : Addr) (w : World) (h : Init m w) (ops : List Op) : EscrowInv m (runW m w ops) :=
  runW_inv m ops w (EscrowInv.init h)

/-- The balance clause of the invariant, spelled out.  At every point of every history the module account's balance
    in each denomination is the sum of the recorded deposits. -/
theorem reachable_balance (m : Addr) (w : World) (h : Init m w) (ops : List Op) (d : Denom) :
    (runW m w ops).l.balOf m d = ((runW m w ops).g.deposits.map (fun x => Coins.amountOf x.amount d)).sum :=
  (reachable_escrow m w h ops).held d

/-- **The end blocker never halts.**  After every history and in every surroundings it returns a world. -/
theorem endBlock_never_halts (m : Addr) (w : World) (h : Init m w) (ops : List Op) (x : Ctx) :
    ∃ w', endBlock (env m x) (runW m w ops) = .ok w' := by
  have hi : EscrowInv (env m x).modAddr (runW m w ops) := reachable_escrow m w h ops
  obtain ⟨w', hw', _⟩ := Shentu.Halt.Gv.endBlock_total (env m x) _ hi.toEscrow
  exact ⟨w', hw'⟩

/-! ## exactly once, along every history -/

/-- Deposited equals still recorded plus paid, for every proposal, depositor and denomination, after every history.
    This needs no assumption on the ledger: only that the history starts without records. -/
theorem reachable_acct (m : Addr) (w : World) (h : w.g.deposits = []) (ops : List Op) :
    Acct (runG m ⟨w, [], []⟩ ops) := by
  apply runG_acct
  intro pid a d
  show depTot [] pid a d = recOf w.g.deposits pid a d + paidTot [] pid a d
  rw [h]; rfl

/-- **Nothing is paid twice.**  Over a whole history the refunds and burns for (proposal, depositor) never exceed what
    that depositor deposited for that proposal. -/
theorem never_overpaid (m : Addr) (w : World) (h : Init m w) (ops : List Op) (pid : Nat) (a : Addr) (d : Denom) :
    paidTot (runG m ⟨w, [], []⟩ ops).pays pid a d ≤ depTot (runG m ⟨w, [], []⟩ ops).deps pid a d := by
  have hA := reachable_acct m w h.noDeposit ops pid a d
  have hI := reachable_escrow m w h ops
  rw [← runG_w m ops ⟨w, [], []⟩] at hI
  have := recOf_nonneg _ hI.valid pid a d
  omega

/-- **After the end no record remains.**  If after a history proposal `pid` is not in its deposit period or a voting
    period (it was dropped, decided, or never existed) then no deposit record names it. -/
theorem no_record_after_end (m : Addr) (w : World) (h : Init m w) (ops : List Op) (pid : Nat)
    (hend : ¬ Live (runW m w ops).g pid) : ∀ x ∈ (runW m w ops).g.deposits, x.pid ≠ pid := by
  intro x hx he
  exact hend (he ▸ (reachable_escrow m w h ops).live x hx)

/-- **Exactly once.**  Once the proposal has left the deposit and voting periods, every depositor has been paid
    (refunded, or burned on veto) exactly what they deposited for it: not less, not more. -/
theorem paid_exactly_once_ended (m : Addr) (w : World) (h : Init m w) (ops : List Op) (pid : Nat)
    (hend : ¬ Live (runG m ⟨w, [], []⟩ ops).w.g pid) (a : Addr) (d : Denom) :
    paidTot (runG m ⟨w, [], []⟩ ops).pays pid a d = depTot (runG m ⟨w, [], []⟩ ops).deps pid a d := by
  have hA := reachable_acct m w h.noDeposit ops pid a d
  rw [runG_w] at hend
  have hz := recOf_zero_of_no_record _ pid (no_record_after_end m w h ops pid hend) a d
  rw [← runG_w m ops ⟨w, [], []⟩] at hz
  omega


/-! ## after the end nothing more happens to the proposal -/

/-- **Ended is for ever.**  A proposal whose identifier was handed out and which is not in a deposit or voting period
    (dropped, passed, rejected, failed) never gets back into one, whatever happens next.  This holds from any world. -/
theorem ended_stays_ended (m : Addr) (w : World) (ops : List Op) (pid : Nat) (h : Ended w.g pid) :
    Ended (runW m w ops).g pid := (runW_grow m ops w).ended h

/-- **After the end the books of the proposal are closed.**  Once a proposal has ended, no later operation adds a
    deposit for it and no later operation refunds or burns anything for it. -/
theorem frozen_after_end (m : Addr) (w : World) (h : Init m w) (ops1 ops2 : List Op) (pid : Nat)
    (hend : Ended (runG m ⟨w, [], []⟩ ops1).w.g pid) (a : Addr) (d : Denom) :
    depTot (runG m ⟨w, [], []⟩ (ops1 ++ ops2)).deps pid a d = depTot (runG m ⟨w, [], []⟩ ops1).deps pid a d ∧
    paidTot (runG m ⟨w, [], []⟩ (ops1 ++ ops2)).pays pid a d = paidTot (runG m ⟨w, [], []⟩ ops1).pays pid a d := by
  have hd : depTot (runG m ⟨w, [], []⟩ (ops1 ++ ops2)).deps pid a d = depTot (runG m ⟨w, [], []⟩ ops1).deps pid a d := by
    rw [runG_append]; exact runG_deps_frozen m pid a d ops2 _ hend
  have hend2 : Ended (runG m ⟨w, [], []⟩ (ops1 ++ ops2)).w.g pid := by
    rw [runG_append, runG_w]; exact (runW_grow m ops2 _).ended hend
  have p1 := paid_exactly_once_ended m w h ops1 pid hend.2 a d
  have p2 := paid_exactly_once_ended m w h (ops1 ++ ops2) pid hend2.2 a d
  exact ⟨hd, by omega⟩

/-! ## the payment log is faithful to the ledger -/

/-- **Every end blocker pays as logged.**  Each account other than the module account receives exactly the refunds
    logged for it.  The supply drops by exactly the logged burns.  What leaves the records of (proposal, depositor)
    is what the log attributes to them. -/
theorem endBlock_pays_as_logged (m : Addr) (x : Ctx) (w w' : World) (h : endBlock (env m x) w = .ok w') :
    Moves m w (endBlockLog (env m x) w) w' := (endBlock_sub h).2

/-- **Over a whole history the supply drops by exactly the logged burns.**  Nothing else governance does, and no
    transfer, changes the supply. -/
theorem history_supply (m : Addr) (w : World) (ops : List Op) (d : Denom) :
    Coins.amountOf (runG m ⟨w, [], []⟩ ops).w.l.supply d =
      Coins.amountOf w.l.supply d - burnedSum (runG m ⟨w, [], []⟩ ops).pays d := by
  apply runG_supply m w ops ⟨w, [], []⟩
  intro d; show _ = _ - burnedSum [] d; simp

/-! ## one proposal in the end blocker, in terms of the outcome computed -/

/-- **Veto ⇒ burned.**  The validator round of `p` is over and the stake tally says veto.  Then the supply drops by
    exactly the deposits recorded for `p`.  Nobody is paid.  No record of `p` remains and `p` is no longer live. -/
theorem veto_burns (e : Env) (w w' : World) (p : Proposal) (h : processActive e w p = .ok w') (hs : p.status ≠ 2)
    (hv : (stakeTally e w.g p 0).2.1 = true) :
    (∀ d, Coins.amountOf w'.l.supply d = Coins.amountOf w.l.supply d - recAll w.g.deposits p.id d) ∧
    (∀ a d, a ≠ e.modAddr → w'.l.balOf a d = w.l.balOf a d) ∧
    (∀ x ∈ w'.g.deposits, x.pid ≠ p.id) ∧ ¬ Live w'.g p.id :=
  (hv ▸ processActive_stake h hs).burn_facts

/-- **No veto ⇒ refunded.**  The validator round of `p` is over and the stake tally does not say veto (the proposal
    passes, is rejected, or its handler fails).  Then the supply is unchanged.  Every depositor gets back exactly what
    is recorded for them.  No record of `p` remains and `p` is no longer live. -/
theorem no_veto_refunds (e : Env) (w w' : World) (p : Proposal) (h : processActive e w p = .ok w') (hs : p.status ≠ 2)
    (hv : (stakeTally e w.g p 0).2.1 = false) :
    (∀ d, Coins.amountOf w'.l.supply d = Coins.amountOf w.l.supply d) ∧
    (∀ a d, a ≠ e.modAddr → w'.l.balOf a d = w.l.balOf a d + recOf w.g.deposits p.id a d) ∧
    (∀ x ∈ w'.g.deposits, x.pid ≠ p.id) ∧ ¬ Live w'.g p.id :=
  (hv ▸ processActive_stake h hs).refund_facts

/-- The certifier round of `p` is over and it ends the voting.  The deposits are refunded. -/
theorem certifier_round_end_refunds (e : Env) (w w' : World) (p : Proposal) (h : processActive e w p = .ok w')
    (hs : p.status = 2) (hv : (securityTally w.g w.c p).2.1 = true) :
    (∀ d, Coins.amountOf w'.l.supply d = Coins.amountOf w.l.supply d) ∧
    (∀ a d, a ≠ e.modAddr → w'.l.balOf a d = w.l.balOf a d + recOf w.g.deposits p.id a d) ∧
    (∀ x ∈ w'.g.deposits, x.pid ≠ p.id) ∧ ¬ Live w'.g p.id :=
  (processActive_certEnd h hs hv).refund_facts

/-- The certifier round of `p` is over and hands over to the validator round.  Nothing is paid: the ledger and the
    records are untouched, and every live proposal stays live. -/
theorem certifier_round_continue_keeps (e : Env) (w w' : World) (p : Proposal) (h : processActive e w p = .ok w')
    (hs : p.status = 2) (hv : (securityTally w.g w.c p).2.1 = false) :
    w'.l = w.l ∧ w'.g.deposits = w.g.deposits ∧ ∀ id, Live w.g id → Live w'.g id :=
  let k := processActive_continue h hs hv
  ⟨k.l, k.deps, k.live⟩

/-- The deposit period of `p` ended below the minimum.  The proposal is deleted and the deposits are refunded. -/
theorem dropped_refunds (e : Env) (w w' : World) (p : Proposal)
    (h : refundDeposits e { w with g := delP w.g p.id } p.id = .ok w') :
    (∀ d, Coins.amountOf w'.l.supply d = Coins.amountOf w.l.supply d) ∧
    (∀ a d, a ≠ e.modAddr → w'.l.balOf a d = w.l.balOf a d + recOf w.g.deposits p.id a d) ∧
    (∀ x ∈ w'.g.deposits, x.pid ≠ p.id) ∧ ¬ Live w'.g p.id :=
  (drop_settled h).refund_facts

/-- The early decision of the certifier round either pays nothing or refunds one proposal; it never burns. -/
theorem early_pass_refunds (e : Env) (w w' : World) (p : Proposal) (h : processSecurityVote e w p = .ok w') :
    ∀ d, Coins.amountOf w'.l.supply d = Coins.amountOf w.l.supply d := by
  intro d
  have s := processSecurityVote_sub h
  rw [s.moves.supply d]
  have : burnedSum (secLog w p) d = 0 := by
    unfold secLog
    split; · rfl
    split; · rfl
    split
    · split
      · exact burnedSum_payOf_false _ _ _
      · rfl
    · rfl
  omega

/-! ## the two guards of `stepW` are needed, and a concrete history -/

namespace Demo

def m : Addr := "gov"
def tp : TallyParams :=
  { quorum := ⟨334000000000000000⟩, threshold := ⟨500000000000000000⟩, veto := ⟨334000000000000000⟩ }
def params : Params :=
  { minInitial := [], minDeposit := [("uctk", 100)], depositPeriod := 10, votingPeriod := 10, «default» := tp,
    security := tp, certStake := tp }
/-- alice and bob hold 100uctk each; no proposal yet -/
def w0 : World :=
  { l := { posts := [("alice", "uctk", 100), ("bob", "uctk", 100)], supply := [("uctk", 200)] },
    g := { proposals := [], deposits := [], votes := [], nextId := 1, params := params },
    c := { certifiers := [], aliasIdx := [], certs := [], nextId := 1, platforms := [] } }
/-- one bonded validator with all the stake -/
def sv : StakeView := { vals := [("val1", 1000, Dec.ofInt 1000)], dels := [], totalBonded := 1000 }
def cx (t : Int) : Ctx := { t := t, bond := "uctk", stake := sv }
def p0 : Proposal :=
  { id := 0, kind := "text", status := 0, isCouncil := false, proposer := "", totalDeposit := [], submitTime := 0,
    depositEnd := 0, votingStart := 0, votingEnd := 0, tally := ⟨0, 0, 0, 0⟩ }

/-- Two proposals, deposits by two accounts.  Proposal 1 collects 60 < 100 and is dropped when its deposit period
    ends (block at t = 10).  Proposal 2 collects 110 ≥ 100, is voted no-with-veto by the only validator and is vetoed
    when its voting period ends (block at t = 12). -/
def hist : List Op :=
  [ .submit (cx 0) "alice" p0 [("uctk", 40)],
    .submit (cx 1) "bob" p0 [("uctk", 60)],
    .deposit (cx 2) 2 "alice" [("uctk", 50)],
    .deposit (cx 3) 1 "bob" [("uctk", 20)],
    .transfer "alice" "bob" [("uctk", 5)],
    .vote 2 "val1" 4,
    .endBlock (cx 10),
    .endBlock (cx 12) ]

def final : G := runG m ⟨w0, [], []⟩ hist
def beforeBlocks : G := runG m ⟨w0, [], []⟩ (hist.take 6)

theorem w0_init : Init m w0 := ⟨rfl, rfl, fun _ => rfl⟩

/-- the same history, except that the validator votes yes: proposal 2 passes -/
def histYes : List Op := (hist.take 5) ++ [.vote 2 "val1" 1, .endBlock (cx 10)]

/-- a world with one certifier, for the certifier round -/
def w0c : World := { w0 with c := { w0.c with certifiers := [{ addr := "cert1", alias := "", proposer := "" }] } }
/-- a software-upgrade proposal by alice reaches the minimum deposit at once and enters the certifier round; in
    `histCertYes` the certifier then votes yes -/
def histCert : List Op := [ .submit (cx 0) "alice" { p0 with kind := "upgrade" } [("uctk", 100)] ]
def histCertYes : List Op := histCert ++ [ .vote 1 "cert1" 1 ]

theorem exists_of_find {g : State} {id : Nat} {P : Proposal → Bool} (h : (findP g id).map P = some true) :
    ∃ p, findP g id = some p ∧ P p = true := by
  cases hf : findP g id with
  | none => rw [hf] at h; cases h
  | some p => rw [hf] at h; exact ⟨p, rfl, by simpa using h⟩

theorem ok_of_isSome {α : Type} {x : Except Err α} (h : x.toOption.isSome = true) : ∃ a, x = .ok a := by
  cases x with
  | error e => simp [Except.toOption] at h
  | ok a => exact ⟨a, rfl⟩

end Demo
open Demo

/-- non-vacuity of `Init` (hypothesis of all history theorems): the demo world is initial -/
example : Init m w0 := w0_init

set_option maxRecDepth 100000 in
/-- before the two blocks both proposals are live (1 in its deposit period, 2 in the validator round) and the module
    account holds the 170uctk recorded -/
example : beforeBlocks.w.g.proposals.map (fun p => (p.id, p.status)) = [(1, 1), (2, 3)] ∧
    beforeBlocks.w.l.balOf m "uctk" = 170 ∧
    beforeBlocks.w.g.deposits.map (fun x => (x.pid, x.depositor, Coins.amountOf x.amount "uctk")) =
      [(1, "alice", 40), (2, "bob", 60), (2, "alice", 50), (1, "bob", 20)] := by decide

set_option maxRecDepth 100000 in
/-- **the concrete history**: proposal 1 is dropped and refunded (40 to alice, 20 to bob), proposal 2 is vetoed and
    its 110uctk are burned; afterwards the escrow is empty, no record is left, the supply went from 200 to 90 -/
example : final.pays.map (fun x => (x.pid, x.to, x.amount, x.burned)) =
      [(1, "alice", [("uctk", 40)], false), (1, "bob", [("uctk", 20)], false),
       (2, "bob", [("uctk", 60)], true), (2, "alice", [("uctk", 50)], true)] ∧
    final.deps.map (fun x => (x.pid, x.depositor, x.amount)) =
      [(1, "alice", [("uctk", 40)]), (2, "bob", [("uctk", 60)]), (2, "alice", [("uctk", 50)]), (1, "bob", [("uctk", 20)])] ∧
    final.w.g.deposits.length = 0 ∧
    final.w.g.proposals.map (fun p => (p.id, p.status)) = [(2, 5)] ∧
    final.w.l.balOf m "uctk" = 0 ∧ final.w.l.balOf "alice" "uctk" = 45 ∧ final.w.l.balOf "bob" "uctk" = 45 ∧
    Coins.amountOf final.w.l.supply "uctk" = 90 := by
  refine ⟨by decide, by decide, by decide, by decide, by decide, by decide, by decide, by decide⟩

set_option maxRecDepth 100000 in
/-- non-vacuity of `paid_exactly_once_ended` and `no_record_after_end`: in the concrete history both proposals have
    ended (1 is gone, 2 is rejected) -/
theorem final_not_live : ¬ Live final.w.g 1 ∧ ¬ Live final.w.g 2 := by
  have h1 : findP final.w.g 1 = none := by decide
  have h2 : (findP final.w.g 2).map (·.status) = some 5 := by decide
  refine ⟨?_, ?_⟩
  · rintro ⟨p, hp, _⟩; rw [h1] at hp; cases hp
  · rintro ⟨p, hp, hs⟩; rw [hp] at h2; simp at h2; omega

set_option maxRecDepth 100000 in
/-- non-vacuity of `ended_stays_ended` and `frozen_after_end`: both identifiers were handed out (the counter is at 3) -/
example : Ended final.w.g 1 ∧ Ended final.w.g 2 := by
  have hn : final.w.g.nextId = 3 := by decide
  exact ⟨⟨by rw [hn]; decide, final_not_live.1⟩, ⟨by rw [hn]; decide, final_not_live.2⟩⟩

set_option maxRecDepth 100000 in
/-- non-vacuity of `veto_burns`: the second block of the concrete history runs `processActive` on proposal 2 with a
    stake tally that says veto -/
example : ∃ w p w', findP w.g 2 = some p ∧ processActive (env m (cx 12)) w p = .ok w' ∧ p.status ≠ 2 ∧
    (stakeTally (env m (cx 12)) w.g p 0).2.1 = true := by
  let w := (runG m ⟨w0, [], []⟩ (hist.take 7)).w
  have hp : (findP w.g 2).isSome = true := by decide
  obtain ⟨p, hp'⟩ := Option.isSome_iff_exists.mp hp
  have hst : (findP w.g 2).map (·.status) = some 3 := by decide
  have hv : (findP w.g 2).map (fun p => (stakeTally (env m (cx 12)) w.g p 0).2.1) = some true := by decide
  have hok : ((findP w.g 2).map (fun p => (processActive (env m (cx 12)) w p).toOption.isSome)) = some true := by decide
  rw [hp'] at hst hv hok
  simp only [Option.map_some, Option.some.injEq] at hst hv hok
  cases hpa : processActive (env m (cx 12)) w p with
  | error x => rw [hpa] at hok; simp [Except.toOption] at hok
  | ok w' => exact ⟨w, p, w', hp', hpa, by omega, hv⟩

set_option maxRecDepth 100000 in
/-- non-vacuity of `no_veto_refunds`: with a yes vote the stake tally of proposal 2 does not say veto -/
example : ∃ w p w', findP w.g 2 = some p ∧ processActive (env m (cx 12)) w p = .ok w' ∧ p.status ≠ 2 ∧
    (stakeTally (env m (cx 12)) w.g p 0).2.1 = false := by
  let w := runW m w0 histYes
  obtain ⟨p, hp, hP⟩ := exists_of_find (g := w.g) (id := 2)
    (P := fun p => (processActive (env m (cx 12)) w p).toOption.isSome && p.status != 2 &&
      !(stakeTally (env m (cx 12)) w.g p 0).2.1) (by decide)
  simp only [Bool.and_eq_true, bne_iff_ne, ne_eq, Bool.not_eq_true'] at hP
  obtain ⟨w', hw'⟩ := ok_of_isSome hP.1.1
  exact ⟨w, p, w', hp, hw', hP.1.2, hP.2⟩

set_option maxRecDepth 100000 in
/-- non-vacuity of `dropped_refunds`: the first block of the concrete history drops proposal 1 -/
example : ∃ (w : World) (p : Proposal) (w' : World), findP w.g 1 = some p ∧
    refundDeposits (env m (cx 10)) { w with g := delP w.g p.id } p.id = .ok w' := by
  let w := runW m w0 (hist.take 6)
  obtain ⟨p, hp, hP⟩ := exists_of_find (g := w.g) (id := 1)
    (P := fun p => (refundDeposits (env m (cx 10)) { w with g := delP w.g p.id } p.id).toOption.isSome) (by decide)
  obtain ⟨w', hw'⟩ := ok_of_isSome hP
  exact ⟨w, p, w', hp, hw'⟩

set_option maxRecDepth 100000 in
/-- non-vacuity of `certifier_round_end_refunds`: the certifier round of the upgrade proposal ends without a vote, the
    security tally fails and ends the voting -/
example : ∃ w p w', findP w.g 1 = some p ∧ processActive (env m (cx 10)) w p = .ok w' ∧ p.status = 2 ∧
    (securityTally w.g w.c p).2.1 = true := by
  let w := runW m w0c histCert
  obtain ⟨p, hp, hP⟩ := exists_of_find (g := w.g) (id := 1)
    (P := fun p => (processActive (env m (cx 10)) w p).toOption.isSome && p.status == 2 &&
      (securityTally w.g w.c p).2.1) (by decide)
  simp only [Bool.and_eq_true, beq_iff_eq] at hP
  obtain ⟨w', hw'⟩ := ok_of_isSome hP.1.1
  exact ⟨w, p, w', hp, hw', hP.1.2, hP.2⟩

set_option maxRecDepth 100000 in
/-- non-vacuity of `certifier_round_continue_keeps`: the certifier approved the upgrade proposal, the voting goes on
    with the validators -/
example : ∃ w p w', findP w.g 1 = some p ∧ processActive (env m (cx 10)) w p = .ok w' ∧ p.status = 2 ∧
    (securityTally w.g w.c p).2.1 = false := by
  let w := runW m w0c histCertYes
  obtain ⟨p, hp, hP⟩ := exists_of_find (g := w.g) (id := 1)
    (P := fun p => (processActive (env m (cx 10)) w p).toOption.isSome && p.status == 2 &&
      !(securityTally w.g w.c p).2.1) (by decide)
  simp only [Bool.and_eq_true, beq_iff_eq, Bool.not_eq_true'] at hP
  obtain ⟨w', hw'⟩ := ok_of_isSome hP.1.1
  exact ⟨w, p, w', hp, hw', hP.1.2, hP.2⟩

set_option maxRecDepth 100000 in
/-- non-vacuity of `early_pass_refunds` and `endBlock_pays_as_logged`: `processSecurityVote` and the whole end blocker
    succeed on the world in which the certifier approved -/
example : (∃ p w', findP (runW m w0c histCertYes).g 1 = some p ∧
      processSecurityVote (env m (cx 5)) (runW m w0c histCertYes) p = .ok w') ∧
    (∃ w', endBlock (env m (cx 5)) (runW m w0c histCertYes) = .ok w') := by
  refine ⟨?_, ok_of_isSome (by decide)⟩
  obtain ⟨p, hp, hP⟩ := exists_of_find (g := (runW m w0c histCertYes).g) (id := 1)
    (P := fun p => (processSecurityVote (env m (cx 5)) (runW m w0c histCertYes) p).toOption.isSome) (by decide)
  obtain ⟨w', hw'⟩ := ok_of_isSome hP
  exact ⟨p, w', hp, hw'⟩

set_option maxRecDepth 100000 in
/-- **The signer guard is needed.**  `AddDeposit` called with the module account itself as depositor succeeds in the
    model (the transfer is a self-transfer) and adds a record without adding coins.  In the chain the module account
    has no key, so no such message can be signed. -/
theorem self_deposit_breaks_escrow :
    ¬ (∀ (e : Env) (w w' : World) (pid : Nat) (a : Addr) (amt : Coins),
        EscrowInv e.modAddr w → addDeposit e w pid a amt = .ok w' → EscrowInv e.modAddr w') := by
  intro hall
  let w := runW m w0 (hist.take 1)
  have hi : EscrowInv (env m (cx 1)).modAddr w := reachable_escrow m w0 w0_init _
  cases hadd : addDeposit (env m (cx 1)) w 1 m [("uctk", 5)] with
  | error x =>
    have : (addDeposit (env m (cx 1)) w 1 m [("uctk", 5)]).toOption.isSome = true := by decide
    rw [hadd] at this; simp [Except.toOption] at this
  | ok w' =>
    have hbad := (hall _ _ _ _ _ _ hi hadd).held "uctk"
    have : ((addDeposit (env m (cx 1)) w 1 m [("uctk", 5)]).toOption.map
        (fun w' => decide (w'.l.balOf m "uctk" = depSum w'.g.deposits "uctk"))) = some false := by decide
    rw [hadd] at this
    simp [Except.toOption] at this
    exact this hbad

set_option maxRecDepth 100000 in
/-- **The blocked-recipient guard is needed.**  A bank transfer into the module account raises its balance above the
    recorded deposits.  In the chain every module account is a blocked recipient of bank transfers.  (The weaker
    inequality "holds at least the recorded deposits" of `Shentu.Halt.Gv.Escrow` survives such a transfer.) -/
theorem inbound_transfer_breaks_escrow :
    ¬ (∀ (m : Addr) (w : World) (s d : Addr) (amt : Coins) (l' : Ledger),
        EscrowInv m w → w.l.send s d amt = .ok l' → EscrowInv m { w with l := l' }) := by
  intro hall
  have hi : EscrowInv m w0 := init_escrow m w0 w0_init
  have hs : w0.l.send "alice" m [("uctk", 5)] = .ok (w0.l.move "alice" m [("uctk", 5)]) := by rfl
  have hbad := (hall _ _ _ _ _ _ hi hs).held "uctk"
  have : ¬ ((w0.l.move "alice" m [("uctk", 5)]).balOf m "uctk" = depSum w0.g.deposits "uctk") := by decide
  exact this hbad

end Shentu.Props.C11H

#print axioms Shentu.Props.C11H.init_escrow
#print axioms Shentu.Props.C11H.step_escrow
#print axioms Shentu.Props.C11H.reachable_escrow
#print axioms Shentu.Props.C11H.reachable_balance
#print axioms Shentu.Props.C11H.endBlock_never_halts
#print axioms Shentu.Props.C11H.reachable_acct
#print axioms Shentu.Props.C11H.never_overpaid
#print axioms Shentu.Props.C11H.no_record_after_end
#print axioms Shentu.Props.C11H.paid_exactly_once_ended
#print axioms Shentu.Props.C11H.ended_stays_ended
#print axioms Shentu.Props.C11H.frozen_after_end
#print axioms Shentu.Props.C11H.endBlock_pays_as_logged
#print axioms Shentu.Props.C11H.history_supply
#print axioms Shentu.Props.C11H.veto_burns
#print axioms Shentu.Props.C11H.no_veto_refunds
#print axioms Shentu.Props.C11H.certifier_round_end_refunds
#print axioms Shentu.Props.C11H.certifier_round_continue_keeps
#print axioms Shentu.Props.C11H.dropped_refunds
#print axioms Shentu.Props.C11H.early_pass_refunds
#print axioms Shentu.Props.C11H.self_deposit_breaks_escrow
#print axioms Shentu.Props.C11H.inbound_transfer_breaks_escrow
