import Shentu.Model.Gov
import Shentu.Proofs.Tactics
/-
  C13 — Only certifiers certify, and the certifier set changes only by governance.
-/
namespace Shentu.Props.C13
open Shentu Shentu.Cert

/-- the routing facts the gov model takes from the source were recognised -/
theorem tie_sites : Gen.Gov.allFound = true := by decide

/-- a certificate is issued exactly when the signer is a certifier at that moment -/
theorem issue_iff (s : State) (a : Addr) (k c : String) : (∃ s', issue s a k c = .ok s') ↔ isCertifier s a = true := by
  unfold issue; constructor
  · intro ⟨s', h⟩; split at h
    · cases h
    · simp_all
  · intro h; simp [h]

/-- … it gets the next identifier, which then advances -/
theorem issue_fresh (s s' : State) (a : Addr) (k c : String) (h : issue s a k c = .ok s') :
    s'.certs = s.certs ++ [{ id := s.nextId, kind := k, content := c, certifier := a }] ∧ s'.nextId = s.nextId + 1 ∧
    s'.certifiers = s.certifiers ∧ s'.aliasIdx = s.aliasIdx := by
  unfold issue at h; split at h; · cases h
  injection h with h; subst h; exact ⟨rfl, rfl, rfl, rfl⟩

/-- identifiers are below the counter and pairwise distinct -/
def IdInv (s : State) : Prop := (∀ c ∈ s.certs, c.id < s.nextId) ∧ (s.certs.map (·.id)).Nodup

theorem issue_idInv (s s' : State) (a : Addr) (k c : String) (hi : IdInv s) (h : issue s a k c = .ok s') : IdInv s' := by
  obtain ⟨h1, h2, _, _⟩ := issue_fresh s s' a k c h
  constructor
  · intro x hx; rw [h1] at hx; rw [h2]
    rcases List.mem_append.mp hx with h | h
    · have := hi.1 x h; omega
    · simp only [List.mem_singleton] at h; subst h; simp
  · rw [h1, List.map_append, List.nodup_append]
    refine ⟨hi.2, by simp, ?_⟩
    intro x hx y hy
    simp only [List.map_cons, List.map_nil, List.mem_singleton] at hy
    obtain ⟨c0, hc0, rfl⟩ := List.mem_map.mp hx
    have := hi.1 c0 hc0
    subst hy; simp only [ne_eq]; omega

/-- a certificate is revoked exactly when it exists and the signer is a certifier; nothing else is removed -/
theorem revoke_iff (s : State) (a : Addr) (id : Nat) :
    (∃ s', revoke s a id = .ok s') ↔ (s.certs.any (·.id == id) = true ∧ isCertifier s a = true) := by
  unfold revoke; constructor
  · intro ⟨s', h⟩; split at h; · cases h
    split at h; · cases h
    simp_all
  · intro ⟨h1, h2⟩; simp [h1, h2]

theorem revoke_keeps_others (s s' : State) (a : Addr) (id : Nat) (h : revoke s a id = .ok s') :
    (∀ c ∈ s.certs, c.id ≠ id → c ∈ s'.certs) ∧ (∀ c ∈ s'.certs, c ∈ s.certs) ∧ s'.certifiers = s.certifiers ∧ s'.nextId = s.nextId := by
  unfold revoke at h; split at h; · cases h
  split at h; · cases h
  injection h with h; subst h
  refine ⟨?_, ?_, rfl, rfl⟩
  · intro c hc hne; simp [List.mem_filter, hc, hne]
  · intro c hc; exact (List.mem_filter.mp hc).1

/-- a platform certification is accepted exactly from a certifier -/
theorem platform_iff (s : State) (a : Addr) (pk d : String) : (∃ s', certifyPlatform s a pk d = .ok s') ↔ isCertifier s a = true := by
  unfold certifyPlatform; constructor
  · intro ⟨s', h⟩; split at h
    · cases h
    · simp_all
  · intro h; simp [h]

/-- **No message changes the council**: issue, revoke and platform certification leave the certifier set and the alias index alone. -/
theorem messages_leave_council (s s' : State) (a : Addr) (k c pk d : String) (id : Nat) :
    (issue s a k c = .ok s' ∨ revoke s a id = .ok s' ∨ certifyPlatform s a pk d = .ok s') →
    s'.certifiers = s.certifiers ∧ s'.aliasIdx = s.aliasIdx := by
  rintro (h | h | h)
  · have := issue_fresh s s' a k c h; exact ⟨this.2.2.1, this.2.2.2⟩
  · unfold revoke at h; ok_cases h; injection h with h; subst h; exact ⟨rfl, rfl⟩
  · unfold certifyPlatform at h; ok_cases h; injection h with h; subst h; exact ⟨rfl, rfl⟩

/-- certifier addresses are pairwise distinct (the store is keyed by address) -/
def AddrInv (s : State) : Prop := (s.certifiers.map (·.addr)).Nodup

theorem update_addrInv (s s' : State) (a : Addr) (al : String) (p : Addr) (add : Bool)
    (hi : AddrInv s) (h : handleUpdate s a al p add = .ok s') : AddrInv s' := by
  unfold handleUpdate at h
  split at h
  · split at h; · cases h
    rename_i hnc
    split at h; · cases h
    injection h with h; subst h
    unfold AddrInv at *
    simp only [List.map_append, List.map_cons, List.map_nil]
    rw [List.nodup_append]
    refine ⟨hi, by simp, ?_⟩
    intro x hx y hy
    simp only [List.mem_singleton] at hy; subst hy
    intro heq; subst heq
    apply hnc
    obtain ⟨c0, hc0, hca⟩ := List.mem_map.mp hx
    simp only [isCertifier, List.any_eq_true, beq_iff_eq]
    exact ⟨c0, hc0, hca⟩
  · split at h; · cases h
    split at h; · cases h
    injection h with h; subst h
    unfold AddrInv at *
    exact List.Nodup.sublist (List.Sublist.map _ List.filter_sublist) hi

theorem nodup_all_eq_length {α} [DecidableEq α] (l : List α) (a : α) (hn : l.Nodup) (hall : ∀ x ∈ l, x = a) : l.length ≤ 1 := by
  match l, hn, hall with
  | [], _, _ => simp
  | [_], _, _ => simp
  | x :: y :: rest, hn, hall =>
    have hx := hall x List.mem_cons_self
    have hy := hall y (List.mem_cons_of_mem _ List.mem_cons_self)
    rw [List.nodup_cons] at hn
    exact absurd (by rw [hx, hy]; exact List.mem_cons_self) hn.1

/-- the governance handler never empties the council -/
theorem update_keeps_nonempty (s s' : State) (a : Addr) (al : String) (p : Addr) (add : Bool)
    (hi : AddrInv s) (hne : s.certifiers ≠ []) (h : handleUpdate s a al p add = .ok s') : s'.certifiers ≠ [] := by
  unfold handleUpdate at h
  split at h
  · split at h; · cases h
    split at h; · cases h
    injection h with h; subst h; simp
  · split at h; · cases h
    rename_i hlen
    split at h; · cases h
    injection h with h; subst h
    intro hempty
    have hlen' : s.certifiers.length ≠ 1 := by simpa using hlen
    have hall : ∀ x ∈ s.certifiers.map (·.addr), x = a := by
      intro x hx
      obtain ⟨c0, hc0, rfl⟩ := List.mem_map.mp hx
      have : c0 ∉ s.certifiers.filter (fun x => !(x.addr == a)) := by
        have : (s.certifiers.filter (fun x => !(x.addr == a))) = [] := hempty
        rw [this]; simp
      simp only [List.mem_filter, hc0, true_and, Bool.not_eq_true', beq_eq_false_iff_ne, ne_eq, Decidable.not_not] at this
      exact this
    have := nodup_all_eq_length _ a hi hall
    simp only [List.length_map] at this
    have : s.certifiers.length = 0 := by omega
    exact hne (List.eq_nil_of_length_eq_zero this)

/-- the alias index is exactly the non-empty aliases of the certifiers, and no alias is shared -/
def AliasInv (s : State) : Prop :=
  (∀ al ad, (al, ad) ∈ s.aliasIdx ↔ (al ≠ "" ∧ ∃ c ∈ s.certifiers, c.alias = al ∧ c.addr = ad)) ∧
  (∀ c1 ∈ s.certifiers, ∀ c2 ∈ s.certifiers, c1.alias ≠ "" → c1.alias = c2.alias → c1.addr = c2.addr)

/-- adding a certifier keeps aliases unique: an alias already in the index is refused -/
theorem add_keeps_alias_unique (s s' : State) (a : Addr) (al : String) (p : Addr)
    (hi : AliasInv s) (h : handleUpdate s a al p true = .ok s') :
    ∀ c1 ∈ s'.certifiers, ∀ c2 ∈ s'.certifiers, c1.alias ≠ "" → c1.alias = c2.alias → c1.addr = c2.addr := by
  unfold handleUpdate at h
  simp only [if_true] at h
  split at h; · cases h
  split at h; · cases h
  rename_i hal
  injection h with h; subst h
  -- `al` is empty or not yet used
  have hfree : al = "" ∨ ∀ c ∈ s.certifiers, c.alias ≠ al := by
    by_cases h0 : al = ""
    · exact Or.inl h0
    · right
      intro c hc hca
      apply hal
      have : (al, c.addr) ∈ s.aliasIdx := (hi.1 al c.addr).mpr ⟨h0, c, hc, hca, rfl⟩
      simp only [hasAlias, Bool.and_eq_true, bne_iff_ne, ne_eq, Bool.or_eq_true, beq_iff_eq, List.any_eq_true]
      exact ⟨h0, Or.inr ⟨(al, c.addr), this, rfl⟩⟩
  intro c1 h1 c2 h2 hne heq
  simp only [List.mem_append, List.mem_singleton] at h1 h2
  rcases h1 with h1 | h1 <;> rcases h2 with h2 | h2
  · exact hi.2 c1 h1 c2 h2 hne heq
  · subst h2
    rcases hfree with hf | hf
    · exact absurd (by rw [heq]; exact hf) hne
    · exact absurd heq (hf c1 h1)
  · subst h1
    rcases hfree with hf | hf
    · exact absurd hf hne
    · exact absurd heq.symm (hf c2 h2)
  · subst h1; subst h2; rfl

/-- removal cannot create a shared alias -/
theorem remove_keeps_alias_unique (s s' : State) (a : Addr) (al : String) (p : Addr)
    (hi : AliasInv s) (h : handleUpdate s a al p false = .ok s') :
    ∀ c1 ∈ s'.certifiers, ∀ c2 ∈ s'.certifiers, c1.alias ≠ "" → c1.alias = c2.alias → c1.addr = c2.addr := by
  unfold handleUpdate at h
  simp only [Bool.false_eq_true, if_false] at h
  split at h; · cases h
  split at h; · cases h
  injection h with h; subst h
  intro c1 h1 c2 h2
  exact hi.2 c1 (List.mem_filter.mp h1).1 c2 (List.mem_filter.mp h2).1

example : AddrInv { certifiers := [⟨"a", "x", "a"⟩, ⟨"b", "", "a"⟩], aliasIdx := [("x", "a")], certs := [], nextId := 1, platforms := [] } := by
  simp [AddrInv]

end Shentu.Props.C13

#print axioms Shentu.Props.C13.issue_iff
#print axioms Shentu.Props.C13.update_keeps_nonempty
#print axioms Shentu.Props.C13.add_keeps_alias_unique
