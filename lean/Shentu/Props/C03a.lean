import Shentu.Proofs.ShieldCollPayout
/-
  C03 (collateral / withdrawal-queue half) — "total collateral and total withdrawing equal the sums over
  providers, each provider's withdrawing amount equals the sum of their queued withdrawals ... No amount is
  negative and a provider never has more in withdrawal than they have in collateral."

  `CollInv` (Shentu/Proofs/ShieldCollInv.lean) is exactly the clauses `coll`, `wdr`, `wdrQ`, `wdrOwner`, `wdrPos`
  and the collateral part of `provNonneg` of `Shield.BooksInv`, plus: provider addresses are pairwise distinct.
  This file: every successful operation of the model preserves `CollInv`; hence every history does.
-/
namespace Shentu.Props.C03a
open Shentu Shentu.Shield Shentu.Shield.Coll

/-! ## `CollInv` gives the clauses of `BooksInv` (for assembling the two halves) -/

/-- C03 "total collateral ... equal[s] the sum over providers" -/
theorem books_coll {s : State} (h : CollInv s) : s.totalCollateral = sumI (·.collateral) s.providers := h.coll
/-- C03 "total withdrawing equal[s] the sum over providers" -/
theorem books_wdr {s : State} (h : CollInv s) : s.totalWithdrawing = sumI (·.withdrawing) s.providers := h.wdr
/-- C03 "each provider's withdrawing amount equals the sum of their queued withdrawals" -/
theorem books_wdrQ {s : State} (h : CollInv s) :
    ∀ p ∈ s.providers, p.withdrawing = sumI (·.amount) (s.withdraws.filter (·.addr == p.addr)) := h.wdrQ
/-- every queued withdrawal belongs to a provider (so the previous clause accounts for the whole queue) -/
theorem books_wdrOwner {s : State} (h : CollInv s) : ∀ w ∈ s.withdraws, ∃ p ∈ s.providers, p.addr = w.addr := h.wdrOwner
/-- C03 "No amount is negative": queued amounts are positive -/
theorem books_wdrPos {s : State} (h : CollInv s) : ∀ w ∈ s.withdraws, 0 < w.amount := h.wdrPos
/-- C03 "No amount is negative and a provider never has more in withdrawal than they have in collateral"
    (the `rewards` part of `provNonneg` belongs to the other half) -/
theorem books_provNonneg {s : State} (h : CollInv s) :
    ∀ p ∈ s.providers, 0 ≤ p.collateral ∧ 0 ≤ p.withdrawing ∧ p.withdrawing ≤ p.collateral := h.provNonneg
/-- the two totals of this half are non-negative (part of the clause `nonneg`) -/
theorem books_nonneg {s : State} (h : CollInv s) : 0 ≤ s.totalCollateral ∧ 0 ≤ s.totalWithdrawing := by
  rw [h.coll, h.wdr]
  exact ⟨sumI_nonneg _ _ (fun p hp => (h.provNonneg p hp).1), sumI_nonneg _ _ (fun p hp => (h.provNonneg p hp).2.1)⟩
/-- conversely, `BooksInv` and distinct provider addresses give `CollInv` -/
theorem collInv_of_books {s : State} (h : BooksInv s) (hn : (s.providers.map (·.addr)).Nodup) : CollInv s :=
  ⟨h.coll, h.wdr, h.wdrQ, h.wdrOwner, h.wdrPos,
    fun p hp => ⟨(h.provNonneg p hp).1, (h.provNonneg p hp).2.1, (h.provNonneg p hp).2.2.1⟩, hn⟩

/-! ## deposits and withdrawal requests -/

/-- `MsgDepositCollateral` (both the existing-provider path and the new-provider path `insertProvider`) -/
theorem deposit_preserves (e : Env) (s s' : State) (a : Addr) (coins : Coins) (hi : CollInv s)
    (h : deposit e s a coins = .ok s') : CollInv s' := deposit_inv e s s' a coins hi h

/-- `Keeper.WithdrawCollateral`.  Hypothesis `0 ≤ amount`: every caller passes a positive amount
    (`withdraw`: validated coins; `stakingHook`: `w > 0`); with a negative amount the model would
    enqueue a negative entry (clause `wdrPos`). -/
theorem withdrawCollateral_preserves (e : Env) (s s' : State) (a : Addr) (amount : Int) (hi : CollInv s)
    (hpos : 0 ≤ amount) (h : withdrawCollateral e s a amount = .ok s') : CollInv s' :=
  (withdrawCollateral_reqLike e s s' a amount hpos h).inv hi

/-- `MsgWithdrawCollateral` -/
theorem withdraw_preserves (e : Env) (s s' : State) (a : Addr) (coins : Coins) (hi : CollInv s)
    (h : withdraw e s a coins = .ok s') : CollInv s' := (withdraw_reqLike e s s' a coins h).inv hi

/-- the staking hooks (`updateProviderForDelegationChanges`), including the forced withdrawal -/
theorem stakingHook_preserves (e : Env) (s s' : State) (a : Addr) (staked : Int) (hi : CollInv s)
    (h : stakingHook e s a staked = .ok s') : CollInv s' := (stakingHook_reqLike e s s' a staked h).inv hi

theorem stakingChanged_preserves (e : Env) (s s' : State) (a : Addr) (hi : CollInv s)
    (h : stakingChanged e s a = .ok s') : CollInv s' := (stakingChanged_reqLike e s s' a h).inv hi

/-! ## claim submission: the queue is re-arranged -/

/-- `DelayWithdraws`: the queue is re-arranged, per-provider sums unchanged -/
theorem delayWithdraws_preserves (s s' : State) (a : Addr) (amount t : Int) (hi : CollInv s)
    (h : delayWithdraws s a amount t = .ok s') : CollInv s' := (delayWithdraws_delayLike s s' a amount t h).inv hi

/-- `DelayWithdraws` changes nobody's queued total (nor anything but the queue) -/
theorem delayWithdraws_sums (s s' : State) (a : Addr) (amount t : Int) (h : delayWithdraws s a amount t = .ok s') :
    (∀ b, qsum s' b = qsum s b) ∧ s'.providers = s.providers ∧ s'.totalCollateral = s.totalCollateral ∧
      s'.totalWithdrawing = s.totalWithdrawing := by
  have hd := delayWithdraws_delayLike s s' a amount t h
  exact ⟨fun b => hd.queue.total _ (fun _ _ => rfl), hd.provs, hd.tc, hd.tw⟩

theorem secureFromProvider_preserves (e : Env) (s s' : State) (p : Provider) (amount duration : Int) (hi : CollInv s)
    (h : secureFromProvider e s p amount duration = .ok s') : CollInv s' :=
  (secureFromProvider_delayLike e s s' p amount duration h).inv hi

theorem secureLoop_preserves (e : Env) (ratio : Dec) (duration : Int) (ps : List Provider) (rem : Int) (s s' : State)
    (hi : CollInv s) (h : secureLoop e ratio duration ps rem s = .ok s') : CollInv s' :=
  (secureLoop_delayLike e ratio duration ps rem s s' h).inv hi

/-- `SecureCollaterals` -/
theorem secureCollaterals_preserves (e : Env) (s s' : State) (poolID : Nat) (purchaser : Addr) (purchaseID : Nat)
    (loss duration : Int) (hi : CollInv s)
    (h : secureCollaterals e s poolID purchaser purchaseID loss duration = .ok s') : CollInv s' :=
  (secureCollaterals_delayLike e s s' poolID purchaser purchaseID loss duration h).inv hi

/-! ## payouts -/

/-- `UpdateProviderCollateralForPayout` keeps every clause except `coll` (the total collateral is only lowered at
    the end of `CreateReimbursement`) and lowers the sum of the providers' collateral by exactly `payout`.
    Hypothesis `0 ≤ purchased`: with a negative `purchased` the record could end with `withdrawing > collateral`.
    No hypothesis `payout ≤ collateral` is needed: `0 ≤ collateral − payout` follows from the walk over the
    withdrawals not panicking. -/
theorem updateProviderForPayout_preserves (s s' : State) (a : Addr) (purchased payout : Int) (hr : CollRest s)
    (hpur : 0 ≤ purchased) (h : updateProviderForPayout s a purchased payout = .ok s') :
    CollRest s' ∧ sumI (·.collateral) s'.providers = sumI (·.collateral) s.providers - payout ∧
      s'.totalCollateral = s.totalCollateral := by
  have := updateProviderForPayout_payoutLike s s' a purchased payout hr hpur h
  exact ⟨this.rest, this.sumColl, this.tc⟩

/-- `payoutWithdrawLoop` reduces the provider's queue entries by exactly `fromWithdraw`
    (and `fromWithdraw ≥ 0`, no entry grows, amounts stay positive) -/
theorem payout_consumes_exactly (a : Addr) (u fw : Int) (q q' : List Withdraw) (hu : 0 ≤ u) (hpos : ∀ w ∈ q, 0 < w.amount)
    (h : payoutWithdrawLoop (q.filter (·.addr == a)).reverse u fw q = .ok q') :
    wsum (fun w => w.addr == a) q' = wsum (fun w => w.addr == a) q - fw ∧ 0 ≤ fw ∧ (∀ w ∈ q', 0 < w.amount) ∧
      (∀ b, b ≠ a → wsum (fun w => w.addr == b) q' = wsum (fun w => w.addr == b) q) := by
  have hmine : ∀ w ∈ (q.filter (·.addr == a)).reverse, w.addr = a := by
    intro w hw
    have := (List.mem_filter.mp (List.mem_reverse.mp hw)).2
    simpa using this
  have hperm : q.Perm ((q.filter (·.addr == a)).reverse ++ q.filter (fun w => !(w.addr == a))) :=
    ((List.filter_append_perm _ q).symm).trans (List.Perm.append_right _ (List.reverse_perm _).symm)
  have hp := payoutLoop_spec a _ _ _ _ _ _ hmine hu hpos hperm h
  refine ⟨hp.mine, hp.nonneg, hp.pos, ?_⟩
  intro b hb
  unfold wsum
  rw [payoutLoop_others a (fun w => w.addr == b)
    (by intro w hw; simp only [beq_eq_false_iff_ne, ne_eq]; rw [hw]; exact fun h => hb h.symm) _ _ _ _ _ hmine h]

/-- `reimburseLoop`: all clauses but `coll` are kept, the providers' collateral drops by what was paid
    (`totalPayout − left`), `left ≥ 0`.  Hypotheses: `0 ≤ purchaseRatio`, `0 ≤ totalPurchased`, `0 ≤ totalPayout`
    and the (snapshot) collaterals non-negative — all consequences of `BooksInv` at the call in `createReimbursement`
    and of `0 ≤ amount`. -/
theorem reimburseLoop_preserves (e : Env) (pr payr : Dec) (hpr : 0 ≤ pr.raw) (ps : List Provider) (tp tpay : Int)
    (l : Ledger) (s : State) (left : Int) (l' : Ledger) (s' : State) (hps : ∀ p ∈ ps, 0 ≤ p.collateral) (htp : 0 ≤ tp)
    (htpay : 0 ≤ tpay) (hr : CollRest s) (h : reimburseLoop e pr payr ps tp tpay l s = .ok (left, l', s')) :
    CollRest s' ∧ 0 ≤ left ∧ sumI (·.collateral) s'.providers = sumI (·.collateral) s.providers - (tpay - left) ∧
      s'.totalCollateral = s.totalCollateral := by
  have := reimburseLoop_spec e pr payr hpr ps tp tpay l s left l' s' hps htp htpay hr h
  exact ⟨this.rest, this.left_nonneg, this.sumColl, this.tc⟩

/-- `CreateReimbursement`: the invariant is kept and the total collateral drops by exactly `amount`.
    Hypotheses: `0 ≤ amount` (a negative amount would *raise* `totalCollateral` without touching any provider —
    see the example below) and `0 ≤ totalShield` (clause `nonneg` of the other half of `BooksInv`; it makes the
    purchase ratio non-negative). -/
theorem createReimbursement_preserves (e : Env) (l l' : Ledger) (s s' : State) (pid : Nat) (amount : Int)
    (beneficiary : Addr) (hi : CollInv s) (hamt : 0 ≤ amount) (hsh : 0 ≤ s.totalShield)
    (h : createReimbursement e l s pid amount beneficiary = .ok (l', s')) :
    CollInv s' ∧ s'.totalCollateral = s.totalCollateral - amount := by
  have := createReimbursement_inv e l l' s s' pid amount beneficiary hi hamt hsh h
  exact ⟨this.1, this.2.1⟩

/-- what governance does at the end of a claim (`paid` = `CreateReimbursement`) -/
theorem claimEnds_preserves (e : Env) (l l' : Ledger) (s s' : State) (pid poolID : Nat) (restoreTo beneficiary : Addr)
    (purchaseID : Nat) (loss : Int) (o : ClaimOutcome) (hi : CollInv s)
    (hadm : o = .paid → 0 ≤ loss ∧ 0 ≤ s.totalShield)
    (h : claimEnds e l s pid poolID restoreTo beneficiary purchaseID loss o = .ok (l', s')) : CollInv s' :=
  claimEnds_inv e l l' s s' pid poolID restoreTo beneficiary purchaseID loss o hi hadm h

/-! ## the end-blocker -/

/-- `completeLoop`, started with the matured entries `ws` taken out of the queue: each provider's collateral and
    withdrawing drop by exactly its entries in `ws` -/
theorem completeLoop_preserves (ws : List Withdraw) (s s' : State)
    (hi : CollInv { s with withdraws := s.withdraws ++ ws }) (h : completeLoop ws s = .ok s') :
    CollInv s' ∧ s'.withdraws = s.withdraws ∧
      (∀ b, collOf s' b = collOf s b - wsum (fun w => w.addr == b) ws) ∧
      (∀ b, wdgOf s' b = wdgOf s b - wsum (fun w => w.addr == b) ws) := by
  have := completeLoop_spec ws s s' hi h
  exact ⟨this.1, this.2.1, this.2.2.2.1, this.2.2.2.2⟩

/-- `DequeueCompletedWithdrawQueue`: matured entries leave the queue; each provider's collateral and withdrawing drop
    by exactly its matured entries -/
theorem completeWithdrawals_preserves (e : Env) (s s' : State) (hi : CollInv s) (h : completeWithdrawals e s = .ok s') :
    CollInv s' ∧ s'.withdraws = s.withdraws.filter (fun w => !(decide (w.time ≤ e.t))) ∧
      (∀ b, collOf s' b = collOf s b - dueBy b e.t s.withdraws) ∧
      (∀ b, wdgOf s' b = wdgOf s b - dueBy b e.t s.withdraws) := by
  have := completeWithdrawals_spec e s s' hi h
  exact ⟨this.1, this.2.1, this.2.2.2.1, this.2.2.2.2⟩

/-- under the invariant `DequeueCompletedWithdrawQueue` cannot panic ("withdrawal without provider") -/
theorem completeWithdrawals_never_panics (e : Env) (s : State) (hi : CollInv s) : ∃ s', completeWithdrawals e s = .ok s' :=
  completeWithdrawals_ok e s hi

theorem expireAndDistribute_preserves (e : Env) (s s' : State) (hi : CollInv s)
    (h : expireAndDistribute e s = .ok s') : CollInv s' := (expireAndDistribute_frame e s s' h).same.inv hi

theorem closePools_preserves (s : State) (hi : CollInv s) : CollInv (closePools s) := (closePools_frame s).same.inv hi

/-- the module's `EndBlocker` -/
theorem endBlock_preserves (e : Env) (s s' : State) (hi : CollInv s) (h : endBlock e s = .ok s') : CollInv s' :=
  (endBlock_spec e s s' hi h).1

/-! ## operations that do not touch the collateral books -/

theorem purchaseCore_preserves (e : Env) (l l' : Ledger) (s s' : State) (poolID : Nat) (shield : Coins) (purchaser : Addr)
    (fees staking : Coins) (hi : CollInv s) (h : purchaseCore e l s poolID shield purchaser fees staking = .ok (l', s')) :
    CollInv s' := (purchaseCore_frame e l l' s s' poolID shield purchaser fees staking h).same.inv hi

theorem purchase_preserves (e : Env) (l l' : Ledger) (s s' : State) (poolID : Nat) (shield : Coins) (purchaser : Addr)
    (staking : Bool) (hi : CollInv s) (h : purchase e l s poolID shield purchaser staking = .ok (l', s')) : CollInv s' :=
  (purchase_frame e l l' s s' poolID shield purchaser staking h).same.inv hi

theorem createPool_preserves (e : Env) (l l' : Ledger) (s s' : State) (creator : Addr) (shield fees : Coins)
    (sponsor : String) (sponsorAddr : Addr) (limit : Int) (hi : CollInv s)
    (h : createPool e l s creator shield fees sponsor sponsorAddr limit = .ok (l', s')) : CollInv s' :=
  (createPool_frame e l l' s s' creator shield fees sponsor sponsorAddr limit h).same.inv hi

theorem updatePool_preserves (e : Env) (l l' : Ledger) (s s' : State) (updater : Addr) (poolID : Nat) (shield fees : Coins)
    (limit : Int) (hi : CollInv s) (h : updatePool e l s updater poolID shield fees limit = .ok (l', s')) : CollInv s' :=
  (updatePool_frame e l l' s s' updater poolID shield fees limit h).same.inv hi

theorem pausePool_preserves (s s' : State) (updater : Addr) (poolID : Nat) (active : Bool) (hi : CollInv s)
    (h : pausePool s updater poolID active = .ok s') : CollInv s' := (pausePool_frame s s' updater poolID active h).same.inv hi

theorem updateSponsor_preserves (s s' : State) (updater : Addr) (poolID : Nat) (sponsor : String) (sponsorAddr : Addr)
    (hi : CollInv s) (h : updateSponsor s updater poolID sponsor sponsorAddr = .ok s') : CollInv s' :=
  (updateSponsor_frame s s' updater poolID sponsor sponsorAddr h).same.inv hi

theorem unstake_preserves (e : Env) (s s' : State) (poolID : Nat) (purchaser : Addr) (coins : Coins) (hi : CollInv s)
    (h : unstake e s poolID purchaser coins = .ok s') : CollInv s' := (unstake_frame e s s' poolID purchaser coins h).same.inv hi

/-- `MsgWithdrawRewards` only resets the provider's `rewards` -/
theorem withdrawRewards_preserves (e : Env) (l l' : Ledger) (s s' : State) (a : Addr) (hi : CollInv s)
    (h : withdrawRewards e l s a = .ok (l', s')) : CollInv s' := (withdrawRewards_frame e l l' s s' a hi.nodup h).same.inv hi

theorem withdrawReimbursement_preserves (e : Env) (l l' : Ledger) (s s' : State) (pid : Nat) (a : Addr) (hi : CollInv s)
    (h : withdrawReimbursement e l s pid a = .ok (l', s')) : CollInv s' :=
  (withdrawReimbursement_frame e l l' s s' pid a h).same.inv hi

theorem restoreShield_preserves (s : State) (poolID : Nat) (purchaser : Addr) (id : Nat) (loss : Int) (hi : CollInv s) :
    CollInv (restoreShield s poolID purchaser id loss) := (restoreShield_frame s poolID purchaser id loss).same.inv hi

theorem claimEnd_preserves (s : State) (loss : Int) (hi : CollInv s) : CollInv (claimEnd s loss) :=
  (claimEnd_frame s loss).same.inv hi

theorem fundBlockRewards_preserves (e : Env) (l : Ledger) (s : State) (sender : Addr) (amount : Int) (hi : CollInv s) :
    CollInv (fundBlockRewards e l s sender amount).2 := (fundBlockRewards_frame e l s sender amount).same.inv hi

/-! ## histories -/

/-- the model's operations, each with its own environment (block time, staking view) -/
inductive Op where
  | deposit (e : Env) (a : Addr) (coins : Coins)
  | withdraw (e : Env) (a : Addr) (coins : Coins)
  | stakingChanged (e : Env) (a : Addr)
  | purchase (e : Env) (poolID : Nat) (shield : Coins) (purchaser : Addr) (staking : Bool)
  | createPool (e : Env) (creator : Addr) (shield fees : Coins) (sponsor : String) (sponsorAddr : Addr) (limit : Int)
  | updatePool (e : Env) (updater : Addr) (poolID : Nat) (shield fees : Coins) (limit : Int)
  | pausePool (updater : Addr) (poolID : Nat) (active : Bool)
  | updateSponsor (updater : Addr) (poolID : Nat) (sponsor : String) (sponsorAddr : Addr)
  | unstake (e : Env) (poolID : Nat) (purchaser : Addr) (coins : Coins)
  | withdrawRewards (e : Env) (a : Addr)
  | withdrawReimbursement (e : Env) (pid : Nat) (a : Addr)
  | secureCollaterals (e : Env) (poolID : Nat) (purchaser : Addr) (purchaseID : Nat) (loss duration : Int)
  | claimEnds (e : Env) (pid poolID : Nat) (restoreTo beneficiary : Addr) (purchaseID : Nat) (loss : Int) (o : ClaimOutcome)
  | endBlock (e : Env)
  | fundBlockRewards (e : Env) (sender : Addr) (amount : Int)
  -- the keeper functions below the messages, callable on their own as well
  | withdrawCollateral (e : Env) (a : Addr) (amount : Int)
  | stakingHook (e : Env) (a : Addr) (staked : Int)
  | delayWithdraws (a : Addr) (amount t : Int)
  | secureFromProvider (e : Env) (p : Provider) (amount duration : Int)
  | createReimbursement (e : Env) (pid : Nat) (amount : Int) (beneficiary : Addr)
  | completeWithdrawals (e : Env)
  | expireAndDistribute (e : Env)
  | closePools
  | claimEnd (loss : Int)
  | restoreShield (poolID : Nat) (purchaser : Addr) (id : Nat) (loss : Int)

abbrev World := Ledger × State

/-- the operation as a partial function on (bank ledger, shield state) -/
def Op.apply : Op → World → Except Err World
  | .deposit e a c, (l, s) => (Shield.deposit e s a c).map (fun s' => (l, s'))
  | .withdraw e a c, (l, s) => (Shield.withdraw e s a c).map (fun s' => (l, s'))
  | .stakingChanged e a, (l, s) => (Shield.stakingChanged e s a).map (fun s' => (l, s'))
  | .purchase e poolID shield purchaser staking, (l, s) => Shield.purchase e l s poolID shield purchaser staking
  | .createPool e creator shield fees sponsor sponsorAddr limit, (l, s) => Shield.createPool e l s creator shield fees sponsor sponsorAddr limit
  | .updatePool e updater poolID shield fees limit, (l, s) => Shield.updatePool e l s updater poolID shield fees limit
  | .pausePool updater poolID active, (l, s) => (Shield.pausePool s updater poolID active).map (fun s' => (l, s'))
  | .updateSponsor updater poolID sponsor sponsorAddr, (l, s) => (Shield.updateSponsor s updater poolID sponsor sponsorAddr).map (fun s' => (l, s'))
  | .unstake e poolID purchaser coins, (l, s) => (Shield.unstake e s poolID purchaser coins).map (fun s' => (l, s'))
  | .withdrawRewards e a, (l, s) => Shield.withdrawRewards e l s a
  | .withdrawReimbursement e pid a, (l, s) => Shield.withdrawReimbursement e l s pid a
  | .secureCollaterals e poolID purchaser purchaseID loss duration, (l, s) =>
      (Shield.secureCollaterals e s poolID purchaser purchaseID loss duration).map (fun s' => (l, s'))
  | .claimEnds e pid poolID restoreTo beneficiary purchaseID loss o, (l, s) =>
      Shield.claimEnds e l s pid poolID restoreTo beneficiary purchaseID loss o
  | .endBlock e, (l, s) => (Shield.endBlock e s).map (fun s' => (l, s'))
  | .fundBlockRewards e sender amount, (l, s) => .ok (Shield.fundBlockRewards e l s sender amount)
  | .withdrawCollateral e a amount, (l, s) => (Shield.withdrawCollateral e s a amount).map (fun s' => (l, s'))
  | .stakingHook e a staked, (l, s) => (Shield.stakingHook e s a staked).map (fun s' => (l, s'))
  | .delayWithdraws a amount t, (l, s) => (Shield.delayWithdraws s a amount t).map (fun s' => (l, s'))
  | .secureFromProvider e p amount duration, (l, s) => (Shield.secureFromProvider e s p amount duration).map (fun s' => (l, s'))
  | .createReimbursement e pid amount beneficiary, (l, s) => Shield.createReimbursement e l s pid amount beneficiary
  | .completeWithdrawals e, (l, s) => (Shield.completeWithdrawals e s).map (fun s' => (l, s'))
  | .expireAndDistribute e, (l, s) => (Shield.expireAndDistribute e s).map (fun s' => (l, s'))
  | .closePools, (l, s) => .ok (l, Shield.closePools s)
  | .claimEnd loss, (l, s) => .ok (l, Shield.claimEnd s loss)
  | .restoreShield poolID purchaser id loss, (l, s) => .ok (l, Shield.restoreShield s poolID purchaser id loss)

/-- a failing step (rejected transaction, recovered panic) leaves the state unchanged -/
def step (op : Op) (w : World) : World :=
  match op.apply w with
  | .ok w' => w'
  | .error _ => w

def run (ops : List Op) (w : World) : World := ops.foldl (fun w op => step op w) w

/-- The inputs under which the preservation theorems hold.  Only three operations carry a condition:
    the payout amount of a claim is non-negative and, when it is paid, `totalShield` is non-negative
    (clause `nonneg` of the other half of `BooksInv`); a bare `withdrawCollateral` gets a non-negative amount. -/
def Op.admissible : Op → State → Prop
  | .claimEnds _ _ _ _ _ _ loss o, s => o = .paid → 0 ≤ loss ∧ 0 ≤ s.totalShield
  | .createReimbursement _ _ amount _, s => 0 ≤ amount ∧ 0 ≤ s.totalShield
  | .withdrawCollateral _ _ amount, _ => 0 ≤ amount
  | _, _ => True

/-- every step of the history meets `Op.admissible` in the state it is run in -/
def Admissible : List Op → World → Prop
  | [], _ => True
  | op :: ops, w => op.admissible w.2 ∧ Admissible ops (step op w)

theorem map_ok {α β} {x : Except Err α} {f : α → β} {y : β} (h : x.map f = .ok y) : ∃ a, x = .ok a ∧ y = f a := by
  cases x with
  | error e => cases h
  | ok a => exact ⟨a, rfl, by injection h with h; exact h.symm⟩

/-- every successful operation preserves `CollInv` -/
theorem apply_collInv (op : Op) (w w' : World) (hi : CollInv w.2) (hadm : op.admissible w.2) (h : op.apply w = .ok w') :
    CollInv w'.2 := by
  obtain ⟨l, s⟩ := w
  obtain ⟨l', s'⟩ := w'
  cases op <;> simp only [Op.apply] at h
  case deposit e a c => obtain ⟨x, hx, he⟩ := map_ok h; cases he; exact deposit_preserves e s _ a c hi hx
  case withdraw e a c => obtain ⟨x, hx, he⟩ := map_ok h; cases he; exact withdraw_preserves e s _ a c hi hx
  case stakingChanged e a => obtain ⟨x, hx, he⟩ := map_ok h; cases he; exact stakingChanged_preserves e s _ a hi hx
  case purchase e poolID shield purchaser staking => exact purchase_preserves e l l' s s' _ _ _ _ hi h
  case createPool e creator shield fees sponsor sponsorAddr limit => exact createPool_preserves e l l' s s' _ _ _ _ _ _ hi h
  case updatePool e updater poolID shield fees limit => exact updatePool_preserves e l l' s s' _ _ _ _ _ hi h
  case pausePool updater poolID active => obtain ⟨x, hx, he⟩ := map_ok h; cases he; exact pausePool_preserves s _ _ _ _ hi hx
  case updateSponsor updater poolID sponsor sponsorAddr =>
    obtain ⟨x, hx, he⟩ := map_ok h; cases he; exact updateSponsor_preserves s _ _ _ _ _ hi hx
  case unstake e poolID purchaser coins => obtain ⟨x, hx, he⟩ := map_ok h; cases he; exact unstake_preserves e s _ _ _ _ hi hx
  case withdrawRewards e a => exact withdrawRewards_preserves e l l' s s' a hi h
  case withdrawReimbursement e pid a => exact withdrawReimbursement_preserves e l l' s s' pid a hi h
  case secureCollaterals e poolID purchaser purchaseID loss duration =>
    obtain ⟨x, hx, he⟩ := map_ok h; cases he; exact secureCollaterals_preserves e s _ _ _ _ _ _ hi hx
  case claimEnds e pid poolID restoreTo beneficiary purchaseID loss o =>
    exact claimEnds_preserves e l l' s s' _ _ _ _ _ _ _ hi hadm h
  case endBlock e => obtain ⟨x, hx, he⟩ := map_ok h; cases he; exact endBlock_preserves e s _ hi hx
  case fundBlockRewards e sender amount =>
    injection h with h; cases h; exact fundBlockRewards_preserves e l s sender amount hi
  case withdrawCollateral e a amount =>
    obtain ⟨x, hx, he⟩ := map_ok h; cases he; exact withdrawCollateral_preserves e s _ a amount hi hadm hx
  case stakingHook e a staked => obtain ⟨x, hx, he⟩ := map_ok h; cases he; exact stakingHook_preserves e s _ a staked hi hx
  case delayWithdraws a amount t => obtain ⟨x, hx, he⟩ := map_ok h; cases he; exact delayWithdraws_preserves s _ a amount t hi hx
  case secureFromProvider e p amount duration =>
    obtain ⟨x, hx, he⟩ := map_ok h; cases he; exact secureFromProvider_preserves e s _ p amount duration hi hx
  case createReimbursement e pid amount beneficiary =>
    exact (createReimbursement_preserves e l l' s s' pid amount beneficiary hi hadm.1 hadm.2 h).1
  case completeWithdrawals e =>
    obtain ⟨x, hx, he⟩ := map_ok h; cases he; exact (completeWithdrawals_preserves e s _ hi hx).1
  case expireAndDistribute e => obtain ⟨x, hx, he⟩ := map_ok h; cases he; exact expireAndDistribute_preserves e s _ hi hx
  case closePools => injection h with h; cases h; exact closePools_preserves s hi
  case claimEnd loss => injection h with h; cases h; exact claimEnd_preserves s loss hi
  case restoreShield poolID purchaser id loss => injection h with h; cases h; exact restoreShield_preserves s _ _ _ _ hi

theorem step_collInv (op : Op) (w : World) (hi : CollInv w.2) (hadm : op.admissible w.2) : CollInv (step op w).2 := by
  unfold step
  split
  · rename_i w' h; exact apply_collInv op w w' hi hadm h
  · exact hi

/-- C03 (this half), over histories: from a state with `CollInv`, after any list of steps — successful or failing,
    in any interleaving, each with its own block time and staking view — `CollInv` holds. -/
theorem reachable_collInv (ops : List Op) (w : World) (hi : CollInv w.2) (hadm : Admissible ops w) :
    CollInv (run ops w).2 := by
  induction ops generalizing w with
  | nil => exact hi
  | cons op ops ih =>
    exact ih (step op w) (step_collInv op w hi hadm.1) hadm.2

/-- the same for histories made of the messages, hooks and the end-blocker only, with non-negative claim amounts,
    given that `totalShield` stays non-negative (the other half of C03) -/
theorem reachable_collInv' (ops : List Op) (w : World) (hi : CollInv w.2)
    (hloss : ∀ op ∈ ops, match op with
      | .claimEnds _ _ _ _ _ _ loss _ => 0 ≤ loss
      | .createReimbursement _ _ amount _ => 0 ≤ amount
      | .withdrawCollateral _ _ amount => 0 ≤ amount
      | _ => True)
    (hshield : ∀ k, 0 ≤ (run (ops.take k) w).2.totalShield) : CollInv (run ops w).2 := by
  apply reachable_collInv ops w hi
  clear hi
  induction ops generalizing w with
  | nil => trivial
  | cons op ops ih =>
    refine ⟨?_, ih (step op w) ?_ ?_⟩
    · have h0 := hshield 0
      have h1 := hloss op List.mem_cons_self
      simp only [List.take_zero, run, List.foldl_nil] at h0
      cases op <;> simp only [Op.admissible] <;> first | trivial | exact h1 | exact ⟨h1, h0⟩ | exact fun _ => ⟨h1, h0⟩
    · intro op' hop'; exact hloss op' (List.mem_cons_of_mem _ hop')
    · intro k
      have := hshield (k + 1)
      simpa [run, List.take_succ_cons, List.foldl_cons] using this

/-! ## non-vacuity: a concrete state, concrete steps -/

namespace Ex

def params : Params :=
  { protection := 1000, withdrawPeriod := 50, feesRate := Dec.zero, poolLimit := Dec.one, minPurchase := 1,
    stakingRate := Dec.one, payoutPeriod := 10 }

/-- two providers; "a" has two withdrawals queued (30 = 10 + 20), "b" none -/
def s0 : State :=
  { admin := "adm", pools := [], lists := [],
    providers := [{ addr := "a", collateral := 100, withdrawing := 30, bonded := 100, rewards := Dec.zero },
                  { addr := "b", collateral := 50, withdrawing := 0, bonded := 80, rewards := Dec.zero }],
    withdraws := [{ addr := "a", amount := 10, time := 40 }, { addr := "a", amount := 20, time := 70 }],
    stakes := [], origStakings := [], reimbs := [],
    totalCollateral := 150, totalWithdrawing := 30, totalShield := 0, totalClaimed := 0,
    serviceFees := Dec.zero, remaining := Dec.zero, blockFees := Dec.zero, stakingPool := 0,
    lastUpdate := zeroTime, nextPool := 1, nextPurchase := 1, params := params }

def l0 : Ledger := { posts := [], supply := [] }

/-- block time 60; the staking module reports 40 bonded for "a" and 200 for "c" -/
def e60 : Env :=
  { t := 60, bond := "uctk", modAddr := "mod", bondedAfter := fun x => if x == "a" then some 40 else if x == "c" then some 200 else none }

def isOk {α} : Except Err α → Bool
  | .ok _ => true
  | .error _ => false

def get (x : Except Err State) : State := match x with | .ok s => s | .error _ => s0
def get2 (x : Except Err (Ledger × State)) : State := match x with | .ok w => w.2 | .error _ => s0

/-- the hypothesis of every theorem above is satisfiable -/
example : CollInv s0 := by constructor <;> decide

/-- `deposit_preserves`: the existing-provider path and the new-provider path both succeed on `s0` -/
example : isOk (deposit e60 s0 "b" [("uctk", 5)]) = true ∧ isOk (deposit e60 s0 "c" [("uctk", 7)]) = true ∧
    (get (deposit e60 s0 "c" [("uctk", 7)])).providers.map (·.addr) = ["a", "b", "c"] ∧
    (get (deposit e60 s0 "c" [("uctk", 7)])).totalCollateral = 157 := by decide

/-- `withdraw_preserves` / `stakingChanged_preserves` (the hook forces a withdrawal of 100 − 30 − 40 = 30) -/
example : isOk (withdraw e60 s0 "a" [("uctk", 25)]) = true ∧ isOk (stakingChanged e60 s0 "a") = true ∧
    (get (stakingChanged e60 s0 "a")).totalWithdrawing = 60 ∧
    (get (stakingChanged e60 s0 "a")).withdraws.map (fun w => (w.amount, w.time)) = [(10, 40), (20, 70), (30, 110)] := by decide

/-- `delayWithdraws_preserves`: the entry maturing at 40 is pushed to 90 -/
example : isOk (delayWithdraws s0 "a" 5 90) = true ∧
    (get (delayWithdraws s0 "a" 5 90)).withdraws.map (fun w => (w.amount, w.time)) = [(10, 40), (20, 90)] := by decide

/-- `completeWithdrawals_preserves` / `endBlock_preserves`: at time 60 the entry of 10 is released -/
example : isOk (endBlock e60 s0) = true ∧ (get (endBlock e60 s0)).totalCollateral = 140 ∧
    (get (endBlock e60 s0)).withdraws.map (fun w => (w.amount, w.time)) = [(20, 70)] ∧
    collOf (get (endBlock e60 s0)) "a" = 90 := by decide

/-- `createReimbursement_preserves`: a payout of 90 succeeds ("a" pays 61, "b" 29: proportional, rounded up while
    something is left), the total collateral drops by exactly 90 -/
example : isOk (createReimbursement e60 l0 s0 7 90 "x") = true ∧
    (get2 (createReimbursement e60 l0 s0 7 90 "x")).totalCollateral = 60 ∧
    (get2 (createReimbursement e60 l0 s0 7 90 "x")).providers.map (fun p => (p.collateral, p.withdrawing)) = [(39, 30), (21, 0)] := by
  decide

/-- the hypothesis `0 ≤ amount` of `createReimbursement_preserves` is needed: a negative amount succeeds in the model
    and breaks the clause `coll` (not reachable: the claim proposal's loss is validated to be positive) -/
example : isOk (createReimbursement e60 l0 s0 7 (-5) "x") = true ∧
    (get2 (createReimbursement e60 l0 s0 7 (-5) "x")).totalCollateral ≠
      sumI (·.collateral) (get2 (createReimbursement e60 l0 s0 7 (-5) "x")).providers := by decide

/-- the hypothesis `0 ≤ amount` of `withdrawCollateral_preserves` is needed (the keeper function is only ever called
    with positive amounts) -/
example : isOk (withdrawCollateral e60 s0 "b" (-5)) = true ∧
    (get (withdrawCollateral e60 s0 "b" (-5))).withdraws.any (fun w => decide (w.amount < 0)) = true := by decide

/-- a history mixing successful and failing steps -/
def hist : List Op :=
  [.deposit e60 "c" [("uctk", 7)], .withdraw e60 "b" [("uctk", 500)] /- fails -/, .stakingChanged e60 "a",
   .claimEnds e60 7 1 "x" "x" 1 90 .paid, .endBlock e60, .withdraw e60 "b" [("uctk", 5)]]

example : Admissible hist (l0, s0) := by
  refine ⟨trivial, trivial, trivial, ?_, trivial, trivial, trivial⟩
  intro _; decide

/-- in this history the hook first forces "a" to withdraw 30 more (60 queued of 100), the payout of 90 then takes
    58 from "a" — 40 of its free collateral and 18 out of its queued withdrawals — and the end-blocker releases 10 -/
example : (run hist (l0, s0)).2.providers.map (fun p => (p.addr, p.collateral, p.withdrawing)) =
    [("a", 32, 32), ("b", 21, 5), ("c", 4, 0)] ∧ (run hist (l0, s0)).2.totalCollateral = 57 ∧
    (run hist (l0, s0)).2.withdraws.map (fun w => (w.addr, w.amount, w.time)) = [("a", 20, 70), ("a", 12, 110), ("b", 5, 110)] := by
  decide

end Ex

end Shentu.Props.C03a
