import Shentu.Proofs.C15HRun
/-
  C15 at the level of histories — oracle tasks are scored once, at their closing block; responses are accepted only from
  operators, once, in range, before closing; the rewards credited for a task never exceed its bounty; only the creator
  removes a task.

  **What a history is.**  A history is any list of `(Env × Op)`: every constructor of `Oracle.Op` (the eight messages, the
  begin-blocker and the end-blocker), each in its own environment.  `runStep` applies one operation; a refused operation
  changes nothing.  `Run` carries the ledger, the oracle state and three ghost records that are computed from what an accepted
  operation visibly does: `aggCount k` counts how often the task stored under key `k` left `pending` since `k` was last
  created, `respLog` lists the accepted `respond` operations since then (with the height and with whether the signer was an
  operator at that moment), `paid k d` adds up by how much the operators' accumulated rewards grew while the end-blocker
  handled the task under `k` (reset when `k` is created again).

  **Tasks are keyed by `contract ++ function`** — in the source and in the model alike.  Two different (contract, function)
  pairs can therefore name the same task (`task_ids_not_injective`); every statement below is about keys.

  **What is assumed.**  `Timed bond c ops`: heights never decrease, nothing comes after the end-blocker at the same height,
  all environments use one bond denomination.  Heights need not be consecutive: a block height may be skipped, and then the
  tasks closing at it simply stay pending.  `Inv bond c r`: the closing index is exact from height `c` on and task keys are
  distinct (`Idx`), the end-blocker's totality invariant `EndInv`, operator addresses are distinct, the ghost records
  agree with the state.  The empty state satisfies `Inv` (`inv_init`) and every operation of a timed history keeps it
  (`inv_step`).  The transition statements `only_creator_deletes`, `replaced_only_after_closing` assume nothing at all.

  **What createTask allows.**  Anybody may create a task under a key whose stored task has `closing < height`; the old record
  is dropped whatever its status and whoever created it.  Nothing else replaces a task.

  **Not proved here: `module_funded`** (statement 1(d) of the task).  The ingredients are there (`endOne_pstep` bounds what
  one distribution credits by the bounty; `credits_sums` is the exact accounting of the operators' rewards), the sums over
  operators, withdrawals and tasks for the eight messages are not done.  The concrete history at the end shows the figures.
-/
namespace Shentu.Props.C15H
open Shentu Shentu.Oracle Shentu.C15HH Shentu.C20GOrcInv

/-! ### keys -/

/-- Two different task identifiers with the same store key: contract and function are concatenated without a separator. -/
theorem task_ids_not_injective :
    (("ab", "c") : String × String) ≠ ("a", "bc") ∧
    Task.key { (default : Task) with contract := "ab", function := "c" } =
      Task.key { (default : Task) with contract := "a", function := "bc" } := by decide

/-- The statement "different identifiers are different tasks" is false of the model (and of the source). -/
theorem distinct_ids_distinct_tasks_fails :
    ¬ (∀ c f c' f' : String, (c, f) ≠ (c', f') → c ++ f ≠ c' ++ f') := by
  intro h
  exact h "ab" "c" "a" "bc" (by decide) (by decide)

/-! ### (a) scored once -/

/-- **Aggregated at most once.**  After every timed history the task under any key has left `pending` at most once since
    the key was last created, and not at all if it is still pending. -/
theorem aggregated_at_most_once {bond : Denom} {c : Int} {r0 : Run} (ops : List (Env × Op)) (h0 : Inv bond c r0)
    (ht : Timed bond c ops) (k : String) :
    (ops.foldl runStep r0).aggCount k ≤ 1 ∧
    ∀ t, findTask (ops.foldl runStep r0).s k = some t → t.status = 1 → (ops.foldl runStep r0).aggCount k = 0 := by
  have hk := (inv_run ops h0 ht).keys k
  exact ⟨hk.once, fun t h1 h2 => (hk.pending t h1 h2).1⟩

/-- **Only the end-blocker of the closing block scores a task.**  If, at some step of a timed history, the task under `k` is
    pending before and not pending after, the step is an end-blocker, its height is the task's closing block, and the task
    after is the same task (same creator, bounty, closing block, responders and scores), succeeded or failed. -/
theorem leaves_pending_only_at_closing {bond : Denom} {c : Int} {r0 : Run} (pre : List (Env × Op)) (eo : Env × Op)
    (h0 : Inv bond c r0) (ht : Timed bond c (pre ++ [eo])) (k : String) (t t' : Task)
    (h1 : findTask (pre.foldl runStep r0).s k = some t) (hp : t.status = 1)
    (h2 : findTask (runStep (pre.foldl runStep r0) eo).s k = some t') (hn : t'.status ≠ 1) :
    eo.2 = .endBlock ∧ eo.1.h = t.closing ∧ Fin t t' := by
  obtain ⟨hinv, hc, _⟩ := inv_at h0 ht
  generalize List.foldl runStep r0 pre = r at *
  obtain ⟨e, op⟩ := eo
  unfold runStep at h2
  cases hs : stepE e r.l r.s op with
  | error x => rw [hs] at h2; rw [h1] at h2; cases h2; exact absurd hp hn
  | ok ls =>
    obtain ⟨l', s'⟩ := ls
    rw [hs] at h2; dsimp only at h2
    rcases stepE_taskStep hs k with ⟨hf, _⟩ | ⟨ct, fn, sc, o, u, _, _, hu, _, _, _, _, _, hu'⟩ |
      ⟨ct, fn, fo, d, u, _, _, _, _, _, _, hu'⟩ | ⟨ct, fn, b, cr, w, v, u', _, _, _, hu', hst', _⟩ |
      ⟨hop, hm, u, u', hu, _, hu', hfin⟩
    · rw [hf, h1] at h2; cases h2; exact absurd hp hn
    · rw [hu'] at h2; cases h2; rw [h1] at hu; cases hu; exact absurd hp hn
    · rw [hu'] at h2; cases h2
    · rw [hu'] at h2; cases h2; exact absurd hst' hn
    · rw [hu'] at h2; cases h2; rw [h1] at hu; cases hu
      exact ⟨hop, (closing_at hinv.idx hc hm h1).symm, hfin⟩

/-- **A finished task is frozen.**  At every step of a timed history a succeeded or failed task stays exactly as it is,
    unless it is removed by its creator after its closing block, or dropped by a `createTask` for the same key (by
    anybody) at a height above its closing block.  In particular it accepts no response and is not scored again. -/
theorem finished_never_changes {bond : Denom} {c : Int} {r0 : Run} (pre : List (Env × Op)) (eo : Env × Op)
    (h0 : Inv bond c r0) (ht : Timed bond c (pre ++ [eo])) (k : String) (t : Task)
    (h1 : findTask (pre.foldl runStep r0).s k = some t) (hp : t.status ≠ 1) :
    findTask (runStep (pre.foldl runStep r0) eo).s k = some t ∨
    (∃ ct fn fo, eo.2 = .deleteTask ct fn fo t.creator ∧ k = ct ++ fn ∧ t.closing < eo.1.h ∧
      findTask (runStep (pre.foldl runStep r0) eo).s k = none) ∨
    (∃ ct fn b cr w v t', eo.2 = .createTask ct fn b cr w v ∧ k = ct ++ fn ∧ t.closing < eo.1.h ∧
      findTask (runStep (pre.foldl runStep r0) eo).s k = some t' ∧ t'.status = 1 ∧ t'.responses = [] ∧ t'.creator = cr) := by
  obtain ⟨hinv, hc, _⟩ := inv_at h0 ht
  generalize List.foldl runStep r0 pre = r at *
  obtain ⟨e, op⟩ := eo
  unfold runStep
  cases hs : stepE e r.l r.s op with
  | error x => exact Or.inl h1
  | ok ls =>
    obtain ⟨l', s'⟩ := ls
    dsimp only
    rcases stepE_taskStep hs k with ⟨hf, _⟩ | ⟨ct, fn, sc, o, u, _, _, hu, _, hcl, _, _, _, _⟩ |
      ⟨ct, fn, fo, d, u, hop, hk, hu, hcr, hcl, _, hu'⟩ | ⟨ct, fn, b, cr, w, v, u', hop, hk, hold, hu', hst', hr', hcr', _⟩ |
      ⟨_, _, u, u', hu, hust, _, _⟩
    · exact Or.inl (by rw [hf]; exact h1)
    · rw [h1] at hu; cases hu
      have := hinv.fin k t h1 hp
      dsimp only at hc; omega
    · rw [h1] at hu; cases hu
      exact Or.inr (Or.inl ⟨ct, fn, fo, by rw [hcr]; exact hop, hk, hcl, hu'⟩)
    · exact Or.inr (Or.inr ⟨ct, fn, b, cr, w, v, u', hop, hk, hold t h1, hu', hst', hr', hcr'⟩)
    · rw [h1] at hu; cases hu; exact absurd hust hp

/-- a state that no timed history reaches: a succeeded task whose closing block 10 is still ahead -/
def sAhead : State :=
  { ops := [{ addr := "alice", proposer := "alice", coll := [("uctk", 100)], rew := [] }], wds := [], total := [], closing := [],
    tasks := [{ contract := "ab", function := "c", begin := 1, bounty := [], expiration := 100, creator := "carol",
                responses := [], result := 65, closing := 10, waiting := 9, status := 2 }],
    params := { lock := 5, minColl := 10, window := 3, aggRes := 50, threshold := 50, eps1 := 1, eps2 := 1, expDur := 100 } }

set_option maxRecDepth 100000 in
/-- **Without the timing hypothesis `finished_never_changes` is false**: `respond` does not look at the status, only at the
    closing block.  A succeeded task whose closing block is still ahead (which a timed history never produces, field `fin`
    of `Inv`) accepts a response at height 5. -/
theorem finished_never_changes_untimed_fails :
    ¬ (∀ (r : Run) (eo : Env × Op) (k : String) (t : Task), findTask r.s k = some t → t.status ≠ 1 →
        ∀ t', findTask (runStep r eo).s k = some t' → t'.responses.length = t.responses.length) := by
  intro h
  let r : Run := { l := default, s := sAhead, aggCount := fun _ => 0, respLog := [], paid := fun _ _ => 0 }
  let eo : Env × Op := ({ h := 5, t := 50, bond := "uctk", modAddr := "oracle" }, .respond "ab" "c" 70 "alice")
  have h1 : ((findTask r.s "abc").map (fun t => (t.status, t.responses.length))) = some (2, 0) := by decide
  have h2 : ((findTask (runStep r eo).s "abc").map (fun t => t.responses.length)) = some 1 := by decide
  cases hf : findTask r.s "abc" with
  | none => rw [hf] at h1; cases h1
  | some t =>
    rw [hf] at h1
    simp only [Option.map_some, Option.some.injEq, Prod.mk.injEq] at h1
    cases hf' : findTask (runStep r eo).s "abc" with
    | none => rw [hf'] at h2; cases h2
    | some t' =>
      rw [hf'] at h2
      simp only [Option.map_some, Option.some.injEq] at h2
      have := h r eo "abc" t hf (by omega) t' hf'
      omega

/-! ### (b) responses -/

/-- **Responses only while open.**  After every timed history, the responses stored with a task are exactly the accepted
    `respond` operations for its key since the key was created, in order; no operator appears twice; every one of them was
    signed by an operator (at that moment), at a height not above the closing block, with a score in [0, 100]. -/
theorem responses_only_while_open {bond : Denom} {c : Int} {r0 : Run} (ops : List (Env × Op)) (h0 : Inv bond c r0)
    (ht : Timed bond c ops) (k : String) (t : Task) (h1 : findTask (ops.foldl runStep r0).s k = some t) :
    t.responses.map rsig = (((ops.foldl runStep r0).respLog.filter (·.key == k)).map evSig) ∧
    (t.responses.map (·.op)).Nodup ∧
    ∀ ev ∈ (ops.foldl runStep r0).respLog.filter (·.key == k),
      ev.h ≤ t.closing ∧ ev.wasOp = true ∧ 0 ≤ ev.score ∧ ev.score ≤ 100 := by
  have hinv := inv_run ops h0 ht
  have hk := hinv.keys k
  refine ⟨hk.resp t h1, hk.nodup t h1, fun ev hev => ⟨hk.early t h1 ev hev, hinv.log ev (List.mem_filter.mp hev).1⟩⟩

/-! ### (c) rewards -/

/-- **Rewards within the bounty.**  After every timed history, what the end-blockers credited to operators for the task
    stored under a key is non-negative and at most the task's bounty, in every denomination; for a pending task it is zero. -/
theorem rewards_within_bounty {bond : Denom} {c : Int} {r0 : Run} (ops : List (Env × Op)) (h0 : Inv bond c r0)
    (ht : Timed bond c ops) (k : String) (t : Task) (h1 : findTask (ops.foldl runStep r0).s k = some t) (d : Denom) :
    0 ≤ (ops.foldl runStep r0).paid k d ∧ (ops.foldl runStep r0).paid k d ≤ Coins.amountOf t.bounty d ∧
    (t.status = 1 → (ops.foldl runStep r0).paid k d = 0) := by
  have hk := (inv_run ops h0 ht).keys k
  exact ⟨(hk.paid t h1 d).1, (hk.paid t h1 d).2, fun hp => (hk.pending t h1 hp).2 d⟩

/-- **Nothing is credited for a task twice.**  At every step of a timed history the amount credited under a key changes
    only in the end-blocker that takes the task under that key from pending to finished (which happens at most once,
    `aggregated_at_most_once`), or is reset to zero when the key is created again. -/
theorem rewards_credited_once {bond : Denom} {c : Int} {r0 : Run} (pre : List (Env × Op)) (eo : Env × Op)
    (h0 : Inv bond c r0) (ht : Timed bond c (pre ++ [eo])) (k : String) (d : Denom)
    (hne : (runStep (pre.foldl runStep r0) eo).paid k d ≠ (pre.foldl runStep r0).paid k d) :
    (eo.2 = .endBlock ∧ ∃ t t', findTask (pre.foldl runStep r0).s k = some t ∧ t.status = 1 ∧
      findTask (runStep (pre.foldl runStep r0) eo).s k = some t' ∧ Fin t t') ∨
    (∃ ct fn b cr w v, eo.2 = .createTask ct fn b cr w v ∧ k = ct ++ fn ∧ (runStep (pre.foldl runStep r0) eo).paid k d = 0) := by
  obtain ⟨hinv, hc, hb⟩ := inv_at h0 ht
  generalize List.foldl runStep r0 pre = r at *
  obtain ⟨e, op⟩ := eo
  unfold runStep at hne ⊢
  cases hs : stepE e r.l r.s op with
  | error x => rw [hs] at hne; exact absurd rfl hne
  | ok ls =>
    obtain ⟨l', s'⟩ := ls
    rw [hs] at hne; dsimp only at hne ⊢
    cases op with
    | endBlock =>
      left
      simp only [stepE] at hs
      cases hr : endBlock e r.s with
      | error x => rw [hr] at hs; cases hs
      | ok s1 =>
        rw [hr] at hs; injection hs with hs; injection hs with _ hs; subst hs
        rcases endBlock_pstep (by rw [hb]; exact hinv.endInv) hinv.opsNodup hr r.paid k with
          ⟨_, hq⟩ | ⟨t, t', h1, h2, h3, h4, _⟩
        · exact absurd (hq d) hne
        · exact ⟨rfl, t, t', h1, h2, h3, h4⟩
    | createTask ct fn b cr w v =>
      right
      by_cases hk : k = ct ++ fn
      · exact ⟨ct, fn, b, cr, w, v, rfl, hk, by simp [paidNext, hk]⟩
      · exact absurd (by simp [paidNext, hk]) hne
    | createOperator a co p => exact absurd rfl hne
    | removeOperator a => exact absurd rfl hne
    | addCollateral a co => exact absurd rfl hne
    | reduceCollateral a co => exact absurd rfl hne
    | withdrawReward a => exact absurd rfl hne
    | respond ct fn sc o => exact absurd rfl hne
    | deleteTask ct fn fo dl => exact absurd rfl hne
    | beginBlock => exact absurd rfl hne

/-! ### (e) removal and replacement — no hypothesis on the state or on the history -/

/-- **Only the creator deletes.**  From any state whatever: if the task under `k` is there before an operation and nothing
    is stored under `k` after it, the operation is a `deleteTask` for that key signed by the task's creator, at a height
    above the closing block, and the task has expired unless `force` is set.  `force` does not lift the creator check. -/
theorem only_creator_deletes (r : Run) (eo : Env × Op) (k : String) (t : Task) (h1 : findTask r.s k = some t)
    (h2 : findTask (runStep r eo).s k = none) :
    ∃ ct fn fo, eo.2 = .deleteTask ct fn fo t.creator ∧ k = ct ++ fn ∧ t.closing < eo.1.h ∧
      (fo = true ∨ t.expiration < eo.1.t) := by
  obtain ⟨e, op⟩ := eo
  unfold runStep at h2
  cases hs : stepE e r.l r.s op with
  | error x => rw [hs] at h2; rw [h1] at h2; cases h2
  | ok ls =>
    obtain ⟨l', s'⟩ := ls
    rw [hs] at h2; dsimp only at h2
    rcases stepE_taskStep hs k with ⟨hf, _⟩ | ⟨ct, fn, sc, o, u, _, _, _, _, _, _, _, _, hu'⟩ |
      ⟨ct, fn, fo, d, u, hop, hk, hu, hcr, hcl, hexp, _⟩ | ⟨ct, fn, b, cr, w, v, u', _, _, _, hu', _⟩ |
      ⟨_, _, u, u', _, _, hu', _⟩
    · rw [hf, h1] at h2; cases h2
    · rw [hu'] at h2; cases h2
    · rw [h1] at hu; cases hu
      exact ⟨ct, fn, fo, by rw [hcr]; exact hop, hk, hcl, hexp⟩
    · rw [hu'] at h2; cases h2
    · rw [hu'] at h2; cases h2

/-- **Replacement only by `createTask`, only after the closing block, by anybody.**  From any state whatever: if after an
    operation the task under `k` differs from the one before in creator, creation height, closing block or bounty, the
    operation is a `createTask` for that key at a height above the old closing block; the new task is pending, has no
    responses and belongs to the signer.  The old task's status and creator are not looked at. -/
theorem replaced_only_after_closing (r : Run) (eo : Env × Op) (k : String) (t t' : Task) (h1 : findTask r.s k = some t)
    (h2 : findTask (runStep r eo).s k = some t')
    (hd : t'.creator ≠ t.creator ∨ t'.begin ≠ t.begin ∨ t'.closing ≠ t.closing ∨ t'.bounty ≠ t.bounty) :
    ∃ ct fn b cr w v, eo.2 = .createTask ct fn b cr w v ∧ k = ct ++ fn ∧ t.closing < eo.1.h ∧
      t'.status = 1 ∧ t'.responses = [] ∧ t'.creator = cr ∧ t'.bounty = b ∧ t'.begin = eo.1.h := by
  obtain ⟨e, op⟩ := eo
  unfold runStep at h2
  have same : t' = t → False := by
    intro h; subst h; rcases hd with h | h | h | h <;> exact h rfl
  cases hs : stepE e r.l r.s op with
  | error x => rw [hs] at h2; rw [h1] at h2; cases h2; exact (same rfl).elim
  | ok ls =>
    obtain ⟨l', s'⟩ := ls
    rw [hs] at h2; dsimp only at h2
    rcases stepE_taskStep hs k with ⟨hf, _⟩ | ⟨ct, fn, sc, o, u, _, _, hu, _, _, _, _, _, hu'⟩ |
      ⟨ct, fn, fo, d, u, _, _, _, _, _, _, hu'⟩ | ⟨ct, fn, b, cr, w, v, u', hop, hk, hold, hu', hst', hr', hcr', hb', hbg', _⟩ |
      ⟨_, _, u, u', hu, _, hu', hfin⟩
    · rw [hf, h1] at h2; cases h2; exact (same rfl).elim
    · rw [hu'] at h2; cases h2; rw [h1] at hu; cases hu
      rcases hd with h | h | h | h <;> exact (h rfl).elim
    · rw [hu'] at h2; cases h2
    · rw [hu'] at h2; cases h2
      exact ⟨ct, fn, b, cr, w, v, hop, hk, hold t h1, hst', hr', hcr', hb', hbg'⟩
    · rw [hu'] at h2; cases h2; rw [h1] at hu; cases hu
      rcases hd with h | h | h | h
      · exact (h hfin.creator).elim
      · exact (h hfin.begin).elim
      · exact (h hfin.closing).elim
      · exact (h hfin.bounty).elim

/-! ### a task without responses -/

/-- **A task that closes without any response fails.**  In any state, handling a pending task with an empty response list in
    the end-blocker stores it as failed with the default result, and changes nothing else: no operator is credited, the
    bounty stays in the module account. -/
theorem no_response_task_fails (bond : Denom) (s : State) (id : String × String) (t : Task)
    (h1 : findTask s (id.1 ++ id.2) = some t) (hp : t.status = 1) (hr : t.responses = []) :
    endOne bond s id = .ok (setTask s { t with responses := [], result := s.params.aggRes, status := 3 }) := by
  have hk : t.key = id.1 ++ id.2 := findTask_key h1
  have hagg : aggregate bond s (id.1 ++ id.2) =
      .ok (setTask s { t with responses := [], result := s.params.aggRes, status := 3 }) := by
    unfold aggregate
    rw [h1]; dsimp only
    have : Gen.Oracle.aggPending (t.status : Int) = false := by
      unfold Gen.Oracle.aggPending; rw [hp]; decide
    rw [this, hr]
    simp [aggFold, Gen.Oracle.aggHasCollateral, Gen.Oracle.aggFailResult]
  unfold endOne
  dsimp only
  rw [hagg]
  dsimp only
  have hft : findTask (setTask s { t with responses := [], result := s.params.aggRes, status := 3 }) (id.1 ++ id.2) =
      some { t with responses := [], result := s.params.aggRes, status := 3 } := by
    rw [findTask_setTask]
    have : ({ t with responses := [], result := s.params.aggRes, status := 3 } : Task).key = id.1 ++ id.2 := hk
    simp [this]
  rw [hft]
  dsimp only
  have hd : distributeBounty bond (setTask s { t with responses := [], result := s.params.aggRes, status := 3 })
      { t with responses := [], result := s.params.aggRes, status := 3 } = err "oracle:task-failed" := by
    unfold distributeBounty
    simp [totalValid, Gen.Oracle.dbNoValid]
  rw [hd]
  simp [err, Err.isPanic]

/-! ### non-vacuity: a concrete history -/

def params0 : Params := { lock := 5, minColl := 10, window := 3, aggRes := 50, threshold := 50, eps1 := 1, eps2 := 1, expDur := 100 }

def ledger0 : Ledger :=
  { posts := [("alice", "uctk", 1000), ("bob", "uctk", 1000), ("carol", "uctk", 500), ("carol", "uatom", 300)], supply := [] }

def env (h : Int) : Env := { h := h, t := 10 * h, bond := "uctk", modAddr := "oracle" }

/-- two operators; a task with a two-denomination bounty and two responses; a second task without responses; a creation under
    a colliding key, a response from a stranger, a second response, a late response and a deletion by a stranger (all
    refused); two end-blockers; the deletion by the creator -/
def hist : List (Env × Op) :=
  [ (env 1, .createOperator "alice" [("uctk", 100)] "alice"),
    (env 1, .createOperator "bob" [("uctk", 300)] "bob"),
    (env 2, .createTask "ab" "c" [("uctk", 90), ("uatom", 40)] "carol" 3 0),
    (env 2, .createTask "x" "y" [("uctk", 7)] "carol" 2 0),
    (env 2, .createTask "a" "bc" [("uctk", 1)] "carol" 2 0),
    (env 3, .respond "ab" "c" 80 "alice"),
    (env 3, .respond "ab" "c" 60 "bob"),
    (env 3, .respond "ab" "c" 70 "carol"),
    (env 3, .respond "ab" "c" 90 "alice"),
    (env 4, .endBlock),
    (env 5, .endBlock),
    (env 6, .respond "ab" "c" 10 "bob"),
    (env 6, .deleteTask "ab" "c" true "mallory"),
    (env 6, .deleteTask "ab" "c" true "carol") ]

def r0 : Run := Run.init ledger0 params0

/-- the start satisfies the invariant and the history is timed: the hypotheses of every theorem above hold -/
example : Inv "uctk" 0 r0 ∧ Timed "uctk" 0 hist := ⟨inv_init _ _ _ _ (by decide) (by decide), by decide⟩

def at_ (n : Nat) : Run := (hist.take n).foldl runStep r0

set_option maxRecDepth 100000 in
/-- operations refused before any end-blocker, each with the reason: the colliding key ("a","bc") names the open task
    ("ab","c"); a stranger's response; a second response of the same operator -/
example :
    refusal (env 2) (at_ 4) (.createTask "a" "bc" [("uctk", 1)] "carol" 2 0) = some "oracle:task-not-closed" ∧
    refusal (env 3) (at_ 7) (.respond "ab" "c" 70 "carol") = some "oracle:unqualified-operator" ∧
    refusal (env 3) (at_ 8) (.respond "ab" "c" 90 "alice") = some "oracle:duplicate-response" := by decide

set_option maxRecDepth 100000 in
/-- before the end-blockers: both tasks are pending, nothing has been scored or credited, the two accepted responses are
    the logged ones -/
example :
    ((findTask (at_ 9).s "xy").map (fun t => (t.status, t.closing, t.responses.length))) = some (1, 4, 0) ∧
    ((findTask (at_ 9).s "abc").map (fun t => (t.status, t.closing, t.responses.map rsig))) =
      some (1, 5, [("alice", 80), ("bob", 60)]) ∧
    (at_ 9).aggCount "abc" = 0 ∧ (at_ 9).paid "abc" "uctk" = 0 ∧
    ((at_ 9).respLog.map (fun ev => (ev.key, ev.op, ev.score, ev.h, ev.wasOp))) =
      [("abc", "alice", 80, 3, true), ("abc", "bob", 60, 3, true)] := by decide

set_option maxRecDepth 100000 in
/-- non-vacuity of `no_response_task_fails`: before the end-blocker of block 4 the task "xy" is pending without responses -/
example : ∃ t, findTask (at_ 9).s ("x" ++ "y") = some t ∧ t.status = 1 ∧ t.responses = [] := by
  have h : ((findTask (at_ 9).s ("x" ++ "y")).map (fun t => (t.status, t.responses.length))) = some (1, 0) := by decide
  cases hf : findTask (at_ 9).s ("x" ++ "y") with
  | none => rw [hf] at h; cases h
  | some t =>
    rw [hf] at h
    simp only [Option.map_some, Option.some.injEq, Prod.mk.injEq] at h
    exact ⟨t, rfl, h.1, List.length_eq_zero_iff.mp h.2⟩

/-- the same history without the task "xy" (the kernel cannot evaluate `String.startsWith`, which the end-blocker calls on the
    error "oracle:task-failed", so `decide` stops at the end-blocker of block 4 of `hist`; what happens to "xy" there is
    `no_response_task_fails`, whose hypotheses the state `at_ 9` satisfies by the example above: it ends failed with the
    default result 50 and nothing is credited) -/
def histB : List (Env × Op) :=
  [ (env 1, .createOperator "alice" [("uctk", 100)] "alice"),
    (env 1, .createOperator "bob" [("uctk", 300)] "bob"),
    (env 2, .createTask "ab" "c" [("uctk", 90), ("uatom", 40)] "carol" 3 0),
    (env 3, .respond "ab" "c" 80 "alice"),
    (env 3, .respond "ab" "c" 60 "bob"),
    (env 4, .endBlock),
    (env 5, .endBlock),
    (env 6, .respond "ab" "c" 10 "bob"),
    (env 6, .deleteTask "ab" "c" true "mallory"),
    (env 6, .deleteTask "ab" "c" true "carol") ]

def atB (n : Nat) : Run := (histB.take n).foldl runStep r0

example : Timed "uctk" 0 histB := by decide

set_option maxRecDepth 100000 in
/-- the end-blocker of block 4 leaves the task pending; the end-blocker of its closing block 5 scores it with the
    collateral-weighted mean 65 = (80·100 + 60·300) / 400 and pays 35 + 54 = 89 of 90 uctk and 15 + 24 = 39 of 40 uatom; it
    left `pending` exactly once -/
example :
    ((findTask (atB 6).s "abc").map (·.status)) = some 1 ∧
    ((findTask (atB 7).s "abc").map (fun t => (t.status, t.result, t.responses.map rsig))) =
      some (2, 65, [("alice", 80), ("bob", 60)]) ∧
    (atB 6).aggCount "abc" = 0 ∧ (atB 7).aggCount "abc" = 1 ∧
    (atB 7).paid "abc" "uctk" = 89 ∧ (atB 7).paid "abc" "uatom" = 39 ∧
    ((findOp (atB 7).s "alice").map (fun o => (Coins.amountOf o.rew "uctk", Coins.amountOf o.rew "uatom"))) = some (35, 15) ∧
    ((findOp (atB 7).s "bob").map (fun o => (Coins.amountOf o.rew "uctk", Coins.amountOf o.rew "uatom"))) = some (54, 24) := by
  decide

set_option maxRecDepth 100000 in
/-- after the closing block: a late response and a deletion by a stranger are refused, the creator's deletion is accepted;
    the module account then holds 490 uctk against 400 of collateral and 89 of accumulated rewards — the rounding unit stays
    in the account for good (figures only: `module_funded` is not proved) -/
example :
    refusal (env 6) (atB 7) (.respond "ab" "c" 10 "bob") = some "oracle:task-closed" ∧
    refusal (env 6) (atB 8) (.deleteTask "ab" "c" true "mallory") = some "oracle:not-creator" ∧
    refusal (env 6) (atB 9) (.deleteTask "ab" "c" true "carol") = none ∧
    (findTask (atB 10).s "abc").isNone = true ∧
    (atB 10).l.balOf "oracle" "uctk" = 490 ∧ collSum (atB 10).s.ops "uctk" = 400 ∧ rewSum (atB 10).s.ops "uctk" = 89 ∧
    (atB 10).l.balOf "oracle" "uatom" = 40 ∧ rewSum (atB 10).s.ops "uatom" = 39 := by decide

end Shentu.Props.C15H

#print axioms Shentu.Props.C15H.task_ids_not_injective
#print axioms Shentu.Props.C15H.distinct_ids_distinct_tasks_fails
#print axioms Shentu.Props.C15H.aggregated_at_most_once
#print axioms Shentu.Props.C15H.leaves_pending_only_at_closing
#print axioms Shentu.Props.C15H.finished_never_changes
#print axioms Shentu.Props.C15H.finished_never_changes_untimed_fails
#print axioms Shentu.Props.C15H.responses_only_while_open
#print axioms Shentu.Props.C15H.rewards_within_bounty
#print axioms Shentu.Props.C15H.rewards_credited_once
#print axioms Shentu.Props.C15H.only_creator_deletes
#print axioms Shentu.Props.C15H.replaced_only_after_closing
#print axioms Shentu.Props.C15H.no_response_task_fails
#print axioms Shentu.C15HH.inv_step
#print axioms Shentu.C15HH.inv_init
