import Shentu.EVM.MemSpec
import Shentu.Arith.Spec
import Shentu.Proofs.C16mRep
/-
  C16 (machine instructions) — Contracts compute what the EVM specification says: memory, stack, data reads, jumps.

  `Shentu/EVM/MemSpec.lean` is an independent specification: memory as a total function from addresses to bytes plus a
  number of active words, the stack as a list with a size limit, byte strings read with zero padding, valid jump
  destinations by scanning the code from position 0.  This file proves that the interpreter model's functions
  (`Shentu/EVM/Impl.lean`: `memWrite`, `memRead`, `expandMemory`, `execRegular`, `execFree`, `jumpTo`, `step`) compute what
  that specification says, for all memories, offsets, values and lengths, and states the recorded deviations of the
  implementation (`Quirks.impl`) as theorems next to the specification-mode facts.

  How a model memory is related to a specification memory: `Rep b m` says that the byte array `b` has exactly
  `32 * m.words` bytes and holds `m.byte i` at every address `i` (zero beyond its end).  The fresh memory represents the
  empty specification memory (`rep_empty`) and every memory instruction preserves the relation (`*_refines`).
  An instruction is run as the interpreter runs it: `expandMemory need` (the growth the cost lookup asks for, `memNeed` =
  `calcMemSize64` rounded up to words) followed by the instruction body.

  Assumed in the statements (each one explicit): the access ends at or below the model's memory cap (`memCap` = 16 MiB;
  beyond it the model raises an error or, in specification mode, a cost no gas covers — `write_beyond_cap`); the frame has
  the gas for its stack operations (Burrow charges one unit per push / pop); no error is pending.
  Not covered here: the gas charged for memory growth (C17), and the path from `gasLookUp` to `memNeed` (the table rows
  of MLOAD / MSTORE / MSTORE8 / the copy instructions name the operands `memNeed` is applied to).
-/
namespace Shentu.Props.C16m
open Shentu Shentu.EVM Shentu.EVM.MemSpec Shentu.C16mH Shentu.C16mJ

-- ---------------------------------------------------------------- byte strings

/-- MSTORE's operand bytes are the 32 big-endian bytes of the word. -/
theorem natBE_is_wordBytes (v : Nat) : bl (natBE v 32) = wordBytes v := bl_natBE v 32 (by decide)

/-- Reading a byte string back as a word (`word`, what MLOAD / CALLDATALOAD / PUSH push) is its big-endian value. -/
theorem word_is_bytesWord (b : ByteArray) : word b = bytesWord (bl b) := word_eq b

/-- The model's zero-padded slice is the specification's zero-padded read, for every offset and every length below 2^65. -/
theorem extractPad_is_readPad (b : ByteArray) (off len : Nat) (hlen : len < 2 ^ 65) :
    bl (extractPad b off len) = readPad (bl b) off len := bl_extractPad b off len hlen

-- ---------------------------------------------------------------- the specification's own algebra

/-- Specification: MLOAD after MSTORE at the same offset returns the stored word. -/
theorem spec_mload_mstore (m : Mem) (o v : Nat) : ((m.mstore o v).mload o).1 = v % 2 ^ 256 := by
  have := read_write_same m o (wordBytes v)
  rw [length_wordBytes] at this
  simp only [Mem.mload, Mem.mstore, this, bytesWord_wordBytes]

/-- Specification: MLOAD of memory that was never written returns 0. -/
theorem spec_mload_empty (o : Nat) : (Mem.empty.mload o).1 = 0 := by
  simp only [Mem.mload, Mem.read, Mem.empty]
  exact bytesWord_zeros 32

/-- Specification: MSTORE at `o` leaves every byte outside `[o, o+32)` unchanged. -/
theorem spec_mstore_frame (m : Mem) (o v i : Nat) (h : i < o ∨ o + 32 ≤ i) : (m.mstore o v).byte i = m.byte i := by
  apply write_byte_out
  rw [length_wordBytes]; exact h

/-- Specification: MSTORE8 writes the low byte of the word at `o` and nothing else. -/
theorem spec_mstore8 (m : Mem) (o v : Nat) :
    (m.mstore8 o v).byte o = (v % 256).toUInt8 ∧ ∀ i, i ≠ o → (m.mstore8 o v).byte i = m.byte i := by
  constructor
  · rw [Mem.mstore8, write_byte_in m o _ o (Nat.le_refl _) (by simp)]; simp
  · intro i hi
    apply write_byte_out
    simp only [List.length_cons, List.length_nil]; omega

/-- Specification: two writes compose as on byte arrays — the later write wins where they overlap. -/
theorem spec_write_write (m : Mem) (o1 o2 : Nat) (b1 b2 : List Byte) (i : Nat) :
    ((m.write o1 b1).write o2 b2).byte i =
      if o2 ≤ i ∧ i < o2 + b2.length then b2.getD (i - o2) 0
      else if o1 ≤ i ∧ i < o1 + b1.length then b1.getD (i - o1) 0 else m.byte i := rfl

/-- Specification: after an access of positive length the size (MSIZE) is a multiple of 32, covers the old size and the
    end of the access, and is the smallest such number. -/
theorem spec_touch_least (m : Mem) (o len : Nat) (hl : 0 < len) :
    (m.touch o len).size = 32 * (m.touch o len).words ∧ m.size ≤ (m.touch o len).size ∧ o + len ≤ (m.touch o len).size ∧
      ∀ k, m.size ≤ 32 * k → o + len ≤ 32 * k → (m.touch o len).size ≤ 32 * k := by
  have h0 : ¬ len = 0 := by omega
  simp only [Mem.touch, h0, if_false, Mem.size, ceil32]
  refine ⟨trivial, by omega, by omega, ?_⟩
  intro k h1 h2
  omega

/-- Specification: an access of length 0 does not touch the memory. -/
theorem spec_touch_zero (m : Mem) (o : Nat) : m.touch o 0 = m := rfl

-- ---------------------------------------------------------------- memory: the model refines the specification

/-- The memory of a fresh frame represents the empty specification memory. -/
theorem rep_fresh : Rep ({ gas := 0 } : Frame).mem Mem.empty := rep_empty

/-- MSTORE (either mode): after the memory expansion the cost lookup asks for, the instruction pops offset and value,
    and the new memory represents the specification's `mstore`; no error is raised. -/
theorem mstore_refines (child : ChildFn) (env : Env) (s : Frame) (m : Mem) (o v : Nat) (r : List Nat)
    (hr : Rep s.mem m) (he : s.err = none) (hs : s.stack = o :: v :: r) (hg : 2 ≤ s.gas) (hcap : o + 32 ≤ memCap) :
    ∃ s', ((expandMemory (memNeed o 32) >>= fun _ => execRegular child env 0x52) s).val = (some Ctl.next, s') ∧
      Rep s'.mem (m.mstore o v) ∧ s'.stack = r ∧ s'.err = none := by
  have hsz : (natBE v 32).size = 32 := size_natBE v 32 (by decide)
  show ∃ s', (M.bind (expandMemory _) _ s).val = _ ∧ _
  rw [bind_val (expand_val _ s he (memNeed_le o 32 (by decide) hcap))]
  have hx := mstore_exec child env
    { s with
        mem := grow s.mem (memNeed o 32)
        bigAlloc := if memNeed o 32 ≤ s.mem.size then s.bigAlloc else max s.bigAlloc (memNeed o 32 - s.mem.size) }
    o v r hs hg
  rw [hx]
  dsimp only
  show ∃ s', (M.bind (memWrite _ _ _) _ _).val = _ ∧ _
  rw [bind_val (memWrite_ok _ _ _ _ (Or.inl (by omega)) (by omega))]
  refine ⟨_, rfl, ?_, rfl, he⟩
  have := rep_access_write hr o (natBE v 32) (by omega) (by omega)
  rw [hsz, natBE_is_wordBytes] at this
  exact this

/-- MSTORE8 (either mode): the new memory represents the specification's `mstore8`. -/
theorem mstore8_refines (child : ChildFn) (env : Env) (s : Frame) (m : Mem) (o v : Nat) (r : List Nat)
    (hr : Rep s.mem m) (he : s.err = none) (hs : s.stack = o :: v :: r) (hg : 2 ≤ s.gas) (hcap : o + 1 ≤ memCap) :
    ∃ s', ((expandMemory (memNeed o 1) >>= fun _ => execRegular child env 0x53) s).val = (some Ctl.next, s') ∧
      Rep s'.mem (m.mstore8 o v) ∧ s'.stack = r ∧ s'.err = none := by
  have hsz : (natBE (v % 256) 1).size = 1 := size_natBE _ 1 (by decide)
  show ∃ s', (M.bind (expandMemory _) _ s).val = _ ∧ _
  rw [bind_val (expand_val _ s he (memNeed_le o 1 (by decide) hcap))]
  have hx := mstore8_exec child env
    { s with
        mem := grow s.mem (memNeed o 1)
        bigAlloc := if memNeed o 1 ≤ s.mem.size then s.bigAlloc else max s.bigAlloc (memNeed o 1 - s.mem.size) }
    o v r hs hg
  rw [hx]
  dsimp only
  show ∃ s', (M.bind (memWrite _ _ _) _ _).val = _ ∧ _
  rw [bind_val (memWrite_ok _ _ _ _ (Or.inl (by omega)) (by omega))]
  refine ⟨_, rfl, ?_, rfl, he⟩
  have := rep_access_write hr o (natBE (v % 256) 1) (by omega) (by omega)
  rw [hsz, bl_natBE _ 1 (by decide), beBytes_one] at this
  exact this

/-- MLOAD (either mode): the word pushed is the specification's, and the memory afterwards represents the
    specification's memory after the read (the active words may have grown). -/
theorem mload_refines (child : ChildFn) (env : Env) (s : Frame) (m : Mem) (o : Nat) (r : List Nat)
    (hr : Rep s.mem m) (he : s.err = none) (hs : s.stack = o :: r) (hg : 2 ≤ s.gas) (hcap : o + 32 ≤ memCap) :
    ∃ s', ((expandMemory (memNeed o 32) >>= fun _ => execRegular child env 0x51) s).val = (some Ctl.next, s') ∧
      s'.stack = (m.mload o).1 :: r ∧ Rep s'.mem (m.mload o).2 ∧ s'.err = none := by
  have hc := memCap_val
  have h1 := memNeed_le o 32 (by decide) hcap
  have h2 := memNeed_ge o 32 (by decide) hcap
  have hrep := rep_grow_need hr o 32 (by decide) hcap
  have hgw : grow (grow s.mem (memNeed o 32)) (o + 32) = grow s.mem (memNeed o 32) := by
    apply grow_within; rw [size_grow _ _ (by omega)]; omega
  show ∃ s', (M.bind (expandMemory _) _ s).val = _ ∧ _
  rw [bind_val (expand_val _ s he h1)]
  have hx := mload_exec child env
    { s with
        mem := grow s.mem (memNeed o 32)
        bigAlloc := if memNeed o 32 ≤ s.mem.size then s.bigAlloc else max s.bigAlloc (memNeed o 32 - s.mem.size) }
    o r hs (by dsimp only; omega)
  rw [hx]
  dsimp only
  show ∃ s', (M.bind (memRead _ _ _) _ _).val = _ ∧ _
  rw [bind_val (memRead_ok _ _ _ _ (Or.inl (by decide)) hcap)]
  show ∃ s', (M.bind (push _) _ _).val = _ ∧ _
  rw [bind_val (push_ok _ _ (by simp only []; omega))]
  refine ⟨_, rfl, ?_, ?_, he⟩
  · have hb := bl_read_rep hrep o 32 (by omega)
    rw [hgw] at hb
    simp only [hgw, word_eq, Mem.mload, hb]
    rfl
  · simp only [hgw, Mem.mload, Mem.read]
    exact hrep

/-- MSIZE pushes the capacity of the model memory, which under `Rep` is the specification's size. -/
theorem msize_refines (child : ChildFn) (env : Env) (s : Frame) (m : Mem) (hr : Rep s.mem m) (hg : 1 ≤ s.gas) :
    (execRegular child env 0x59 s).val = (some Ctl.next, { s with gas := s.gas - 1, stack := m.size :: s.stack }) := by
  rw [msize_exec child env s hg, hr.1]; rfl

/-- A write that ends beyond the memory cap (no 64-bit wrap-around) raises an error and writes nothing, in either mode. -/
theorem write_beyond_cap (q : Quirks) (o : Nat) (v : ByteArray) (s : Frame) (hv : 0 < v.size)
    (h64 : o + v.size < U64) (hcap : memCap < o + v.size) (hsz : s.mem.size < o + v.size) :
    (memWrite q o v s).val = (pushErr .generic s).val := memWrite_beyond q o v s hv h64 hcap hsz

/-- Specification mode: a zero-length access needs no memory and `memWrite` leaves the memory as it is. -/
theorem zero_length_spec (o : Nat) (v : ByteArray) (s : Frame) (hv : v.size = 0) :
    memNeed o 0 = 0 ∧ ∃ s', (memWrite Quirks.spec o v s).val = (some (), s') ∧ s'.mem = s.mem ∧ s'.err = s.err := by
  refine ⟨memNeed_zero o, ?_⟩
  rw [memWrite_zero_spec Quirks.spec o v s rfl hv]
  exact ⟨_, rfl, rfl, rfl⟩

/-- The implementation BEFORE the repair (`Quirks.implBeforeZeroLenFix`; was the recorded deviation `zero_length_grows_memory`): a
    zero-length write at an offset beyond the capacity grew the memory to exactly that offset — MSIZE then reported `o`, which
    need not be a multiple of 32, and nothing had been paid for it. -/
theorem zero_length_grows_memory_before_fix (o : Nat) (v : ByteArray) (s : Frame) (hv : v.size = 0) (ho : s.mem.size < o)
    (hcap : o ≤ memCap) :
    ∃ s', (memWrite Quirks.implBeforeZeroLenFix o v s).val = (some (), s') ∧ s'.mem.size = o := by
  rw [memWrite_ok Quirks.implBeforeZeroLenFix o v s (Or.inr rfl) (by omega)]
  refine ⟨_, rfl, ?_⟩
  have hc := memCap_val
  simp only []
  rw [size_wr _ _ _ (by omega)]
  omega

/-- The implementation as it is now: a zero-length write touches nothing, as in the specification. -/
theorem zero_length_impl (o : Nat) (v : ByteArray) (s : Frame) (hv : v.size = 0) :
    ∃ s', (memWrite Quirks.impl o v s).val = (some (), s') ∧ s'.mem = s.mem ∧ s'.err = s.err := by
  rw [memWrite_zero_spec Quirks.impl o v s rfl hv]
  exact ⟨_, rfl, rfl, rfl⟩

-- ---------------------------------------------------------------- data reads

/-- CALLDATALOAD, specification mode: the word pushed is the 32 bytes from the offset, zero padded beyond the end of
    the call data — for every offset, also those of 2^64 and more. -/
theorem calldataload_refines (child : ChildFn) (env : Env) (s : Frame) (off : Nat) (r : List Nat)
    (hq1 : env.q.readBeyondErr = false) (hq2 : env.q.dataOffsetU64 = false) (hs : s.stack = off :: r) (hg : 2 ≤ s.gas) :
    ∃ s', (execRegular child env 0x35 s).val = (some Ctl.next, s') ∧
      s'.stack = dataLoad (bl env.input) off :: r ∧ s'.err = s.err ∧ s'.mem = s.mem := by
  obtain ⟨s', h1, h2⟩ := calldataload_spec child env s off r hq1 hq2 hs hg
  refine ⟨s', h1, ?_, h2.2.1, h2.2.2.2.1⟩
  rw [h2.2.2.1]
  simp only [word_eq, bl_extractPad _ _ _ (by decide : 32 < 2 ^ 65), dataLoad]

/-- CALLDATALOAD as implemented (recorded deviation `read_beyond_data`): an offset beyond the call data raises
    InputOutOfBounds instead of pushing 0. -/
theorem calldataload_impl_fails (child : ChildFn) (env : Env) (s : Frame) (off : Nat) (r : List Nat)
    (hq1 : env.q.readBeyondErr = true) (hs : s.stack = off :: r) (hg : 2 ≤ s.gas) (he : s.err = none)
    (h64 : off < U64) (hoff : env.input.size < off) :
    (execRegular child env 0x35 s).val =
      (some Ctl.next, { s with gas := s.gas - 2, stack := 0 :: r, err := some .inputOutOfBounds }) :=
  calldataload_impl_beyond child env s off r hq1 hs hg he h64 hoff

/-- CALLDATALOAD as implemented, offset within the call data (or at its end): the specification's zero-padded word. -/
theorem calldataload_impl_agrees (child : ChildFn) (env : Env) (s : Frame) (off : Nat) (r : List Nat)
    (hq1 : env.q.readBeyondErr = true) (hs : s.stack = off :: r) (hg : 2 ≤ s.gas)
    (hoff : off ≤ env.input.size) (hsz : env.input.size < 2 ^ 63) :
    (execRegular child env 0x35 s).val =
      (some Ctl.next, { s with gas := s.gas - 2, stack := dataLoad (bl env.input) off :: r }) :=
  calldataload_impl_within child env s off r hq1 hs hg hoff hsz

/-- The implementation's slice function reports an error for every offset beyond the data (the root of the deviation
    for CALLDATACOPY / CODECOPY / EXTCODECOPY), and otherwise returns the specification's zero-padded bytes. -/
theorem subslice_behaviour (data : ByteArray) (off len : Nat) :
    (data.size < off → subslice data off len = .err) ∧
    (off ≤ data.size → off + len < U64 → len ≤ memCap → ∃ b, subslice data off len = .ok b ∧ bl b = readPad (bl data) off len) :=
  ⟨subslice_err data off len, subslice_ok data off len⟩

/-- CALLDATACOPY / CODECOPY body, specification mode: with a positive length inside the memory cap, the memory
    afterwards represents the specification's `copyIn` (bytes beyond the end of the data are zeros). -/
theorem copy_refines (q : Quirks) (src : ByteArray) (s : Frame) (m : Mem) (memOff off len : Nat) (r : List Nat)
    (hq1 : q.readBeyondErr = false) (hq2 : q.dataOffsetU64 = false) (hr : Rep s.mem m) (he : s.err = none)
    (hs : s.stack = memOff :: off :: len :: r) (hg : 3 ≤ s.gas) (hl : 0 < len) (hcap : memOff + len ≤ memCap) :
    ∃ s', ((expandMemory (memNeed memOff len) >>= fun _ => copyToMem q src) s).val = (some Ctl.next, s') ∧
      Rep s'.mem (m.copyIn memOff (bl src) off len) ∧ s'.stack = r ∧ s'.err = none := by
  have hc := memCap_val
  have hlen : len ≤ memCap := by omega
  have hsz : (extractPad src off len).size = len := by
    rw [← bl_length, bl_extractPad _ _ _ (by omega), length_readPad]
  show ∃ s', (M.bind (expandMemory _) _ s).val = _ ∧ _
  rw [bind_val (expand_val _ s he (memNeed_le memOff len hl hcap))]
  obtain ⟨s1, hs1, hrun⟩ := copyToMem_spec q src
    { s with
        mem := grow s.mem (memNeed memOff len)
        bigAlloc := if memNeed memOff len ≤ s.mem.size then s.bigAlloc else max s.bigAlloc (memNeed memOff len - s.mem.size) }
    memOff off len r hq1 hq2 hs hg hlen
  rw [hrun]
  dsimp only at hs1
  show ∃ s', (M.bind (memWrite _ _ _) _ _).val = _ ∧ _
  rw [bind_val (memWrite_ok _ _ _ _ (Or.inl (by omega)) (by omega))]
  refine ⟨_, rfl, ?_, hs1.2.2.1, hs1.2.1.trans he⟩
  have := rep_access_write hr memOff (extractPad src off len) (by omega) (by omega)
  rw [hsz, bl_extractPad _ _ _ (by omega)] at this
  simp only [hs1.2.2.2.1]
  exact this

/-- CALLDATACOPY and CODECOPY run `copyToMem` on the call data and on the code. -/
theorem copy_instructions (child : ChildFn) (env : Env) :
    execRegular child env 0x37 = copyToMem env.q env.input ∧ execRegular child env 0x39 = copyToMem env.q env.code :=
  ⟨execRegular_calldatacopy child env, execRegular_codecopy child env⟩

/-- RETURNDATACOPY (both modes, EIP-211): reading beyond the end of the return data fails with ReturnDataOutOfBounds,
    exactly when the specification's `returnDataCopy` fails. -/
theorem returndatacopy_out_of_range (child : ChildFn) (env : Env) (s : Frame) (m : Mem) (memOff off len : Nat) (r : List Nat)
    (hs : s.stack = memOff :: off :: len :: r) (hg : 3 ≤ s.gas) (he : s.err = none) (h : s.retBuf.size < off + len) :
    m.returnDataCopy memOff (bl s.retBuf) off len = none ∧
    (execFree child env 0x3e s).val =
      (some Ctl.jumped, { s with gas := s.gas - 3, stack := r, err := some .returnDataOutOfBounds }) := by
  refine ⟨?_, returndatacopy_beyond child env s memOff off len r hs hg he (Or.inr h)⟩
  unfold Mem.returnDataCopy
  rw [if_neg (by rw [bl_length]; omega)]

/-- RETURNDATACOPY within the return data, positive length: the memory afterwards represents the specification's. -/
theorem returndatacopy_refines (child : ChildFn) (env : Env) (s : Frame) (m : Mem) (memOff off len : Nat) (r : List Nat)
    (hr : Rep s.mem m) (he : s.err = none) (hs : s.stack = memOff :: off :: len :: r) (hg : 3 ≤ s.gas) (hl : 0 < len)
    (hcap : memOff + len ≤ memCap) (h1 : off + len < U64) (h2 : off + len ≤ s.retBuf.size) :
    ∃ s', ((expandMemory (memNeed memOff len) >>= fun _ => execFree child env 0x3e) s).val = (some Ctl.next, s') ∧
      some s'.mem.size = (m.returnDataCopy memOff (bl s.retBuf) off len).map (·.size) ∧
      (∃ m', m.returnDataCopy memOff (bl s.retBuf) off len = some m' ∧ Rep s'.mem m') ∧ s'.stack = r ∧ s'.err = none := by
  have hc := memCap_val
  have hsz : (s.retBuf.extract off (off + len)).size = len := by rw [ByteArray.size_extract]; omega
  have hspec : m.returnDataCopy memOff (bl s.retBuf) off len = some (m.write memOff (readPad (bl s.retBuf) off len)) := by
    unfold Mem.returnDataCopy; rw [if_pos (by rw [bl_length]; exact h2)]
  show ∃ s', (M.bind (expandMemory _) _ s).val = _ ∧ _
  rw [bind_val (expand_val _ s he (memNeed_le memOff len hl hcap))]
  have hw := returndatacopy_within child env
    { s with
        mem := grow s.mem (memNeed memOff len)
        bigAlloc := if memNeed memOff len ≤ s.mem.size then s.bigAlloc else max s.bigAlloc (memNeed memOff len - s.mem.size) }
    memOff off len r hs hg h1 h2
  rw [hw]
  dsimp only
  show ∃ s', (M.bind (memWrite _ _ _) _ _).val = _ ∧ _
  rw [bind_val (memWrite_ok _ _ _ _ (Or.inl (by omega)) (by omega))]
  have := rep_access_write hr memOff (s.retBuf.extract off (off + len)) (by omega) (by omega)
  rw [hsz, bl_extract_readPad _ _ _ h2] at this
  refine ⟨_, rfl, ?_, ⟨_, hspec, this⟩, rfl, he⟩
  rw [hspec]
  simp only [Option.map_some, this.1, Mem.size]

-- ---------------------------------------------------------------- BYTE

/-- BYTE as the interpreter model computes it (`execRegular` 0x1a) is the specification's BYTE: the i-th most significant
    byte for i < 32, 0 otherwise.  (The Go case itself is covered by `C16.refines_BYTE`.) -/
theorem byte_model (i x : BitVec 256) :
    (if i.toNat < 32 then (x.toNat / 256 ^ (31 - i.toNat)) % 256 else 0) = (Arith.Spec.byte i x).toNat := by
  unfold Arith.Spec.byte
  by_cases hi : i.toNat < 32
  · simp only [hi, if_true, BitVec.toNat_and, BitVec.toNat_ushiftRight, Nat.shiftRight_eq_div_pow]
    have e1 : (255#256).toNat = 2 ^ 8 - 1 := by decide
    have e2 : 2 ^ (8 * (31 - i.toNat)) = 256 ^ (31 - i.toNat) := by rw [Nat.pow_mul]
    rw [e1, Nat.and_two_pow_sub_one_eq_mod, e2]
  · simp only [hi, if_false]; rfl

-- ---------------------------------------------------------------- the stack

/-- POP removes the top item, as the specification's `pop`. -/
theorem pop_refines (child : ChildFn) (env : Env) (s : Frame) (x : Nat) (r : List Nat) (hs : s.stack = x :: r) (hg : 1 ≤ s.gas) :
    Stack.pop s.stack = some (x, r) ∧
    (execRegular child env 0x50 s).val = (some Ctl.next, { s with gas := s.gas - 1, stack := r }) :=
  ⟨by rw [hs]; rfl, pop_exec child env s x r hs hg⟩

/-- DUPn (opcode 0x80 + n - 1) on a stack of at least n items, below the limit: the specification's `dup`. -/
theorem dup_refines (child : ChildFn) (env : Env) (s : Frame) (op limit : Nat) (h1 : 0x80 ≤ op) (h2 : op ≤ 0x8f)
    (hn : op - 0x80 + 1 ≤ s.stack.length) (hlim : s.stack.length < limit) (hg : 2 ≤ s.gas) :
    ∃ st', Stack.dup limit s.stack (op - 0x80 + 1) = some st' ∧
      (execRegular child env op s).val = (some Ctl.next, { s with gas := s.gas - 2, stack := st' }) := by
  rw [dup_exec child env s op h1 h2]
  show ∃ st', _ ∧ (M.bind (dup _) _ s).val = _
  rw [bind_val (dup_ok s _ hn hg)]
  have hlt : op - 0x80 + 1 - 1 < s.stack.length := by omega
  refine ⟨_, ?_, rfl⟩
  unfold Stack.dup Stack.push
  rw [List.getElem?_eq_getElem hlt]
  simp only [hlim, if_true, List.getD_eq_getElem?_getD, List.getElem?_eq_getElem hlt, Option.getD_some]

/-- DUPn on a stack of fewer than n items: the specification fails, the model raises DataStackUnderflow. -/
theorem dup_underflows (child : ChildFn) (env : Env) (s : Frame) (op limit : Nat) (h1 : 0x80 ≤ op) (h2 : op ≤ 0x8f)
    (hn : s.stack.length < op - 0x80 + 1) (hg : 1 ≤ s.gas) (he : s.err = none) :
    Stack.dup limit s.stack (op - 0x80 + 1) = none ∧
      (execRegular child env op s).val = (some Ctl.next, { s with gas := s.gas - 1, err := some .dataStackUnderflow }) := by
  constructor
  · unfold Stack.dup
    rw [List.getElem?_eq_none (by omega)]
  · rw [dup_exec child env s op h1 h2]
    show (M.bind (dup _) _ s).val = _
    rw [bind_val (dup_underflow s _ hn hg he)]
    rfl

/-- SWAPn (opcode 0x90 + n - 1) on a stack of at least n + 1 items: the specification's `swap`. -/
theorem swap_refines (child : ChildFn) (env : Env) (s : Frame) (op : Nat) (h1 : 0x90 ≤ op) (h2 : op ≤ 0x9f)
    (hn : op - 0x90 + 2 ≤ s.stack.length) (hg : 1 ≤ s.gas) :
    ∃ st', Stack.swap s.stack (op - 0x90 + 1) = some st' ∧
      (execRegular child env op s).val = (some Ctl.next, { s with gas := s.gas - 1, stack := st' }) := by
  rw [swap_exec child env s op h1 h2]
  show ∃ st', _ ∧ (M.bind (swap _) _ s).val = _
  rw [bind_val (swap_ok s _ hn hg)]
  have h0 : 0 < s.stack.length := by omega
  have hk : op - 0x90 + 1 < s.stack.length := by omega
  refine ⟨_, ?_, rfl⟩
  unfold Stack.swap
  rw [List.getElem?_eq_getElem h0, List.getElem?_eq_getElem hk]
  simp only [List.getD_eq_getElem?_getD, List.getElem?_eq_getElem h0, Option.getD_some,
    show op - 0x90 + 2 - 1 = op - 0x90 + 1 by omega, List.getElem?_eq_getElem hk]

/-- SWAPn on a stack that is too short: the specification fails, the model raises DataStackUnderflow. -/
theorem swap_underflows (child : ChildFn) (env : Env) (s : Frame) (op : Nat) (h1 : 0x90 ≤ op) (h2 : op ≤ 0x9f)
    (hn : s.stack.length < op - 0x90 + 2) (hg : 1 ≤ s.gas) (he : s.err = none) :
    Stack.swap s.stack (op - 0x90 + 1) = none ∧
      (execRegular child env op s).val = (some Ctl.next, { s with gas := s.gas - 1, err := some .dataStackUnderflow }) := by
  constructor
  · unfold Stack.swap
    rw [List.getElem?_eq_none (l := s.stack) (i := op - 0x90 + 1) (by omega)]
    split <;> simp_all
  · rw [swap_exec child env s op h1 h2]
    show (M.bind (swap _) _ s).val = _
    rw [bind_val (swap_underflow s _ hn hg he)]
    rfl

/-- PUSHn (opcode 0x60 + n - 1) at position `pc`: pushes the n bytes after the opcode as a big-endian word, zero padded
    where the code ends, and moves the program counter over them (the main loop then adds 1). -/
theorem push_refines (child : ChildFn) (env : Env) (s : Frame) (op limit : Nat) (h1 : 0x60 ≤ op) (h2 : op ≤ 0x7f)
    (hpc : s.pc < env.code.size) (hsz : env.code.size < 2 ^ 63) (hg : 1 ≤ s.gas) (hlim : s.stack.length < limit) :
    Stack.push limit s.stack (pushValue (bl env.code) s.pc (op - 0x60 + 1)) =
        some (pushValue (bl env.code) s.pc (op - 0x60 + 1) :: s.stack) ∧
    (execRegular child env op s).val =
      (some Ctl.next, { s with gas := s.gas - 1, stack := pushValue (bl env.code) s.pc (op - 0x60 + 1) :: s.stack,
                               pc := s.pc + (op - 0x60 + 1) }) :=
  ⟨by unfold Stack.push; rw [if_pos hlim], push_exec child env s op h1 h2 hpc hsz hg⟩

/-- The 1024-item limit, specification mode: a frame whose stack has grown beyond 1024 items halts with
    DataStackOverflow before its next instruction (only the deviation markers of the frame change). -/
theorem stack_limit_spec (child : ChildFn) (env : Env) (s : Frame) (hq : env.q.noStackLimit = false) (he : s.err = none)
    (hm : outsideModel env s = false) (hl : 1024 < s.stack.length) :
    ∃ s', (step child env s).val = (some (.done .empty (some .dataStackOverflow)), s') ∧ SameButDev s' s :=
  step_stack_limit child env s hq he hm hl

/-- The implementation has no stack limit (recorded deviation `stack_limit`): whatever the depth, the next instruction runs. -/
theorem stack_limit_impl (child : ChildFn) (env : Env) (s : Frame) (hq : env.q.noStackLimit = true) (he : s.err = none)
    (hm : outsideModel env s = false) : step child env s = stepBody child env (opAt env s.pc) s :=
  step_no_limit child env s hq he hm

-- ---------------------------------------------------------------- jumps

/-- The model's jump-destination analysis (`opcodeBits`, Burrow's `opcodeBitset`) marks exactly the positions of
    instructions: those reached by scanning the code from 0 and skipping the immediate bytes of every PUSH. -/
theorem jumpdest_analysis (code : ByteArray) (hsz : code.size < 2 ^ 64) (p : Nat) (hp : p < code.size) :
    ((opcodeBits code).get! p = 1) ↔ IsInstr (bl code) p := opcodeBits_spec code hsz p hp

/-- A jump to a valid destination (a JUMPDEST byte at an instruction position) sets the program counter. -/
theorem jump_valid (child : ChildFn) (env : Env) (s : Frame) (to : Nat) (r : List Nat)
    (hob : env.opBits = opcodeBits env.code) (hsz : env.code.size < 2 ^ 64) (hs : s.stack = to :: r) (hg : 1 ≤ s.gas)
    (h64 : to < U64) (hv : ValidJump (bl env.code) to) :
    (execRegular child env 0x56 s).val = (some Ctl.jumped, { s with gas := s.gas - 1, stack := r, pc := to }) := by
  rw [jump_exec child env s to r hs hg h64]
  show (M.bind (jumpTo _ _) _ _).val = _
  rw [bind_val (jumpTo_valid env _ to hob hsz hv)]
  rfl

/-- A jump to any other position (not a JUMPDEST, inside PUSH data, or beyond the code) raises InvalidJumpDest. -/
theorem jump_invalid (child : ChildFn) (env : Env) (s : Frame) (to : Nat) (r : List Nat)
    (hob : env.opBits = opcodeBits env.code) (hsz : env.code.size < 2 ^ 64) (hs : s.stack = to :: r) (hg : 1 ≤ s.gas)
    (h64 : to < U64) (he : s.err = none) (hv : ¬ ValidJump (bl env.code) to) :
    (execRegular child env 0x56 s).val =
      (some Ctl.jumped, { s with gas := s.gas - 1, stack := r, err := some .invalidJumpDest }) := by
  rw [jump_exec child env s to r hs hg h64]
  show (M.bind (jumpTo _ _) _ _).val = _
  have h := jumpTo_invalid env { s with gas := s.gas - 1, stack := r } to hob hsz hv
  have hp : (pushErr Err.invalidJumpDest { s with gas := s.gas - 1, stack := r }).val =
      (some (), { s with gas := s.gas - 1, stack := r, err := some .invalidJumpDest }) := by
    simp only [pushErr, he]
  rw [bind_val (h.trans hp)]
  rfl

/-- A destination of 2^64 or more, specification mode: an invalid destination like any other (the implementation raises
    IntegerOverflow instead: recorded deviation `data_offset_uint64`). -/
theorem jump_huge (child : ChildFn) (env : Env) (s : Frame) (to : Nat) (r : List Nat) (hs : s.stack = to :: r)
    (hg : 1 ≤ s.gas) (h64 : U64 ≤ to) (hq : env.q.dataOffsetU64 = false) (he : s.err = none) :
    ∃ s', (execRegular child env 0x56 s).val = (some Ctl.jumped, s') ∧
      SameButDev s' { s with gas := s.gas - 1, stack := r, err := some .invalidJumpDest } :=
  jump_huge_spec child env s to r hs hg h64 hq he

/-- JUMPI with condition 0 falls through: both operands are popped and the program counter is left to the main loop. -/
theorem jumpi_falls_through (child : ChildFn) (env : Env) (s : Frame) (to : Nat) (r : List Nat) (hs : s.stack = to :: 0 :: r)
    (hg : 2 ≤ s.gas) :
    (execRegular child env 0x57 s).val = (some Ctl.next, { s with gas := s.gas - 2, stack := r }) :=
  jumpi_zero child env s to r hs hg

/-- JUMPI with a non-zero condition jumps exactly like JUMP. -/
theorem jumpi_jumps (child : ChildFn) (env : Env) (s : Frame) (to c : Nat) (r : List Nat) (hs : s.stack = to :: c :: r)
    (hg : 2 ≤ s.gas) (hc : c ≠ 0) (h64 : to < U64) :
    (execRegular child env 0x57 s).val =
      ((jumpTo env to >>= fun _ => pure Ctl.jumped) { s with gas := s.gas - 2, stack := r }).val :=
  jumpi_taken child env s to c r hs hg hc h64

/-- PC pushes the program counter; JUMPDEST does nothing. -/
theorem pc_and_jumpdest (child : ChildFn) (env : Env) (s : Frame) (hg : 1 ≤ s.gas) :
    (execRegular child env 0x58 s).val = (some Ctl.next, { s with gas := s.gas - 1, stack := s.pc :: s.stack }) ∧
    (execRegular child env 0x5b s).val = (some Ctl.next, s) :=
  ⟨pc_exec child env s hg, jumpdest_exec child env s⟩

-- ---------------------------------------------------------------- the hypotheses are satisfiable (non-vacuity)

/-- a frame with an empty memory, gas and two operands satisfies the hypotheses of `mstore_refines` / `mstore8_refines` -/
example : ∃ (s : Frame) (m : Mem), Rep s.mem m ∧ s.err = none ∧ s.stack = 64 :: 0xabcd :: [] ∧ 2 ≤ s.gas ∧ 64 + 32 ≤ memCap :=
  ⟨{ gas := 10, stack := [64, 0xabcd] }, Mem.empty, rep_empty, rfl, rfl, by decide, by decide⟩

/-- … and of `mload_refines` -/
example : ∃ (s : Frame) (m : Mem), Rep s.mem m ∧ s.err = none ∧ s.stack = 7 :: [] ∧ 2 ≤ s.gas ∧ 7 + 32 ≤ memCap :=
  ⟨{ gas := 10, stack := [7] }, Mem.empty, rep_empty, rfl, rfl, by decide, by decide⟩

/-- the hypotheses of `zero_length_grows_memory_before_fix`: an empty memory and the offset 5 -/
example : ∃ (s : Frame) (v : ByteArray), v.size = 0 ∧ s.mem.size < 5 ∧ 5 ≤ memCap :=
  ⟨{ gas := 0 }, .empty, rfl, by decide, by decide⟩

/-- the hypotheses of `calldataload_refines` hold in specification mode, those of `calldataload_impl_fails` in
    implementation mode (four bytes of call data, offset 9) -/
example : Quirks.spec.readBeyondErr = false ∧ Quirks.spec.dataOffsetU64 = false ∧ Quirks.impl.readBeyondErr = true ∧
    (⟨#[1, 2, 3, 4]⟩ : ByteArray).size < 9 ∧ 9 < U64 := by decide

/-- specification: CALLDATALOAD at offset 2 of the call data 01 02 03 04 is 0x0304 followed by 30 zero bytes -/
example : dataLoad [1, 2, 3, 4] 2 = 0x0304 * 256 ^ 30 := by decide

/-- the hypotheses of `jump_valid` / `jump_invalid`: in PUSH1 0x5b; JUMPDEST position 2 is valid and position 1 is not -/
example : ValidJump (bl exCode) 2 ∧ ¬ ValidJump (bl exCode) 1 := ⟨ex_valid_2, ex_invalid_1⟩

/-- the hypotheses of `stack_limit_spec` / `stack_limit_impl` about the mode -/
example : Quirks.spec.noStackLimit = false ∧ Quirks.impl.noStackLimit = true ∧ Quirks.spec.zeroLenGrows = false ∧
    Quirks.impl.zeroLenGrows = false ∧ Quirks.implBeforeZeroLenFix.zeroLenGrows = true := by decide

/-- specification sanity: DUP2, SWAP1 and a push at the limit -/
example : Stack.dup 1024 [1, 2, 3] 2 = some [2, 1, 2, 3] ∧ Stack.swap [1, 2, 3] 1 = some [2, 1, 3] ∧
    Stack.push 3 [1, 2, 3] 9 = none := by decide

end Shentu.Props.C16m

#print axioms Shentu.Props.C16m.natBE_is_wordBytes
#print axioms Shentu.Props.C16m.word_is_bytesWord
#print axioms Shentu.Props.C16m.extractPad_is_readPad
#print axioms Shentu.Props.C16m.spec_mload_mstore
#print axioms Shentu.Props.C16m.spec_mload_empty
#print axioms Shentu.Props.C16m.spec_mstore_frame
#print axioms Shentu.Props.C16m.spec_mstore8
#print axioms Shentu.Props.C16m.spec_write_write
#print axioms Shentu.Props.C16m.spec_touch_least
#print axioms Shentu.Props.C16m.spec_touch_zero
#print axioms Shentu.Props.C16m.rep_fresh
#print axioms Shentu.Props.C16m.mstore_refines
#print axioms Shentu.Props.C16m.mstore8_refines
#print axioms Shentu.Props.C16m.mload_refines
#print axioms Shentu.Props.C16m.msize_refines
#print axioms Shentu.Props.C16m.write_beyond_cap
#print axioms Shentu.Props.C16m.zero_length_spec
#print axioms Shentu.Props.C16m.zero_length_grows_memory_before_fix
#print axioms Shentu.Props.C16m.zero_length_impl
#print axioms Shentu.Props.C16m.calldataload_refines
#print axioms Shentu.Props.C16m.calldataload_impl_fails
#print axioms Shentu.Props.C16m.calldataload_impl_agrees
#print axioms Shentu.Props.C16m.subslice_behaviour
#print axioms Shentu.Props.C16m.copy_refines
#print axioms Shentu.Props.C16m.copy_instructions
#print axioms Shentu.Props.C16m.returndatacopy_out_of_range
#print axioms Shentu.Props.C16m.returndatacopy_refines
#print axioms Shentu.Props.C16m.byte_model
#print axioms Shentu.Props.C16m.pop_refines
#print axioms Shentu.Props.C16m.dup_refines
#print axioms Shentu.Props.C16m.dup_underflows
#print axioms Shentu.Props.C16m.swap_refines
#print axioms Shentu.Props.C16m.swap_underflows
#print axioms Shentu.Props.C16m.push_refines
#print axioms Shentu.Props.C16m.stack_limit_spec
#print axioms Shentu.Props.C16m.stack_limit_impl
#print axioms Shentu.Props.C16m.jumpdest_analysis
#print axioms Shentu.Props.C16m.jump_valid
#print axioms Shentu.Props.C16m.jump_invalid
#print axioms Shentu.Props.C16m.jump_huge
#print axioms Shentu.Props.C16m.jumpi_falls_through
#print axioms Shentu.Props.C16m.jumpi_jumps
#print axioms Shentu.Props.C16m.pc_and_jumpdest
