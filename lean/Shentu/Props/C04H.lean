import Shentu.Proofs.C04HLemmas
/-!
  C04 at the level of histories — a passed shield claim is paid once, to its beneficiary, in full, after the payout period.

  "… The beneficiary - and nobody else - can withdraw it once, only after the payout period, receiving exactly that
   amount; a claim that does not pass pays nothing."

  `Shentu/Props/C04.lean` proves these sentences for one step.  This file proves them for every history.

  What a history is.  A list of `C03a.Op`, run by `C03a.run` (a failing step leaves the world unchanged).
  Every operation is allowed except the bare keeper function `createReimbursement` (`C04H.allowed`): in the chain it
  only runs inside `claimEnds … paid`.  The message-level operations (`C04H.isMsg`) are all allowed.
  Each operation carries its own environment, so block times are arbitrary (they need not even grow).

  The ghost log.  `C04H.grun` runs the same steps and keeps a log beside the world, newest entry first.
  A successful `claimEnds … paid` logs `created pid beneficiary amount payoutTime`, read from the record found in the
  new store.  A successful `withdrawReimbursement e pid a` logs `withdrawn pid a e.modAddr received left e.t`.
  `received` is what `a`'s balance gained and `left` what the module account's balance lost, both observed on the two
  ledgers in the bond denomination of that step.  Nothing else is logged.  `grun_world` says the world is that of `run`.
  In "`log = post ++ entry :: pre`" the part `pre` is what was logged before `entry`.

  What is proved, for every history that starts without reimbursement records and with an empty log:
   * (e) the reimbursement store is, at every point, exactly the open part of the log (`openRecs`);
   * (b) every withdrawal was preceded by the creation of a record under the same id for the same address;
     an id that no passed claim created is never withdrawn; creations come from `claimEnds … paid` only;
   * (c) the coins the withdrawal moved are the amount of that record, which is the loss of the passed claim;
   * (d) the withdrawal happened at or after the payout time of that record, which is the block time of the passed
     claim plus the payout period;
   * (a) with fresh proposal ids no id is withdrawn twice; without fresh ids this is false (counterexample kept);
   * (f) the coins that left the module account under withdrawals equal the amounts approved for the withdrawn ids;
     with fresh ids, everything ever approved is either paid out or still recorded, and a created claim that has not
     been withdrawn can be withdrawn by its beneficiary once the payout time has come.

  What is assumed.  Only (a), the second form of (e) and the second half of (f) assume anything: fresh proposal ids (`FreshHist`: no step pays
  a claim under an id that was paid before).  Governance numbers proposals consecutively and ends each one once.
  (c) and (f) speak about withdrawals whose caller is not the module account itself: a transfer from the module
  account to itself moves nothing (example at the end).
-/
namespace Shentu.Props.C04H
open Shentu Shentu.Shield Shentu.Props.C03a Shentu.C04H

/-- the log of a history started in the world `(l, s)` with an empty log -/
def logOf (ops : List Op) (l : Ledger) (s : State) : List Event := (grun ops ((l, s), [])).2

/-- every operation of the history is one a chain can perform -/
def Chain (ops : List Op) : Prop := ∀ op ∈ ops, allowed op = true

/-- a history made of message-level operations only is a chain history -/
theorem chain_of_messages (ops : List Op) (h : ∀ op ∈ ops, isMsg op = true) : Chain ops :=
  fun op hop => isMsg_allowed op (h op hop)

/-- the world beside the log is the world of the plain run -/
theorem world_of_run (ops : List Op) (l : Ledger) (s : State) : (grun ops ((l, s), [])).1 = run ops (l, s) :=
  grun_world ops _

/-! ## (e) the store is the open part of the log -/

/-- At every point of every chain history the reimbursement store is exactly the list of created-and-not-yet-withdrawn
    entries of the log, in the order of their creation.  A creation under an id that is still open replaces the
    older record (that is what `CreateReimbursement` does).  No freshness is assumed.  "At every point": every
    prefix of a history is a history. -/
theorem records_are_open_reimbursements (ops : List Op) (l : Ledger) (s : State) (h0 : s.reimbs = []) (hc : Chain ops) :
    (run ops (l, s)).2.reimbs = openRecs (logOf ops l s) := by
  rw [← world_of_run]
  exact (grun_inv ops _ hc (inv_init l s h0)).1

/-- With fresh proposal ids the store has a plain description: a record is in the store iff the log has a `created`
    entry with exactly its fields and no `withdrawn` entry under its id.  Freshness (`FreshHist`) is an assumption on
    the history; `fresh_of_distinct_ids` below gives it for histories that name no id twice. -/
theorem records_are_open_reimbursements_fresh (ops : List Op) (l : Ledger) (s : State) (h0 : s.reimbs = [])
    (hc : Chain ops) (hf : FreshHist ops ((l, s), [])) (r : Reimb) :
    r ∈ (run ops (l, s)).2.reimbs ↔
      Event.created r.pid r.beneficiary r.amount r.payoutTime ∈ logOf ops l s ∧ r.pid ∉ withdrawnPids (logOf ops l s) := by
  rw [records_are_open_reimbursements ops l s h0 hc]
  exact openRecs_iff _ (grun_inv ops _ hc (inv_init l s h0)).2 (grun_fresh ops _ (by simp) hf) r

/-- A history in which no two `claimEnds … paid` operations carry the same proposal id has fresh ids. -/
theorem fresh_of_distinct_ids (ops : List Op) (l : Ledger) (s : State) (hn : (paidPids ops).Nodup) :
    FreshHist ops ((l, s), []) :=
  fresh_of_nodup ops _ hn (by intro pid h; cases h)

/-! ## (b) nobody else, and nothing without a passed claim -/

/-- Every withdrawal in the log was preceded by a creation under the same id for the same address.
    So only the beneficiary withdraws, and only what a passed claim created. -/
theorem withdrawn_only_by_beneficiary (ops : List Op) (l : Ledger) (s : State) (h0 : s.reimbs = []) (hc : Chain ops)
    (post pre : List Event) (pid : Nat) (a m : Addr) (received left t : Int)
    (h : logOf ops l s = post ++ .withdrawn pid a m received left t :: pre) :
    ∃ amt pt, Event.created pid a amt pt ∈ pre := by
  obtain ⟨amt, pt, h1, _⟩ := withdrawn_spec _ post pre (grun_inv ops _ hc (inv_init l s h0)).2 pid a m received left t h
  exact ⟨amt, pt, h1⟩

/-- An id without a `created` entry has no `withdrawn` entry. -/
theorem never_created_never_withdrawn (ops : List Op) (l : Ledger) (s : State) (h0 : s.reimbs = []) (hc : Chain ops)
    (pid : Nat) (h : pid ∉ createdPids (logOf ops l s)) : pid ∉ withdrawnPids (logOf ops l s) :=
  fun hw => h (withdrawn_created _ (grun_inv ops _ hc (inv_init l s h0)).2 pid hw)

/-- Every `created` entry was written by a step `claimEnds e pid … beneficiary … loss paid` of the history.
    Its amount is the loss of that claim.  Its payout time is that step's block time plus the payout period in force
    at that step. -/
theorem created_only_by_passed_claim (ops : List Op) (l : Ledger) (s : State) (hc : Chain ops)
    (pid : Nat) (b : Addr) (amt pt : Int) (h : Event.created pid b amt pt ∈ logOf ops l s) :
    ∃ pre e poolID rt puid post, ops = pre ++ .claimEnds e pid poolID rt b puid amt .paid :: post ∧
      pt = e.t + (run pre (l, s)).2.params.payoutPeriod := by
  rcases log_origin ops _ _ h with h1 | ⟨pre, op, post, hops, hev⟩
  · cases h1
  · have ha : allowed op = true := hc op (by rw [hops]; simp)
    rw [grun_world] at hev
    obtain ⟨e, poolID, rt, puid, hop, hpt⟩ := events_created op (run pre (l, s)).1 (run pre (l, s)).2 ha pid b amt pt hev
    exact ⟨pre, e, poolID, rt, puid, post, by rw [hops, hop], hpt⟩

/-- "A claim that does not pass pays nothing", over histories: an id under which the history has no
    `claimEnds … paid` operation — its claim was rejected, vetoed, failed, or never ended — is never withdrawn. -/
theorem unpaid_pays_nothing (ops : List Op) (l : Ledger) (s : State) (h0 : s.reimbs = []) (hc : Chain ops)
    (pid : Nat) (h : pid ∉ paidPids ops) : pid ∉ withdrawnPids (logOf ops l s) := by
  apply never_created_never_withdrawn ops l s h0 hc
  intro hcr
  obtain ⟨b, amt, pt, hmem⟩ := mem_createdPids.mp hcr
  obtain ⟨pre, e, poolID, rt, puid, post, hops, _⟩ := created_only_by_passed_claim ops l s hc pid b amt pt hmem
  apply h
  rw [hops]
  simp [paidPids, paidPid]

/-- Every `withdrawn` entry was written by a step `withdrawReimbursement e pid a` of the history; its time is that
    step's block time and its module account that step's module account. -/
theorem withdrawn_only_by_withdraw_message (ops : List Op) (l : Ledger) (s : State) (hc : Chain ops)
    (pid : Nat) (a m : Addr) (x y t : Int) (h : Event.withdrawn pid a m x y t ∈ logOf ops l s) :
    ∃ pre e post, ops = pre ++ .withdrawReimbursement e pid a :: post ∧ m = e.modAddr ∧ t = e.t := by
  rcases log_origin ops _ _ h with h1 | ⟨pre, op, post, hops, hev⟩
  · cases h1
  · have ha : allowed op = true := hc op (by rw [hops]; simp)
    obtain ⟨e, hop, hm, ht⟩ := events_withdrawn op (grun pre ((l, s), [])).1.1 (grun pre ((l, s), [])).1.2 ha pid a m x y t hev
    exact ⟨pre, e, post, by rw [hops, hop], hm, ht⟩

/-! ## (c) exactly the amount -/

/-- The coins a withdrawal moved are the amount of the record created before it under the same id for the same address:
    the caller's balance grew by it and the module account's balance shrank by it.  By `created_only_by_passed_claim`
    that amount is the loss of the passed claim.  The caller is assumed not to be the module account of that step. -/
theorem withdrawn_exactly_the_amount (ops : List Op) (l : Ledger) (s : State) (h0 : s.reimbs = []) (hc : Chain ops)
    (post pre : List Event) (pid : Nat) (a m : Addr) (received left t : Int)
    (h : logOf ops l s = post ++ .withdrawn pid a m received left t :: pre) (hne : a ≠ m) :
    ∃ amt pt, Event.created pid a amt pt ∈ pre ∧ received = amt ∧ left = amt := by
  obtain ⟨amt, pt, h1, _, h3⟩ := withdrawn_spec _ post pre (grun_inv ops _ hc (inv_init l s h0)).2 pid a m received left t h
  exact ⟨amt, pt, h1, (h3 hne).1, (h3 hne).2⟩

/-! ## (d) only after the payout period -/

/-- The time of a withdrawal is at or after the payout time of the record created before it under the same id for the
    same address.  By `created_only_by_passed_claim` that payout time is the block time of the passed claim plus the
    payout period. -/
theorem withdrawn_only_after_payout_period (ops : List Op) (l : Ledger) (s : State) (h0 : s.reimbs = []) (hc : Chain ops)
    (post pre : List Event) (pid : Nat) (a m : Addr) (received left t : Int)
    (h : logOf ops l s = post ++ .withdrawn pid a m received left t :: pre) :
    ∃ amt pt, Event.created pid a amt pt ∈ pre ∧ pt ≤ t := by
  obtain ⟨amt, pt, h1, h2, _⟩ := withdrawn_spec _ post pre (grun_inv ops _ hc (inv_init l s h0)).2 pid a m received left t h
  exact ⟨amt, pt, h1, h2⟩

/-- (b), (c) and (d) about one and the same creation entry. -/
theorem withdrawal_matches_one_creation (ops : List Op) (l : Ledger) (s : State) (h0 : s.reimbs = []) (hc : Chain ops)
    (post pre : List Event) (pid : Nat) (a m : Addr) (received left t : Int)
    (h : logOf ops l s = post ++ .withdrawn pid a m received left t :: pre) :
    ∃ amt pt, Event.created pid a amt pt ∈ pre ∧ pt ≤ t ∧ (a ≠ m → received = amt ∧ left = amt) :=
  withdrawn_spec _ post pre (grun_inv ops _ hc (inv_init l s h0)).2 pid a m received left t h

/-! ## (a) at most once -/

/-- With fresh proposal ids, no id occurs twice among the withdrawals of a history. -/
theorem withdrawn_at_most_once (ops : List Op) (l : Ledger) (s : State) (h0 : s.reimbs = []) (hc : Chain ops)
    (hf : FreshHist ops ((l, s), [])) : (withdrawnPids (logOf ops l s)).Nodup :=
  withdrawn_nodup _ (grun_inv ops _ hc (inv_init l s h0)).2 (grun_fresh ops _ (by simp) hf)

/-- The same for a history that names no proposal id twice among its `claimEnds … paid` operations. -/
theorem withdrawn_at_most_once_distinct_ids (ops : List Op) (l : Ledger) (s : State) (h0 : s.reimbs = []) (hc : Chain ops)
    (hn : (paidPids ops).Nodup) : (withdrawnPids (logOf ops l s)).Nodup :=
  withdrawn_at_most_once ops l s h0 hc (fresh_of_distinct_ids ops l s hn)

/-! ## (f) the ledger side -/

/-- Over every chain history, the coins that left the module account under reimbursement withdrawals, and the coins the
    callers received, both equal the sum of the amounts approved for the withdrawn ids (each as approved at the time of
    its withdrawal).  Withdrawals by the module account itself are left out of all three sums.  No freshness is assumed. -/
theorem paid_out_equals_approved (ops : List Op) (l : Ledger) (s : State) (h0 : s.reimbs = []) (hc : Chain ops) :
    paidOut (logOf ops l s) = owedOut (logOf ops l s) ∧ receivedTotal (logOf ops l s) = owedOut (logOf ops l s) :=
  paid_eq_owed _ (grun_inv ops _ hc (inv_init l s h0)).2

/-- With fresh proposal ids nothing approved is lost: over every chain history, the sum of all amounts ever approved
    equals the amounts approved for the withdrawn ids plus the amounts still recorded in the store (the term
    `sumReimbs` of what the module account owes, property C02). -/
theorem approved_is_drawn_or_open (ops : List Op) (l : Ledger) (s : State) (h0 : s.reimbs = []) (hc : Chain ops)
    (hf : FreshHist ops ((l, s), [])) :
    createdTotal (logOf ops l s) = drawnTotal (logOf ops l s) + sumReimbs (run ops (l, s)).2 := by
  unfold sumReimbs
  rw [records_are_open_reimbursements ops l s h0 hc]
  exact books_balance _ (grun_inv ops _ hc (inv_init l s h0)).2 (grun_fresh ops _ (by simp) hf)

/-- the module account never signs a `withdrawReimbursement` for itself -/
def NoSelfOps (ops : List Op) : Prop :=
  ∀ op ∈ ops, match op with
    | .withdrawReimbursement e _ a => a ≠ e.modAddr
    | _ => True

/-- The same in coins: when, in addition, no withdrawal is made by the module account itself, the sum of all amounts ever
    approved equals the coins that left the module account under withdrawals plus the amounts still recorded. -/
theorem approved_is_paid_or_open (ops : List Op) (l : Ledger) (s : State) (h0 : s.reimbs = []) (hc : Chain ops)
    (hf : FreshHist ops ((l, s), [])) (hs : NoSelfOps ops) :
    createdTotal (logOf ops l s) = paidOut (logOf ops l s) + sumReimbs (run ops (l, s)).2 := by
  have hno : NoSelf (logOf ops l s) := by
    intro pid a m x y t hmem
    obtain ⟨pre, e, post, hops, hm, _⟩ := withdrawn_only_by_withdraw_message ops l s hc pid a m x y t hmem
    have := hs (.withdrawReimbursement e pid a) (by rw [hops]; simp)
    rw [hm]; exact this
  rw [(paid_out_equals_approved ops l s h0 hc).1, owedOut_eq_drawn _ hno]
  exact approved_is_drawn_or_open ops l s h0 hc hf

/-! ## the beneficiary can withdraw -/

/-- "The beneficiary … can withdraw it", over histories with fresh ids: after any chain history, a claim that was created
    and has not been withdrawn can be withdrawn by its beneficiary in any environment whose block time has reached the
    payout time, provided the amount is not negative and the module account holds it (property C02 says it does). -/
theorem open_claim_can_be_withdrawn (ops : List Op) (l : Ledger) (s : State) (h0 : s.reimbs = []) (hc : Chain ops)
    (hf : FreshHist ops ((l, s), [])) (pid : Nat) (b : Addr) (amt pt : Int)
    (hcr : Event.created pid b amt pt ∈ logOf ops l s) (hnw : pid ∉ withdrawnPids (logOf ops l s))
    (e : Env) (ht : pt ≤ e.t) (hpos : 0 ≤ amt) (hbal : amt ≤ (run ops (l, s)).1.balOf e.modAddr e.bond) :
    ∃ l' s', withdrawReimbursement e (run ops (l, s)).1 (run ops (l, s)).2 pid b = .ok (l', s') := by
  have hr : mkRec pid b amt pt ∈ (run ops (l, s)).2.reimbs :=
    (records_are_open_reimbursements_fresh ops l s h0 hc hf (mkRec pid b amt pt)).mpr ⟨hcr, hnw⟩
  have hnd : ((run ops (l, s)).2.reimbs.map (·.pid)).Nodup := by
    rw [records_are_open_reimbursements ops l s h0 hc]; exact openRecs_nodup _
  apply (Props.C04.withdrawReimbursement_ok_iff e _ _ pid b).mpr
  cases hfind : (run ops (l, s)).2.reimbs.find? (·.pid == pid) with
  | none =>
    have := List.find?_eq_none.mp hfind _ hr
    simp [mkRec] at this
  | some r' =>
    have hp : r'.pid = pid := by simpa using List.find?_some hfind
    have : mkRec pid b amt pt = r' :=
      same_pid_same_record _ hnd _ _ hr (List.mem_of_find?_eq_some hfind) (by rw [hp]; rfl)
    subst this
    exact ⟨_, rfl, rfl, ht, hpos, hbal⟩

/-! ## concrete histories (non-vacuity, and the counterexample for reused ids) -/

section Example
open Shentu.Props.C04

/-- alice and bob deposit, the admin buys shield, three claims are secured; claim 7 (77 for the admin) and claim 8
    (20 for carol) pass, claim 9 is rejected; the admin withdraws 7 in time; carol tries 8 too early, bob tries 8,
    the admin tries 9 — all refused; after the payout time carol withdraws 8; a second attempt is refused -/
def hist : List Op :=
  [.deposit (exEnv 1000) "alice" [("uctk", 500)], .deposit (exEnv 1000) "bob" [("uctk", 300)],
   .purchase (exEnv 1000) 1 [("uctk", 200)] "admin" false,
   .secureCollaterals (exEnv 1100) 1 "admin" 1 77 100, .secureCollaterals (exEnv 1100) 1 "admin" 1 20 100,
   .secureCollaterals (exEnv 1100) 1 "admin" 1 5 100,
   .claimEnds (exEnv 1200) 7 1 "admin" "admin" 1 77 .paid,
   .claimEnds (exEnv 1210) 8 1 "admin" "carol" 1 20 .paid,
   .claimEnds (exEnv 1220) 9 1 "admin" "admin" 1 5 .rejected,
   .withdrawReimbursement (exEnv 1250) 7 "admin",
   .withdrawReimbursement (exEnv 1255) 8 "carol",
   .withdrawReimbursement (exEnv 1270) 8 "bob",
   .withdrawReimbursement (exEnv 1270) 9 "admin",
   .endBlock (exEnv 1270),
   .withdrawReimbursement (exEnv 1270) 8 "carol",
   .withdrawReimbursement (exEnv 1300) 8 "carol"]

/-- the hypotheses of every theorem above hold of `hist`: no records at the start, message-level operations only,
    no proposal id paid twice -/
example : exState0.reimbs = [] ∧ (∀ op ∈ hist, isMsg op = true) ∧ (paidPids hist).Nodup := by decide

example : Chain hist := chain_of_messages hist (by decide)

/-- which steps of `hist` succeed: all but the four refused withdrawals (steps 10, 11, 12 and 15, counted from 0) -/
example : (List.range hist.length).map (fun k => match hist[k]? with
      | some op => (match op.apply (run (hist.take k) (exLedger0, exState0)) with | .ok _ => true | .error _ => false)
      | none => false) =
    [true, true, true, true, true, true, true, true, true, true, false, false, false, true, true, false] := by
  decide

/-- the log of `hist`, newest entry first: two creations, two withdrawals of exactly 77 and 20, each at or after its
    payout time; nothing for claim 9; after the two claims passed both records are in the store, at the end none -/
example : logOf hist exLedger0 exState0 =
      [.withdrawn 8 "carol" "shield" 20 20 1270, .withdrawn 7 "admin" "shield" 77 77 1250,
       .created 8 "carol" 20 1260, .created 7 "admin" 77 1250] ∧
    (run (hist.take 9) (exLedger0, exState0)).2.reimbs =
      [{ pid := 7, amount := 77, beneficiary := "admin", payoutTime := 1250 },
       { pid := 8, amount := 20, beneficiary := "carol", payoutTime := 1260 }] ∧
    (run hist (exLedger0, exState0)).2.reimbs = [] ∧
    paidOut (logOf hist exLedger0 exState0) = 97 ∧ createdTotal (logOf hist exLedger0 exState0) = 97 := by
  decide

/-- the hypothesis `logOf … = post ++ withdrawn … :: pre` of (b), (c), (d), for the admin's withdrawal in `hist`:
    `pre` holds the two creations, and the caller is not the module account -/
example : logOf hist exLedger0 exState0 =
    [.withdrawn 8 "carol" "shield" 20 20 1270] ++ .withdrawn 7 "admin" "shield" 77 77 1250 ::
      [.created 8 "carol" 20 1260, .created 7 "admin" 77 1250] ∧ ("admin" : Addr) ≠ "shield" := by decide

/-- the hypotheses of `open_claim_can_be_withdrawn` after the first nine steps of `hist`, for claim 8 at time 1260:
    created, not withdrawn, payout time reached, amount not negative and covered by the module account; and the
    withdrawal does succeed -/
example : Event.created 8 "carol" 20 1260 ∈ logOf (hist.take 9) exLedger0 exState0 ∧
    8 ∉ withdrawnPids (logOf (hist.take 9) exLedger0 exState0) ∧ (1260 : Int) ≤ (exEnv 1260).t ∧ (0 : Int) ≤ 20 ∧
    20 ≤ (run (hist.take 9) (exLedger0, exState0)).1.balOf (exEnv 1260).modAddr (exEnv 1260).bond ∧
    (paidPids (hist.take 9)).Nodup ∧
    (withdrawReimbursement (exEnv 1260) (run (hist.take 9) (exLedger0, exState0)).1
      (run (hist.take 9) (exLedger0, exState0)).2 8 "carol").toOption.isSome = true := by decide

/-- no step of `hist` is a withdrawal by the module account ("shield") itself -/
example : NoSelfOps hist := by
  simp [NoSelfOps, hist, exEnv]

/-- a history that pays claim 7 twice: once 77, withdrawn, then again 10 under the same id, withdrawn again -/
def reuse : List Op :=
  [.deposit (exEnv 1000) "alice" [("uctk", 500)],
   .claimEnds (exEnv 1200) 7 1 "admin" "admin" 1 77 .paid,
   .withdrawReimbursement (exEnv 1250) 7 "admin",
   .claimEnds (exEnv 1300) 7 1 "admin" "admin" 1 10 .paid,
   .withdrawReimbursement (exEnv 1350) 7 "admin"]

/-- Without fresh proposal ids "at most once" is false of the model: `CreateReimbursement` does not check that the id
    is new, so in the message-level history `reuse` the id 7 is withdrawn twice.  The true statement is
    `withdrawn_at_most_once` (fresh ids assumed).  Each of the two withdrawals still has
    its own earlier creation, its amount and its payout time: (b), (c), (d), (e) and (f) do not need freshness. -/
theorem withdrawn_at_most_once_fails_on_reuse :
    ¬ ∀ (ops : List Op) (l : Ledger) (s : State), s.reimbs = [] → Chain ops → (withdrawnPids (logOf ops l s)).Nodup := by
  intro h
  have h1 := h reuse exLedger0 exState0 rfl (chain_of_messages reuse (by decide))
  have h2 : withdrawnPids (logOf reuse exLedger0 exState0) = [7, 7] := by decide
  rw [h2] at h1
  exact absurd h1 (by decide)

/-- the log of `reuse` -/
example : logOf reuse exLedger0 exState0 =
    [.withdrawn 7 "admin" "shield" 10 10 1350, .created 7 "admin" 10 1350,
     .withdrawn 7 "admin" "shield" 77 77 1250, .created 7 "admin" 77 1250] := by decide

/-- a history that pays claim 7 a second time while the first record is still open, and pays claim 8 to the module
    account itself -/
def overwrite : List Op :=
  [.deposit (exEnv 1000) "alice" [("uctk", 500)],
   .claimEnds (exEnv 1200) 7 1 "admin" "admin" 1 77 .paid,
   .claimEnds (exEnv 1300) 7 1 "admin" "bob" 1 10 .paid,
   .withdrawReimbursement (exEnv 1350) 7 "admin",
   .withdrawReimbursement (exEnv 1350) 7 "bob",
   .claimEnds (exEnv 1400) 8 1 "admin" "shield" 1 10 .paid,
   .withdrawReimbursement (exEnv 1450) 8 "shield"]

/-- What the model does on reuse of an id whose record is still open: the new record replaces the old one, so the 77
    approved first can no longer be withdrawn by anybody (the admin is refused) and only the 10 of the second approval
    are paid, to bob.  And a withdrawal by the module account itself succeeds but moves nothing: the observed amounts
    are 0, not 10 — the reason for `a ≠ m` in (c) and (f). -/
example : logOf overwrite exLedger0 exState0 =
    [.withdrawn 8 "shield" "shield" 0 0 1450, .created 8 "shield" 10 1450,
     .withdrawn 7 "bob" "shield" 10 10 1350, .created 7 "bob" 10 1350, .created 7 "admin" 77 1250] := by decide

/-- The hypothesis `a ≠ m` of `withdrawn_exactly_the_amount` cannot be dropped: in `overwrite` the module account is the
    beneficiary of claim 8, its withdrawal succeeds, and the observed coins are 0 while the amount created is 10.
    (Not reachable in the chain: a module account signs no messages.) -/
theorem withdrawn_exactly_the_amount_fails_for_module_account :
    ¬ ∀ (ops : List Op) (l : Ledger) (s : State), s.reimbs = [] → Chain ops →
      ∀ (post pre : List Event) (pid : Nat) (a m : Addr) (received left t : Int),
        logOf ops l s = post ++ .withdrawn pid a m received left t :: pre →
        ∃ amt pt, Event.created pid a amt pt ∈ pre ∧ received = amt ∧ left = amt := by
  intro h
  obtain ⟨amt, pt, hmem, h1, _⟩ := h overwrite exLedger0 exState0 rfl (chain_of_messages overwrite (by decide)) []
    [.created 8 "shield" 10 1450, .withdrawn 7 "bob" "shield" 10 10 1350, .created 7 "bob" 10 1350,
     .created 7 "admin" 77 1250] 8 "shield" "shield" 0 0 1450 (by decide)
  simp at hmem
  omega

end Example

end Shentu.Props.C04H

#print axioms Shentu.Props.C04H.chain_of_messages
#print axioms Shentu.Props.C04H.world_of_run
#print axioms Shentu.Props.C04H.records_are_open_reimbursements
#print axioms Shentu.Props.C04H.records_are_open_reimbursements_fresh
#print axioms Shentu.Props.C04H.fresh_of_distinct_ids
#print axioms Shentu.Props.C04H.withdrawn_only_by_beneficiary
#print axioms Shentu.Props.C04H.never_created_never_withdrawn
#print axioms Shentu.Props.C04H.created_only_by_passed_claim
#print axioms Shentu.Props.C04H.unpaid_pays_nothing
#print axioms Shentu.Props.C04H.withdrawn_only_by_withdraw_message
#print axioms Shentu.Props.C04H.withdrawn_exactly_the_amount
#print axioms Shentu.Props.C04H.withdrawn_only_after_payout_period
#print axioms Shentu.Props.C04H.withdrawal_matches_one_creation
#print axioms Shentu.Props.C04H.withdrawn_at_most_once
#print axioms Shentu.Props.C04H.withdrawn_at_most_once_distinct_ids
#print axioms Shentu.Props.C04H.paid_out_equals_approved
#print axioms Shentu.Props.C04H.approved_is_drawn_or_open
#print axioms Shentu.Props.C04H.approved_is_paid_or_open
#print axioms Shentu.Props.C04H.open_claim_can_be_withdrawn
#print axioms Shentu.Props.C04H.withdrawn_at_most_once_fails_on_reuse
#print axioms Shentu.Props.C04H.withdrawn_exactly_the_amount_fails_for_module_account
