import Shentu.Model.Genesis
import Shentu.Proofs.C20GLemmas
import Shentu.Proofs.C20GShieldSorted
import Shentu.Proofs.C20GOracleInv
/-!
  C20, export and re-import of x/shield and x/oracle (`Model/Genesis.lean` holds `exportGenesis` / `initGenesis`, written
  after the Go `ExportGenesis` / `InitGenesis` field by field and in the order of the Go writes).  x/cert and x/gov are in
  `Props/C20GCert.lean` and `Props/C20GGov.lean`.

  x/shield.  The genesis file carries every store except the block service fees; the withdraw queue is rebuilt by inserting
  the exported withdrawals one by one.
  * `Shield.reimport_partial` (no hypothesis): the re-imported state is the original state with the queue rebuilt and the block
    service fees set to zero.
  * `Shield.reimport_same` (G1): it is the original state when the queue is ordered by completion time and the block service
    fees are zero (`Exportable`).  Both clauses are needed: `reimport_same_fails_block_fees`, `reimport_same_fails_unsorted`.
  * `Shield.exportable_after_block`: `Exportable` holds after the end-blocker of every block of every history that starts from
    an ordered queue with fee distribution started (`lastUpdate ≠ zeroTime`) and whose end-blockers do not run at `time.Time{}`.
    Fee distribution is started by the first purchase or by a genesis `LastUpdateTime` (the default genesis stamps one).
  * `Shield.block_fees_lost_fails`: a chain whose fee distribution has NOT started keeps the minted block rewards in `blockFees`
    over the end-blocker; an export then drops them while the module account keeps the coins, and the fund identity C02 is
    false on the imported chain.  The Go code has the same behaviour (`ExportGenesis` never reads `GetBlockServiceFees`;
    `RemoveExpiredPurchasesAndDistributeFees` returns early when the last update time is zero).
  * `Shield.reexport_same` (G2), `Shield.continuation_same` (G3: same states, same ledgers, same outcomes for every further
    history), `Shield.invariants_reimported` (G4).
  The expiring-purchase queue is not part of the model's state (`Shield.duePairs` recomputes it from the purchase lists), so
  the import has nothing to rebuild for it; `Genesis.Shield.rebuildExpiring` only names what the Go import inserts.

  x/oracle.  The export at height `h` writes due blocks and waiting blocks relative to `h`; the import runs at the initial
  height of the new chain, `h + 1` (Tendermint's convention), and re-bases them there.  So the import is NOT the identity
  (`Oracle.reimport_identity_fails`): every withdrawal is due, and every task closes, one block later.
  * `Oracle.reimport_fields` (G1): field by field what the imported state is.  `Oracle.reimport_shift`: it is related to the
    original by `Shift (h + 1)` (same operators, total, parameters; same withdrawals due one block later; same tasks closing one
    block later; the closing index of block `k + 1` lists the tasks of the original index of block `k` in the same order).
    Hypothesis `Exportable h`: task keys are distinct and the closing index of every block after `h` lists exactly the tasks
    closing then, in the order of the task list.  `Oracle.exportable_after_blocks`: this holds after every block of every
    history of consecutive blocks (begin-blocker, any messages, end-blocker) from a state that has it, in particular from the
    empty state (`Oracle.exportable_from_genesis`), as long as no end-blocker halts (a halted chain exports nothing).
    `Oracle.continuation_after_blocks` puts the pieces together.
    In the Go code the export lists the tasks in store-key order, so the rebuilt index lists the tasks of a block in key order
    where the running node has them in creation order; `Props/C20order.lean` shows that this order does not matter.
  * `Oracle.reexport_same_fails`, `Oracle.reexport_partial` (G2): a second export differs from the first in one field, the
    stored closing block of each task (one later).  `Oracle.import_ignores_closing`: the import never reads that field.
    The Go code has the same difference.
  * `Oracle.continuation_same` (G3): feed the original chain any history at heights `> h` and the imported chain the same
    operations one height later: ledgers stay equal (same amounts to the same recipients), states stay `Shift`-related, and every
    operation succeeds or fails with the same error on both.  `Oracle.matures_one_block_later` states the single difference
    seen at equal heights.
  * `Oracle.accounting_reimported` (G4): collateral, pending amounts and total of C14 are those of the original.
-/
namespace Shentu.Props.C20G

namespace Shield
open Shentu Shentu.Shield Shentu.Genesis.Shield Shentu.Props.C20 Shentu.Props.C03a Shentu.C20GShieldH

/-- what an export relies on: the queue is ordered by completion time, and no block service fees are waiting -/
def Exportable (s : State) : Prop := sortedByTime s.withdraws ∧ s.blockFees = Dec.zero

/-- Exporting and importing rebuilds the withdraw queue and forgets the block service fees.  Everything else is unchanged. -/
theorem reimport_partial (s : State) :
    initGenesis (exportGenesis s) = { s with withdraws := rebuildQueue s.withdraws, blockFees := Dec.zero } := rfl

/-- (G1) An exportable state is re-imported as it was. -/
theorem reimport_same (s : State) (h : Exportable s) : initGenesis (exportGenesis s) = s := by
  rw [reimport_partial]
  have h1 : rebuildQueue s.withdraws = s.withdraws := rebuild_queue s.withdraws h.1
  rw [h1, ← h.2]

/-- (G2) Exporting the re-imported state gives the same genesis file.  The block service fees play no role: they are not in the file. -/
theorem reexport_same (s : State) (h : sortedByTime s.withdraws) :
    exportGenesis (initGenesis (exportGenesis s)) = exportGenesis s := by
  rw [reimport_partial]
  have h1 : rebuildQueue s.withdraws = s.withdraws := rebuild_queue s.withdraws h
  simp only [exportGenesis, h1]

/-- (G3) The chain started from the export runs every further history exactly as the original: same ledger, same state. -/
theorem continuation_same (l : Ledger) (s : State) (h : Exportable s) (ops : List Op) :
    run ops (l, initGenesis (exportGenesis s)) = run ops (l, s) := by rw [reimport_same s h]

/-- (G3) Every single operation answers the same on both chains (same error, or the same new ledger and state). -/
theorem continuation_same_outcome (l : Ledger) (s : State) (h : Exportable s) (op : Op) :
    op.apply (l, initGenesis (exportGenesis s)) = op.apply (l, s) := by rw [reimport_same s h]

/-- After the end-blocker of any block of any history the state is exportable.  The history starts from an ordered queue with
    fee distribution started, and no end-blocker runs at `time.Time{}`. -/
theorem exportable_after_block (ops : List Op) (w : World) (hs : sortedByTime w.2.withdraws) (hl : w.2.lastUpdate ≠ zeroTime)
    (ht : ∀ op ∈ ops, Op.timeOk op) (e : Env) (s' : State) (h : endBlock e (run ops w).2 = .ok s') : Exportable s' :=
  ⟨endBlock_sorted e _ s' (run_sorted ops w hs) h, run_endBlock_blockFees_zero ops w hl ht e s' h⟩

/-- Export after any block, import, continue: the same as never having stopped. -/
theorem continuation_after_block (ops more : List Op) (w : World) (hs : sortedByTime w.2.withdraws) (hl : w.2.lastUpdate ≠ zeroTime)
    (ht : ∀ op ∈ ops, Op.timeOk op) (e : Env) (s' : State) (h : endBlock e (run ops w).2 = .ok s') (l : Ledger) :
    run more (l, initGenesis (exportGenesis s')) = run more (l, s') :=
  continuation_same l s' (exportable_after_block ops w hs hl ht e s' h) more

/-- (G4) The accounting identities of C02 and C03 hold on the re-imported state when they hold on the original. -/
theorem invariants_reimported (s : State) (h : Exportable s) (m : Int) :
    (FundInv m s → FundInv m (initGenesis (exportGenesis s))) ∧ (BooksInv s → BooksInv (initGenesis (exportGenesis s))) ∧
    (Shentu.Shield.Coll.CollInv s → Shentu.Shield.Coll.CollInv (initGenesis (exportGenesis s))) := by
  rw [reimport_same s h]; exact ⟨id, id, id⟩

/-! #### what fails without the two clauses -/

/-- a chain before its first purchase (`lastUpdate = zeroTime`) that has been paid 5 coins of block rewards -/
def early : State := { Ex.s0 with blockFees := Dec.ofInt 5 }
def earlyEnv : Env := { t := 60, bond := "uctk", modAddr := "shield" }

/-- the 5 coins survive the end-blocker: fee distribution has not started -/
theorem early_block_fees_stay : (match endBlock earlyEnv early with | .ok s => s.blockFees | .error _ => Dec.zero) = Dec.ofInt 5 := by
  decide

/-- Without "no block service fees" the import is not the identity: the fees are gone. -/
theorem reimport_same_fails_block_fees : ¬ ∀ s : State, sortedByTime s.withdraws → initGenesis (exportGenesis s) = s := by
  intro h
  have h1 := h early (by simp [early, Ex.s0, sortedByTime])
  have h2 := congrArg (fun s => s.blockFees.raw) h1
  revert h2; decide

/-- The fund identity C02 does not survive such an export.  The module account holds the 5 coins; the original state owes them
    (as block service fees); the imported state owes nothing. -/
theorem block_fees_lost_fails :
    FundInv 5 early ∧ ¬ FundInv 5 (initGenesis (exportGenesis early)) := by
  constructor
  · constructor <;> decide
  · intro h; have := h.1; revert this; decide

/-- Without an ordered queue the import is not the identity: the rebuilt queue is ordered. -/
theorem reimport_same_fails_unsorted : ¬ ∀ s : State, s.blockFees = Dec.zero → initGenesis (exportGenesis s) = s := by
  intro h
  have h1 := h { Ex.s0 with withdraws := [⟨"a", 20, 70⟩, ⟨"a", 10, 40⟩] } rfl
  have h2 := congrArg (fun s => s.withdraws.map (·.time)) h1
  revert h2; decide

/-! #### non-vacuity: two pools, purchases expiring at different times, a pending withdrawal, an open claim lock -/

def demo : State :=
  { admin := "adm",
    pools := [⟨1, 60, 100, true, "acme", "sp1"⟩, ⟨2, 20, 50, true, "bolt", "sp2"⟩],
    lists := [⟨1, "u1", [⟨1, 500, 500, 40, Dec.ofInt 4⟩, ⟨3, 900, 1200, 20, Dec.zero⟩]⟩, ⟨2, "u2", [⟨2, 700, 700, 20, Dec.ofInt 2⟩]⟩],
    providers := [⟨"a", 100, 30, 100, Dec.ofInt 1⟩, ⟨"b", 50, 0, 80, Dec.zero⟩],
    withdraws := [⟨"a", 10, 40⟩, ⟨"a", 20, 70⟩],
    stakes := [], origStakings := [], reimbs := [⟨7, 5, "u3", 300⟩],
    totalCollateral := 150, totalWithdrawing := 30, totalShield := 80, totalClaimed := 10,
    serviceFees := Dec.ofInt 6, remaining := Dec.ofInt 6, blockFees := Dec.zero, stakingPool := 0,
    lastUpdate := 10, nextPool := 3, nextPurchase := 4, params := Ex.params }

example : Exportable demo := ⟨by simp [demo, sortedByTime], rfl⟩
example : (initGenesis (exportGenesis demo)).withdraws = demo.withdraws := by decide
example : rebuildExpiring demo.lists = [(500, [(1, "u1")]), (700, [(2, "u2")]), (900, [(1, "u1")])] := by decide
example : dueInQueue (rebuildExpiring demo.lists) 700 = [(1, "u1"), (2, "u2")] := by decide
/-- the hypotheses of `exportable_after_block` hold for a concrete history -/
example : sortedByTime demo.withdraws ∧ demo.lastUpdate ≠ zeroTime ∧
    ∀ op ∈ [Op.withdraw earlyEnv "b" [("uctk", 5)], Op.endBlock earlyEnv], Op.timeOk op := by
  refine ⟨by simp [demo, sortedByTime], by decide, ?_⟩
  intro op hop
  simp only [List.mem_cons, List.not_mem_nil, or_false] at hop
  rcases hop with rfl | rfl
  · trivial
  · show earlyEnv.t ≠ zeroTime; decide

end Shield

namespace Oracle
open Shentu Shentu.Oracle Shentu.Genesis.Oracle Shentu.C20GH

/-- (G1) What the import at height `h + 1` makes of the export at height `h`, field by field.  Operators, total and parameters
    are copied.  Every withdrawal is due one block later.  Every task closes one block later and carries the waiting blocks
    that the export wrote.  The closing index of block `k` lists the tasks that were still open at the export and now close
    at `k`, in the order of the task list.  Needs only: task keys are distinct. -/
theorem reimport_fields (h : Int) (s : State) (hk : (s.tasks.map Task.key).Nodup) :
    (initGenesis (h + 1) (exportGenesis h s)).ops = s.ops ∧
    (initGenesis (h + 1) (exportGenesis h s)).wds = s.wds.map shiftWd ∧
    (initGenesis (h + 1) (exportGenesis h s)).total = s.total ∧
    (initGenesis (h + 1) (exportGenesis h s)).params = s.params ∧
    (initGenesis (h + 1) (exportGenesis h s)).tasks = s.tasks.map (impT h) ∧
    ∀ k, closingAt (initGenesis (h + 1) (exportGenesis h s)) k =
      ids (s.tasks.filter (fun t => decide (h < t.closing) && (t.closing + 1 == k))) :=
  import_fields h s hk

/-- (G1) The imported state is the exported state with every height-indexed deadline one block later. -/
theorem reimport_shift (h : Int) (s : State) (hx : Exportable h s) :
    Shift (h + 1) s (initGenesis (h + 1) (exportGenesis h s)) := import_shift h s hx

/-- The import is not the identity, even on exportable states: a pending withdrawal moves by one block. -/
theorem reimport_identity_fails :
    ¬ ∀ (h : Int) (s : State), Exportable h s → initGenesis (h + 1) (exportGenesis h s) = s := by
  intro hyp
  have h1 := hyp 100 { ops := [], wds := [⟨"op", [("uctk", 5)], 130⟩], total := [], tasks := [], closing := [], params := default }
    ⟨by simp, fun k _ => rfl⟩
  have h2 := congrArg (fun s => s.wds.map (·.due)) h1
  revert h2; decide

/-- the same genesis file with every task's stored closing block one later -/
def laterClosing (g : Genesis) : Genesis := { g with tasks := g.tasks.map (fun t => { t with closing := t.closing + 1 }) }

/-- (G2, what is true) A second export, taken from the imported chain at its own height, is the first export except for the
    stored closing block of each task, which is one later. -/
theorem reexport_partial (h : Int) (s : State) (hk : (s.tasks.map Task.key).Nodup) :
    exportGenesis (h + 1) (initGenesis (h + 1) (exportGenesis h s)) = laterClosing (exportGenesis h s) := by
  obtain ⟨i1, i2, i3, i4, i5, _⟩ := import_fields h s hk
  generalize initGenesis (h + 1) (exportGenesis h s) = s' at i1 i2 i3 i4 i5
  unfold exportGenesis laterClosing
  rw [i1, i2, i3, i4, i5]
  simp only [List.map_map]
  congr 1
  · apply List.map_congr_left
    intro w _
    show ({ w with due := w.due + 1 - (h + 1) } : Withdraw) = { w with due := w.due - h }
    have : w.due + 1 - (h + 1) = w.due - h := by omega
    rw [this]
  · apply List.map_congr_left
    intro t _
    show ({ t with closing := t.closing + 1, waiting := t.closing + 1 - (h + 1) } : Task) =
      { t with waiting := t.closing - h, closing := t.closing + 1 }
    have : t.closing + 1 - (h + 1) = t.closing - h := by omega
    rw [this]

/-- (G2 as asked is false) The second export is not the first one: the stored closing block of a task has moved. -/
theorem reexport_same_fails :
    ¬ ∀ (h : Int) (s : State), Exportable h s →
      exportGenesis (h + 1) (initGenesis (h + 1) (exportGenesis h s)) = exportGenesis h s := by
  intro hyp
  have h1 := hyp 100
    { ops := [], wds := [], total := [],
      tasks := [{ contract := "c", function := "f", begin := 90, bounty := [], expiration := 0, creator := "x", responses := [],
                  result := 0, closing := 105, waiting := 15, status := 1 }],
      closing := [(105, [("c", "f")])], params := default }
    ⟨by simp [Task.key], by
      intro k hk
      by_cases h5 : k = 105
      · subst h5; rfl
      · have : (105 == k) = false := by simp; omega
        simp [closingAt, idsAt, ids, this]⟩
  have h2 := congrArg (fun g => g.tasks.map (·.closing)) h1
  revert h2; decide

theorem updateAndSetTask_ignores_closing (k : Int) (s : State) (t : Task) (x : Int) :
    updateAndSetTask k s { t with closing := x } = updateAndSetTask k s t := rfl

/-- The import never reads the stored closing block of a task.  So the second export imports exactly as the first would. -/
theorem import_ignores_closing (k : Int) (g : Genesis) : initGenesis k (laterClosing g) = initGenesis k g := by
  unfold initGenesis laterClosing
  dsimp only
  rw [List.foldl_map]
  rfl

/-- (G3) One operation.  The original chain runs it in a block at height `e.h`, the imported chain in the block one height
    later.  Both answer the same (the same error, or success), the ledgers stay equal, and the states stay related. -/
theorem continuation_same_step (c : Int) (a b : State) (hR : Shift c a b) (e : Env) (hc : c ≤ e.h) (l : Ledger) (op : Op) :
    (step (up e) (l, b) op).1 = (step e (l, a) op).1 ∧ Shift c (step e (l, a) op).2 (step (up e) (l, b) op).2 ∧
      outcome (up e) (l, b) op = outcome e (l, a) op := step_shift hR e hc l op

/-- (G3) Export after block `h`, import, and feed both chains the same further operations, block for block (the imported
    chain counts every block one higher).  At the end the ledgers are equal: every payment was made with the same amount to
    the same recipient.  The states are related by `Shift`.  Every operation had the same outcome on both chains. -/
theorem continuation_same (h : Int) (s : State) (hx : Exportable h s) (l : Ledger) (ops : List (Env × Op))
    (hops : ∀ eo ∈ ops, h + 1 ≤ eo.1.h) :
    (runUp (l, initGenesis (h + 1) (exportGenesis h s)) ops).1 = (run (l, s) ops).1 ∧
    Shift (h + 1) (run (l, s) ops).2 (runUp (l, initGenesis (h + 1) (exportGenesis h s)) ops).2 ∧
    outcomesUp (l, initGenesis (h + 1) (exportGenesis h s)) ops = outcomes (l, s) ops :=
  run_shift ops l (import_shift h s hx) hops

/-- What `Shift` means for an observer: the same operators, total and parameters; the same withdrawals (operator, coins) due
    one block later; as many tasks, each with the same key, responses, status and expiration, closing one block later. -/
theorem shift_observably_same (c : Int) (a b : State) (hR : Shift c a b) :
    b.ops = a.ops ∧ b.total = a.total ∧ b.params = a.params ∧
    b.wds.map (fun w => (w.addr, w.amt, w.due)) = a.wds.map (fun w => (w.addr, w.amt, w.due + 1)) ∧
    ∀ key, match findTask a key, findTask b key with
      | none, none => True
      | some t, some t' => t'.responses = t.responses ∧ t'.status = t.status ∧ t'.expiration = t.expiration ∧ t'.closing = t.closing + 1
      | _, _ => False := by
  refine ⟨hR.ops, hR.total, hR.params, ?_, ?_⟩
  · rw [hR.wds, List.map_map]; rfl
  · intro key
    have := findTask_shift hR key
    cases h1 : findTask a key <;> cases h2 : findTask b key <;> rw [h1, h2] at this
    · trivial
    · exact this
    · exact this
    · exact ⟨this.responses, this.status, this.expiration, this.closing⟩

/-- At equal heights the one visible difference: a withdrawal that the original chain pays in the begin-blocker of block `d`
    is paid by the imported chain in the begin-blocker of block `d + 1`, not before. -/
theorem matures_one_block_later (w : Withdraw) (k : Int) : mature k (shiftWd w) = mature (k - 1) w := by
  have := mature_shift (k - 1) w
  rw [show k - 1 + 1 = k by omega] at this
  exact this

/-- (G4) The quantities of the collateral accounting C14 are those of the original state: each operator's collateral, each
    operator's pending withdrawals, and the total. -/
theorem accounting_reimported (h : Int) (s : State) (hk : (s.tasks.map Task.key).Nodup) (x : Addr) (d : Denom) :
    collAmt (initGenesis (h + 1) (exportGenesis h s)) x d = collAmt s x d ∧
    pendAmt (initGenesis (h + 1) (exportGenesis h s)) x d = pendAmt s x d ∧
    held (initGenesis (h + 1) (exportGenesis h s)) x d = held s x d ∧
    (initGenesis (h + 1) (exportGenesis h s)).total = s.total := by
  obtain ⟨i1, i2, i3, _, _, _⟩ := import_fields h s hk
  have hc : collAmt (initGenesis (h + 1) (exportGenesis h s)) x d = collAmt s x d := by
    simp [collAmt, findOp, i1]
  have hp : pendAmt (initGenesis (h + 1) (exportGenesis h s)) x d = pendAmt s x d := by
    unfold pendAmt pendList
    rw [i2]
    have : ∀ l : List Withdraw, (((l.map shiftWd).filter (fun w => w.addr == x)).map (fun w => Coins.amountOf w.amt d)) =
        ((l.filter (fun w => w.addr == x)).map (fun w => Coins.amountOf w.amt d)) := by
      intro l
      rw [filter_map_shift (fun w => w.addr == x) (fun w => w.addr == x) (fun _ => rfl), List.map_map]
      rfl
    rw [this]
  exact ⟨hc, hp, by unfold held; rw [hc, hp], i3⟩

/-- `Exportable` is kept by whole blocks.  The blocks have consecutive heights `h + 1, h + 2, ...`; each is a begin-blocker,
    any list of messages and the end-blocker; no end-blocker halts (`Good`).  After them the state is exportable at the
    last height. -/
theorem exportable_after_blocks (bs : List (Env × Shentu.C20GOrcInv.Block)) (h : Int) (ls : Ledger × State)
    (hx : Exportable h ls.2) (hg : Shentu.C20GOrcInv.Good h ls bs) :
    Exportable (h + bs.length) (Shentu.C20GOrcInv.runBlocks ls bs).2 :=
  Shentu.C20GOrcInv.exportable_runBlocks bs h ls hx hg

/-- In particular every state reached from a genesis without oracle data is exportable after each of its blocks. -/
theorem exportable_from_genesis (p : Params) (l : Ledger) (h : Int) (bs : List (Env × Shentu.C20GOrcInv.Block))
    (hg : Shentu.C20GOrcInv.Good h (l, emptyState p) bs) :
    Exportable (h + bs.length) (Shentu.C20GOrcInv.runBlocks (l, emptyState p) bs).2 :=
  Shentu.C20GOrcInv.exportable_from_empty p l h bs hg

/-- Run any blocks from genesis, export after the last one (height `H`), import at `H + 1`, and feed both chains the same
    further operations: equal ledgers, `Shift`-related states, equal outcomes. -/
theorem continuation_after_blocks (p : Params) (l : Ledger) (h : Int) (bs : List (Env × Shentu.C20GOrcInv.Block))
    (hg : Shentu.C20GOrcInv.Good h (l, emptyState p) bs) (l' : Ledger) (ops : List (Env × Op))
    (hops : ∀ eo ∈ ops, h + bs.length + 1 ≤ eo.1.h) :
    let s := (Shentu.C20GOrcInv.runBlocks (l, emptyState p) bs).2
    let H := h + bs.length
    (runUp (l', initGenesis (H + 1) (exportGenesis H s)) ops).1 = (run (l', s) ops).1 ∧
    Shift (H + 1) (run (l', s) ops).2 (runUp (l', initGenesis (H + 1) (exportGenesis H s)) ops).2 ∧
    outcomesUp (l', initGenesis (H + 1) (exportGenesis H s)) ops = outcomes (l', s) ops :=
  continuation_same _ _ (exportable_from_genesis p l h bs hg) l' ops hops

/-- the empty state is exportable at every height -/
theorem exportable_empty (h : Int) (p : Params) : Exportable h (emptyState p) := ⟨by simp [emptyState], fun _ _ => rfl⟩

/-! #### non-vacuity: an operator, a pending withdrawal, an open task and a closed one -/

def demo : State :=
  { ops := [⟨"op1", "op1", [("uctk", 50)], [("uctk", 3)]⟩],
    wds := [⟨"op2", [("uctk", 5)], 130⟩],
    total := [("uctk", 50)],
    tasks := [{ contract := "c", function := "f", begin := 90, bounty := [("uctk", 7)], expiration := 1000, creator := "x",
                responses := [⟨"op1", 80, 0, []⟩], result := 0, closing := 105, waiting := 15, status := 1 },
              { contract := "c", function := "g", begin := 80, bounty := [], expiration := 1000, creator := "x",
                responses := [], result := 50, closing := 95, waiting := 15, status := 2 }],
    closing := [(105, [("c", "f")])],
    params := { lock := 30, minColl := 10, window := 15, aggRes := 50, threshold := 50, eps1 := 1, eps2 := 100, expDur := 1000 } }

theorem demo_exportable : Exportable 100 demo := by
  refine ⟨by decide, ?_⟩
  intro k hk
  by_cases h5 : k = 105
  · subst h5; rfl
  · have h1 : (105 == k) = false := by simp; omega
    have h2 : (95 == k) = false := by simp; omega
    simp [closingAt, idsAt, ids, demo, h1, h2]

example : (initGenesis 101 (exportGenesis 100 demo)).wds.map (·.due) = [131] := by decide
example : (initGenesis 101 (exportGenesis 100 demo)).tasks.map (fun t => (t.closing, t.waiting)) = [(106, 5), (96, -5)] := by decide
example : (initGenesis 101 (exportGenesis 100 demo)).closing = [(106, [("c", "f")])] := by decide
example : ∀ eo ∈ [(({ h := 101, t := 5, bond := "uctk", modAddr := "oracle" } : Env), Op.beginBlock),
    ({ h := 105, t := 9, bond := "uctk", modAddr := "oracle" }, Op.endBlock)], (100 : Int) + 1 ≤ eo.1.h := by
  intro eo heo
  simp only [List.mem_cons, List.not_mem_nil, or_false] at heo
  rcases heo with rfl | rfl <;> decide

/-- a block at height 6 that registers an operator and creates a task: the hypotheses of `exportable_after_blocks` hold -/
def env6 : Env := { h := 6, t := 50, bond := "uctk", modAddr := "oracle" }
def ledger6 : Ledger := { posts := [("op1", "uctk", 100), ("x", "uctk", 20)], supply := [("uctk", 120)] }
def block6 : Shentu.C20GOrcInv.Block :=
  [.createOperator "op1" [("uctk", 50)] "op1", .createTask "c" "f" [("uctk", 7)] "x" 3 0, .respond "c" "f" 80 "op1"]

example : Shentu.C20GOrcInv.Good 5 (ledger6, emptyState demo.params) [(env6, block6)] := by
  refine ⟨rfl, ?_, ?_, trivial⟩
  · intro op hop
    simp only [block6, List.mem_cons, List.not_mem_nil, or_false] at hop
    rcases hop with rfl | rfl | rfl <;> exact ⟨(fun h => nomatch h), (fun h => nomatch h)⟩
  have : (match stepE env6 (Shentu.C20GOrcInv.midBlock env6 (ledger6, emptyState demo.params) block6).1
      (Shentu.C20GOrcInv.midBlock env6 (ledger6, emptyState demo.params) block6).2 .endBlock with
      | .ok _ => true | .error _ => false) = true := by decide
  revert this
  cases stepE env6 (Shentu.C20GOrcInv.midBlock env6 (ledger6, emptyState demo.params) block6).1
      (Shentu.C20GOrcInv.midBlock env6 (ledger6, emptyState demo.params) block6).2 .endBlock with
  | ok r => intro _; exact ⟨r, rfl⟩
  | error x => intro h; cases h
example : (Shentu.C20GOrcInv.runBlocks (ledger6, emptyState demo.params) [(env6, block6)]).2.closing = [(9, [("c", "f")])] := by decide

end Oracle

end Shentu.Props.C20G

#print axioms Shentu.Props.C20G.Shield.reimport_partial
#print axioms Shentu.Props.C20G.Shield.reimport_same
#print axioms Shentu.Props.C20G.Shield.reexport_same
#print axioms Shentu.Props.C20G.Shield.continuation_same
#print axioms Shentu.Props.C20G.Shield.continuation_same_outcome
#print axioms Shentu.Props.C20G.Shield.exportable_after_block
#print axioms Shentu.Props.C20G.Shield.continuation_after_block
#print axioms Shentu.Props.C20G.Shield.invariants_reimported
#print axioms Shentu.Props.C20G.Shield.early_block_fees_stay
#print axioms Shentu.Props.C20G.Shield.reimport_same_fails_block_fees
#print axioms Shentu.Props.C20G.Shield.block_fees_lost_fails
#print axioms Shentu.Props.C20G.Shield.reimport_same_fails_unsorted
#print axioms Shentu.Props.C20G.Oracle.reimport_fields
#print axioms Shentu.Props.C20G.Oracle.reimport_shift
#print axioms Shentu.Props.C20G.Oracle.reimport_identity_fails
#print axioms Shentu.Props.C20G.Oracle.reexport_partial
#print axioms Shentu.Props.C20G.Oracle.reexport_same_fails
#print axioms Shentu.Props.C20G.Oracle.updateAndSetTask_ignores_closing
#print axioms Shentu.Props.C20G.Oracle.import_ignores_closing
#print axioms Shentu.Props.C20G.Oracle.continuation_same_step
#print axioms Shentu.Props.C20G.Oracle.continuation_same
#print axioms Shentu.Props.C20G.Oracle.shift_observably_same
#print axioms Shentu.Props.C20G.Oracle.matures_one_block_later
#print axioms Shentu.Props.C20G.Oracle.accounting_reimported
#print axioms Shentu.Props.C20G.Oracle.exportable_after_blocks
#print axioms Shentu.Props.C20G.Oracle.exportable_from_genesis
#print axioms Shentu.Props.C20G.Oracle.continuation_after_blocks
#print axioms Shentu.Props.C20G.Oracle.exportable_empty
#print axioms Shentu.Props.C20G.Oracle.demo_exportable
