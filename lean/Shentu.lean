-- root of the library: everything that `lake build Shentu` must check
import Shentu.Base.Coins
import Shentu.Base.J
import Shentu.Model.Bank
import Shentu.Model.Oracle
import Shentu.Proofs.Tactics
import Shentu.Proofs.BankLemmas
import Shentu.Proofs.OracleLemmas
import Shentu.Props.C14
import Shentu.Props.C15
import Shentu.Base.Dec
import Shentu.Model.Cert
import Shentu.Model.Gov
import Shentu.Proofs.GovLemmas
import Shentu.Props.C11
import Shentu.Props.C12
import Shentu.Props.C13
