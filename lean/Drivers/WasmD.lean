import Shentu.Base.J
/-
  Profile "wasm" (C17): deliveries of a counting loop (harness/sim/gen_ewasm.go), as an eWASM constructor, as a call of an
  eWASM contract, and — the control — as EVM init code.  One line per delivery with the loop count, a lower bound on the
  instructions executed, gasWanted / gasUsed of the transaction, wall-clock time, and `ref`: the 1,000-iteration delivery of
  the same engine, path and gas limit.

  Monitors (on the observation alone; every instruction costs at least one unit of gas — Props/C17
  `step_costs_at_least_one` is the EVM's version):
    wasm_work_is_metered          two successful executions of the same program shape that differ by d iterations differ by
                                  at least d in the gas charged to the transaction;
    wasm_execution_bounded_by_gas an execution that performed more instructions than the gas it was given did not succeed.
  Drivers only; no theorem depends on this file.
-/
namespace Shentu.WasmD
open Lean Shentu

structure Res where
  stats : List String := []
  findings : List (String × String × String × String) := []    -- kind, properties, name, detail

def check (j : Json) : Res := Id.run do
  let vm := J.strOf j "vm"
  let path := J.strOf j "path"
  let loops := J.intOf j "loops"
  let instrs := J.intOf j "instrs"
  let gasWanted := J.intOf j "gasWanted"
  let gasUsed := J.intOf j "gasUsed"
  let code := J.intOf j "code"
  let ns := J.intOf j "ns"
  let what := s!"vm={vm} path={path} loops={loops}"
  let mut r : Res := { stats := [s!"wasm.{vm}.{path}." ++ (if code == 0 then "ok" else "fail")] }
  if J.boolOf j "timeout" then
    r := { r with findings := ("monitor", "C17", "wasm_execution_terminates", s!"{what}: the delivery did not return within the harness watchdog ({ns} ns), gasWanted={gasWanted}") :: r.findings }
    return r
  if path == "call-setup" then
    return { r with stats := "wasm.call_setup_failed" :: r.stats }
  -- an execution that exhausts its gas fails: at least `instrs` instructions ran, each worth at least one unit
  if code == 0 then
    r := { r with stats := "mon.c17.wasm_bounded_by_gas" :: r.stats }
    if instrs > gasWanted then
      r := { r with findings := ("monitor", "C17", "wasm_execution_bounded_by_gas",
        s!"{what}: at least {instrs} instructions were executed under a gas limit of {gasWanted} and the transaction succeeded (gasUsed={gasUsed}, {ns} ns)") :: r.findings }
  -- the work is charged: against the 1,000-iteration run of the same shape
  if J.has j "ref" then
    let ref := J.get j "ref"
    let rl := J.intOf ref "loops"
    let rg := J.intOf ref "gasUsed"
    if code == 0 && J.intOf ref "code" == 0 && loops > rl then
      r := { r with stats := "mon.c17.wasm_work_is_metered" :: r.stats }
      if gasUsed - rg < loops - rl then
        r := { r with findings := ("monitor", "C17", "wasm_work_is_metered",
          s!"{what}: charged gasUsed={gasUsed} ({ns} ns); the same program with loops={rl} was charged gasUsed={rg} ({J.intOf ref "ns"} ns): {loops - rl} more iterations (at least {instrs - (instrs / loops) * rl} more instructions) cost {gasUsed - rg} more gas; gasWanted={gasWanted}") :: r.findings }
      else r := { r with stats := s!"wasm.{vm}.metered" :: r.stats }
  return r

end Shentu.WasmD
