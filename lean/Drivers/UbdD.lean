import Shentu.Base.J
import Shentu.Model.UbdQueue
/-
  Profile "ubdqueue" (C09, C04): the real `DelayUnbonding`, `PayFromUnbondings` and the staking end-blocker's unbonding
  completion against Model/UbdQueue.lean on the same (complete) unbonding state; plus the statements of Props/C09q evaluated on
  the OBSERVED states alone (every entry queued, no stale pair, a delay only postpones and touches only the provider, it covers
  the amount, latest first; a payout takes exactly what it should; the end-blocker pays back exactly the mature entries and
  nothing else).  Drivers only; no theorem depends on this file.
-/
namespace Shentu.UbdD
open Lean Shentu Shentu.UbdQueue

structure Res where
  stats : List String := []
  findings : List (String × String × String × String) := []    -- kind, properties, name, detail

def parseState (j : Json) : State :=
  { ubds := (J.arrOf j "ubds").map (fun u => ⟨J.strOf u "d", J.strOf u "v",
      (J.arrOf u "es").map (fun e => match J.arr e with
        | [t, b] => ⟨J.int t, J.int b⟩
        | _ => ⟨0, 0⟩)⟩),
    queue := (J.arrOf j "queue").map (fun s => (J.intOf s "t", (J.arrOf s "ps").map (fun p => match J.arr p with
        | [d, v] => (J.str d, J.str v)
        | _ => ("?", "?")))) }

/-! observation-level accessors (plain list operations, independent of the model's store functions) -/

def entriesOf (st : State) (d v : String) : List Entry := (st.ubds.filter (fun u => u.del == d && u.val == v)).flatMap (·.entries)
def sliceOf (st : State) (t : Int) : List Pair := (st.queue.filter (·.1 == t)).flatMap (·.2)
def entriesOfDel (st : State) (d : String) : List Entry := (st.ubds.filter (·.del == d)).flatMap (·.entries)
def sumBal (es : List Entry) : Int := (es.map (·.bal)).foldl (· + ·) 0
def short (s : String) : String := (s.take 6).toString

def showState (st : State) : String :=
  let us := st.ubds.map (fun u => s!"{short u.del}/{short u.val}:{u.entries.map (fun e => (e.t, e.bal))}")
  let qs := st.queue.map (fun s => s!"{s.1}:{s.2.map (fun p => short p.1 ++ "/" ++ short p.2)}")
  s!"ubds={us} queue={qs}"

/-- Q1 and Q2 on an observed state, and the keys of the two stores -/
def invViolations (st : State) : List String := Id.run do
  let mut bad : List String := []
  for u in st.ubds do
    for t in (u.entries.map (·.t)).eraseDups do
      let ne := (u.entries.filter (·.t == t)).length
      let np := (sliceOf st t).count (u.del, u.val)
      if np < ne then bad := s!"Q1: {short u.del}/{short u.val} has {ne} entries completing at {t}, the slice names the pair {np} times" :: bad
  for s in st.queue do
    for p in s.2.eraseDups do
      let np := s.2.count p
      let ne := ((entriesOf st p.1 p.2).filter (·.t == s.1)).length
      if np > ne then bad := s!"Q2: slice {s.1} names {short p.1}/{short p.2} {np} times, the pair has {ne} entries completing then" :: bad
  let ts := st.queue.map (·.1)
  if !(ts.zip (ts.drop 1)).all (fun p => p.1 < p.2) then bad := "queue slices not in strictly increasing time order" :: bad
  let ks := st.ubds.map (fun u => (u.del, u.val))
  if ks.eraseDups.length != ks.length then bad := "two unbonding delegation records for one pair" :: bad
  return bad

/-- the other delegators' view of a state: their records, and their pairs in every slice -/
def othersView (st : State) (d : String) : List Ubd × List Slice :=
  (st.ubds.filter (·.del != d), (st.queue.map (fun s => (s.1, s.2.filter (·.1 != d)))).filter (fun s => !s.2.isEmpty))

def subMultiset (a b : List Int) : Bool := a.eraseDups.all (fun x => a.count x ≤ b.count x)

/-- per validator and balance: the new times are the old ones with some times ≤ D replaced by D -/
def onlyPostponed (pre post : List Entry) (D : Int) : Bool :=
  let bals := ((pre ++ post).map (·.bal)).eraseDups
  bals.all (fun b =>
    let A := (pre.filter (·.bal == b)).map (·.t)
    let B := (post.filter (·.bal == b)).map (·.t)
    A.length == B.length
    && subMultiset (A.filter (· > D)) (B.filter (· > D)) && subMultiset (B.filter (· > D)) (A.filter (· > D))
    && subMultiset (B.filter (· < D)) (A.filter (· < D))
    && (A.filter (· == D)).length ≤ (B.filter (· == D)).length)

def sorted (es : List Entry) : Bool := ((es.map (·.t)).zip ((es.map (·.t)).drop 1)).all (fun p => p.1 ≤ p.2)

def add (r : Res) (s : String) : Res := { r with stats := ("ubdq." ++ s) :: r.stats }
def find (r : Res) (kind props name detail : String) : Res := { r with findings := (kind, props, name, detail) :: r.findings }

def check (j : Json) : Res := Id.run do
  let provider := J.strOf j "provider"
  let bystander := J.strOf j "bystander"
  let D := J.intOf j "delayed"
  let amount := J.intOf j "amount"
  let outcome := J.strOf j "outcome"
  let pre := parseState (J.get j "pre")
  let post := parseState (J.get j "post")
  let ctxt := s!"trial {J.intOf j "trial"}: provider {short provider} amount {amount} ({J.strOf j "how"}) delayed to {D}, outcome {outcome}; before: {showState pre}"
  let mut r : Res := {}
  r := add r "calls"
  r := add r ("how." ++ J.strOf j "how")
  -- ---------------- the situation
  let provUbds := pre.ubds.filter (·.del == provider)
  let cands := (entriesOfDel pre provider).filter (·.t ≤ D)
  let candSum := sumBal cands
  let double := provUbds.any (fun u => (u.entries.filter (·.t == D)).length ≥ 2)
  let preBad := invViolations pre
  if cands.isEmpty then r := add r "no_candidates"
  if provUbds.any (fun u => !sorted u.entries) then r := add r "unsorted_entries"
  if provUbds.any (fun u => (u.entries.filter (·.t ≤ D)).any (fun e => (u.entries.filter (·.t == e.t)).length ≥ 2)) then r := add r "same_pair_same_time"
  if cands.any (·.t == D) then r := add r "entry_at_delayed_time"
  if double then r := add r "two_entries_of_a_pair_at_delayed_time"
  let candSlices := pre.queue.filter (fun s => s.1 ≤ D && s.2.any (·.1 == provider))
  if candSlices.any (fun s => s.2.any (·.1 != provider)) then r := add r "shared_slice"
  if candSlices.any (fun s => s.2.length == 1) then r := add r "slice_of_one"
  if candSlices.any (fun s => s.2.length == 1 && s.1 != D && (sliceOf post s.1).isEmpty) then r := add r "slice_of_one_removed"
  if candSlices.any (fun s => (s.2.filter (·.1 == provider)).eraseDups.length ≥ 2) then r := add r "slice_with_two_validators"
  if !preBad.isEmpty then
    r := add r "pre_state_breaks_invariant"
    r := find r "monitor" "C09" "unbonding_entries_queued" s!"before the call: {preBad}. {ctxt}"
  -- ---------------- the properties on the observation alone
  if outcome == "ok" then
    r := add r "ok"
    let moved := sumBal ((entriesOfDel post provider).filter (·.t == D)) - sumBal ((entriesOfDel pre provider).filter (·.t == D))
    if moved > 0 then
      r := add r "moved_some"
      if !(sliceOf pre D).isEmpty then r := add r "lands_on_existing_slice"
      if (sliceOf pre D).any (·.1 != provider) then r := add r "lands_on_slice_of_another_delegator"
    if moved == 0 && amount > 0 then r := add r "ok_without_moving"
    if provUbds.any (fun u => (entriesOf post u.del u.val).map (·.bal) != u.entries.map (·.bal)) then r := add r "entries_reordered"
    let bad := invViolations post
    if !bad.isEmpty then r := find r "monitor" "C09" "unbonding_entries_queued" s!"after the delay: {bad}. {ctxt}"
    if othersView pre provider != othersView post provider then
      r := find r "monitor" "C09" "delay_touches_only_the_provider" s!"after: {showState post}. {ctxt}"
    for u in provUbds do
      if !onlyPostponed u.entries (entriesOf post u.del u.val) D then
        r := find r "monitor" "C09" "delay_only_postpones" s!"validator {short u.val}: {u.entries.map (fun e => (e.t, e.bal))} -> {(entriesOf post u.del u.val).map (fun e => (e.t, e.bal))}. {ctxt}"
    if (post.ubds.filter (·.del == provider)).length != provUbds.length then
      r := find r "monitor" "C09" "delay_only_postpones" s!"the provider's records changed. {ctxt}"
    -- the amount is covered by what now completes exactly at the delayed time
    let atD := sumBal ((entriesOfDel post provider).filter (·.t == D))
    if amount > 0 && atD < amount then
      let why := if double then " (two entries of one pair at the delayed time: the first one's balance is counted twice)" else ""
      r := find r "monitor" "C09" "delay_covers_amount" s!"entries completing at the delayed time hold {atD} < {amount}{why}; after: {showState post}. {ctxt}"
    if amount > candSum && amount > 0 then
      let why := if double then " (two entries of one pair at the delayed time: the first one's balance is counted twice)" else ""
      r := find r "monitor" "C09" "delay_covers_amount" s!"returned although the candidates hold only {candSum}{why}. {ctxt}"
    -- latest first: if something still completes at T < D, nothing was moved from before T
    let left := ((entriesOfDel post provider).filter (·.t < D)).map (·.t)
    match left.foldl (fun m t => match m with | none => some t | some x => some (max x t)) none with
    | none => r := add r "moved_all"
    | some tmax =>
      for u in provUbds do
        let a := u.entries.filter (·.t < tmax)
        let b := (entriesOf post u.del u.val).filter (·.t < tmax)
        if a.length != b.length then
          r := find r "monitor" "C09" "delay_latest_first" s!"an entry completing at {tmax} stays while validator {short u.val}'s earlier entries were moved. {ctxt}"
  else if outcome == "panic: failed to delay enough unbondings" then
    r := add r "panic_not_enough"
    if amount ≤ candSum then
      let why := if double then " (two entries of one pair at the delayed time: the first one's balance is counted twice, the other's not at all)" else ""
      r := find r "monitor" "C09" "delay_refuses_only_uncovered" s!"the candidates hold {candSum}{why}. {ctxt}"
  else
    r := add r "panic_other"
    if preBad.isEmpty then r := find r "monitor" "C09" "delay_panics" ctxt
  -- ---------------- the model on the same input
  match delayUnbonding pre provider amount D with
  | .error e =>
    if outcome == "ok" then r := find r "diverge" "C09" "ubdq:delay" s!"model panics ({e}), the implementation returned. {ctxt}"
    else if outcome != "panic: " ++ e then r := find r "diverge" "C09" "ubdq:delay" s!"model panics with ({e}). {ctxt}"
    else r := add r "agree.delay"
  | .ok s' =>
    if outcome != "ok" then r := find r "diverge" "C09" "ubdq:delay" s!"model returns {showState s'}. {ctxt}"
    else if s' != post then r := find r "diverge" "C09" "ubdq:delay" s!"model {showState s'} implementation {showState post}. {ctxt}"
    else r := add r "agree.delay"
  -- ---------------- a payout from one entry
  let mut cur := post
  let pay := J.get j "pay"
  if !pay.isNull then
    let v := J.strOf pay "v"
    let e0 : Entry := ⟨J.intOf pay "t", J.intOf pay "bal"⟩
    let x := J.intOf pay "payout"
    let pout := J.strOf pay "outcome"
    let ppost := parseState (J.get pay "post")
    let pctxt := s!"trial {J.intOf j "trial"}: payout {x} from {short provider}/{short v} entry {(e0.t, e0.bal)}, outcome {pout}; before: {showState cur}"
    r := add r "pay.calls"
    let sl := sliceOf cur e0.t
    if sl.length == 1 then r := add r "pay.slice_of_one"
    if sl.any (·.1 != provider) then r := add r "pay.shared_slice"
    if ((entriesOf cur provider v).filter (fun e => e == e0)).length ≥ 2 then r := add r "pay.twin_entries"
    if pout == "ok" then
      if x == e0.bal then r := add r "pay.entry_removed" else r := add r "pay.entry_shrinks"
      let bad := invViolations ppost
      if !bad.isEmpty && (invViolations cur).isEmpty then r := find r "monitor" "C09,C04" "unbonding_entries_queued" s!"after the payout: {bad}; after: {showState ppost}. {pctxt}"
      if othersView cur provider != othersView ppost provider then
        r := find r "monitor" "C09,C04" "payout_touches_only_the_provider" s!"after: {showState ppost}. {pctxt}"
      if sumBal (entriesOfDel ppost provider) != sumBal (entriesOfDel cur provider) - x then
        r := find r "monitor" "C04" "payout_taken_from_entries" s!"the provider's entries held {sumBal (entriesOfDel cur provider)}, now {sumBal (entriesOfDel ppost provider)}. {pctxt}"
      if (entriesOfDel ppost provider).length != (entriesOfDel cur provider).length - (if x == e0.bal then 1 else 0) then
        r := find r "monitor" "C04" "payout_removes_used_up_entries" s!"after: {showState ppost}. {pctxt}"
      if (entriesOfDel ppost provider).any (·.bal ≤ 0) && (entriesOfDel cur provider).all (·.bal > 0) then
        r := find r "monitor" "C04" "payout_removes_used_up_entries" s!"an empty entry stays. after: {showState ppost}. {pctxt}"
    else r := add r "pay.panic"
    match payFromUnbondings cur provider v e0 x with
    | .error e =>
      if pout == "ok" then r := find r "diverge" "C09,C04" "ubdq:pay" s!"model panics ({e}). {pctxt}" else r := add r "agree.pay"
    | .ok s' =>
      if pout != "ok" then r := find r "diverge" "C09,C04" "ubdq:pay" s!"model returns. {pctxt}"
      else if s' != ppost then r := find r "diverge" "C09,C04" "ubdq:pay" s!"model {showState s'} implementation {showState ppost}. {pctxt}"
      else r := add r "agree.pay"
    cur := ppost
  -- ---------------- the end-blocker
  for b in J.arrOf j "blocks" do
    let now := J.intOf b "now"
    let bpost := parseState (J.get b "post")
    let bout := J.strOf b "outcome"
    let bctxt := s!"trial {J.intOf j "trial"}: end-block at {now} (delayed time {D}), outcome {bout}; before: {showState cur}"
    r := add r "blocks"
    if bout != "ok" then
      r := find r "monitor" "C09" "end_block_completes" s!"the end-blocker panicked. {bctxt}"
    else
      let curOk := (invViolations cur).isEmpty
      let mature := cur.ubds.flatMap (fun u => u.entries.filter (·.t ≤ now))
      if mature.isEmpty then r := add r "block.nothing_mature" else r := add r "block.completes"
      if ((entriesOfDel cur provider).filter (fun e => e.t == D && e.t ≤ now)).length > 0 then r := add r "block.completes_at_delayed_time"
      let dq := (cur.queue.filter (·.1 ≤ now)).flatMap (·.2)
      if dq.eraseDups.length != dq.length then r := add r "block.pair_dequeued_twice"
      -- on time: nothing mature is left (needs Q1 before); never early: the immature entries are all there, in order
      if curOk && bpost.ubds.any (fun u => u.entries.any (·.t ≤ now)) then
        r := find r "monitor" "C09" "mature_entries_complete" s!"after: {showState bpost}. {bctxt}"
      for u in cur.ubds do
        if entriesOf bpost u.del u.val != u.entries.filter (fun e => !(e.t ≤ now) || !curOk && (entriesOf bpost u.del u.val).contains e) then
          r := find r "monitor" "C09" "immature_entries_stay" s!"{short u.del}/{short u.val}: {(entriesOf bpost u.del u.val).map (fun e => (e.t, e.bal))}. {bctxt}"
      if bpost.queue != cur.queue.filter (fun s => !(s.1 ≤ now)) then
        r := find r "monitor" "C09" "queue_dequeued_up_to_now" s!"after: {showState bpost}. {bctxt}"
      -- exactly once: the two delegators are paid back exactly what their completed entries held
      for (who, key) in [(provider, "paid_provider"), (bystander, "paid_bystander")] do
        let gone := sumBal (entriesOfDel cur who) - sumBal (entriesOfDel bpost who)
        if J.intOf b key != gone then
          r := find r "monitor" "C09" "completed_entries_paid_back_once" s!"{short who} received {J.intOf b key}, its entries shrank by {gone}. {bctxt}"
      let bad := invViolations bpost
      if curOk && !bad.isEmpty then r := find r "monitor" "C09" "unbonding_entries_queued" s!"after the end-block: {bad}. {bctxt}"
      let (s', log) := endBlock cur now
      if s' != bpost then r := find r "diverge" "C09" "ubdq:endblock" s!"model {showState s'} implementation {showState bpost}. {bctxt}"
      else if sumBal ((log.filter (·.1 == provider)).map (·.2.2)) != J.intOf b "paid_provider" then
        r := find r "diverge" "C09" "ubdq:endblock" s!"model pays the provider {sumBal ((log.filter (·.1 == provider)).map (·.2.2))}, it received {J.intOf b "paid_provider"}. {bctxt}"
      else r := add r "agree.endblock"
    cur := bpost
  return r

end Shentu.UbdD
