import Drivers.ShieldD
/-
  Profile "reimburse" (C04, C02, C03, C08): the real `CreateReimbursement` against `Shield.createReimbursement` on the same
  observed pre-state (books at a chosen utilisation of the collateral: exactly full, one unit below, above, anywhere), plus
  the property's own statements on the observation alone:
    approved_claim_is_paid_in_full             the books cover the loss and every provider's collateral is backed by its
                                               stake ⇒ the call succeeds and the module account gains exactly the loss
    no_provider_gives_more_than_its_collateral
    collateral_drops_by_exactly_the_loss       providers in total, the total, the claimed total
    reimbursement_recorded_exactly
    purchase_beyond_free_collateral_refused    (the generator's attempt to sell one unit more than there is collateral for)
  Drivers only; no theorem depends on this file.
-/
namespace Drivers.ReimbD
open Lean Shentu Shentu.Shield

structure Res where
  stats : List String := []
  findings : List (String × String × String × String) := []    -- kind, properties, name, detail

def outcomeClass (o : String) : String :=
  if o == "ok" then "ok" else if o.startsWith "panic" then "panic" else "error"

/-- the Go panic texts of the payout path and the model's panic sites -/
def goSite (o : String) : String :=
  let has (x : String) := (o.splitOn x).length > 1
  if has "not enough payout made" then "panic:shield:not-enough-payout"
  else if has "exact payout was not made from withdrawals" then "panic:shield:payout-from-withdrawals"
  else if has "failed to withdraw collateral" then "panic:shield:forced-withdraw"
  else if has "exact pay out was not made from unbondings" then "staking:unbondings-short"
  else o

def sumL (l : List Int) : Int := l.foldl (· + ·) 0

def check (j : Json) : Res := Id.run do
  if J.has j "skipped" then return { stats := ["reimb.skipped"] }
  let preJ := J.get j "pre"
  let postJ := J.get j "post"
  let pre := ShieldD.parseState preJ
  let post := ShieldD.parseState postJ
  let how := J.get j "how"
  let loss := J.intOf j "loss"
  let pid := (J.intOf j "pid").toNat
  let ben := J.strOf j "beneficiary"
  let outcome := J.strOf j "outcome"
  let cls := outcomeClass outcome
  let modDelta := J.intOf j "mod_delta"
  let t := J.intOf j "t"
  let T := pre.totalCollateral
  let S := pre.totalShield
  let C := pre.totalClaimed
  let W := pre.totalWithdrawing
  let used := S + C + W
  let util := if used == T then "full" else if used + 1 == T then "one_below" else if used > T then "above" else "below"
  let nProv := (pre.providers.filter (·.collateral > 0)).length
  -- a provider's exact shares of the shield and of the loss are whole numbers?
  let fractional := T > 0 && pre.providers.any (fun p => (p.collateral * S) % T != 0 || (p.collateral * loss) % T != 0)
  -- each provider's share of the collateral that neither the remaining shield nor this loss uses, in whole units (the smallest)
  let unusedShares := (pre.providers.filter (·.collateral > 0)).map (fun p => if T > 0 then (p.collateral * (T - S - loss)) / T else 0)
  let minUnused := unusedShares.foldl min (unusedShares.headD 0)
  let stakeOf (a : Addr) : Int × Int :=
    match (J.arrOf j "stake").find? (fun e => J.strOf e "addr" == a) with
    | some e => (J.intOf e "bonded", J.intOf e "unbonding")
    | none => (0, 0)
  let backed := pre.providers.all (fun p => let (b, u) := stakeOf p.addr; p.collateral ≤ b + u)
  let queueOk := pre.providers.all (fun p => p.withdrawing == sumI (·.amount) (pre.withdraws.filter (·.addr == p.addr)) && 0 ≤ p.withdrawing && p.withdrawing ≤ p.collateral)
  let booksOk := T == sumI (·.collateral) pre.providers && W == sumI (·.withdrawing) pre.providers && queueOk
  let ctxt := s!"utilisation={util} min_unused_share={minUnused} providers={nProv} fractional={fractional} loss={loss} total_shield={S} total_collateral={T} withdrawing={W} claimed={C} collaterals={pre.providers.map (·.collateral)} withdrawings={pre.providers.map (·.withdrawing)} how={how.compress} outcome={outcome}"
  let mut r : Res := { stats := ["reimb.calls", "reimb.base." ++ J.strOf how "base", "reimb.target." ++ J.strOf how "target", "reimb.utilisation." ++ util,
                                 s!"reimb.providers.{min nProv 6}", "reimb.outcome." ++ cls, "reimb.claim_on." ++ J.strOf how "claim_on"] }
  if fractional then r := { r with stats := "reimb.fractional_shares" :: r.stats }
  if util == "full" && fractional then r := { r with stats := "reimb.full_utilisation_fractional" :: r.stats }
  if minUnused ≤ 1 then r := { r with stats := "reimb.some_provider_below_two_spare_units" :: r.stats }
  if J.has how "new_providers" then r := { r with stats := ("reimb.new_providers." ++ J.strOf how "new_providers") :: r.stats }
  if J.has how "early_withdraw" || J.has how "late_withdraw" then r := { r with stats := "reimb.withdrawal_queued_by_generator" :: r.stats }
  if W > 0 then r := { r with stats := "reimb.withdrawing_positive" :: r.stats }
  if ShieldD.outsideModel preJ then return { r with stats := "reimb.outside_model" :: r.stats }
  -- ---------------- the generator's over-purchase
  if J.has how "over_purchase" then
    r := { r with stats := ("reimb.over_purchase." ++ J.strOf how "over_purchase") :: r.stats }
    if J.strOf how "over_purchase" == "accepted" then
      r := { r with findings := ("monitor", "C04,C03", "purchase_beyond_free_collateral_refused", s!"a purchase of one unit more than the free collateral was accepted. {ctxt}") :: r.findings }
  -- ---------------- the properties on the observation alone
  let inDomain := loss > 0 && loss ≤ C && used ≤ T && backed && booksOk
  if inDomain then
    r := { r with stats := "reimb.in_domain" :: r.stats }
    if cls != "ok" then
      -- the failure "the split falls short" (recorded: C04-split_short_at_full_utilisation) is named apart, so that within one history it
      -- cannot hide a failure of another kind behind the once-per-history reporting of a monitor
      let name := if goSite outcome == "panic:shield:not-enough-payout" then "approved_claim_is_paid_in_full.split_short" else "approved_claim_is_paid_in_full"
      r := { r with findings := ("monitor", "C04", name, s!"the books cover the loss and every provider's collateral is backed by stake, yet the payout failed. {ctxt}") :: r.findings }
    else if modDelta != loss then
      r := { r with findings := ("monitor", "C04,C02", "approved_claim_is_paid_in_full", s!"the module account gained {modDelta}. {ctxt}") :: r.findings }
  else r := { r with stats := "reimb.outside_domain" :: r.stats }
  if cls == "ok" then
    if modDelta != loss then
      r := { r with findings := ("monitor", "C04,C02", "payout_arrives_in_module", s!"the module account gained {modDelta}. {ctxt}") :: r.findings }
    -- nobody gives more than it has; nobody gains
    let mut touched := false
    let mut given : Int := 0
    for p in pre.providers do
      match findProvider post p.addr with
      | none => r := { r with findings := ("monitor", "C04,C03", "no_provider_gives_more_than_its_collateral", s!"provider {p.addr} disappeared. {ctxt}") :: r.findings }
      | some q =>
        given := given + (p.collateral - q.collateral)
        if q.collateral < 0 || q.collateral > p.collateral || q.withdrawing < 0 || q.withdrawing > q.collateral then
          r := { r with findings := ("monitor", "C04,C03", "no_provider_gives_more_than_its_collateral", s!"provider {p.addr}: collateral {p.collateral}->{q.collateral}, withdrawing {p.withdrawing}->{q.withdrawing}. {ctxt}") :: r.findings }
        if q.withdrawing < p.withdrawing then touched := true
    if touched then r := { r with stats := "reimb.withdraw_queue_touched" :: r.stats }
    if given != loss || post.totalCollateral != T - loss || post.totalCollateral != sumI (·.collateral) post.providers || post.totalClaimed != C - loss then
      r := { r with findings := ("monitor", "C04,C03", "collateral_drops_by_exactly_the_loss", s!"providers gave {given}; total collateral {T}->{post.totalCollateral} (sum of providers {sumI (·.collateral) post.providers}); claimed {C}->{post.totalClaimed}. {ctxt}") :: r.findings }
    -- the withdrawal books stay consistent (C03)
    let wOk := post.totalWithdrawing == sumI (·.withdrawing) post.providers &&
      post.providers.all (fun p => p.withdrawing == sumI (·.amount) (post.withdraws.filter (·.addr == p.addr))) && post.withdraws.all (·.amount > 0)
    if booksOk && !wOk then
      r := { r with findings := ("monitor", "C03,C04", "withdraw_books_consistent_after_payout", s!"total withdrawing {post.totalWithdrawing}, providers {post.providers.map (·.withdrawing)}, queue {post.withdraws.map (·.amount)}. {ctxt}") :: r.findings }
    -- the record
    let want : Reimb := { pid := pid, amount := loss, beneficiary := ben, payoutTime := t + pre.params.payoutPeriod }
    if !((post.reimbs.filter (·.pid == pid)) == [want]) then
      r := { r with findings := ("monitor", "C04", "reimbursement_recorded_exactly", s!"wanted {loss} for {ben} payable at {want.payoutTime}; recorded {(post.reimbs.filter (·.pid == pid)).map (fun x => (x.amount, x.beneficiary, x.payoutTime))}. {ctxt}") :: r.findings }
    -- what is owed to purchasers is untouched
    if post.totalShield != S then
      r := { r with findings := ("monitor", "C03", "payout_leaves_shield_alone", s!"total shield {S}->{post.totalShield}. {ctxt}") :: r.findings }
  -- ---------------- the model on the same pre-state
  let modA := J.strOf j "mod"
  let poolA := J.strOf j "bonded_pool"
  let e : Env := { t := t, bond := "uctk", modAddr := modA, bondedPool := poolA, bondedAfter := fun a => (findProvider post a).map (·.bonded) }
  let modPre := J.intOf j "mod_pre"
  let l : Ledger := { posts := [(modA, "uctk", modPre), (poolA, "uctk", T + 1)], supply := [("uctk", modPre + T + 1)] }
  match createReimbursement e l pre pid loss ben with
  | .error x =>
    r := { r with stats := ("reimb.model." ++ (if x.isPanic then "panic" else "error")) :: r.stats }
    if cls == "ok" then
      r := { r with findings := ("diverge", "C04,C08", "reimb:outcome", s!"model fails ({x.kind}), the implementation paid. {ctxt}") :: r.findings }
    else if goSite outcome == "staking:unbondings-short" && !backed then
      r := { r with stats := "reimb.stake_short_unmodelled" :: r.stats }
    else if goSite outcome != x.kind then
      r := { r with findings := ("diverge", "C04,C08", "reimb:failure_site", s!"model fails at {x.kind}, the implementation elsewhere. {ctxt}") :: r.findings }
    else r := { r with stats := "reimb.agree" :: r.stats }
  | .ok (l', s') =>
    r := { r with stats := "reimb.model.ok" :: r.stats }
    if cls != "ok" then
      if goSite outcome == "staking:unbondings-short" && !backed then
        r := { r with stats := "reimb.stake_short_unmodelled" :: r.stats }
      else
        r := { r with findings := ("diverge", "C04,C08", "reimb:outcome", s!"model pays, the implementation failed. {ctxt}") :: r.findings }
    else
      let diffs := ShieldD.diffFacts' (ShieldD.facts s') (ShieldD.facts post)
      if !diffs.isEmpty then
        let props := (diffs.map ShieldD.propsOfFact).foldl (fun acc p => if (acc.splitOn p).length > 1 then acc else acc ++ "," ++ p) "C04"
        r := { r with findings := ("diverge", props, "reimb:state", s!"{Drivers.sq (String.intercalate ";" (diffs.take 6))} {ctxt}") :: r.findings }
      else if l'.balOf modA "uctk" != modPre + modDelta then
        r := { r with findings := ("diverge", "C04,C02", "reimb:module_balance", s!"model {l'.balOf modA "uctk"}, implementation {modPre + modDelta}. {ctxt}") :: r.findings }
      else r := { r with stats := "reimb.agree" :: r.stats }
  return r

end Drivers.ReimbD
