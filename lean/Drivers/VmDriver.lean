import Shentu.Base.J
import Shentu.EVM.Impl
import Drivers.MemD
/-
  VM driver (engine "vm", properties C16/C17/C18): reads the trace of harness/cmd/vmrun (one JSON
  object per executed program), runs the Lean model of the interpreter on the same program and
  compares outcome, return data, storage, logs, every account (created ones with their code) and remaining gas.
  The address CREATE derives (SHA-256 based) is an input: the trace carries the table (creator, sequence number) ->
  address the interpreter used; the driver checks that the table is a function and injective.  Monitors are evaluated on the
  implementation's result alone.  `khash` lines validate the Lean Keccak-256 against Go's.
  Flags: --strict-logs  report logs that reached the event sink before the call failed as findings.
-/
open Lean Shentu Shentu.EVM

def hexVal (c : Char) : Nat :=
  if '0' ≤ c && c ≤ '9' then c.toNat - '0'.toNat
  else if 'a' ≤ c && c ≤ 'f' then c.toNat - 'a'.toNat + 10
  else if 'A' ≤ c && c ≤ 'F' then c.toNat - 'A'.toNat + 10 else 0

def unhex (s : String) : ByteArray := Id.run do
  let u := s.toUTF8
  let mut out := ByteArray.emptyWithCapacity (u.size / 2)
  for i in [0:u.size / 2] do
    out := out.push (hexVal (Char.ofNat (u.get! (2 * i)).toNat) * 16 + hexVal (Char.ofNat (u.get! (2 * i + 1)).toNat)).toUInt8
  return out

def hexNat (s : String) : Nat := s.foldl (fun a c => a * 16 + hexVal c) 0

def hexOf (b : ByteArray) : String := Id.run do
  let mut out := ""
  for x in b.data do
    out := out.push (Nat.digitChar (x.toNat / 16)) |>.push (Nat.digitChar (x.toNat % 16))
  return out

def natHex (n : Nat) : String := String.ofList (Nat.toDigits 16 n)

def outcomeStr (r : CallRes) : String :=
  match r.status with
  | 1 => "panic"
  | 2 => "unsupported"
  | 3 => "model-out-of-fuel"
  | _ =>
    match r.err with
    | none => "ok"
    | some .executionReverted => "revert"
    | some .insufficientGas => "outofgas"
    | some e => "exception:" ++ e.name

def parseStorage (j : Json) : List (Nat × Nat) :=
  (J.arr j).filterMap (fun e => match J.arr e with
    | [k, v] => some (hexNat (J.str k), hexNat (J.str v))
    | _ => none)

def parseWorld (j : Json) : World :=
  (J.arr j).map (fun a => { addr := hexNat (J.strOf a "addr"), code := unhex (J.strOf a "code"),
                            balance := (J.intOf a "balance").toNat, storage := parseStorage (J.get a "storage"),
                            allowed := (J.arrOf a "allowed").map (fun h => hexNat (J.str h)),
                            forebear := if J.has a "forebear" then some (hexNat (J.strOf a "forebear")) else none })

def storageStr (st : List (Nat × Nat)) : String :=
  "[" ++ ",".intercalate (st.map (fun (k, v) => natHex k ++ "=" ++ natHex v)) ++ "]"

/-- canonical rendering of every account: address, balance, code, non-zero storage; sorted by address -/
def worldStr (w : World) : String :=
  let accs := w.mergeSort (fun a b => a.addr ≤ b.addr)
  " ".intercalate (accs.map (fun a => s!"{natHex a.addr}:bal={a.balance}:code={hexOf a.code}:{storageStr (normStorage a.storage)}"))

def logStr (addr : Nat) (topics : List Nat) (data : String) : String :=
  natHex addr ++ ":" ++ ",".intercalate (topics.map natHex) ++ ":" ++ data

def opName (op : Nat) : String :=
  let n := (opInfo op).name
  if n == "?" then
    (if op == 0x46 then "CHAINID" else if op == 0xfe then "INVALID" else "UNKNOWN_" ++ natHex op)
  else n

structure DS where
  line : Nat := 0
  stats : List (String × Nat) := []
  nFind : Nat := 0
  shown : List (String × Nat) := []
  nSample : Nat := 0
  opSeen : Array Nat := Array.replicate 256 0
  strictLogs : Bool := false

def bump (stats : List (String × Nat)) (k : String) (n : Nat := 1) : List (String × Nat) :=
  if stats.any (·.1 == k) then stats.map (fun e => if e.1 == k then (e.1, e.2 + n) else e) else stats ++ [(k, n)]

def stat (ds : DS) (k : String) : DS := { ds with stats := bump ds.stats k }

/-- at most 3 findings of the same (kind, name) are printed; all are counted -/
def finding (ds : DS) (kind prop name hist detail : String) : IO DS := do
  let key := kind ++ "/" ++ name
  let seen := ((ds.shown.find? (·.1 == key)).map (·.2)).getD 0
  let ds := { ds with nFind := ds.nFind + 1, shown := bump ds.shown key, stats := bump ds.stats ("finding." ++ name) }
  if seen < 3 then
    let j := Json.mkObj [("kind", kind), ("prop", prop), ("name", name), ("hist", hist), ("line", toString ds.line),
                         ("detail", detail), ("engine", "vm")]
    IO.println ("FINDING " ++ j.compress)
  return ds

def handleExec (ds : DS) (j : Json) : IO DS := do
  let id := toString (J.intOf j "id")
  let res := J.get j "res"
  let env := J.get j "env"
  let implOutcome := J.strOf res "outcome"
  let gas := (J.intOf j "gas").toNat
  let implGas := J.intOf res "gasLeft"
  let pre := parseStorage (J.get j "pre_storage")
  let implStorage := parseStorage (J.get res "storage")
  let implLogs := (J.arrOf res "logs").map (fun l =>
    logStr (hexNat (J.strOf l "addr")) ((J.arrOf l "topics").map (fun t => hexNat (J.str t))) (J.strOf l "data"))
  let codeHex := J.strOf j "code"
  let mut ds := stat ds "vm.exec"
  ds := stat ds ("impl." ++ (implOutcome.splitOn ":").getLast!)
  -- ---------------- monitors on the implementation's result alone
  if implOutcome == "timeout" || implOutcome == "fatal" then
    ds ← finding ds "monitor" "C17" ("bounded_work:" ++ implOutcome) id
      s!"the interpreter did not finish within the watchdog / killed the process: code={codeHex} gas={gas} {(J.strOf res "detail").take 120}"
  else
    ds := stat ds "mon.c17.gas"
    if implGas > gas then
      ds ← finding ds "monitor" "C17" "gas_never_increases" id s!"gasLeft={implGas} > gas={gas} code={codeHex}"
    if implGas < 0 then
      ds ← finding ds "monitor" "C17" "gas_not_negative" id s!"gasLeft={implGas} code={codeHex}"
    if implOutcome != "ok" then
      ds := stat ds "mon.c18.failed_calls"
      if storageStr implStorage != storageStr (normStorage pre) then
        ds ← finding ds "monitor" "C18" "failed_call_no_effect" id
          s!"outcome={implOutcome} storage={storageStr implStorage} pre={storageStr (normStorage pre)} code={codeHex}"
      if !implLogs.isEmpty then
        ds := stat ds "mon.c18.logs_reached_sink_before_failure"
        if ds.strictLogs then
          ds ← finding ds "monitor" "C18" "failed_call_no_effect:logs" id s!"outcome={implOutcome} logs={implLogs.length} code={codeHex}"
  -- ---------------- the model
  let menv : Env := {
    code := unhex codeHex, opBits := opcodeBits (unhex codeHex), input := unhex (J.strOf j "input"),
    caller := hexNat (J.strOf j "caller"), callee := hexNat (J.strOf j "callee"), origin := hexNat (J.strOf env "origin"),
    value := (J.intOf j "value").toNat, height := (J.intOf env "height").toNat,
    time := ((J.intOf env "time") % (2 ^ 64 : Nat)).toNat, chainId := hexNat (J.strOf env "chainid_num") }
  -- ---------------- the CREATE address oracle: (creator, sequence number) -> address, as the interpreter derived them
  let freshTab : List (Nat × Nat × Nat) := (J.arrOf res "fresh").filterMap (fun e => match J.arr e with
    | [c, q, a] => some (hexNat (J.str c), (J.int q).toNat, hexNat (J.str a))
    | _ => none)
  let menv := { menv with fresh := fun c q => match freshTab.find? (fun e => e.1 == c && e.2.1 == q) with
    | some e => e.2.2
    | none => 2 ^ 160 + q }       -- not an address: a model that asks for a derivation the interpreter did not make shows up as a difference
  if !freshTab.isEmpty then
    ds := stat ds "vm.create_oracle_entries"
    let bad := freshTab.any (fun e => freshTab.any (fun f => (e.1 == f.1 && e.2.1 == f.2.1) != (e.2.2 == f.2.2)))
    if bad then
      ds ← finding ds "monitor" "C16" "create:address_oracle_consistent" id s!"the addresses derived by CREATE are not a one-to-one function of (creator, sequence number): {(J.get res "fresh").compress}"
  let preW : World :=
    if J.has j "pre" then parseWorld (J.get j "pre")
    else [{ addr := menv.caller, balance := (J.intOf env "caller_balance").toNat }, { addr := menv.callee, code := menv.code, storage := pre }]
  -- ---------------- C01 on the implementation's own account dump: whatever the program does — value calls, SELFDESTRUCT,
  -- failed frames — the accounts hold after it what they held before (the VM has no way to mint or burn)
  if J.has j "pre" && J.has res "post" && implOutcome != "timeout" && implOutcome != "fatal" && implOutcome != "panic" then
    let sumBal (w : World) : Nat := w.foldl (fun acc a => acc + a.balance) 0
    let before := sumBal preW
    let after := sumBal (parseWorld (J.get res "post"))
    ds := stat ds "mon.c01.value_conserved"
    if before != after then
      ds ← finding ds "monitor" "C01" "value_conserved" id s!"the accounts held {before} before and {after} after ({implOutcome}) code={codeHex} input={J.strOf j "input"} value={J.intOf j "value"}"
  let r := execTop menv gas preW
  for (k, p, n, d) in Shentu.MemD.check j (fun _ => let sr := execTop { menv with q := Quirks.spec, fuelCap := gas + 1000 } (2 ^ 60) preW; (sr.devs, sr.status)) do ds ← (if k == "stat" then pure (stat ds n) else finding ds k p n id d)   -- C17 memory_is_paid_for (Drivers/MemD.lean)
  let mOutcome := outcomeStr r
  let mStorage := normStorage (((r.world.get menv.callee).map (·.storage)).getD [])
  for op in [0:256] do
    if r.seen &&& (1 <<< op) != 0 then ds := { ds with opSeen := ds.opSeen.modify op (· + 1) }
  if mOutcome == "unsupported" then
    return stat ds "vm.skipped"
  if implOutcome == "timeout" || implOutcome == "fatal" then
    ds := stat ds "vm.impl_died"
    if false then
      ds := stat ds "vm.impl_died.model_sees_alloc_before_charge"
    return ds
  ds := stat ds "vm.compared"
  ds := stat ds ("outcome." ++ (mOutcome.splitOn ":").getLast!)
  if false then ds := stat ds "sit.alloc_above_cap_before_charge"
  let note := J.strOf j "note"
  let tag := if note.isEmpty then J.strOf j "profile" else note
  let mLogs := r.logs.map (fun l => logStr l.addr l.topics (hexOf l.data))
  let mut diffs : List (String × String) := []
  if mOutcome != implOutcome then diffs := diffs ++ [("outcome", s!"model={mOutcome} impl={implOutcome}")]
  if hexOf r.ret != J.strOf res "ret" then diffs := diffs ++ [("ret", s!"model={hexOf r.ret} impl={J.strOf res "ret"}")]
  if !J.has res "post" && storageStr mStorage != storageStr implStorage then
    diffs := diffs ++ [("storage", s!"model={storageStr mStorage} impl={storageStr implStorage}")]
  if J.has res "post" && worldStr r.world != worldStr (parseWorld (J.get res "post")) then
    diffs := diffs ++ [("accounts", s!"model={worldStr r.world} impl={worldStr (parseWorld (J.get res "post"))}")]
  if mLogs != implLogs then diffs := diffs ++ [("logs", s!"model={mLogs} impl={implLogs}")]
  -- ---------------- specification mode (C16): same program, Quirks.spec, effectively unlimited gas
  let cls (o : String) : String := if o == "ok" || o == "revert" || o == "panic" then o else "exception"
  if implOutcome == "outofgas" then
    ds := stat ds "spec.skipped_impl_out_of_gas"
  else
    let sr := execTop { menv with q := Quirks.spec, fuelCap := gas + 1000 } (2 ^ 60) preW
    let sStorage := normStorage (((sr.world.get menv.callee).map (·.storage)).getD [])
    let gasDependent := sr.seen &&& ((1 <<< 0x5a) ||| (1 <<< 0x45)) != 0
    -- a constructor that runs out of gas fails the creation, not the creator: the implementation's outcome is then "ok"
    -- although gas decided; the specification run (unlimited gas) says nothing about such a program
    let innerOog := r.seen &&& (1 <<< 256) != 0
    if gasDependent then ds := stat ds "spec.skipped_reads_gas"
    else if innerOog then ds := stat ds "spec.skipped_constructor_out_of_gas"
    else if outcomeStr sr == "unsupported" then ds := stat ds "spec.skipped_unsupported"
    -- the specification run is cut after gas + 1000 instructions: a program that the implementation stopped for another
    -- reason (e.g. the value transfer failed and the code then ran out of gas) may need more; nothing is concluded from it
    else if outcomeStr sr == "model-out-of-fuel" then ds := stat ds "spec.skipped_out_of_fuel"
    else
      ds := stat ds "spec.compared"
      let sOutcome := outcomeStr sr
      let sLogs := sr.logs.map (fun l => logStr l.addr l.topics (hexOf l.data))
      let implRet := J.strOf res "ret"
      let mut sdiff : Option String := none
      if sOutcome == "panic" || sOutcome == "model-out-of-fuel" then
        sdiff := some s!"specification run undetermined ({sOutcome})"
      else if cls sOutcome != cls implOutcome then sdiff := some s!"outcome class: spec={cls sOutcome} impl={cls implOutcome} ({implOutcome})"
      else if cls sOutcome == "ok" || cls sOutcome == "revert" then
        if hexOf sr.ret != implRet then sdiff := some s!"return data: spec={hexOf sr.ret} impl={implRet}"
        else if cls sOutcome == "ok" && !J.has res "post" && storageStr sStorage != storageStr implStorage then
          sdiff := some s!"storage: spec={storageStr sStorage} impl={storageStr implStorage}"
        else if cls sOutcome == "ok" && J.has res "post" && worldStr sr.world != worldStr (parseWorld (J.get res "post")) then
          sdiff := some s!"accounts: spec={worldStr sr.world} impl={worldStr (parseWorld (J.get res "post"))}"
        else if cls sOutcome == "ok" && sLogs != implLogs then sdiff := some s!"logs: spec={sLogs} impl={implLogs}"
      match sdiff with
      | none => ds := stat ds "spec.agree"
      | some d =>
        -- name the finding after the deviation that explains the implementation's error code, if that deviation
        -- point was reached; otherwise after the first deviation point reached
        let code := (implOutcome.splitOn ":").getLast!
        let has (i : Nat) : Bool := sr.devs &&& (1 <<< i) != 0
        let byCode : Nat :=
          if cls sOutcome == cls implOutcome then 0
          else if code == "InputOutOfBounds" && has 1 then 1
          else if code == "IntegerOverflow" && has 2 then 2
          else if code == "IntegerOverflow" && has 11 then 11
          else if code == "UnknownAddress" && has 8 then 8
          else if code == "NonExistentAccount" && has 10 then 10
          else if code == "InsufficientBalance" && has 11 then 11
          else if code == "IllegalWrite" && has 12 then 12
          else if (code == "InvalidBlockNumber" || code == "BlockNumberOutOfRange") && has 14 then 14
          else if code == "panic" && has 5 then 5
          else if code == "DuplicateAddress" && has 20 then 20
          else if code == "NonExistentAccount" && has 21 then 21
          else if code == "IllegalWrite" && has 18 then 18
          else if code == "ok" && has 4 then 4
          else if has 7 then 7
          else 0
        -- the deviation points of CREATE / CREATE2 are noted only where the two behaviours really part
        let createDev : Nat := ([20, 21, 22, 19, 18, 16, 17].find? has).getD 0
        let devId := if byCode != 0 && byCode != 7 then byCode else if createDev != 0 then createDev else if byCode != 0 then byCode else sr.dev
        ds ← finding ds "monitor" "C16" ("spec:" ++ devName devId) id s!"{d} code={codeHex} input={J.strOf j "input"} gaslimit={gas}"
  let gasDiff := (r.gasLeft : Int) != implGas
  if !diffs.isEmpty then
    let (f, d) := diffs.head!
    -- what a failed frame leaves behind is C18's matter as well (events, storage, accounts), and the accounts' coins C01's
    let props := if f == "logs" || f == "storage" then "C16,C18" else if f == "accounts" then "C16,C18,C01" else "C16"
    ds ← finding ds "diverge" props ("vm:" ++ f) id
      s!"{d} [{tag}] gas: model={r.gasLeft} impl={implGas} outcome: model={mOutcome} impl={implOutcome} code={codeHex} gaslimit={gas}"
  else if gasDiff then
    ds ← finding ds "diverge" "C17" "vm:gasLeft" id
      s!"model={r.gasLeft} impl={implGas} [{tag}] outcome={implOutcome} code={codeHex} gaslimit={gas}"
  else
    ds := stat ds "vm.agree"
    if ds.nSample < 3 && implOutcome == "ok" && codeHex.length > 40 then
      ds := { ds with nSample := ds.nSample + 1 }
      IO.println ("SAMPLE " ++ (Json.mkObj [("id", id), ("code", codeHex), ("outcome", mOutcome), ("gasLeft", toString r.gasLeft),
        ("ret", hexOf r.ret), ("logs", toString mLogs.length), ("storage", storageStr mStorage)]).compress)
  return ds

/-- Profile "create": the facts that hold by construction of the generated factory program (independent of the
    interpreter model) against what the real interpreter did. -/
def handleExpect (ds : DS) (j : Json) : IO DS := do
  let e := J.get j "expect"
  let res := J.get j "res"
  let id := toString (J.intOf j "id")
  let derived := J.strOf e "derived"
  let created := J.boolOf e "created"
  let post := J.arrOf res "post"
  let acct := post.find? (fun a => J.strOf a "addr" == derived)
  let factoryAddr := if J.has e "factory" then J.strOf e "factory" else J.strOf j "callee"
  let factory := post.find? (fun a => J.strOf a "addr" == factoryAddr)
  let ret := J.strOf res "ret"
  let word0 := hexNat ((ret.take 64).toString)
  let word1 := hexNat ((ret.drop 64).toString)
  let note := J.strOf j "note"
  let mut ds := ds
  ds := stat ds ("create." ++ J.strOf e "init" ++ (if J.boolOf e "call_first" then ".afterCall" else "") ++ (if J.boolOf e "nested" then ".nested" else ""))
  if J.strOf res "outcome" != "ok" then
    ds ← finding ds "monitor" "C16" "create:factory_outcome" id s!"{note}: the factory ended with {J.strOf res "outcome"} (a failed creation pushes 0 and execution goes on)"
    return ds
  if created then
    match acct with
    | none => ds ← finding ds "monitor" "C16" "create:deploys_account" id s!"{note}: no account at the derived address {derived} after a successful creation"
    | some a =>
      if J.strOf a "code" != J.strOf e "runtime" then
        ds ← finding ds "monitor" "C16" "create:deploys_code" id s!"{note}: deployed code {J.strOf a "code"}, the init code returns {J.strOf e "runtime"}"
      -- what the constructor saw of the call context (ORIGIN, CALLER), recorded in the new contract's storage
      if J.has e "storage" then
        let want := (J.arrOf e "storage").map (fun kv => match J.arr kv with | [k, v] => (hexNat (J.str k), hexNat (J.str v)) | _ => (0, 0))
        let got := normStorage (parseStorage (J.get a "storage"))
        if normStorage want != got then
          ds ← finding ds "monitor" "C16" "create:constructor_context" id s!"{note}: the new contract's storage is {storageStr got}, the constructor should have recorded {storageStr (normStorage want)} (slot 1 = ORIGIN, slot 2 = CALLER)"
      if J.intOf a "balance" != J.intOf e "value" then
        ds ← finding ds "monitor" "C16,C18" "create:value_transferred" id s!"{note}: new contract holds {J.intOf a "balance"}, endowed with {J.intOf e "value"}"
    if word0 != hexNat derived then
      ds ← finding ds "monitor" "C16" "create:pushes_address" id s!"{note}: CREATE pushed {natHex word0}, the new address is {derived}"
  else
    -- C18: a deployment that reverts or aborts leaves nothing behind, even when the creating call succeeds
    match acct with
    | some a => ds ← finding ds "monitor" "C18,C16" "create:failed_deployment_leaves_account" id s!"{note}: an account exists at {derived} after the creation failed (code '{J.strOf a "code"}', balance {J.intOf a "balance"}, storage {(J.get a "storage").compress})"
    | none => pure ()
    if word0 != 0 then
      ds ← finding ds "monitor" "C16" "create:pushes_address" id s!"{note}: CREATE pushed {natHex word0} although the creation failed"
  match factory with
  | some f =>
    if J.intOf f "balance" != J.intOf e "factory_balance" then
      ds ← finding ds "monitor" "C18,C16" "create:value_transferred" id s!"{note}: the factory holds {J.intOf f "balance"}, expected {J.intOf e "factory_balance"}"
  | none => ds ← finding ds "monitor" "C16" "create:factory_outcome" id s!"{note}: the factory account disappeared"
  -- EIP-211: the return-data buffer after CREATE is empty on success and holds the revert data on failure
  if word1 != (J.intOf e "returndatasize").toNat then
    ds ← finding ds "monitor" "C16" "create:return_data_buffer" id s!"{note}: RETURNDATASIZE after CREATE is {word1}, the specification gives {J.intOf e "returndatasize"}"
  return ds

/-- Profile "create", factories with contract metadata (a list of permitted code hashes): what must hold by construction
    after a child whose code is / is not on the list. -/
def handleExpectMeta (ds : DS) (j : Json) : IO DS := do
  let e := J.get j "expect"
  let res := J.get j "res"
  let id := toString (J.intOf j "id")
  let derived := J.strOf e "derived"
  let post := J.arrOf res "post"
  let acct := post.find? (fun a => J.strOf a "addr" == derived)
  let factory := post.find? (fun a => J.strOf a "addr" == J.strOf e "factory")
  let note := J.strOf j "note"
  let outcome := J.strOf res "outcome"
  let mut ds := stat ds ("createMeta." ++ J.strOf e "kind" ++ (if J.boolOf e "nested" then ".nested" else ""))
  if outcome == "timeout" || outcome == "fatal" || outcome == "panic" then return ds
  let fbal := (factory.map (fun f => J.intOf f "balance")).getD (-1)
  if J.boolOf e "allowed" then
    if outcome != "ok" then
      ds ← finding ds "monitor" "C16" "create:permitted_child_deployed" id s!"{note}: the creation of a contract whose code hash is permitted ended with {outcome}"
    else
      match acct with
      | none => ds ← finding ds "monitor" "C16" "create:permitted_child_deployed" id s!"{note}: no account at {derived} after a permitted creation"
      | some a =>
        if J.strOf a "code" != J.strOf e "runtime" || J.intOf a "balance" != J.intOf e "value" || normStorage (parseStorage (J.get a "storage")) != [(0, 1)] then
          ds ← finding ds "monitor" "C16,C18" "create:permitted_child_deployed" id s!"{note}: the new contract has code {J.strOf a "code"}, balance {J.intOf a "balance"}, storage {(J.get a "storage").compress}; expected code {J.strOf e "runtime"}, balance {J.intOf e "value"}, slot 0 = 1"
      if fbal != J.intOf e "factory_balance" - J.intOf e "value" then
        ds ← finding ds "monitor" "C16,C18" "create:permitted_child_deployed" id s!"{note}: the factory holds {fbal} after endowing {J.intOf e "value"} of {J.intOf e "factory_balance"}"
  else
    -- a refused child: whatever the outcome of the transaction, nothing of it is left
    ds := stat ds "mon.c18.rejected_child"
    match acct with
    | some a => ds ← finding ds "monitor" "C18,C16" "create:rejected_child_leaves_state" id s!"{note}: an account exists at {derived} after InitChildCode refused its code (outcome {outcome}; code '{J.strOf a "code"}', balance {J.intOf a "balance"}, storage {(J.get a "storage").compress})"
    | none => pure ()
    if fbal != J.intOf e "factory_balance" then
      ds ← finding ds "monitor" "C18,C16" "create:rejected_child_leaves_state" id s!"{note}: the factory holds {fbal} instead of its {J.intOf e "factory_balance"} after the refused creation (outcome {outcome})"
    if outcome == "ok" then
      -- the transaction went on: then the creation must have been reported as failed (0 pushed)
      let ret := J.strOf res "ret"
      if hexNat ((ret.take 64).toString) != 0 then
        ds ← finding ds "monitor" "C16" "create:rejected_child_leaves_state" id s!"{note}: CREATE pushed {(ret.take 64).toString} for a refused child"
  return ds

/-- Profile "create", the same factory called by two senders (two transactions, the CVM's nonce option as x/cvm sets it):
    in the EVM the second call succeeds like the first and deploys at another address. -/
def handleExpectSenders (ds : DS) (j : Json) : IO DS := do
  let e := J.get j "expect"
  let res := J.get j "res"
  let id := toString (J.intOf j "id")
  let note := J.strOf j "note"
  let prior := J.strOf (J.get j "prior") "outcome"
  let outcome := J.strOf res "outcome"
  let mut ds := stat ds ("createSenders." ++ (if J.boolOf e "same_nonce" then "sameSequence" else "otherSequence") ++ (if J.boolOf e "nested" then ".nested" else ""))
  if outcome == "timeout" || outcome == "fatal" || outcome == "panic" then return ds
  if prior != "ok" then
    ds ← finding ds "monitor" "C16" "create:factory_outcome" id s!"{note}: the first sender's call of the factory ended with {prior}"
  else if outcome != "ok" then
    ds ← finding ds "monitor" "C16" "create:address_unique_across_senders" id s!"{note}: the first sender's call of the factory deployed a contract, the second sender's identical call ended with {outcome} (the address CREATE derives depends on the sender's sequence number only, not on the sender: {(J.get res "fresh").compress})"
  else if hexNat (((J.strOf res "ret").take 64).toString) == 0 then
    ds ← finding ds "monitor" "C16" "create:address_unique_across_senders" id s!"{note}: the second sender's CREATE pushed 0"
  return ds

def handleKhash (ds : DS) (j : Json) : IO DS := do
  let ds := stat ds "keccak.checked"
  let got := hexOf (Keccak.keccak256 (unhex (J.strOf j "data")))
  if got != J.strOf j "hash" then
    finding ds "diverge" "C16" "vm:keccak256" "0" s!"lean={got} go={J.strOf j "hash"} data={J.strOf j "data"}"
  else pure ds

partial def loop (hIn : IO.FS.Stream) (ds : DS) : IO DS := do
  let line ← hIn.getLine
  if line.isEmpty then return ds
  match Json.parse line with
  | .error e =>
    IO.println s!"PARSE-ERROR line {ds.line}: {e}"
    loop hIn { ds with line := ds.line + 1 }
  | .ok j =>
    let ds := { ds with line := ds.line + 1 }
    let ds ← match J.strOf j "k" with
      | "exec" => do
        let ds ← handleExec ds j
        if J.has j "expect" then (if J.has (J.get j "expect") "meta" then handleExpectMeta ds j
                                 else if J.has (J.get j "expect") "senders" then handleExpectSenders ds j else handleExpect ds j) else pure ds
      | "khash" => handleKhash ds j
      | _ => pure ds
    loop hIn ds

def main (args : List String) : IO Unit := do
  let ds ← loop (← IO.getStdin) { strictLogs := args.contains "--strict-logs" }
  for (k, v) in ds.stats do
    IO.println s!"STAT {k} {v}"
  for op in [0:256] do
    if ds.opSeen[op]! > 0 then IO.println s!"STAT op.{opName op} {ds.opSeen[op]!}"
  IO.println s!"DONE findings={ds.nFind} lines={ds.line}"
