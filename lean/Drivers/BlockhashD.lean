import Shentu.Base.J
/-
  Profile "blockhash" (C16, C20): what BLOCKHASH returns on the real chain. The harness's headers name the hash of the
  previous block; a contract returning BLOCKHASH(NUMBER - k) is called at several heights, and again on a chain started
  from an export. Monitors on the observation alone:
    blockhash_returns_the_block_hash (C16)  BLOCKHASH(n) for one of the 256 most recent complete blocks is that block's hash
    blockhash_survives_export (C20)         the imported chain answers BLOCKHASH(n) for a block before the export as the
                                            original chain does
  Drivers only; no theorem depends on this file.
-/
namespace Shentu.BlockhashD
open Lean Shentu

structure St where
  /-- what the original chain answered after the export, by block number -/
  orig : List (Int × String) := []
  deriving Inhabited

structure Res where
  stats : List String := []
  findings : List (String × String × String × String) := []

def zero64 : String := String.ofList (List.replicate 64 '0')

def check (st : St) (j : Json) : St × Res := Id.run do
  let phase := J.strOf j "phase"
  let h := J.intOf j "h"
  let k := J.intOf j "arg"
  let ret := J.strOf j "ret"
  let want := J.strOf j "hash_of_block"
  let prev := J.strOf j "hash_of_previous_block"
  let n := h - k
  let mut r : Res := { stats := ["blockhash.calls", "blockhash.phase." ++ phase] }
  let mut st := st
  if J.intOf j "code" != 0 then
    return (st, { r with stats := "blockhash.call_failed" :: r.stats })
  let ctxt := s!"phase={phase} height={h} BLOCKHASH({n}) = {ret}; hash of block {n} = {want}; hash of block {n - 1} = {prev}"
  -- C16: on the running chain (the imported chain numbers its blocks one ahead in this harness, so only the original is judged)
  if phase != "imported" && k ≥ 1 && k ≤ 256 && n ≥ J.intOf j "first" && want != "" then
    r := { r with stats := "blockhash.judged" :: r.stats }
    if ret != want then
      let how := if ret == prev then "off_by_one=yes" else "off_by_one=no"
      r := { r with findings := ("monitor", "C16", "blockhash_returns_the_block_hash", s!"{how} {ctxt}") :: r.findings }
  -- C20: same question to both chains
  if phase == "original_after_export" then st := { st with orig := (n, ret) :: st.orig }
  if phase == "imported" then
    match st.orig.find? (·.1 == n) with
    | some (_, o) =>
      r := { r with stats := "blockhash.compared_across_export" :: r.stats }
      if o != ret then
        let how := if ret == zero64 then "imported_answers_zero=yes" else "imported_answers_zero=no"
        r := { r with findings := ("monitor", "C20,C16", "blockhash_survives_export", s!"{how} block {n}: the original chain answers {o}, the chain started from the export answers {ret}") :: r.findings }
    | none => pure ()
  return (st, r)

end Shentu.BlockhashD
