import Drivers.Common
import Shentu.Model.Cvm
/- Bank / vesting / cvm message path: observation parsing, facts, monitors (C01, C18, C19). -/
namespace Drivers.BankVmD
open Lean Shentu

def parseVesting (j : Json) : Vesting.Accounts × List Addr :=
  ((J.arrOf j "mva").map (fun m => { addr := J.strOf m "addr", ov := J.coinsOf m "ov", vested := J.coinsOf m "vested", dv := J.coinsOf m "dv",
                                     df := J.coinsOf m "df", unlocker := J.strOf m "unlocker" }),
   (J.arrOf j "accounts").map J.str)

def parseCvm (j : Json) : Cvm.State :=
  { contracts := ((J.arrOf j "contracts").map (fun c =>
      { addr := J.strOf c "Address", code := J.strOf (J.get c "code") "code",
        storage := (J.arrOf c "storage").map (fun s => (J.strOf s "key", J.strOf s "value")) } : Json → Cvm.Contract)).filter (fun c => c.code != "") }

def insSorted (x : String) : List String → List String
  | [] => [x]
  | y :: ys => if x ≤ y then x :: y :: ys else y :: insSorted x ys
def sortStrs (l : List String) : List String := l.foldr insSorted []

def vestingFacts (vs : Vesting.Accounts) : List String :=
  sortStrs (vs.map (fun m => s!"mva[{m.addr}|ov={Coins.toStr m.ov}|vested={Coins.toStr m.vested}|dv={Coins.toStr m.dv}|df={Coins.toStr m.df}|unlocker={m.unlocker}]"))
/-- strip leading zeros so that "01" and "…0001" compare equal -/
def normVal (v : String) : String :=
  let t := (v.toList.dropWhile (· == '0'))
  if t.isEmpty then "0" else String.ofList t
def cvmFacts (s : Cvm.State) : List String :=
  sortStrs (s.contracts.flatMap (fun c => [s!"contract[{c.addr}|{c.code}]"] ++ c.storage.map (fun e => s!"storage[{c.addr}|{e.1}|{normVal e.2}]")))
def diffFacts (model impl : List String) : List String :=
  (model.filter (fun f => !impl.contains f)).map ("model-only:" ++ ·) ++ (impl.filter (fun f => !model.contains f)).map ("impl-only:" ++ ·)

/-- what each account has in the staking module: delegations valued at the validators' exchange rate plus unbonding entries -/
def stakedOf (j : Json) : List (Addr × Int) :=
  let vals := (J.arrOf j "validators").map (fun v => (J.strOf v "operator_address", J.intOf v "tokens", J.decRaw (J.strOf v "delegator_shares")))
  let dels := (J.arrOf j "delegations").map (fun d =>
    let sh := J.decRaw (J.strOf d "shares")
    match vals.find? (·.1 == J.strOf d "validator_address") with
    | some v => (J.strOf d "delegator_address", if v.2.2 == 0 then 0 else (sh * v.2.1) / v.2.2)
    | none => (J.strOf d "delegator_address", 0))
  let ubds := (J.arrOf j "unbonding_delegations").flatMap (fun u => (J.arrOf u "entries").map (fun e => (J.strOf u "delegator_address", J.intOf e "balance")))
  dels ++ ubds
def stakedAmt (st : List (Addr × Int)) (a : Addr) : Int := (st.filter (·.1 == a)).foldl (fun acc e => acc + e.2) 0

/-- C19: the locked part of a vesting account is still in its balance or in its delegations / unbonding entries -/
def monLockedAccountedFor (bond : Denom) (l : Ledger) (vs : Vesting.Accounts) (st : List (Addr × Int)) : List String :=
  vs.filterMap (fun m =>
    let lockedBond := Coins.amountOf m.ov bond - Coins.amountOf m.vested bond
    let have_ := l.balOf m.addr bond + stakedAmt st m.addr
    if have_ + 1 < lockedBond then some s!"{m.addr}: locked {lockedBond}{bond} but balance {l.balOf m.addr bond} + staked {stakedAmt st m.addr}"
    else
      match (Coins.denoms m.ov).filter (fun d => d != bond && l.balOf m.addr d < Coins.amountOf m.ov d - Coins.amountOf m.vested d) with
      | [] => none
      | d :: _ => some s!"{m.addr}: locked {Coins.amountOf m.ov d - Coins.amountOf m.vested d}{d} but balance {l.balOf m.addr d}")

/-- C19: vested ≤ original in every denomination -/
def monVestedLeOriginal (vs : Vesting.Accounts) : List String :=
  vs.flatMap (fun m => ((Coins.denoms m.vested).filter (fun d => Coins.amountOf m.vested d > Coins.amountOf m.ov d)).map (fun d =>
    s!"{m.addr}: unlocked {Coins.amountOf m.vested d}{d} > locked {Coins.amountOf m.ov d}{d}"))
/-- C19: the unlocker of an existing account never changes; an account stays a vesting account -/
def monUnlockerImmutable (pre post : Vesting.Accounts) : List String :=
  pre.filterMap (fun m => match post.find? (·.addr == m.addr) with
    | none => some s!"{m.addr}: no longer a vesting account"
    | some n => if n.unlocker == m.unlocker then none else some s!"{m.addr}: unlocker {m.unlocker} -> {n.unlocker}")
/-- C19: original vesting only grows, unlocked only grows -/
def monMonotone (pre post : Vesting.Accounts) : List String :=
  pre.filterMap (fun m => match post.find? (·.addr == m.addr) with
    | none => none
    | some n => if Coins.covers n.ov m.ov && Coins.covers n.vested m.vested then none else some s!"{m.addr}: ov {Coins.toStr m.ov}->{Coins.toStr n.ov} vested {Coins.toStr m.vested}->{Coins.toStr n.vested}")

end Drivers.BankVmD
